/-
  Model of icecandidate.go (newICECandidateFromICE, ToICE, setExtensions, exportExtensions, ToJSON) and
  peerconnection.go:AddICECandidate / descriptionContainsUfrag — property C25.

  Text is `List Char` (the code points of a valid UTF-8 Go string).  The Go loops below index bytes;
  every test they make is against an ASCII byte (0x20 never occurs inside a multi-byte sequence, and a
  non-ASCII rune ends every length-limited token with an error), so the byte loops and these
  character loops coincide on valid UTF-8.

  Part 1 is this repository's code (the subject of C25).  Part 2 is pion/ice v4.4.0 *as exercised*:
  candidate values, constructors, AddExtension/Extensions/GetExtension, Marshal, UnmarshalCandidate,
  and net/netip.ParseAddr — an external library, modelled so that the driver can predict the
  implementation's outputs and so that the inverse property the design assumes of it can be stated
  (and, for this model, proved).  Part 3 is AddICECandidate.
-/
namespace WebrtcVerif.Candidate

abbrev Str := List Char

open Lean in
/-- `chars!"abc"` = `['a','b','c']` (expanded at elaboration time, so proofs see plain lists). -/
macro "chars!" s:str : term => do
  let cs := s.getString.toList.toArray.map (fun c => Syntax.mkCharLit c)
  `([$cs,*])

/-- `ice.CandidateExtension` -/
structure Ext where
  key : Str
  value : Str
  deriving DecidableEq, Repr, Inhabited

/-! ## Part 2a — pion/ice value types (needed by the signatures of part 1) -/

inductive CandType | host | srflx | prflx | relay
  deriving DecidableEq, Repr, Inhabited

/-- `ice.NetworkType` -/
inductive NetType | udp4 | udp6 | tcp4 | tcp6
  deriving DecidableEq, Repr, Inhabited

/-- `NetworkType.NetworkShort()` -/
inductive Proto | udp | tcp
  deriving DecidableEq, Repr, Inhabited

inductive TcpType | unspecified | active | passive | so
  deriving DecidableEq, Repr, Inhabited

def CandType.str : CandType → Str
  | .host => chars!"host" | .srflx => chars!"srflx" | .prflx => chars!"prflx" | .relay => chars!"relay"

def NetType.short : NetType → Proto
  | .udp4 | .udp6 => .udp
  | .tcp4 | .tcp6 => .tcp

def NetType.str : NetType → Str
  | .udp4 => chars!"udp4" | .udp6 => chars!"udp6" | .tcp4 => chars!"tcp4" | .tcp6 => chars!"tcp6"

def Proto.str : Proto → Str
  | .udp => chars!"udp" | .tcp => chars!"tcp"

/-- `TCPType.String()` -/
def TcpType.str : TcpType → Str
  | .unspecified => [] | .active => chars!"active" | .passive => chars!"passive" | .so => chars!"so"

/-- ASCII lower-casing (`strings.ToLower` restricted to what can reach the words compared here; the only
    non-ASCII rune Go folds onto one of their letters is U+0130 → `i`, which the generators never emit). -/
def lowerChar (c : Char) : Char := if 'A' ≤ c ∧ c ≤ 'Z' then Char.ofNat (c.toNat + 32) else c
def lower (s : Str) : Str := s.map lowerChar

/-- `ice.NewTCPType` -/
def newTCPType (v : Str) : TcpType :=
  let l := lower v
  if l = chars!"active" then .active
  else if l = chars!"passive" then .passive
  else if l = chars!"so" then .so
  else .unspecified

def tcptypeKey : Str := chars!"tcptype"
def ufragKey : Str := chars!"ufrag"

/-- A candidate as pion/ice holds it (`candidateBase`), restricted to what the accessors used by
    icecandidate.go can see.  `port`/`relPort` are Go `int`s; only non-negative ones are modelled. -/
structure IceCand where
  typ : CandType
  net : NetType
  address : Str
  port : Nat
  component : Nat                    -- uint16
  foundationOverride : Str
  priorityOverride : Nat             -- uint32
  related : Option (Str × Nat)       -- *CandidateRelatedAddress (nil for host)
  tcp : TcpType
  relayPref : Nat := 3               -- relayLocalPreference (relayProtocolPreference of the relay protocol)
  exts : List Ext                    -- c.extensions (never holds a "tcptype" key)
  deriving DecidableEq, Repr, Inhabited

/-! ## Part 1 — icecandidate.go -/

/-- `ICECandidateType` (zero value = unknown) -/
inductive WType | unknown | host | srflx | prflx | relay
  deriving DecidableEq, Repr, Inhabited

/-- `ICEProtocol` (zero value = unknown) -/
inductive WProto | unknown | udp | tcp
  deriving DecidableEq, Repr, Inhabited

/-- `ICEProtocol.String()` -/
def WProto.str : WProto → Str
  | .udp => chars!"udp" | .tcp => chars!"tcp" | .unknown => chars!"unknown type"

/-- `ICECandidate` (statsID, SDPMid, SDPMLineIndex carry no information for C25) -/
structure ICECandidate where
  foundation : Str
  priority : Nat          -- uint32
  address : Str
  protocol : WProto
  port : Nat              -- uint16
  typ : WType
  component : Nat         -- uint16
  relatedAddress : Str
  relatedPort : Nat       -- uint16
  tcpType : Str
  extensions : Str
  deriving DecidableEq, Repr, Inhabited

/-- `setExtensions`: `Key + " " + Value`, joined by single spaces. -/
def setExtensions : List Ext → Str
  | [] => []
  | [e] => e.key ++ ' ' :: e.value
  | e :: e' :: rest => e.key ++ ' ' :: e.value ++ ' ' :: setExtensions (e' :: rest)

/-- The index loop of `exportExtensions`, as the list of `cand.AddExtension` calls it makes.
    `cur` = `extensions[start:i]`, `key` = `ext.Key` ("" = no key yet); `rest = []` ⇔ `i == len-1`. -/
def exportCalls.go : Str → Str → Str → List Ext
  | [], _, _ => []
  | c :: rest, cur, key =>
    if c = ' ' then
      -- field = extensions[start:i]; start = i+1
      if key ≠ [] then ⟨key, cur⟩ :: exportCalls.go rest [] []           -- hasKey: value, add, reset
      else if rest = [] then [⟨cur, []⟩]                                  -- key with empty value at the end
      else exportCalls.go rest [] cur                                     -- ext.Key = field
    else if rest = [] then
      -- i == len-1: field = extensions[start:]
      if key ≠ [] then [⟨key, cur ++ [c]⟩] else [⟨cur ++ [c], []⟩]
    else exportCalls.go rest (cur ++ [c]) key                             -- default: continue

def exportCalls (extensions : Str) : List Ext := exportCalls.go extensions [] []

inductive UErr
  | unknownTyp      -- ice.ErrUnknownCandidateTyp
  | networkType     -- ice.ErrDetermineNetworkType
  | other
  deriving DecidableEq, Repr, Inhabited

/-! ## Part 2b — pion/ice operations -/

/-- `candidateBase.AddExtension` -/
def IceCand.addExtension (c : IceCand) (e : Ext) : Except UErr IceCand :=
  if e.key = tcptypeKey then
    let t := newTCPType e.value
    if t = .unspecified then .error .other else .ok { c with tcp := t }
  else if e.key = [] then .error .other
  else if c.exts.any (·.key = e.key) then
    -- "we only set the first one": the first entry with this key is overwritten
    .ok { c with exts := replaceFirst c.exts }
  else .ok { c with exts := c.exts ++ [e] }
where
  replaceFirst : List Ext → List Ext
    | [] => []
    | x :: xs => if x.key = e.key then e :: xs else x :: replaceFirst xs

/-- `exportExtensions`' calls applied in order; the first error is returned. -/
def IceCand.addAll (c : IceCand) : List Ext → Except UErr IceCand
  | [] => .ok c
  | e :: es => match c.addExtension e with
    | .ok c' => c'.addAll es
    | .error err => .error err

/-- `candidateBase.Extensions()`: the TCP type first, as a `tcptype` extension. -/
def IceCand.extensions (c : IceCand) : List Ext :=
  (if c.tcp ≠ .unspecified then [⟨tcptypeKey, c.tcp.str⟩] else []) ++ c.exts

/-- `candidateBase.GetExtension` -/
def IceCand.getExtension (c : IceCand) (key : Str) : Option Str :=
  match c.exts.find? (·.key = key) with
  | some e => some e.value
  | none => if key = tcptypeKey ∧ c.tcp ≠ .unspecified then some c.tcp.str else none

def IceCand.isTCP (c : IceCand) : Bool := c.net = .tcp4 || c.net = .tcp6

/-- `TypePreference()` for a candidate not attached to an agent (tcpPriorityOffset = 27) -/
def IceCand.typePreference (c : IceCand) : Nat :=
  let pref := match c.typ with | .host => 126 | .prflx => 110 | .srflx => 100 | .relay => 0
  if pref = 0 then 0 else if c.isTCP then pref - 27 else pref

/-- `LocalPreference()` -/
def IceCand.localPreference (c : IceCand) : Nat :=
  if c.typ = .relay then c.relayPref
  else if c.isTCP then
    let dir : Nat := match c.typ, c.tcp with
      | .host, .active | .relay, .active => 6
      | .host, .passive | .relay, .passive => 4
      | .host, .so | .relay, .so => 2
      | .prflx, .so | .srflx, .so => 6
      | .prflx, .active | .srflx, .active => 4
      | .prflx, .passive | .srflx, .passive => 2
      | _, _ => 0
    8192 * dir + 8191
  else 65535

/-- `Priority()` -/
def IceCand.priority (c : IceCand) : Nat :=
  if c.priorityOverride ≠ 0 then c.priorityOverride
  else (16777216 * c.typePreference + 256 * c.localPreference + (256 + 65536 - c.component % 65536) % 65536) % 4294967296

def utf8 (s : Str) : List UInt8 := (String.ofList s).toUTF8.toList

/-- `crc32.ChecksumIEEE` -/
def crc32 (bs : List UInt8) : UInt32 :=
  (bs.foldl (fun (crc : UInt32) (b : UInt8) =>
    (List.range 8).foldl (fun (c : UInt32) _ => if c &&& 1 = 1 then (c >>> 1) ^^^ 0xEDB88320 else c >>> 1)
      (crc ^^^ b.toUInt32)) (0xFFFFFFFF : UInt32)) ^^^ 0xFFFFFFFF

/-- `Foundation()` -/
def IceCand.foundation (c : IceCand) : Str :=
  if c.foundationOverride ≠ [] then c.foundationOverride
  else (toString (crc32 (utf8 (c.typ.str ++ c.address ++ c.net.str))).toNat).toList

/-! ### net/netip.ParseAddr (validity and address family only) -/

inductive AddrKind | v4 | v6
  deriving DecidableEq, Repr, Inhabited

/-- `parseIPv4Fields` -/
def ipv4Fields : Str → (first prevDot : Bool) → (val digLen pos : Nat) → List Nat → Option (List Nat)
  | [], _, _, val, _, pos, acc => if pos < 3 then none else some (acc ++ [val])
  | c :: rest, first, prevDot, val, digLen, pos, acc =>
    if c.isDigit then
      if digLen = 1 ∧ val = 0 then none
      else
        let val := val * 10 + (c.toNat - 48)
        if val > 255 then none else ipv4Fields rest false false val (digLen + 1) pos acc
    else if c = '.' then
      if first ∨ rest = [] ∨ prevDot then none
      else if pos = 3 then none
      else ipv4Fields rest false true 0 0 (pos + 1) (acc ++ [val])
    else none

def parseIPv4 (s : Str) : Option (List Nat) := ipv4Fields s true false 0 0 0 []

def hexVal (c : Char) : Option Nat :=
  if '0' ≤ c ∧ c ≤ '9' then some (c.toNat - 48)
  else if 'a' ≤ c ∧ c ≤ 'f' then some (c.toNat - 87)
  else if 'A' ≤ c ∧ c ≤ 'F' then some (c.toNat - 55)
  else none

/-- the main loop of `parseIPv6` (at most 8 rounds): `ip` = bytes so far (`i = ip.length`). -/
def ipv6Loop : Nat → Str → List Nat → Option Nat → Option (Str × List Nat × Option Nat)
  | 0, s, ip, ell => some (s, ip, ell)
  | fuel + 1, s, ip, ell =>
    if ip.length ≥ 16 then some (s, ip, ell) else
    let hex := s.takeWhile (fun c => (hexVal c).isSome)
    let off := hex.length
    if off > 4 then none
    else if off = 0 then none
    else
      let after := s.drop off
      match after with
      | '.' :: _ =>
        if ell.isNone ∧ ip.length ≠ 12 then none
        else if ip.length + 4 > 16 then none
        else match parseIPv4 s with
          | none => none
          | some f => some ([], ip ++ f, ell)
      | _ =>
        let acc := hex.foldl (fun a c => a * 16 + (hexVal c).getD 0) 0
        let ip := ip ++ [acc / 256, acc % 256]
        match after with
        | [] => some ([], ip, ell)
        | c :: t =>
          if c ≠ ':' then none
          else match t with
            | [] => none
            | ':' :: t' =>
              if ell.isSome then none
              else if t' = [] then some ([], ip, some ip.length)
              else ipv6Loop fuel t' ip (some ip.length)
            | _ => ipv6Loop fuel t ip ell

/-- `parseIPv6` → the 16 bytes -/
def parseIPv6 (inp : Str) : Option (List Nat) :=
  let s := inp.takeWhile (· ≠ '%')
  let hasZone := inp.any (· = '%')
  let zone := (inp.dropWhile (· ≠ '%')).drop 1
  if hasZone ∧ zone = [] then none
  else
    let lead : Bool := match s with | ':' :: ':' :: _ => true | _ => false
    let s1 := if lead then s.drop 2 else s
    if lead ∧ s1 = [] then some (List.replicate 16 0)
    else
      match ipv6Loop 9 s1 [] (if lead then some 0 else none) with
      | none => none
      | some (rest, ip, ell) =>
        if rest ≠ [] then none
        else if ip.length < 16 then
          match ell with
          | none => none
          | some e => some (ip.take e ++ List.replicate (16 - ip.length) 0 ++ ip.drop e)
        else if ell.isSome then none
        else some ip

/-- `netip.ParseAddr` followed by `Unmap().Is4()` -/
def parseAddr (s : Str) : Option AddrKind :=
  match s.find? (fun c => c = '.' ∨ c = ':' ∨ c = '%') with
  | some '.' => (parseIPv4 s).map (fun _ => .v4)
  | some ':' =>
    (parseIPv6 s).map (fun ip =>
      if ip.take 10 = List.replicate 10 0 ∧ (ip.drop 10).take 2 = [255, 255] then .v4 else .v6)
  | _ => none

/-- `determineNetworkType` -/
def determineNetworkType (network : Str) (k : AddrKind) : Except UErr NetType :=
  let l := lower network
  if (chars!"udp").isPrefixOf l then .ok (if k = .v4 then .udp4 else .udp6)
  else if (chars!"tcp").isPrefixOf l then .ok (if k = .v4 then .tcp4 else .tcp6)
  else .error .networkType

def hasSuffix (suf s : Str) : Bool := suf.isSuffixOf s

/-- the mDNS test of `NewCandidateHost` -/
def isNameAddress (a : Str) : Bool := hasSuffix (chars!".local") a || hasSuffix (chars!".invalid") a

/-- the union of the four `Candidate*Config` structures -/
structure Config where
  typ : CandType
  network : Str
  address : Str
  port : Nat
  component : Nat
  priority : Nat
  foundation : Str
  tcp : TcpType := .unspecified     -- CandidateHostConfig only
  relAddr : Str := []               -- the other three
  relPort : Nat := 0
  relayPref : Nat := 3              -- relayProtocolPreference(config.RelayProtocol)
  deriving Repr, DecidableEq

/-- `NewCandidateHost` / `NewCandidateServerReflexive` / `NewCandidatePeerReflexive` / `NewCandidateRelay` -/
def newCandidate (cfg : Config) : Except UErr IceCand :=
  match cfg.typ with
  | .host =>
    let base : IceCand :=
      { typ := .host, net := .udp4, address := cfg.address, port := cfg.port,
        component := cfg.component, foundationOverride := cfg.foundation, priorityOverride := cfg.priority,
        related := none, tcp := cfg.tcp, exts := [] }
    if isNameAddress cfg.address then .ok base      -- "until mDNS candidate is resolved assume it is UDPv4"
    else match parseAddr cfg.address with
      | none => .error .other
      | some k => match determineNetworkType cfg.network k with
        | .error e => .error e
        | .ok nt => .ok { base with net := nt }
  | t =>
    match parseAddr cfg.address with
    | none => .error .other
    | some k => match determineNetworkType cfg.network k with
      | .error e => .error e
      | .ok nt => .ok
          { typ := t, net := nt, address := cfg.address, port := cfg.port,
            component := cfg.component, foundationOverride := cfg.foundation, priorityOverride := cfg.priority,
            related := some (cfg.relAddr, cfg.relPort), tcp := .unspecified,
            relayPref := (if t = .relay then cfg.relayPref else 3), exts := [] }

/-- `removeZoneIDFromAddress` -/
def removeZone (a : Str) : Str := a.takeWhile (· ≠ '%')

def natStr (n : Nat) : Str := Nat.toDigits 10 n

/-- `marshalExtensions` -/
def marshalExtensions (exts : List Ext) : Str :=
  exts.foldl (fun value e => (if value ≠ [] then value ++ [' '] else value) ++ e.key ++ ' ' :: e.value) []

/-- What the accessor methods of an `ice.Candidate` return — exactly the fields C25 lists:
    `Type()`, `NetworkType().NetworkShort()`, `Foundation()`, `Component()`, `Priority()`, `Address()`,
    `Port()`, `RelatedAddress()`, `TCPType()`, `Extensions()`. -/
structure Obs where
  typ : CandType
  proto : Proto
  foundation : Str
  component : Nat
  priority : Nat
  address : Str
  port : Nat
  related : Option (Str × Nat)
  tcp : TcpType
  extensions : List Ext
  deriving DecidableEq, Repr, Inhabited

def IceCand.obs (c : IceCand) : Obs :=
  { typ := c.typ, proto := c.net.short, foundation := c.foundation, component := c.component,
    priority := c.priority, address := c.address, port := c.port, related := c.related, tcp := c.tcp,
    extensions := c.extensions }

/-- `candidateBase.Marshal` (it reads the candidate through its accessor methods only) -/
def Obs.marshal (c : Obs) : Str :=
  let f := if c.foundation = [' '] then [] else c.foundation
  let val := f ++ ' ' :: natStr c.component ++ ' ' :: c.proto.str ++ ' ' :: natStr c.priority ++ ' ' ::
    removeZone c.address ++ ' ' :: natStr c.port ++ chars!" typ " ++ c.typ.str
  let val := match c.related with
    | some (a, p) => if a ≠ [] ∧ p ≠ 0 then val ++ chars!" raddr " ++ a ++ chars!" rport " ++ natStr p else val
    | none => val
  let e := marshalExtensions c.extensions
  if e ≠ [] then val ++ ' ' :: e else val

def IceCand.marshal (c : IceCand) : Str := c.obs.marshal

/-! ### UnmarshalCandidate -/

def isIceChar (c : Char) : Bool :=
  ('A' ≤ c && c ≤ 'Z') || ('a' ≤ c && c ≤ 'z') || ('0' ≤ c && c ≤ '9') || c = '+' || c = '/'

/-- `readCandidateCharToken` (index `i` relative to the token start) -/
def readCharToken (limit : Nat) : Str → Nat → Option (Str × Str)
  | [], _ => some ([], [])
  | c :: rest, i =>
    if c = ' ' then some ([], rest)
    else if i = limit then none
    else if !isIceChar c then none
    else match readCharToken limit rest (i + 1) with
      | some (t, r) => some (c :: t, r)
      | none => none

/-- `readCandidateStringToken` -/
def readString : Str → Str × Str
  | [] => ([], [])
  | c :: rest => if c = ' ' then ([], rest) else ((c :: (readString rest).1), (readString rest).2)

/-- `readCandidateDigitToken` -/
def readDigits (limit : Nat) : Str → Nat → Nat → Option (Nat × Str)
  | [], _, val => some (val, [])
  | c :: rest, i, val =>
    if c = ' ' then some (val, rest)
    else if i = limit then none
    else if !c.isDigit then none
    else readDigits limit rest (i + 1) (10 * val + (c.toNat - 48))

/-- `readCandidatePort` -/
def readPort (s : Str) : Option (Nat × Str) :=
  match readDigits 5 s 0 0 with
  | some (p, r) => if p > 65535 then none else some (p, r)
  | none => none

/-- the byte-string alphabet of RFC 4566 as tested on runes: 0x01–0x09, 0x0B–0x0C, 0x0E–0xFF -/
def isByteChar (c : Char) : Bool :=
  let n := c.toNat
  (1 ≤ n && n ≤ 9) || (11 ≤ n && n ≤ 12) || (14 ≤ n && n ≤ 255)

/-- `readCandidateByteString` -/
def readByteString : Str → Option (Str × Str)
  | [] => some ([], [])
  | c :: rest =>
    if c = ' ' then some ([], rest)
    else if !isByteChar c then none
    else match readByteString rest with
      | some (t, r) => some (c :: t, r)
      | none => none

/-- the loop of `unmarshalCandidateExtensions` (fuel ≥ remaining length) -/
def unmarshalExts.go : Nat → Str → List Ext → Str → Option (List Ext × Str)
  | 0, _, acc, t => some (acc, t)
  | _ + 1, [], acc, t => some (acc, t)
  | fuel + 1, raw@(_ :: _), acc, t =>
    match readByteString raw with
    | none => none
    | some (key, r1) =>
      -- "we allow for empty values"
      match (if r1 = [] then some ([], []) else readByteString r1) with
      | none => none
      | some (value, r2) =>
        if key = tcptypeKey then unmarshalExts.go fuel r2 acc value
        else unmarshalExts.go fuel r2 (acc ++ [⟨key, value⟩]) t

/-- `unmarshalCandidateExtensions` → (extensions, raw tcptype value) -/
def unmarshalExts (raw : Str) : Option (List Ext × Str) :=
  match raw with
  | [] => some ([], [])
  | ' ' :: _ => none
  | _ => unmarshalExts.go raw.length raw [] []

/-- `tryReadRelativeAddrs` → (raddr, rport, rest) -/
def tryReadRelativeAddrs (s : Str) : Option (Str × Nat × Str) :=
  let (key, r) := readString s
  if key ≠ chars!"raddr" then some ([], 0, s)
  else if r = [] then none
  else
    let (raddr, r) := readString r
    if r = [] then none
    else
      let (key, r) := readString r
      if key ≠ chars!"rport" then none
      else if r = [] then none
      else match readPort r with
        | none => none
        | some (p, r) => some (raddr, p, r)

def stripPrefix (p s : Str) : Str := if p.isPrefixOf s then s.drop p.length else s

def candidatePrefix : Str := chars!"candidate:"

def candTypeOfStr (s : Str) : Option CandType :=
  if s = chars!"host" then some .host
  else if s = chars!"srflx" then some .srflx
  else if s = chars!"prflx" then some .prflx
  else if s = chars!"relay" then some .relay
  else none

/-- `ice.UnmarshalCandidate`, second half: from the candidate type onwards (`r` = `raw[pos:]` after "typ ") -/
def unmarshalTail (foundation : Str) (component : Nat) (protocol : Str) (priority : Nat) (address : Str)
    (port : Nat) (r : Str) : Except UErr IceCand :=
  let (typ, r) := readString r
  match tryReadRelativeAddrs r with
  | none => .error .other
  | some (raddr, rport, r) =>
    match unmarshalExts r with
    | none => .error .other
    | some (exts, tcpRaw) =>
      let tcp := newTCPType tcpRaw
      if tcpRaw ≠ [] ∧ tcp = .unspecified then .error .other
      else match candTypeOfStr typ with
        | none => .error .unknownTyp
        | some t =>
          match newCandidate
              { typ := t, network := protocol, address := address, port := port,
                component := component % 65536, priority := priority % 4294967296,
                foundation := foundation, tcp := tcp, relAddr := raddr, relPort := rport } with
          | .error e => .error e
          | .ok c => .ok { c with exts := exts }       -- candidate.setExtensions(extensions)

/-- `ice.UnmarshalCandidate` -/
def unmarshal (raw : Str) : Except UErr IceCand :=
  let raw := stripPrefix candidatePrefix raw
  match readCharToken 32 raw 0 with
  | none => .error .other
  | some (foundation, r) =>
    let foundation := if foundation = [] then [' '] else foundation
    if r = [] then .error .other else
    match readDigits 5 r 0 0 with
    | none => .error .other
    | some (component, r) =>
      if r = [] then .error .other else
      let (protocol, r) := readString r
      if r = [] then .error .other else
      match readDigits 10 r 0 0 with
      | none => .error .other
      | some (priority, r) =>
        if r = [] then .error .other else
        let (address, r) := readString r
        let address := removeZone address
        if r = [] then .error .other else
        match readPort r with
        | none => .error .other
        | some (port, r) =>
          let (typeKey, r) := readString r
          if typeKey ≠ chars!"typ" then .error .unknownTyp
          else if r = [] then .error .other
          else unmarshalTail foundation component protocol priority address port r

/-! ## Part 1 (continued) — conversions -/

/-- `convertTypeFromICE` (total on the four ice types) -/
def WType.ofICE : CandType → WType
  | .host => .host | .srflx => .srflx | .prflx => .prflx | .relay => .relay

/-- `NewICEProtocol(candidate.NetworkType().NetworkShort())` -/
def WProto.ofICE : Proto → WProto
  | .udp => .udp | .tcp => .tcp

/-- `newICECandidateFromICE` (cannot fail on the four ice types and four network types) -/
def fromICE (c : IceCand) : ICECandidate :=
  { foundation := c.foundation
    priority := c.priority
    address := c.address
    protocol := WProto.ofICE c.net.short
    port := c.port % 65536                                  -- uint16(candidate.Port())
    component := c.component
    typ := WType.ofICE c.typ
    tcpType := c.tcp.str
    extensions := setExtensions c.extensions
    relatedAddress := match c.related with | some (a, _) => a | none => []
    relatedPort := match c.related with | some (_, p) => p % 65536 | none => 0 }

/-- `ICECandidate.ToICE` -/
def ICECandidate.toICE (c : ICECandidate) : Except UErr IceCand :=
  let cfg : Option Config := match c.typ with
    | .host => some
        { typ := .host, network := c.protocol.str, address := c.address, port := c.port,
          component := c.component, tcp := newTCPType c.tcpType, foundation := c.foundation,
          priority := c.priority }
    | .srflx => some
        { typ := .srflx, network := c.protocol.str, address := c.address, port := c.port,
          component := c.component, foundation := c.foundation, priority := c.priority,
          relAddr := c.relatedAddress, relPort := c.relatedPort }
    | .prflx => some
        { typ := .prflx, network := c.protocol.str, address := c.address, port := c.port,
          component := c.component, foundation := c.foundation, priority := c.priority,
          relAddr := c.relatedAddress, relPort := c.relatedPort }
    | .relay => some
        { typ := .relay, network := c.protocol.str, address := c.address, port := c.port,
          component := c.component, foundation := c.foundation, priority := c.priority,
          relAddr := c.relatedAddress, relPort := c.relatedPort }
    | .unknown => none
  match cfg with
  | none => .error .other                                   -- errICECandidateTypeUnknown
  | some cfg =>
    match newCandidate cfg with
    | .error e => .error e
    | .ok cand => cand.addAll (exportCalls c.extensions)     -- c.exportExtensions(cand)

/-- `ToJSON().Candidate` -/
def ICECandidate.toJSON (c : ICECandidate) : Str :=
  candidatePrefix ++ (match c.toICE with | .ok cand => cand.marshal | .error _ => [])

/-! ## Part 3 — peerconnection.go:AddICECandidate -/

/-- the `ice-ufrag` attribute values of a parsed description: session level, then per media section
    (each in attribute order; `Attribute(key)` returns the first) -/
structure Desc where
  session : List Str
  media : List (List Str)
  deriving DecidableEq, Repr, Inhabited

/-- `descriptionContainsUfrag` -/
def Desc.containsUfrag (d : Desc) (u : Str) : Bool :=
  d.session.head? = some u || d.media.any (fun m => m.head? = some u)

/-- every ufrag named anywhere in the description -/
def Desc.allUfrags (d : Desc) : List Str := d.session ++ d.media.flatten

inductive AddOutcome
  | noRemoteDescription                   -- InvalidStateError{ErrNoRemoteDescription}
  | dropped                               -- `return nil` without touching the transport
  | parseError                            -- `return err`
  | forwarded (c : Option ICECandidate)   -- `pc.iceTransport.AddRemoteCandidate(c)`
  deriving DecidableEq, Repr, Inhabited

/-- `RemoteDescription()` -/
def remoteDescription (pending current : Option Desc) : Option Desc :=
  match pending with | some d => some d | none => current

/-- `AddICECandidate` up to the call into the ICE transport -/
def addICECandidate (pending current : Option Desc) (candidate : Str) : AddOutcome :=
  match remoteDescription pending current with
  | none => .noRemoteDescription
  | some desc =>
    let value := stripPrefix candidatePrefix candidate
    if value = [] then .forwarded none
    else match unmarshal value with
      | .error .unknownTyp | .error .networkType => .dropped     -- "Discarding remote candidate"
      | .error .other => .parseError
      | .ok cand =>
        match cand.getExtension ufragKey with
        | some u =>
          if !desc.containsUfrag u then .dropped                  -- "dropping candidate with ufrag …"
          else .forwarded (some (fromICE cand))
        | none => .forwarded (some (fromICE cand))

/-- `ICETransport.AddRemoteCandidate` with a gatherer: `ToICE`, then the agent -/
def transportAdd (c : Option ICECandidate) : Except UErr (Option IceCand) :=
  match c with
  | none => .ok none
  | some c => match c.toICE with
    | .ok cand => .ok (some cand)
    | .error e => .error e

/-- what `Agent.AddRemoteCandidate` does with the candidate when mDNS is disabled: active TCP candidates
    and mDNS host names are ignored -/
def agentKeeps (c : IceCand) : Bool :=
  !(c.tcp = .active) && !(c.typ = .host && hasSuffix (chars!".local") c.address)

end WebrtcVerif.Candidate
