/-
  Model of the ICE / DTLS role decision of pion/webrtc (property C13):
    dtlsrole.go         dtlsRoleFromSDP, connectionRoleFromDtlsRole, defaultDtlsRoleAnswer/Offer
    settingengine.go    SetAnsweringDTLSRole
    peerconnection.go   CreateOffer / CreateAnswer (choice of the a=setup value),
                        SetRemoteDescription (iceRole, arguments of startTransports)
    dtlstransport.go    DTLSTransport.role()
  The model mirrors the tree AFTER the commit `fix: CreateAnswer answers the complement of an explicit
  a=setup in the offer` (an explicit remote role is looked at before the configured answering role).
  Enum constructor order = the Go iota order.
-/
namespace WebrtcVerif.Roles

/-- `DTLSRole` (dtlsrole.go). -/
inductive DtlsRole | unknown | auto | client | server
  deriving DecidableEq, Repr, Inhabited

/-- `ICERole` (icerole.go). -/
inductive IceRole | unknown | controlling | controlled
  deriving DecidableEq, Repr, Inhabited

/-- `sdp.ConnectionRole`: the zero value, then active(1) passive(2) actpass(3) holdconn(4). -/
inductive ConnRole | zero | active | passive | actpass | holdconn
  deriving DecidableEq, Repr, Inhabited

/-- The value of one media-level `a=setup` attribute, as far as the exact string comparisons of
    `dtlsRoleFromSDP` can tell values apart (`other`: any other text, e.g. `ACTIVE`, empty). -/
inductive SetupVal | active | passive | actpass | holdconn | other
  deriving DecidableEq, Repr, Inhabited

/-- The `a=setup` attributes of one media section, in order of appearance. -/
abbrev Section := List SetupVal
/-- The media sections of a session description (only what `dtlsRoleFromSDP` reads). -/
abbrev Sections := List Section

/-- Go values outside the enum match no `case`; they behave like the zero value everywhere below. -/
def DtlsRole.ofRaw : Nat → DtlsRole
  | 1 => .auto | 2 => .client | 3 => .server | _ => .unknown
def IceRole.ofRaw : Nat → IceRole
  | 1 => .controlling | 2 => .controlled | _ => .unknown

def defaultDtlsRoleAnswer : DtlsRole := .client
def defaultDtlsRoleOffer : DtlsRole := .auto

/-- the inner `switch attribute.Value` of `dtlsRoleFromSDP` -/
def roleOfSetupVal : SetupVal → DtlsRole
  | .active => .client
  | .passive => .server
  | _ => .auto

/-- `dtlsRoleFromSDP` for a non-nil description: both loops, returning at the first `setup` key. -/
def dtlsRoleFromSections : Sections → DtlsRole
  | [] => .auto
  | [] :: rest => dtlsRoleFromSections rest
  | (v :: _) :: _ => roleOfSetupVal v

/-- `dtlsRoleFromSDP` (`none` = nil description). -/
def dtlsRoleFromSDP : Option Sections → DtlsRole
  | none => .auto
  | some s => dtlsRoleFromSections s

def connectionRoleFromDtlsRole : DtlsRole → ConnRole
  | .client => .active
  | .server => .passive
  | .auto => .actpass
  | .unknown => .zero

/-- `ConnectionRole.String()` read back as an attribute value (`Unknown` for the zero value). -/
def ConnRole.asSetupVal : ConnRole → SetupVal
  | .active => .active | .passive => .passive | .actpass => .actpass | .holdconn => .holdconn
  | .zero => .other

/-- `SettingEngine.SetAnsweringDTLSRole`: new stored value and whether an error was returned. -/
def setAnsweringDTLSRole (cur r : DtlsRole) : DtlsRole × Bool :=
  if r ≠ .client ∧ r ≠ .server then (cur, true) else (r, false)

/-- a sequence of setter calls on a fresh SettingEngine -/
def configure (calls : List DtlsRole) : DtlsRole :=
  calls.foldl (fun cur r => (setAnsweringDTLSRole cur r).1) .unknown

/-- `CreateOffer`: the offer always carries `connectionRoleFromDtlsRole(defaultDtlsRoleOffer)`. -/
def offerConnectionRole : ConnRole := connectionRoleFromDtlsRole defaultDtlsRoleOffer

/-- The `connectionRole` block of `CreateAnswer`. -/
def answerConnectionRole (answering : DtlsRole) (offer : Option Sections) (remoteLite localLite : Bool) :
    ConnRole :=
  match dtlsRoleFromSDP offer with
  | .client => connectionRoleFromDtlsRole .server
  | .server => connectionRoleFromDtlsRole .client
  | _ =>
    let c := connectionRoleFromDtlsRole answering
    if c = .zero then
      let c := connectionRoleFromDtlsRole defaultDtlsRoleAnswer
      if remoteLite && !localLite then connectionRoleFromDtlsRole .server else c
    else c

/-- The same block as it was BEFORE the fix commit (kept only to state which rows were defective;
    not used by the driver): configuration first, the offer's role only when nothing is configured,
    then the ICE-lite override. -/
def answerConnectionRoleBeforeFix (answering : DtlsRole) (offer : Option Sections)
    (remoteLite localLite : Bool) : ConnRole :=
  let c := connectionRoleFromDtlsRole answering
  if c = .zero then
    let c := match dtlsRoleFromSDP offer with
      | .client => connectionRoleFromDtlsRole .server
      | .server => connectionRoleFromDtlsRole .client
      | _ => connectionRoleFromDtlsRole defaultDtlsRoleAnswer
    if remoteLite && !localLite then connectionRoleFromDtlsRole .server else c
  else c

/-- The `iceRole` choice of `SetRemoteDescription`. -/
def iceRole (weOffer remoteIsLite localLite : Bool) : IceRole :=
  if (weOffer && (remoteIsLite == localLite)) || (remoteIsLite && !localLite) then .controlling
  else .controlled

/-- `DTLSTransport.role()`: `remote` = `t.remoteParameters.Role`, `answering` = the SettingEngine's
    `answeringDTLSRole`, `ice` = `t.iceTransport.Role()`. -/
def dtlsTransportRole (remote answering : DtlsRole) (ice : IceRole) : DtlsRole :=
  match remote with
  | .client => .server
  | .server => .client
  | _ =>
    match answering with
    | .server => .server
    | .client => .client
    | _ => if ice = .controlling then .server else defaultDtlsRoleAnswer

/-- What `SetRemoteDescription` hands to `startTransports`. -/
structure Started where
  ice : IceRole
  remoteDtls : DtlsRole
  deriving DecidableEq, Repr

def setRemoteDescription (weOffer : Bool) (remote : Option Sections) (remoteIsLite localLite : Bool) : Started :=
  { ice := iceRole weOffer remoteIsLite localLite, remoteDtls := dtlsRoleFromSDP remote }

/-- The roles one endpoint ends up with: `ICETransport.Start` stores the ICE role, `DTLSTransport.Start`
    stores the remote parameters and asks `role()`. -/
structure Side where
  ice : IceRole
  dtls : DtlsRole
  deriving DecidableEq, Repr

def startTransports (st : Started) (answering : DtlsRole) : Side :=
  { ice := st.ice, dtls := dtlsTransportRole st.remoteDtls answering st.ice }

/-- An answering PeerConnection: `SetRemoteDescription(offer)`, `CreateAnswer`. -/
structure Answered where
  setup : ConnRole      -- the a=setup value written into every media section of the answer
  lite : Bool           -- a=ice-lite in the answer (populateSDP: the local ICELite setting)
  started : Started
  side : Side
  deriving DecidableEq, Repr

def answerer (offererLite answererLite : Bool) (answering : DtlsRole) (offer : Sections) : Answered :=
  let st := setRemoteDescription false (some offer) offererLite answererLite
  { setup := answerConnectionRole answering (some offer) offererLite answererLite
    lite := answererLite
    started := st
    side := startTransports st answering }

/-- The media sections of a pion description with `k` sections: one `a=setup` each, all equal. -/
def uniformSections (c : ConnRole) (k : Nat) : Sections := List.replicate k [c.asSetupVal]

/-- An offering PeerConnection that receives an answer (`SetRemoteDescription(answer)`); `answering`
    is the offerer's own SettingEngine value, which `role()` consults on this side too. -/
def offerer (offererLite answerLite : Bool) (answering : DtlsRole) (answer : Sections) : Started × Side :=
  let st := setRemoteDescription true (some answer) answerLite offererLite
  (st, startTransports st answering)

/-! ### Specification vocabulary, written from the RFCs (independent of the functions above) -/

namespace Spec

inductive Who | offerer | answerer
  deriving DecidableEq, Repr

/-- RFC 8445 §6.1.1: both full → the initiating agent (offerer) controls; one lite → the full agent
    controls; both lite → the initiating agent controls. -/
def controlling : (offererLite answererLite : Bool) → Who
  | false, false => .offerer
  | false, true => .offerer
  | true, false => .answerer
  | true, true => .offerer

/-- RFC 4145 §4 / RFC 5763 §5: what a setup value says about the endpoint that sent it
    (active = it initiates = DTLS client; passive = DTLS server; anything else decides nothing). -/
def roleOfSetup : ConnRole → Option DtlsRole
  | .active => some .client
  | .passive => some .server
  | _ => none

def opposite : DtlsRole → DtlsRole → Bool
  | .client, .server => true
  | .server, .client => true
  | _, _ => false

def definite (d : DtlsRole) : Bool := d == .client || d == .server

end Spec

/-! ### The property's configuration matrix -/

inductive OfferSetup | actpass | active | passive | absent
  deriving DecidableEq, Repr
inductive Answering | unset | client | server
  deriving DecidableEq, Repr

/-- One row of the matrix 2 × 2 × 3 × 4. -/
structure Row where
  offererLite : Bool
  answererLite : Bool
  answering : Answering
  offer : OfferSetup
  deriving DecidableEq, Repr

def Answering.role : Answering → DtlsRole
  | .unset => .unknown | .client => .client | .server => .server

def OfferSetup.section : OfferSetup → Section
  | .actpass => [.actpass] | .active => [.active] | .passive => [.passive] | .absent => []

/-- the offer's a=setup value as a `ConnRole` (absent: none) -/
def OfferSetup.conn : OfferSetup → Option ConnRole
  | .actpass => some .actpass | .active => some .active | .passive => some .passive | .absent => none

def OfferSetup.all : List OfferSetup := [.actpass, .active, .passive, .absent]
def Answering.all : List Answering := [.unset, .client, .server]

def Row.all : List Row :=
  [false, true].flatMap fun o => [false, true].flatMap fun a =>
    Answering.all.flatMap fun r => OfferSetup.all.map fun s => ⟨o, a, r, s⟩

/-- the offer of a row as `k` media sections carrying the row's value -/
def Row.offerSections (r : Row) (k : Nat) : Sections := List.replicate k r.offer.section

def Row.answered (r : Row) (k : Nat) : Answered :=
  answerer r.offererLite r.answererLite r.answering.role (r.offerSections k)

/-- The DTLS role an RFC-conforming (foreign) offerer takes: the one it announced, or — having offered
    actpass / nothing — the complement of what the answer announces. -/
def rfcOffererRole (offer : OfferSetup) (answer : ConnRole) : Option DtlsRole :=
  match offer with
  | .active => some .client
  | .passive => some .server
  | _ => match Spec.roleOfSetup answer with
    | some .client => some .server
    | some .server => some .client
    | _ => none

end WebrtcVerif.Roles
