import WebrtcVerif.Model.StaticRtp
/-
  Model for C23 (media written to a local track arrives intact on the negotiated stream): the composition
  of three pieces of this repository's glue, with the secure transport between them as an ASSUMED identity.

    sender    RTPSender.Send → TrackLocalStaticRTP.Bind (Model.StaticRtp.bind) with the sender's announced
              SSRC and the negotiated codec list; WriteRTP (Model.StaticRtp.writeRTP)
    wire      SRTP + ICE + DTLS + interceptors: assumed to hand the receiver each (header, payload) unchanged
    receiver  peerconnection.go configureRTPReceivers / startRTPReceivers: the remote description's
              track details (ssrc ↦ streamID, trackID) create a TrackRemote per announced SSRC;
              track_remote.go checkAndUpdateTrack: payload type ↦ negotiated codec
-/
namespace WebrtcVerif.MediaPath
open WebrtcVerif.StaticRtp

/-- what the offer/answer announced for one sending track (sdp.go addSenderSDP ⇒ trackDetailsFromSDP) -/
structure Announced where
  ssrc : Nat
  streamID : Str
  trackID : Str
  deriving DecidableEq, Repr

/-- the local track handed to AddTrack -/
structure LocalTrack where
  codec : Codec           -- the capability given to NewTrackLocalStaticRTP (payload type 0)
  streamID : Str
  trackID : Str
  deriving DecidableEq, Repr

/-- the sender side after negotiation: its SSRC is the one its description announced, its msid is the
    track's stream/track id (rtpsender.go / sdp.go addSenderSDP), its context offers the negotiated codecs -/
structure Sender where
  track : LocalTrack
  ssrc : Nat
  negotiated : List Codec   -- negotiated codecs of this kind, with the negotiated payload types
  deriving DecidableEq, Repr

def Sender.announced (s : Sender) : Announced :=
  { ssrc := s.ssrc, streamID := s.track.streamID, trackID := s.track.trackID }

/-- `RTPSender.Send`: bind the track with a context carrying the sender's SSRC and the negotiated codecs -/
def Sender.bound (s : Sender) : Track × Option Codec :=
  bind { codec := s.track.codec } { id := ['s'], ssrc := s.ssrc, codecs := s.negotiated, writer := 0 }

/-- a TrackRemote as created from the remote description for one announced SSRC -/
structure RemoteTrack where
  ssrc : Nat
  streamID : Str
  trackID : Str
  codec : Option Codec := none     -- set by checkAndUpdateTrack on the first packet
  pt : Nat := 0
  deriving DecidableEq, Repr

/-- configureRTPReceivers / startRTPReceivers: one TrackRemote per announced track -/
def receiverFor (a : Announced) : RemoteTrack := { ssrc := a.ssrc, streamID := a.streamID, trackID := a.trackID }

/-- `getRTPParametersByPayloadType` on the receiver's negotiated codecs -/
def codecByPT (negotiated : List Codec) (pt : Nat) : Option Codec := negotiated.find? (·.pt == pt)

/-- demultiplexing by SSRC + `TrackRemote.checkAndUpdateTrack` + ReadRTP: a packet whose SSRC is the track's
    and whose payload type is negotiated is returned as it is; the track then reports that codec -/
def receive (negotiated : List Codec) (t : RemoteTrack) (d : Delivery) : Option (RemoteTrack × Header × List UInt8) :=
  if d.hdr.ssrc ≠ t.ssrc then none
  else match codecByPT negotiated d.hdr.pt with
    | none => none
    | some c => some ({ t with codec := some c, pt := d.hdr.pt }, d.hdr, d.payload)

/-- the ASSUMED transport: every delivery of the sender's TrackLocalWriter reaches the receiver unchanged -/
def wire (ds : List Delivery) : List Delivery := ds

end WebrtcVerif.MediaPath
