/-
  Model of the local-candidate reporting of icegatherer.go — property C24.

  Anchors: the closure `Gather` registers with `agent.OnCandidate` (candidate path and nil path),
  `flushCandidates` (called by every `SetLocalDescription`), and the state they share:
  `candidatePool`, `iceCandidatePoolSize`, `flushesInFlight`, `endOfCandidatesSignaled` (all under
  `candidatePoolLock`) and the atomic gatherer state.

  The code as it is (after `fix: ICE gatherer reports end-of-candidates exactly once and after every
  candidate`):

    callback(c ≠ nil):  lock; if poolSize > 0 && pool != nil { pool = append(pool, c); unlock; return }
                        unlock; handler(c)
    callback(nil):      setState(complete); lock;
                        if (poolSize > 0 && pool != nil) || flushesInFlight > 0 || signaled { unlock; return }
                        signaled = true; unlock; handler(nil)
    flushCandidates:    lock; cs = pool; pool = nil; poolSize = 0; flushesInFlight++; unlock;
                        for c in cs { handler(c) };
                        lock; flushesInFlight--;
                        claim = flushesInFlight == 0 && !signaled && state == complete;
                        if claim { signaled = true }; unlock; if claim { handler(nil) }
    Gather (restart):   setState(gathering); lock; signaled = false; unlock

  Every lock-delimited section (and every handler invocation) is one atomic `Action`; the transition
  system allows ANY interleaving of the agent's callback thread with ANY number of flushers, which may
  overlap each other.  The agent's callbacks themselves are serial (pion/ice delivers candidates from a
  single notifier goroutine, in order, the nil last) — that is the one assumption about the library, and
  it is built into the shape of `APc`: there is one agent program counter.
-/
namespace WebrtcVerif.Gather

abbrev Cand := Nat

inductive GState
  | gathering | complete
  deriving DecidableEq, Repr

/-- program counter of the agent's callback thread -/
inductive APc
  | idle                 -- between two callbacks (gathering still running)
  | cand (c : Cand)      -- in the callback for candidate `c`, before the pool test
  | direct (c : Cand)    -- pool test said "not pooled": about to hand `c` to the handler
  | nilGap               -- in the nil callback: `complete` stored, before the lock
  | nilEmit              -- claimed the end-of-gathering marker: about to hand nil to the handler
  | done                 -- the nil callback has returned
  deriving DecidableEq, Repr

/-- program counter of one `flushCandidates` call -/
inductive FPc
  | idle                       -- not called yet
  | emitting (rest : List Cand) -- took the pool; `rest` is still to be handed to the handler
  | nilEmit                    -- claimed the end-of-gathering marker: about to hand nil to the handler
  | done
  deriving DecidableEq, Repr

structure St where
  gstate : GState := .gathering            -- the atomic gatherer state (new/gathering vs complete)
  poolSize : Nat                           -- `iceCandidatePoolSize`
  pool : Option (List Cand) := some []     -- `candidatePool`; `none` = nil slice
  inFlight : Nat := 0                      -- `flushesInFlight`
  signaled : Bool := false                 -- `endOfCandidatesSignaled`
  agent : APc := .idle
  flushers : List FPc := []
  emitted : List (Option Cand) := []       -- handler invocations of the current gathering, in order
  gathered : List Cand := []               -- ghost: candidates the agent has delivered (current gathering)
  rounds : Nat := 0                        -- ghost: how often gathering was restarted
  deriving Repr, DecidableEq

inductive Action
  | candBegin (c : Cand)       -- the agent invokes the callback with a new candidate
  | candTest                   -- candidate path: the critical section (pool test, maybe append)
  | candEmit                   -- candidate path: handler(c)
  | nilBegin                   -- the agent invokes the callback with nil: setState(complete)
  | nilTest                    -- nil path: the critical section (defer to a flush, or claim the marker)
  | nilEmit                    -- nil path: handler(nil)
  | flushBegin (f : Nat)       -- flushCandidates: first critical section (take the pool)
  | flushEmit (f : Nat)        -- flushCandidates: handler(c) for the next pooled candidate
  | flushEnd (f : Nat)         -- flushCandidates: second critical section (maybe claim the marker)
  | flushNil (f : Nat)         -- flushCandidates: handler(nil)
  | regather                   -- Gather after an ICE restart, once the previous gathering is fully reported
  deriving DecidableEq, Repr

/-- `g.iceCandidatePoolSize > 0 && g.candidatePool != nil` -/
def poolActive (s : St) : Bool := decide (s.poolSize > 0) && s.pool.isSome

def FPc.atRest : FPc → Bool
  | .idle => true
  | .done => true
  | _ => false

/-- the previous gathering is fully reported: the agent's nil callback has returned, no flush is under
    way, nothing is pooled -/
def atRest (s : St) : Bool :=
  decide (s.agent = .done) && s.flushers.all FPc.atRest && !poolActive s

/-- one atomic step; `none` = the action is not enabled in this state -/
def step (s : St) : Action → Option St
  | .candBegin c =>
      match s.agent with
      | .idle => if c ∈ s.gathered then none   -- the agent reports each candidate once
                 else some { s with agent := .cand c, gathered := s.gathered ++ [c] }
      | _ => none
  | .candTest =>
      match s.agent with
      | .cand c =>
          match s.pool with
          | some l =>
              if s.poolSize > 0 then some { s with pool := some (l ++ [c]), agent := .idle }
              else some { s with agent := .direct c }
          | none => some { s with agent := .direct c }
      | _ => none
  | .candEmit =>
      match s.agent with
      | .direct c => some { s with emitted := s.emitted ++ [some c], agent := .idle }
      | _ => none
  | .nilBegin =>
      match s.agent with
      | .idle => some { s with gstate := .complete, agent := .nilGap }
      | _ => none
  | .nilTest =>
      match s.agent with
      | .nilGap =>
          if poolActive s = true ∨ s.inFlight > 0 ∨ s.signaled = true then some { s with agent := .done }
          else some { s with signaled := true, agent := .nilEmit }
      | _ => none
  | .nilEmit =>
      match s.agent with
      | .nilEmit => some { s with emitted := s.emitted ++ [none], agent := .done }
      | _ => none
  | .flushBegin f =>
      match s.flushers[f]? with
      | some .idle =>
          some { s with pool := none, poolSize := 0, inFlight := s.inFlight + 1,
                        flushers := s.flushers.set f (.emitting (s.pool.getD [])) }
      | _ => none
  | .flushEmit f =>
      match s.flushers[f]? with
      | some (.emitting (c :: rest)) =>
          some { s with emitted := s.emitted ++ [some c], flushers := s.flushers.set f (.emitting rest) }
      | _ => none
  | .flushEnd f =>
      match s.flushers[f]? with
      | some (.emitting []) =>
          let n := s.inFlight - 1
          if n = 0 ∧ s.signaled = false ∧ s.gstate = .complete then
            some { s with inFlight := n, signaled := true, flushers := s.flushers.set f .nilEmit }
          else some { s with inFlight := n, flushers := s.flushers.set f .done }
      | _ => none
  | .flushNil f =>
      match s.flushers[f]? with
      | some .nilEmit =>
          some { s with emitted := s.emitted ++ [none], flushers := s.flushers.set f .done }
      | _ => none
  | .regather =>
      if atRest s = true then
        some { s with gstate := .gathering, signaled := false, agent := .idle,
                      emitted := [], gathered := [], rounds := s.rounds + 1 }
      else none

/-- a gatherer with pool size `ps` and `nf` future `flushCandidates` calls -/
def init (ps nf : Nat) : St := { poolSize := ps, flushers := List.replicate nf .idle }

def runActions (s : St) : List Action → Option St
  | [] => some s
  | a :: as => (step s a).bind (fun s' => runActions s' as)

/-- every state some interleaving can reach -/
inductive Reachable (ps nf : Nat) : St → Prop
  | init : Reachable ps nf (init ps nf)
  | step {s s' : St} (a : Action) : Reachable ps nf s → step s a = some s' → Reachable ps nf s'

/-! ### derived notions used by the theorems -/

/-- how often the handler was invoked with candidate `c` -/
def timesReported (s : St) (c : Cand) : Nat := s.emitted.count (some c)

/-- how often the handler was invoked with nil -/
def timesNil (s : St) : Nat := s.emitted.count none

def heldA : APc → List Cand
  | .cand c => [c]
  | .direct c => [c]
  | _ => []

def heldF : FPc → List Cand
  | .emitting rest => rest
  | _ => []

def FPc.isEmitting : FPc → Bool
  | .emitting _ => true
  | _ => false

def FPc.isNilEmit : FPc → Bool
  | .nilEmit => true
  | _ => false

def APc.pastNil : APc → Bool
  | .nilGap => true
  | .nilEmit => true
  | .done => true
  | _ => false

end WebrtcVerif.Gather

namespace WebrtcVerif.Gather.Legacy

open WebrtcVerif.Gather

/-! ### the code before the repair (kept to show that the C24 statements separate the two versions)

    callback(nil):   setState(complete); lock; if poolSize > 0 && pool != nil { unlock; return }; unlock; handler(nil)
    flushCandidates: lock; cs = pool; pool = nil; poolSize = 0; unlock; st = State();
                     for c in cs { handler(c) }; if st == complete { handler(nil) }
    (candidate path as today) -/

inductive LPc
  | idle
  | swapped (cs : List Cand)                       -- took the pool, before reading the state
  | emitting (rest : List Cand) (sawComplete : Bool)
  | nilEmit
  | done
  deriving DecidableEq, Repr

structure LSt where
  gstate : GState := .gathering
  poolSize : Nat
  pool : Option (List Cand) := some []
  agent : APc := .idle
  flushers : List LPc := []
  emitted : List (Option Cand) := []
  gathered : List Cand := []
  deriving Repr, DecidableEq

def lstep (s : LSt) : Action → Option LSt
  | .candBegin c =>
      match s.agent with
      | .idle => if c ∈ s.gathered then none else some { s with agent := .cand c, gathered := s.gathered ++ [c] }
      | _ => none
  | .candTest =>
      match s.agent with
      | .cand c =>
          match s.pool with
          | some l =>
              if s.poolSize > 0 then some { s with pool := some (l ++ [c]), agent := .idle }
              else some { s with agent := .direct c }
          | none => some { s with agent := .direct c }
      | _ => none
  | .candEmit =>
      match s.agent with
      | .direct c => some { s with emitted := s.emitted ++ [some c], agent := .idle }
      | _ => none
  | .nilBegin =>
      match s.agent with
      | .idle => some { s with gstate := .complete, agent := .nilGap }
      | _ => none
  | .nilTest =>
      match s.agent with
      | .nilGap =>
          if s.poolSize > 0 ∧ s.pool.isSome = true then some { s with agent := .done }
          else some { s with agent := .nilEmit }
      | _ => none
  | .nilEmit =>
      match s.agent with
      | .nilEmit => some { s with emitted := s.emitted ++ [none], agent := .done }
      | _ => none
  | .flushBegin f =>
      match s.flushers[f]? with
      | some .idle =>
          some { s with pool := none, poolSize := 0, flushers := s.flushers.set f (.swapped (s.pool.getD [])) }
      | _ => none
  | .flushEmit f =>      -- (also: the read of State() right after the swap)
      match s.flushers[f]? with
      | some (.swapped cs) =>
          some { s with flushers := s.flushers.set f (.emitting cs (decide (s.gstate = .complete))) }
      | some (.emitting (c :: rest) b) =>
          some { s with emitted := s.emitted ++ [some c], flushers := s.flushers.set f (.emitting rest b) }
      | _ => none
  | .flushEnd f =>
      match s.flushers[f]? with
      | some (.emitting [] b) =>
          some { s with flushers := s.flushers.set f (if b then .nilEmit else .done) }
      | _ => none
  | .flushNil f =>
      match s.flushers[f]? with
      | some .nilEmit => some { s with emitted := s.emitted ++ [none], flushers := s.flushers.set f .done }
      | _ => none
  | .regather => none

def linit (ps nf : Nat) : LSt := { poolSize := ps, flushers := List.replicate nf .idle }

def lrun (s : LSt) : List Action → Option LSt
  | [] => some s
  | a :: as => (lstep s a).bind (fun s' => lrun s' as)

end WebrtcVerif.Gather.Legacy
