import WebrtcVerif.Model.ConnState
/-
  Model of peerconnection.go: close() (Close / GracefulClose), the isClosed guards of the mutating API
  entry points, and updateConnectionState as it is called concurrently by transport callbacks —
  property C21.

  Threads touch the shared state only in lock-delimited / atomic sections; each such section is one
  atomic `Action` of the transition system, and ANY interleaving of enabled actions of ANY number of
  close() callers, transport callbacks and API callers is allowed.

  close(shouldGracefullyClose = g), per caller:
    idle      first critical section (under pc.mu): already := isClosed.Swap(true); alreadyG := graceful flag;
              if g && !alreadyG { graceful flag := true }.  The continuation is fixed here (`Role`):
                !already              → main    (defer close(isCloseDone); if g defer close(isGracefulCloseDone); body)
                already && !g         → early   (return nil)
                already && g && alreadyG → waiter  (<-isGracefulCloseDone; return)
                already && g && !alreadyG → tailer  (<-isCloseDone; defer close(isGracefulCloseDone); graceful ops)
    body      signalingState := closed · stop transceivers · data channels := closed · SCTP stop · DTLS stop ·
              ICE stop (only if !g) · updateConnectionState · graceful ops (only if g) · stats/interceptor close,
              then the deferred channel closes in LIFO order.
  `pc.ops.GracefulClose()` is one terminating step here (the queue itself is C05's model).
  The graceful operations end with `d.GracefulClose()` of every data channel, which receives from the
  channel's `readLoopActive`: it blocks until that channel's read loop goroutine has ended — including a
  read loop that is busy inside the application's OnMessage handler (`LPc`, actions lDeliver/lReturn/lExit).

  updateConnectionState (after the repair): the aggregate is computed from a snapshot (`isClosed` read
  without a lock), then — under pc.mu — isClosed is re-read (closed dominates), compared with the stored
  state, and stored + notified on change.  `St.retest = false` switches the re-read off (the code before
  the repair / the mutation "drop the re-check"); every theorem is about `retest = true`.
-/
namespace WebrtcVerif.Close
open WebrtcVerif.ConnState

/-- which continuation of close() a caller took in its first critical section -/
inductive Role | none | early | waiter | tailer | main
  deriving DecidableEq, Repr

/-- program counter of a close() caller: the NEXT atomic step it will perform -/
inductive CPc
  | idle                 -- before the first critical section
  | cs1                  -- after it (yield point close.cs1); next: branch on the role
  | gWait | gWoke        -- `<-pc.isGracefulCloseDone`
  | cWait | cWoke        -- `<-pc.isCloseDone`
  | bSig | bMedia | bChannels | bSctp | bDtls | bIce | bUpdate
  | ucs (c : Pc)         -- inside updateConnectionState: `c` computed, critical section not yet entered
  | bGraceful            -- doGracefulCloseOps: ICE GracefulStop, ops.GracefulClose
  | bJoin                -- … then d.GracefulClose() of every data channel: `<-readLoopActive` (only if g)
  | bFinish
  | tail                 -- tailer: doGracefulCloseOps, first part
  | tJoin                -- tailer: the data-channel joins
  | dG                   -- deferred close(isGracefulCloseDone) pending
  | dC                   -- deferred close(isCloseDone) pending
  | returned
  deriving DecidableEq, Repr

structure Closer where
  g : Bool                       -- shouldGracefullyClose
  role : Role := .none
  pc : CPc := .idle
  deriving DecidableEq, Repr

/-- a transport callback (ICE agent notifier, startTransports) inside updateConnectionState -/
inductive UPc
  | idle
  | computed (c : Pc)
  | done
  deriving DecidableEq, Repr

/-- a data channel's read loop goroutine (`go d.readLoop()`), started by the connection when the channel opened -/
inductive LPc
  | reading        -- blocked in ReadDataChannel
  | handler        -- inside the application's OnMessage handler (runs on the read loop goroutine)
  | exited         -- returned: `close(readLoopActive)` done
  deriving DecidableEq, Repr

/-- the body steps of close(), in source order -/
inductive BStep | sig | media | channels | sctp | dtls | ice | update | store | graceful | join | finish
  deriving DecidableEq, Repr

def BStep.canon : List BStep :=
  [.sig, .media, .channels, .sctp, .dtls, .ice, .update, .store, .graceful, .join, .finish]

/-- the mutating API entry points that test isClosed -/
inductive Api
  | createOffer | createAnswer | setLocalDescription | setRemoteDescription | addTrack | removeTrack
  | addTransceiverFromKind | addTransceiverFromTrack | createDataChannel | setConfiguration
  deriving DecidableEq, Repr

def Api.all : List Api := [.createOffer, .createAnswer, .setLocalDescription, .setRemoteDescription, .addTrack,
  .removeTrack, .addTransceiverFromKind, .addTransceiverFromTrack, .createDataChannel, .setConfiguration]

inductive ApiOut
  | invalidStateClosed      -- &rtcerr.InvalidStateError{Err: ErrConnectionClosed}
  | invalidStateNoRemote    -- &rtcerr.InvalidStateError{Err: ErrNoRemoteDescription}
  | identityNotImplemented  -- errIdentityProviderNotImplemented (pc.idpLoginURL != nil; the field is never assigned)
  | proceeds                -- passed the entry guards
  deriving DecidableEq, Repr

def ApiOut.isInvalidState : ApiOut → Bool
  | .invalidStateClosed | .invalidStateNoRemote => true
  | _ => false

structure ApiEnv where
  useIdentity : Bool := false
  hasRemoteDescription : Bool := false
  deriving DecidableEq, Repr

/-- the entry guards, in source order -/
def apiOutcome (isClosed : Bool) (env : ApiEnv) : Api → ApiOut
  | .createOffer =>            -- switch { case useIdentity; case isClosed }
      if env.useIdentity then .identityNotImplemented
      else if isClosed then .invalidStateClosed else .proceeds
  | .createAnswer =>           -- switch { case remoteDesc == nil; case useIdentity; case isClosed; … }
      if !env.hasRemoteDescription then .invalidStateNoRemote
      else if env.useIdentity then .identityNotImplemented
      else if isClosed then .invalidStateClosed else .proceeds
  | _ => if isClosed then .invalidStateClosed else .proceeds

structure St where
  retest : Bool := true              -- updateConnectionState re-reads isClosed under pc.mu (the repaired code)
  isClosed : Bool := false
  graceful : Bool := false           -- pc.isGracefullyClosingOrClosed
  closeDone : Bool := false          -- channel isCloseDone is closed
  gracefulDone : Bool := false       -- channel isGracefulCloseDone is closed
  panicked : Bool := false           -- a close() of an already closed channel happened
  sigClosed : Bool := false          -- signalingState == closed
  conn : Pc := .new                  -- pc.connectionState
  notified : List Pc := []           -- values handed to `go handler(cs)`, in order
  ice : Ice := .new                  -- what pc.ICEConnectionState() / pc.dtlsTransport.State() return
  dtls : Dtls := .new
  mediaStopped : Bool := false
  channelsClosed : Bool := false
  sctpStopped : Bool := false
  dtlsStopped : Bool := false
  iceStops : Nat := 0                -- iceTransport.Stop() calls
  iceGracefulStops : Nat := 0        -- iceTransport.GracefulStop() calls
  opsCloses : Nat := 0               -- pc.ops.GracefulClose() calls
  interceptorCloses : Nat := 0
  bodyLog : List BStep := []         -- ghost: body steps executed, by whoever
  mainIdx : Option Nat := none       -- ghost: the caller that took the main continuation
  gOwner : Option Nat := none        -- ghost: the caller that set the graceful flag
  closers : List Closer := []
  updaters : List UPc := []
  loops : List LPc := []             -- the read loop goroutines of the open data channels
  apiLog : List (Api × ApiOut) := []
  negVersion : Nat := 0              -- bumped by every API call that passes its guards
  deriving Repr, DecidableEq

inductive Action
  | cstep (c : Nat)                          -- close() caller `c` performs its next atomic step
  | uCompute (u : Nat) (ice : Ice) (dtls : Dtls)   -- callback `u`: compute the aggregate from a snapshot
  | uStore (u : Nat)                         -- callback `u`: critical section (re-test, compare, store + notify)
  | api (a : Api) (env : ApiEnv)             -- an API call reaches its entry guards
  | env (ice : Ice) (dtls : Dtls)            -- the transports change state on their own
  | lDeliver (l : Nat)                       -- read loop `l`: a message arrives, the application's handler is entered
  | lReturn (l : Nat)                        -- read loop `l`: the application's handler returns
  | lExit (l : Nat)                          -- read loop `l`: ReadDataChannel fails (association stopped / stream closed); the goroutine ends
  deriving DecidableEq, Repr

/-- what the critical section at the end of updateConnectionState stores: the re-read isClosed dominates -/
def storeTarget (s : St) (c : Pc) : Pc := if s.retest && s.isClosed then Pc.closed else c

/-- the critical section at the end of updateConnectionState: compare; store + notify on change -/
def storeSection (s : St) (c : Pc) : St :=
  { s with conn := storeTarget s c,
           notified := if s.conn = storeTarget s c then s.notified else s.notified ++ [storeTarget s c] }

/-- doGracefulCloseOps with shouldGracefullyClose = g -/
def gracefulOps (s : St) (g : Bool) : St :=
  { s with iceGracefulStops := s.iceGracefulStops + (if g then 1 else 0),
           opsCloses := s.opsCloses + (if g then 1 else 0) }

/-- every read loop goroutine has ended (all `readLoopActive` channels are closed) -/
def allExited (ls : List LPc) : Bool := ls.all (· == .exited)

/-- where a caller goes when its function body returns: the deferred closes, LIFO -/
def afterBody (cl : Closer) : CPc :=
  if cl.g then .dG else if cl.role = .main then .dC else .returned

/-- one step of caller `c` (record `cl`) on the shared state; `none` = blocked / finished -/
def cstepFn (s : St) (c : Nat) (cl : Closer) : Option (St × Closer) :=
  match cl.pc with
  | .idle =>
      let already := s.isClosed
      let alreadyG := s.graceful
      let role : Role :=
        if !already then .main else if !cl.g then .early else if alreadyG then .waiter else .tailer
      some ({ s with isClosed := true, graceful := s.graceful || cl.g,
                     mainIdx := if !already then some c else s.mainIdx,
                     gOwner := if cl.g && !alreadyG then some c else s.gOwner },
            { cl with role, pc := .cs1 })
  | .cs1 =>
      match cl.role with
      | .early => some (s, { cl with pc := .returned })
      | .waiter => some (s, { cl with pc := .gWait })
      | .tailer => some (s, { cl with pc := .cWait })
      | .main => some (s, { cl with pc := .bSig })
      | .none => none
  | .gWait => if s.gracefulDone then some (s, { cl with pc := .gWoke }) else none
  | .gWoke => some (s, { cl with pc := .returned })
  | .cWait => if s.closeDone then some (s, { cl with pc := .cWoke }) else none
  | .cWoke => some (s, { cl with pc := .tail })
  | .tail => some (gracefulOps s cl.g, { cl with pc := .tJoin })
  | .tJoin =>      -- `<-readLoopActive` for every channel: blocks while a read loop is alive
      if cl.g && !allExited s.loops then none else some (s, { cl with pc := afterBody cl })
  | .bSig => some ({ s with sigClosed := true, bodyLog := s.bodyLog ++ [.sig] }, { cl with pc := .bMedia })
  | .bMedia => some ({ s with mediaStopped := true, bodyLog := s.bodyLog ++ [.media] }, { cl with pc := .bChannels })
  | .bChannels => some ({ s with channelsClosed := true, bodyLog := s.bodyLog ++ [.channels] }, { cl with pc := .bSctp })
  | .bSctp => some ({ s with sctpStopped := true, bodyLog := s.bodyLog ++ [.sctp] }, { cl with pc := .bDtls })
  | .bDtls => some ({ s with dtlsStopped := true, bodyLog := s.bodyLog ++ [.dtls] }, { cl with pc := .bIce })
  | .bIce =>
      some ({ s with iceStops := if cl.g then s.iceStops else s.iceStops + 1, bodyLog := s.bodyLog ++ [.ice] },
            { cl with pc := .bUpdate })
  | .bUpdate =>
      some ({ s with bodyLog := s.bodyLog ++ [.update] }, { cl with pc := .ucs (aggregate s.isClosed s.ice s.dtls) })
  | .ucs c =>
      let s := storeSection s c
      some ({ s with bodyLog := s.bodyLog ++ [.store] }, { cl with pc := .bGraceful })
  | .bGraceful =>
      let s := gracefulOps s cl.g
      some ({ s with bodyLog := s.bodyLog ++ [.graceful] }, { cl with pc := .bJoin })
  | .bJoin =>
      if cl.g && !allExited s.loops then none
      else some ({ s with bodyLog := s.bodyLog ++ [.join] }, { cl with pc := .bFinish })
  | .bFinish =>
      some ({ s with interceptorCloses := s.interceptorCloses + 1, bodyLog := s.bodyLog ++ [.finish] },
            { cl with pc := afterBody cl })
  | .dG =>
      some ({ s with gracefulDone := true, panicked := s.panicked || s.gracefulDone },
            { cl with pc := if cl.role = .main then .dC else .returned })
  | .dC =>
      some ({ s with closeDone := true, panicked := s.panicked || s.closeDone }, { cl with pc := .returned })
  | .returned => none

/-- one atomic step; `none` = the action is not enabled in this state -/
def step (s : St) : Action → Option St
  | .cstep c =>
      match s.closers[c]? with
      | none => none
      | some cl =>
        match cstepFn s c cl with
        | none => none
        | some (s', cl') => some { s' with closers := s'.closers.set c cl' }
  | .uCompute u ice dtls =>
      match s.updaters[u]? with
      | some .idle => some { s with updaters := s.updaters.set u (.computed (aggregate s.isClosed ice dtls)) }
      | _ => none
  | .uStore u =>
      match s.updaters[u]? with
      | some (.computed c) =>
          let s' := storeSection s c
          some { s' with updaters := s'.updaters.set u .done }
      | _ => none
  | .api a env =>
      let o := apiOutcome s.isClosed env a
      some { s with apiLog := s.apiLog ++ [(a, o)], negVersion := if o = .proceeds then s.negVersion + 1 else s.negVersion }
  | .env ice dtls => some { s with ice, dtls }
  | .lDeliver l =>      -- nothing is delivered once the SCTP association has been stopped
      match s.loops[l]? with
      | some .reading => if s.sctpStopped then none else some { s with loops := s.loops.set l .handler }
      | _ => none
  | .lReturn l =>
      match s.loops[l]? with
      | some .handler => some { s with loops := s.loops.set l .reading }
      | _ => none
  | .lExit l =>
      match s.loops[l]? with
      | some .reading => some { s with loops := s.loops.set l .exited }
      | _ => none

/-- `gs`: the `shouldGracefullyClose` flag of every future close() caller; `nu` transport callbacks;
    `c0`: the connection state at the point of setup where closing starts; `ls`: the read loop
    goroutines of the data channels open at that point (possibly busy in a handler) -/
def init (gs : List Bool) (nu : Nat) (c0 : Pc) (ls : List LPc := []) : St :=
  { conn := c0, closers := gs.map (fun g => { g }), updaters := List.replicate nu .idle, loops := ls }

def runActions (s : St) : List Action → Option St
  | [] => some s
  | a :: as => (step s a).bind (fun s' => runActions s' as)

/-- every state some interleaving can reach (repaired code: `retest = true`) -/
inductive Reachable (gs : List Bool) (nu : Nat) (c0 : Pc) : St → Prop
  | init (ls : List LPc) : Reachable gs nu c0 (init gs nu c0 ls)
  | step {s s' : St} (a : Action) : Reachable gs nu c0 s → step s a = some s' → Reachable gs nu c0 s'

/-! ### derived notions used by the theorems -/

/-- once `closed` has been reported, only `closed` follows -/
def closedFinal : List Pc → Bool
  | [] => true
  | x :: rest => if x = .closed then rest.all (· == .closed) else closedFinal rest

/-- steps a caller still has to take, along its longest continuation -/
def CPc.rank : CPc → Nat
  | .returned => 0
  | .dC => 1
  | .dG => 2
  | .bFinish => 3
  | .bJoin => 4
  | .bGraceful => 5
  | .ucs _ => 6
  | .bUpdate => 7
  | .bIce => 8
  | .bDtls => 9
  | .bSctp => 10
  | .bChannels => 11
  | .bMedia => 12
  | .bSig => 13
  | .tJoin => 3
  | .tail => 4
  | .cWoke => 5
  | .cWait => 6
  | .gWoke => 1
  | .gWait => 2
  | .cs1 => 14
  | .idle => 15

/-- steps a read loop goroutine still takes before it has ended (once nothing is delivered any more) -/
def LPc.rank : LPc → Nat
  | .handler => 2
  | .reading => 1
  | .exited => 0

def measure (s : St) : Nat := (s.closers.map (fun cl => cl.pc.rank)).sum

/-- … plus what the read loops still have to do -/
def loopMeasure (s : St) : Nat := (s.loops.map LPc.rank).sum

def CPc.isReturned : CPc → Bool
  | .returned => true
  | _ => false

def CPc.isIdle : CPc → Bool
  | .idle => true
  | _ => false

/-- the state the property calls final -/
def Final (s : St) : Prop := s.isClosed = true ∧ s.sigClosed = true ∧ s.conn = .closed

end WebrtcVerif.Close
