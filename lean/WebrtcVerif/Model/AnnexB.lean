import WebrtcVerif.Base.Bytes
/-
  Model of pkg/media/h264reader/h264reader.go and pkg/media/h265reader/h265reader.go — property C34
  (and the Annex-B part of C37).  The two Go files are the same program except for the SEI test and
  `parseHeader`; `Codec` selects between them.

  The reader is modelled as a byte machine over an explicit stream:

  * `Ev` is the result of one `stream.Read(tmpReadBuf)` call (`data c` = `(len c, nil)`, where `c = []` is
    the discouraged `(0, nil)`; `fail c isEOF` = `(len c, err)` — the Go code drops those `len c` bytes);
    after the event list is exhausted every `Read` returns `(0, io.EOF)`.
  * `fill`/`read` is `read(numToRead)`; `startsWithPrefix` is `bitStreamStartsWithH26xPrefix` after its
    `read(4)`; `processByte` is `processByte`; `scan`/`loop` is the `for` loop of `NextNAL` (`scan` runs it
    over the bytes already in `readBuffer`, `loop` refills from the stream exactly when `read(1)` would);
    `finish` is the code after the loop; `nextNAL` is `NextNAL`.
  * `nalBuffer` is kept REVERSED (`nalRev`): Go's amortised `append(nalBuffer, b)` is `b :: nalRev`,
    `nalBuffer[0:len-k]` is `nalRev.drop k`, and the unit handed out is `nalRev.reverse`.
  * Every Go index expression that could panic (`Data[0]`, `nalBuffer[0]`) is a `none`/`.panic` outcome
    here; `nextNAL_no_panic` proves it is never produced.

  The model mirrors the tree AFTER `fix: h264reader/h265reader skip an SEI unit at the end of the stream`
  (the SEI test in `finish`).
-/
namespace WebrtcVerif.AnnexB
open WebrtcVerif.Bytes

inductive Codec | h264 | h265
  deriving DecidableEq, Repr

/-- result of one `stream.Read` -/
inductive Ev
  | data (c : Bs)
  | fail (c : Bs) (isEOF : Bool)
  deriving DecidableEq, Repr

inductive Err
  | eof          -- io.EOF
  | notStream    -- errDataIsNotH264Stream / errDataIsNotH265Stream
  | other        -- an error of the stream other than io.EOF, passed through by the prefix phase
  deriving DecidableEq, Repr

/-- `NAL` of either package (`refIdc` is H.264 only; `layerId`, `tid` are H.265 only) -/
structure NAL where
  data : Bs
  forbidden : Bool
  refIdc : UInt8
  unitType : UInt8
  layerId : UInt8
  tid : UInt8
  deriving DecidableEq, Repr

/-- `newNal` (both packages initialise the type to the constant 0) -/
def newNal (d : Bs) : NAL :=
  { data := d, forbidden := false, refIdc := 0, unitType := 0, layerId := 0, tid := 0 }

/-- `newNal(data)` followed by `parseHeader()`; `none` = index out of range -/
def parseHeader : Codec → Bs → Option NAL
  | .h264, [] => none
  | .h264, f :: rest =>
    some { data := f :: rest, forbidden := ((f &&& 0x80) >>> 7) == 1, refIdc := (f &&& 0x60) >>> 5,
           unitType := (f &&& 0x1F) >>> 0, layerId := 0, tid := 0 }
  | .h265, f :: s :: rest =>
    some { data := f :: s :: rest, forbidden := (f &&& 0x80) != 0, refIdc := 0,
           unitType := (f &&& 0x7E) >>> 1, layerId := ((f &&& 0x01) <<< 5) ||| ((s &&& 0xF8) >>> 3),
           tid := s &&& 0x07 }
  | .h265, d => some (newNal d)       -- `len(h.Data) < 2`: returns without parsing

/-- the SEI test on `nalBuffer`: H.264 `nal.UnitType == NalUnitTypeSEI` after `parseHeader`; H.265
    `(nalBuffer[0] & 0x7E) >> 1` ∈ {PrefixSei, SuffixSei}.  `none` = index out of range. -/
def isSEI? : Codec → Bs → Option Bool
  | _, [] => none
  | .h264, f :: _ => some ((f &&& 0x1F) >>> 0 == 6)
  | .h265, f :: _ => some ((f &&& 0x7E) >>> 1 == 39 || (f &&& 0x7E) >>> 1 == 40)

structure Reader where
  codec : Codec
  includeSEI : Bool
  src : List Ev            -- what the stream will deliver
  readBuffer : Bs
  nalRev : Bs              -- nalBuffer, reversed
  zeros : Nat              -- countOfConsecutiveZeroBytes
  prefixParsed : Bool
  deriving DecidableEq, Repr

/-- `NewReader` / `NewReaderWithOptions(WithIncludeSEI(sei))` -/
def init (c : Codec) (sei : Bool) (src : List Ev) : Reader :=
  { codec := c, includeSEI := sei, src := src, readBuffer := [], nalRev := [], zeros := 0,
    prefixParsed := false }

/-! ### `read` -/

inductive Fill
  | ok (buf : Bs) (src : List Ev)
  | err (e : Err) (buf : Bs) (src : List Ev)
  deriving DecidableEq, Repr

/-- the loop `for len(reader.readBuffer) < numToRead { … }` of `read` -/
def fill (k : Nat) : Bs → List Ev → Fill
  | buf, [] => if k ≤ buf.length then .ok buf [] else .err .eof buf []
  | buf, ev :: rest =>
    if k ≤ buf.length then .ok buf (ev :: rest)
    else
      match ev with
      | .data [] => .ok buf rest                                -- n == 0: break
      | .data (x :: c) => fill k (buf ++ x :: c) rest
      | .fail _ isEOF => .err (if isEOF then .eof else .other) buf rest

/-- `read(numToRead)`: (data | error, readBuffer', stream') -/
def read (k : Nat) (buf : Bs) (src : List Ev) : Except Err Bs × Bs × List Ev :=
  match fill k buf src with
  | .err e buf' src' => (.error e, buf', src')
  | .ok buf' src' => (.ok (buf'.take k), buf'.drop k, src')

/-! ### prefix -/

inductive Prefix
  | ok (extra : Bs)      -- bytes appended to nalBuffer (the 4th byte after a 3-byte start code)
  | err (e : Err)
  deriving DecidableEq, Repr

/-- `bitStreamStartsWithH26xPrefix` on the `prefixBuffer` returned by `read(4)` -/
def startsWithPrefix : Bs → Prefix
  | [] => .err .eof
  | [_] => .err .notStream
  | [_, _] => .err .notStream
  | [a, b', c] => if a = 0 ∧ b' = 0 ∧ c = 1 then .err .eof else .err .notStream
  | a :: b' :: c :: d :: _ =>
    if a = 0 ∧ b' = 0 ∧ c = 1 then .ok [d]
    else if a = 0 ∧ b' = 0 ∧ c = 0 ∧ d = 1 then .ok []
    else .err .notStream

/-! ### the byte machine -/

/-- `countOfConsecutiveZeroBytesInPrefix` -/
def prefixZeros (z : Nat) : Nat := if 2 < z then 3 else 2

/-- `processByte`: (nalFound, nalBuffer', countOfConsecutiveZeroBytes') -/
def processByte (nr : Bs) (z : Nat) (x : Byte) : Bool × Bs × Nat :=
  if x = 0 then (false, nr, z + 1)
  else if x = 1 then
    if 2 ≤ z then
      if prefixZeros z < nr.length then (true, nr.drop (prefixZeros z), 0)   -- nalUnitLength > 0
      else (false, nr, 0)
    else (false, nr, 0)
  else (false, nr, 0)

inductive Scan
  | found (nr : Bs) (z : Nat) (rest : Bs)   -- `break` with a complete unit in nalBuffer
  | more (nr : Bs) (z : Nat)                -- readBuffer exhausted
  | panic
  deriving DecidableEq, Repr

/-- the `for` loop of `NextNAL` over the bytes already buffered -/
def scan (c : Codec) (sei : Bool) : Bs → Nat → Bs → Scan
  | nr, z, [] => .more nr z
  | nr, z, x :: rest =>
    match processByte nr z x with
    | (true, nr', z') =>
      match isSEI? c nr'.reverse with
      | none => .panic
      | some s => if !sei && s then scan c sei [] z' rest      -- nalBuffer = nil; continue
                  else .found nr' z' rest                      -- break
    | (false, nr', z') => scan c sei (x :: nr') z' rest         -- append(nalBuffer, readByte)

inductive Loop
  | found (nr : Bs) (z : Nat) (buf : Bs) (src : List Ev)
  | stop (nr : Bs) (z : Nat) (src : List Ev)   -- `break` on a read error or a zero-length read; readBuffer = []
  | panic
  deriving DecidableEq, Repr

/-- the `for` loop of `NextNAL`: when `readBuffer` is empty `read(1)` asks the stream once -/
def loop (c : Codec) (sei : Bool) : Bs → Nat → Bs → List Ev → Loop
  | nr, z, buf, [] =>
    match scan c sei nr z buf with
    | .panic => .panic
    | .found nr' z' rest => .found nr' z' rest []
    | .more nr' z' => .stop nr' z' []                           -- Read → io.EOF
  | nr, z, buf, ev :: src =>
    match scan c sei nr z buf with
    | .panic => .panic
    | .found nr' z' rest => .found nr' z' rest (ev :: src)
    | .more nr' z' =>
      match ev with
      | .data [] => .stop nr' z' src                            -- n != 1
      | .data (x :: ch) => loop c sei nr' z' (x :: ch) src
      | .fail _ _ => .stop nr' z' src                           -- err != nil

inductive Out
  | nal (n : NAL)
  | err (e : Err)
  | panic
  deriving DecidableEq, Repr

/-- what `NextNAL` returns after its `for` loop, `nr` being the (reversed) nalBuffer -/
def finishOut (c : Codec) (sei : Bool) (nr : Bs) : Out :=
  if nr.reverse.length = 0 then .err .eof
  else
    match isSEI? c nr.reverse with
    | none => .panic
    | some s =>
      if !sei && s then .err .eof            -- fix: the end-of-stream unit passes the SEI test too
      else
        match parseHeader c nr.reverse with
        | none => .panic
        | some n => .nal n

/-- `NextNAL` after its `for` loop (`c`, `sei` are the reader's immutable settings): nalBuffer is handed out
    (or was empty), so the reader is left with an empty one -/
def finish (c : Codec) (sei : Bool) (nr : Bs) (z : Nat) (buf : Bs) (src : List Ev) : Out × Reader :=
  (finishOut c sei nr,
   { codec := c, includeSEI := sei, src := src, readBuffer := buf, nalRev := [], zeros := z, prefixParsed := true })

/-- the `for` loop and what follows it; `z` = countOfConsecutiveZeroBytes on entry -/
def body (c : Codec) (sei : Bool) (z : Nat) (nr : Bs) (buf : Bs) (src : List Ev) : Out × Reader :=
  match loop c sei nr z buf src with
  | .panic => (.panic, { codec := c, includeSEI := sei, src := [], readBuffer := [], nalRev := [], zeros := 0,
                         prefixParsed := true })   -- the process is gone; a fixed dummy state
  | .found nr' z' buf' src' => finish c sei nr' z' buf' src'
  | .stop nr' z' src' => finish c sei nr' z' [] src'

/-- `NextNAL` -/
def nextNAL (r : Reader) : Out × Reader :=
  if r.prefixParsed then body r.codec r.includeSEI r.zeros r.nalRev r.readBuffer r.src
  else
    match read 4 r.readBuffer r.src with
    | (.error e, buf, src) => (.err e, { r with readBuffer := buf, src := src })
    | (.ok data, buf, src) =>
      match startsWithPrefix data with
      | .err e => (.err e, { r with readBuffer := buf, src := src })
      | .ok extra => body r.codec r.includeSEI r.zeros (extra ++ r.nalRev) buf src

/-! ### `read(1)` as used by the loop (documents that `scan`/`loop` are `read(1)` + `processByte`) -/

theorem read_one_cons (x : Byte) (buf : Bs) (src : List Ev) :
    read 1 (x :: buf) src = (.ok [x], buf, src) := by
  cases src <;> simp [read, fill]

theorem read_one_data (x : Byte) (ch : Bs) (src : List Ev) :
    read 1 [] (.data (x :: ch) :: src) = (.ok [x], ch, src) := by
  cases src <;> simp [read, fill]

theorem read_one_zero (src : List Ev) : read 1 [] (.data [] :: src) = (.ok [], [], src) := by
  simp [read, fill]

theorem read_one_fail (c : Bs) (e : Bool) (src : List Ev) :
    read 1 [] (.fail c e :: src) = (.error (if e then .eof else .other), [], src) := by
  simp [read, fill]

theorem read_one_end : read 1 [] [] = (.error .eof, [], []) := by
  simp [read, fill]

/-! ### progress: a returned unit costs at least one byte / stream event / buffered unit byte -/

def evSize : List Ev → Nat
  | [] => 0
  | .data c :: rest => 1 + c.length + evSize rest
  | .fail c _ :: rest => 1 + c.length + evSize rest

/-- termination measure of "call `NextNAL` until it fails" -/
def Reader.size (r : Reader) : Nat := r.readBuffer.length + evSize r.src + r.nalRev.length

theorem fill_size_ok (k : Nat) (buf : Bs) (src : List Ev) (buf' : Bs) (src' : List Ev)
    (h : fill k buf src = .ok buf' src') : buf'.length + evSize src' ≤ buf.length + evSize src := by
  induction src generalizing buf with
  | nil =>
    unfold fill at h
    split at h
    · cases h; simp
    · cases h
  | cons ev rest ih =>
    unfold fill at h
    split at h
    · cases h; simp
    · split at h
      · cases h; simp [evSize]
      · have := ih _ h
        simp [evSize] at this ⊢; omega
      · cases h

theorem fill_size_err (k : Nat) (buf : Bs) (src : List Ev) (e : Err) (buf' : Bs) (src' : List Ev)
    (h : fill k buf src = .err e buf' src') : buf'.length + evSize src' ≤ buf.length + evSize src := by
  induction src generalizing buf with
  | nil =>
    unfold fill at h
    split at h
    · cases h
    · cases h; simp
  | cons ev rest ih =>
    unfold fill at h
    split at h
    · cases h
    · split at h
      · cases h
      · have := ih _ h
        simp [evSize] at this ⊢; omega
      · cases h; simp only [evSize]; omega

theorem read_size_ok (k : Nat) (buf : Bs) (src : List Ev) (data buf' : Bs) (src' : List Ev)
    (h : read k buf src = (.ok data, buf', src')) :
    data.length + buf'.length + evSize src' ≤ buf.length + evSize src := by
  unfold read at h
  split at h
  · cases h
  · rename_i b s hf
    have := fill_size_ok _ _ _ _ _ hf
    cases h
    simp only [List.length_take, List.length_drop]
    omega

theorem read_size_err (k : Nat) (buf : Bs) (src : List Ev) (e : Err) (buf' : Bs) (src' : List Ev)
    (h : read k buf src = (.error e, buf', src')) :
    buf'.length + evSize src' ≤ buf.length + evSize src := by
  unfold read at h
  split at h
  · rename_i e' b s hf
    have := fill_size_err _ _ _ _ _ _ hf
    cases h
    omega
  · cases h
theorem startsWithPrefix_extra (d extra : Bs) (h : startsWithPrefix d = .ok extra) :
    extra.length ≤ d.length := by
  unfold startsWithPrefix at h
  split at h
  · cases h
  · cases h
  · cases h
  · split at h <;> cases h
  · split at h
    · cases h; simp
    · split at h
      · cases h; simp
      · cases h

theorem processByte_found (nr : Bs) (z : Nat) (x : Byte) (nr' : Bs) (z' : Nat)
    (h : processByte nr z x = (true, nr', z')) : nr' ≠ [] ∧ nr'.length ≤ nr.length ∧ z' = 0 := by
  unfold processByte at h
  split at h
  · cases h
  · split at h
    · split at h
      · split at h
        · rename_i hl
          cases h
          refine ⟨?_, by simp, rfl⟩
          intro hn
          have : (nr.drop (prefixZeros z)).length = 0 := by rw [hn]; rfl
          simp at this; omega
        · cases h
      · cases h
    · cases h

theorem processByte_notfound (nr : Bs) (z : Nat) (x : Byte) (nr' : Bs) (z' : Nat)
    (h : processByte nr z x = (false, nr', z')) : nr' = nr := by
  unfold processByte at h
  split at h
  · cases h; rfl
  · split at h
    · split at h
      · split at h
        · cases h
        · cases h; rfl
      · cases h; rfl
    · cases h; rfl

theorem isSEI?_cons (c : Codec) (f : Byte) (t : Bs) : ∃ s, isSEI? c (f :: t) = some s := by
  cases c <;> simp [isSEI?]

theorem isSEI?_ne_nil (c : Codec) (d : Bs) (h : d ≠ []) : ∃ s, isSEI? c d = some s := by
  cases d with
  | nil => exact absurd rfl h
  | cons f t => exact isSEI?_cons c f t

theorem parseHeader_ne_nil (c : Codec) (d : Bs) (h : d ≠ []) : ∃ n, parseHeader c d = some n := by
  cases d with
  | nil => exact absurd rfl h
  | cons f t =>
    cases c
    · simp [parseHeader]
    · cases t <;> simp [parseHeader]

theorem scan_found (c : Codec) (sei : Bool) (nr : Bs) (z : Nat) (buf nr' : Bs) (z' : Nat) (rest : Bs)
    (h : scan c sei nr z buf = .found nr' z' rest) : rest.length < buf.length ∧ nr' ≠ [] ∧ z' = 0 := by
  induction buf generalizing nr z with
  | nil => simp [scan] at h
  | cons x t ih =>
    unfold scan at h
    split at h
    · rename_i n1 z1 hp
      obtain ⟨hne, _, hz⟩ := processByte_found nr z x n1 z1 hp
      split at h
      · cases h
      · split at h
        · have := ih _ _ h
          simp only [List.length_cons]; exact ⟨by omega, this.2⟩
        · cases h; simp [hne, hz]
    · have := ih _ _ h
      simp only [List.length_cons]; exact ⟨by omega, this.2⟩

theorem scan_more (c : Codec) (sei : Bool) (nr : Bs) (z : Nat) (buf nr' : Bs) (z' : Nat)
    (h : scan c sei nr z buf = .more nr' z') : nr'.length ≤ nr.length + buf.length := by
  induction buf generalizing nr z with
  | nil => simp [scan] at h; simp [h.1]
  | cons x t ih =>
    unfold scan at h
    split at h
    · split at h
      · cases h
      · split at h
        · have := ih _ _ h
          simp only [List.length_cons, List.length_nil] at this ⊢; omega
        · cases h
    · rename_i n1 z1 hp
      have := processByte_notfound nr z x n1 z1 hp
      subst this
      have := ih _ _ h
      simp only [List.length_cons] at this ⊢; omega

theorem scan_no_panic (c : Codec) (sei : Bool) (nr : Bs) (z : Nat) (buf : Bs) :
    scan c sei nr z buf ≠ .panic := by
  induction buf generalizing nr z with
  | nil => simp [scan]
  | cons x t ih =>
    unfold scan
    split
    · rename_i n1 z1 hp
      obtain ⟨hne, _, _⟩ := processByte_found nr z x n1 z1 hp
      obtain ⟨s, hs⟩ := isSEI?_ne_nil c n1.reverse (by simpa using hne)
      rw [hs]
      simp only
      split
      · exact ih _ _
      · simp
    · exact ih _ _
theorem loop_found (c : Codec) (sei : Bool) (nr : Bs) (z : Nat) (buf : Bs) (src : List Ev)
    (nr' : Bs) (z' : Nat) (buf' : Bs) (src' : List Ev)
    (h : loop c sei nr z buf src = .found nr' z' buf' src') :
    buf'.length + evSize src' < buf.length + evSize src ∧ nr' ≠ [] ∧ z' = 0 := by
  induction src generalizing nr z buf with
  | nil =>
    unfold loop at h
    split at h
    · cases h
    · rename_i hs
      have := scan_found _ _ _ _ _ _ _ _ hs
      cases h
      exact ⟨by simp [evSize]; omega, this.2⟩
    · cases h
  | cons ev src ih =>
    unfold loop at h
    split at h
    · cases h
    · rename_i hs
      have := scan_found _ _ _ _ _ _ _ _ hs
      cases h
      exact ⟨by omega, this.2⟩
    · split at h
      · cases h
      · have := ih _ _ _ h
        simp only [evSize, List.length_cons] at this ⊢
        exact ⟨by omega, this.2⟩
      · cases h

theorem loop_stop (c : Codec) (sei : Bool) (nr : Bs) (z : Nat) (buf : Bs) (src : List Ev)
    (nr' : Bs) (z' : Nat) (src' : List Ev)
    (h : loop c sei nr z buf src = .stop nr' z' src') :
    nr'.length + evSize src' ≤ nr.length + buf.length + evSize src := by
  induction src generalizing nr z buf with
  | nil =>
    unfold loop at h
    split at h
    · cases h
    · cases h
    · rename_i hs
      have := scan_more _ _ _ _ _ _ _ hs
      cases h
      simp [evSize]; omega
  | cons ev src ih =>
    unfold loop at h
    split at h
    · cases h
    · cases h
    · rename_i hs
      have := scan_more _ _ _ _ _ _ _ hs
      split at h
      · cases h; simp only [evSize, List.length_nil]; omega
      · have := ih _ _ _ h
        simp only [evSize, List.length_cons] at this ⊢
        omega
      · cases h; simp only [evSize]; omega

theorem loop_no_panic (c : Codec) (sei : Bool) (nr : Bs) (z : Nat) (buf : Bs) (src : List Ev) :
    loop c sei nr z buf src ≠ .panic := by
  induction src generalizing nr z buf with
  | nil =>
    unfold loop
    have := scan_no_panic c sei nr z buf
    split <;> simp_all
  | cons ev src ih =>
    unfold loop
    have := scan_no_panic c sei nr z buf
    split
    · simp_all
    · simp
    · split
      · simp
      · exact ih _ _ _
      · simp

theorem finish_nal (c : Codec) (sei : Bool) (nr : Bs) (z : Nat) (buf : Bs) (src : List Ev) (n : NAL) (r' : Reader)
    (h : finish c sei nr z buf src = (.nal n, r')) :
    nr ≠ [] ∧ r' = { codec := c, includeSEI := sei, src := src, readBuffer := buf, nalRev := [], zeros := z,
                     prefixParsed := true } := by
  unfold finish at h
  injection h with h1 h2
  refine ⟨?_, h2.symm⟩
  intro hn
  simp [finishOut, hn] at h1

theorem finishOut_no_panic (c : Codec) (sei : Bool) (nr : Bs) : finishOut c sei nr ≠ .panic := by
  unfold finishOut
  split
  · simp
  · rename_i hne
    have hne' : nr.reverse ≠ [] := by intro hn; simp [hn] at hne
    obtain ⟨s, hs⟩ := isSEI?_ne_nil c _ hne'
    obtain ⟨n, hn⟩ := parseHeader_ne_nil c _ hne'
    simp only [hs, hn]
    split <;> simp

theorem finish_no_panic (c : Codec) (sei : Bool) (nr : Bs) (z : Nat) (buf : Bs) (src : List Ev) :
    (finish c sei nr z buf src).1 ≠ .panic := finishOut_no_panic c sei nr

theorem body_progress (c : Codec) (sei : Bool) (z : Nat) (nr buf : Bs) (src : List Ev) (n : NAL) (r' : Reader)
    (h : body c sei z nr buf src = (.nal n, r')) : r'.size < nr.length + buf.length + evSize src := by
  unfold body at h
  split at h
  · cases h
  · rename_i hloop
    have hl := loop_found _ _ _ _ _ _ _ _ _ _ hloop
    obtain ⟨_, hr⟩ := finish_nal _ _ _ _ _ _ _ _ h
    subst hr
    simp only [Reader.size, List.length_nil]
    omega
  · rename_i nr' z' src' hloop
    have hl := loop_stop _ _ _ _ _ _ _ _ _ hloop
    obtain ⟨hne, hr⟩ := finish_nal _ _ _ _ _ _ _ _ h
    subst hr
    have : 0 < nr'.length := List.length_pos_iff.mpr hne
    simp only [Reader.size, List.length_nil]
    omega

/-- A `NextNAL` call that returns a unit strictly decreases `Reader.size`. -/
theorem nextNAL_progress (r : Reader) (n : NAL) (r' : Reader) (h : nextNAL r = (.nal n, r')) :
    r'.size < r.size := by
  unfold nextNAL at h
  split at h
  · have := body_progress _ _ _ _ _ _ _ _ h
    simp only [Reader.size] at this ⊢; omega
  · split at h
    · cases h
    · rename_i data buf src hread
      have hrd := read_size_ok _ _ _ _ _ _ hread
      split at h
      · cases h
      · rename_i extra hpre
        have := body_progress _ _ _ _ _ _ _ _ h
        have := startsWithPrefix_extra _ _ hpre
        simp only [Reader.size, List.length_append] at *
        omega

theorem body_no_panic (c : Codec) (sei : Bool) (z : Nat) (nr buf : Bs) (src : List Ev) :
    (body c sei z nr buf src).1 ≠ .panic := by
  unfold body
  have hl := loop_no_panic c sei nr z buf src
  split
  · simp_all
  · exact finish_no_panic _ _ _ _ _ _
  · exact finish_no_panic _ _ _ _ _ _

/-- No Go index expression of `NextNAL` is ever out of range, whatever the bytes and the chunking. -/
theorem nextNAL_no_panic (r : Reader) : (nextNAL r).1 ≠ .panic := by
  unfold nextNAL
  split
  · exact body_no_panic _ _ _ _ _ _
  · split
    · simp
    · split
      · simp
      · exact body_no_panic _ _ _ _ _ _

/-! ### read until `NextNAL` fails -/

/-- how the sequence of `NextNAL` calls ended -/
inductive End
  | err (e : Err)
  | panic
  deriving DecidableEq, Repr

/-- call `NextNAL` until it returns an error: the units returned and the final error -/
def readAll (r : Reader) : List NAL × End :=
  match h : nextNAL r with
  | (.nal n, r') =>
    have : r'.size < r.size := nextNAL_progress r n r' h
    let (ns, e) := readAll r'
    (n :: ns, e)
  | (.err e, _) => ([], .err e)
  | (.panic, _) => ([], .panic)
termination_by r.size

theorem readAll_eq (r : Reader) : readAll r =
    match nextNAL r with
    | (.nal n, r') => (n :: (readAll r').1, (readAll r').2)
    | (.err e, _) => ([], .err e)
    | (.panic, _) => ([], .panic) := by
  rw [readAll]
  split <;> simp [*]

/-! ### the writer side and stream abstractions used by the theorems -/

/-- Annex-B start code: 4-byte (`true`) or 3-byte (`false`) -/
def startCode (four : Bool) : Bs := if four then [0, 0, 0, 1] else [0, 0, 1]

/-- a sequence of units, each behind its start code -/
def frame : List (Bool × Bs) → Bs
  | [] => []
  | (w, n) :: rest => startCode w ++ n ++ frame rest

/-- the bytes a stream delivers -/
def flat : List Ev → Bs
  | [] => []
  | .data c :: rest => c ++ flat rest
  | .fail c _ :: rest => c ++ flat rest

/-- a stream that delivers only non-empty chunks without error, then io.EOF -/
def clean : List Ev → Bool
  | [] => true
  | .data (_ :: _) :: rest => clean rest
  | _ => false

/-- the same reader with everything the (clean) stream will deliver already in `readBuffer` -/
def Reader.flatten (r : Reader) : Reader := { r with readBuffer := r.readBuffer ++ flat r.src, src := [] }

/-- the unit is dropped by the reader's SEI test -/
def skip (c : Codec) (sei : Bool) (d : Bs) : Bool := !sei && (isSEI? c d == some true)

/-- the `NAL` value `NextNAL` builds for unit bytes `d` -/
def nalOf (c : Codec) (d : Bs) : NAL := (parseHeader c d).getD (newNal d)

end WebrtcVerif.AnnexB
