/-
  Model of track_local_static.go: TrackLocalStaticSample.WriteSample / GeneratePadding / Bind (property C28)
  together with the part of pion/rtp's packetizer and sequencer it drives (Packetize, SkipSamples,
  GeneratePadding, NextSequenceNumber — external code, modelled as assumed and exercised by the
  correspondence run).

  `WriteSample` computes in `float64`.  The model is written once, over an abstract arithmetic `Arith R`
  for the type `R` of `tickF`, `remainder`, `dropTotal`, `curTotal`, and is instantiated twice:
    * `exact`  — R = Nat, a value `x` standing for the real number x / 10⁹ (durations are integer
                 nanoseconds, so every quantity in WriteSample is such a fraction): no rounding at all;
    * `f64`    — R = F64, IEEE-754 binary64 with round-to-nearest-even on every operation, in the order
                 the Go code performs them (amd64: no fused multiply-add).
  Sequence numbers and the "one timestamp per sample" structure do not depend on `R`.
-/
namespace WebrtcVerif.SampleTrack

def G : Nat := 1000000000       -- nanoseconds per second
def M32 : Nat := 4294967296     -- 2^32
def M16 : Nat := 65536          -- 2^16

/-! ### IEEE-754 binary64, non-negative finite values (all WriteSample ever sees for non-negative durations) -/

/-- the value `m · 2^e`; normal form: `m = 0 ∧ e = 0` or `2^52 ≤ m < 2^53` -/
structure F64 where
  m : Nat
  e : Int
  deriving DecidableEq, Repr, Inhabited

namespace F64

def zero : F64 := ⟨0, 0⟩

def pow2 (k : Int) : Nat := 2 ^ k.toNat

/-- round-to-nearest-even of the rational `num / den` (den > 0) to 53 significant bits.
    Subnormals and overflow are outside the range reached here (|exponent| stays far below 1000). -/
def round (num den : Nat) : F64 :=
  if num = 0 ∨ den = 0 then zero else
  -- first guess of the exponent: num/den·2^(-e0) ∈ (2^51, 2^53)
  let e0 : Int := (num.log2 : Int) - (den.log2 : Int) - 52
  let q0 := (num * pow2 (-e0)) / (den * pow2 e0)
  let e : Int := if q0 < 2 ^ 52 then e0 - 1 else e0
  let n := num * pow2 (-e)
  let d := den * pow2 e
  let q := n / d
  let r := n % d
  let q := if 2 * r > d ∨ (2 * r = d ∧ q % 2 = 1) then q + 1 else q
  if q = 2 ^ 53 then ⟨2 ^ 52, e + 1⟩ else ⟨q, e⟩

/-- numerator and denominator of the exact value -/
def num (x : F64) : Nat := x.m * pow2 x.e
def den (x : F64) : Nat := pow2 (-x.e)

def ofNat (n : Nat) : F64 := round n 1
def add (x y : F64) : F64 := round (x.num * y.den + y.num * x.den) (x.den * y.den)
/-- `x - y` for `y ≤ x` (the only use); a negative result would be outside this type and is clamped to 0 -/
def sub (x y : F64) : F64 := round (x.num * y.den - y.num * x.den) (x.den * y.den)
def mul (x y : F64) : F64 := round (x.num * y.num) (x.den * y.den)
def div (x y : F64) : F64 := round (x.num * y.den) (x.den * y.num)

/-- `math.Modf`: integer part (as a natural number) and fractional part; both are exact -/
def floor (x : F64) : Nat := x.num / x.den
def frac (x : F64) : F64 := round (x.num - x.floor * x.den) x.den

end F64

/-! ### the arithmetic WriteSample is written over -/

structure Arith (R : Type) where
  zero : R
  /-- `tickF := sample.Duration.Seconds() * clockRate` for a duration in nanoseconds -/
  tick : (durNanos rate : Nat) → R
  /-- `tickF*float64(n) + remainder` -/
  mulAdd : R → Nat → R → R
  /-- `tickF + remainder` -/
  add : R → R → R
  /-- `splitTicks(total)`: whole ticks modulo 2^32, and the fraction of a tick carried over -/
  split : R → Nat × R

/-- exact arithmetic: `x : Nat` stands for `x / 10⁹` -/
def exact : Arith Nat where
  zero := 0
  tick := fun d r => d * r
  mulAdd := fun t n rem => t * n + rem
  add := fun t rem => t + rem
  split := fun x => ((x / G) % M32, x % G)

/-- `time.Duration.Seconds()`: `float64(d / 1e9) + float64(d % 1e9) / 1e9` -/
def secondsF (d : Nat) : F64 := F64.add (F64.ofNat (d / G)) (F64.div (F64.ofNat (d % G)) (F64.ofNat G))

def f64 : Arith F64 where
  zero := F64.zero
  tick := fun d r => F64.mul (secondsF d) (F64.ofNat r)
  mulAdd := fun t n rem => F64.add (F64.mul t (F64.ofNat n)) rem
  add := F64.add
  -- whole, frac := math.Modf(total); uint32(math.Mod(whole, 1<<32)), frac
  split := fun x => (x.floor % M32, x.frac)

/-! ### packetizer + sequencer + TrackLocalStaticSample state -/

structure St (R : Type) where
  /-- `codec.ClockRate` -/
  rate : Nat
  /-- the sequencer's counter (a `uint64` in pion/rtp, never reduced): the next `NextSequenceNumber()`
      returns `seq % 2^16` -/
  seq : Nat
  /-- `packetizer.Timestamp` -/
  ts : Nat
  /-- `s.remainder` -/
  rem : R

structure Pkt where
  seq : Nat
  ts : Nat
  marker : Bool
  padding : Bool := false
  deriving DecidableEq, Repr, Inhabited

/-- One `media.Sample` as WriteSample sees it.  `n` is the number of payloads the payloader returned
    for `Data` (external; 0 when `Data` is empty, in which case Packetize only advances the timestamp). -/
structure Sample where
  dur : Nat
  dropped : Nat
  n : Nat
  deriving DecidableEq, Repr, Inhabited

/-- `Packetize`: `n` packets sharing the current timestamp, consecutive sequence numbers, marker on the
    last one; then `Timestamp += samples`. -/
def packetize (seq ts n : Nat) : List Pkt :=
  (List.range n).map (fun j => { seq := (seq + j) % M16, ts := ts, marker := j + 1 == n })

/-- `WriteSample`, statement by statement. -/
def writeSample {R : Type} (A : Arith R) (s : St R) (x : Sample) : St R × List Pkt :=
  -- for i := 0; i < PrevDroppedPackets; i++ { sequencer.NextSequenceNumber() }
  let seq1 := s.seq + x.dropped
  let tickF := A.tick x.dur s.rate
  -- if PrevDroppedPackets > 0 { … packetizer.SkipSamples(dropTicks) }
  let (ts1, rem1) :=
    if x.dropped > 0 then
      let d := A.split (A.mulAdd tickF x.dropped s.rem)
      ((s.ts + d.1) % M32, d.2)
    else (s.ts, s.rem)
  let c := A.split (A.add tickF rem1)
  let curTicks := c.1
  let rem2 := c.2
  -- packets := packetizer.Packetize(sample.Data, curTicks)
  ({ s with seq := seq1 + x.n, ts := (ts1 + curTicks) % M32, rem := rem2 }, packetize seq1 ts1 x.n)

/-- `GeneratePadding(k)`: `k` padding-only packets at the current timestamp, which does not advance. -/
def generatePadding {R : Type} (s : St R) (k : Nat) : St R × List Pkt :=
  ({ s with seq := s.seq + k },
   (List.range k).map (fun j => { seq := (s.seq + j) % M16, ts := s.ts, marker := false, padding := true }))

inductive Op
  | sample (x : Sample)
  | padding (k : Nat)
  /-- a further `Bind` (the packetizer exists already: nothing is reset) or an `Unbind` of that context -/
  | rebind
  deriving DecidableEq, Repr

def step {R : Type} (A : Arith R) (s : St R) : Op → St R × List Pkt
  | .sample x => writeSample A s x
  | .padding k => generatePadding s k
  | .rebind => (s, [])

/-- packets per op, in order -/
def run {R : Type} (A : Arith R) : St R → List Op → St R × List (List Pkt)
  | s, [] => (s, [])
  | s, o :: os =>
    let r1 := step A s o
    let r2 := run A r1.1 os
    (r2.1, r1.2 :: r2.2)

/-- state after `Bind`: `WithRTPTimestamp(ts0)`, `NewFixedSequencer(seq0)`, `remainder = 0` -/
def init {R : Type} (A : Arith R) (rate ts0 seq0 : Nat) : St R :=
  { rate, seq := seq0, ts := ts0 % M32, rem := A.zero }

/-! ### payloaders (pion/rtp codecs, `outboundMTU - 12 = 1188`): how many payloads for `len` bytes -/

inductive Payloader
  | opus            -- one payload
  | g7xx            -- G711 / G722: chunks of the MTU
  | vp8             -- VP8 with EnablePictureID: chunks of MTU − header size, which depends on the picture id
  | chunk (k : Nat) -- the harness's own payloader (WithPayloader): chunks of k bytes, none at all for k = 0
  deriving DecidableEq, Repr

def ceilDiv (a b : Nat) : Nat := (a + b - 1) / b

/-- returns the payload count and the payloader's next picture id -/
def payloadCount (p : Payloader) (pictureId len : Nat) : Nat × Nat :=
  if len = 0 then (0, pictureId) else    -- Packetize guards the empty payload: the payloader is not called
  match p with
  | .opus => (1, pictureId)
  | .g7xx => (ceilDiv len 1188, pictureId)
  | .vp8 =>
    let hs := if pictureId = 0 then 1 else if pictureId < 128 then 3 else 4
    (ceilDiv len (1188 - hs), (pictureId + 1) % 32768)
  | .chunk k => (if k = 0 then 0 else ceilDiv len k, pictureId)

end WebrtcVerif.SampleTrack
