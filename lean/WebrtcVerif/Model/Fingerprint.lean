/-
  Model of the DTLS fingerprint path of pion/webrtc (property C14).

    sdp.go            extractBundleID, extractFingerprint
    dtlstransport.go  verifyPeerCertificateFunc, validateFingerPrint, prepareStart (certificates[0]),
                      start / completeStart / failStart (state), NewDTLSTransport (certificate list)
    certificate.go    Certificate.GetFingerprints, Certificate.Equals
    peerconnection.go initConfiguration / SetConfiguration (Certificates), generate*Description
                      (Certificates[0].GetFingerprints()), startTransports (DTLSParameters built from the
                      one extracted fingerprint), sctptransport.go Start (needs dtlsTransport.conn)
    sdp.go            populateSDP / addDataMediaSection / addTransceiverSDP (ToUpper, session vs media level)
    pion/dtls pkg/crypto/fingerprint  HashFromString (name table), Fingerprint (hex rendering only)

  NOT modelled (parameters, trusted): the hash functions themselves (`D : Algo → DER → digest bytes` is an
  arbitrary function), x509 parsing (`RawCert` says whether rawCerts[0] parses), the DTLS handshake
  (`handshakeRest` says whether everything except our VerifyPeerCertificate callback succeeds; pion/dtls is
  trusted to call the callback on the certificate the peer presented and proved possession of, and to fail the
  handshake when the callback returns an error), SRTP/SCTP key derivation.

  Strings are `List Char` (valid UTF-8 text).  Core Lean only.
-/
namespace WebrtcVerif.Fingerprint

abbrev Str := List Char

/-! ### Go string helpers -/

/-- `strings.Split(s, " ")`: always at least one element. -/
def splitSpace : Str → List Str
  | [] => [[]]
  | c :: cs =>
    if c = ' ' then [] :: splitSpace cs
    else match splitSpace cs with
      | [] => [[c]]            -- unreachable: splitSpace is never empty
      | h :: t => (c :: h) :: t

/-- `strings.Contains(s, sub)` -/
def contains : Str → Str → Bool
  | [], sub => sub.isEmpty
  | c :: cs, sub => sub.isPrefixOf (c :: cs) || contains cs sub

def asciiLower (c : Char) : Char :=
  if 'A'.toNat ≤ c.toNat ∧ c.toNat ≤ 'Z'.toNat then Char.ofNat (c.toNat + 32) else c

def asciiUpper (c : Char) : Char :=
  if 'a'.toNat ≤ c.toNat ∧ c.toNat ≤ 'z'.toNat then Char.ofNat (c.toNat - 32) else c

/-- Representative of the Unicode simple-fold orbit, exact for every orbit that meets ASCII: `A..Z ↦ a..z`,
    KELVIN SIGN U+212A ↦ `k`, LATIN SMALL LETTER LONG S U+017F ↦ `s`.  Other characters are their own
    representative: for two *non-ASCII* characters of one orbit (É/é) the model answers "different" where
    `strings.EqualFold` answers "equal" — this cannot matter in `validateFingerPrint`, whose left operand
    is always a lower-case hex rendering (theorem `C14_match_is_ascii_caseless_equality`). -/
def foldKey (c : Char) : Char :=
  if c.toNat = 0x212A then 'k' else if c.toNat = 0x17F then 's' else asciiLower c

/-- `strings.EqualFold` (rune by rune; lengths in runes must agree). -/
def equalFold : Str → Str → Bool
  | [], [] => true
  | a :: as, b :: bs => foldKey a == foldKey b && equalFold as bs
  | _, _ => false

/-! ### pion/sdp attribute lookup and `extractFingerprint` (sdp.go) -/

structure Attr where
  key : Str
  value : Str
  deriving DecidableEq, Repr

/-- `SessionDescription.Attribute` / `MediaDescription.Attribute`: value of the first attribute with the key. -/
def attrValue : List Attr → Str → Option Str
  | [], _ => none
  | a :: rest, k => if a.key = k then some a.value else attrValue rest k

structure Desc where
  attrs : List Attr
  media : List (List Attr)
  deriving DecidableEq, Repr

def kFingerprint : Str := ['f','i','n','g','e','r','p','r','i','n','t']
def kMid : Str := ['m','i','d']
def kGroup : Str := ['g','r','o','u','p']
def sBundle : Str := ['B','U','N','D','L','E']

/-- `extractBundleID`: only the first `a=group` attribute is looked at; `BUNDLE` may occur anywhere in it;
    the id is the second space-separated token. -/
def extractBundleID (d : Desc) : Str :=
  let g := (attrValue d.attrs kGroup).getD []
  if !contains g sBundle then []
  else match splitSpace g with
    | _ :: id :: _ => id
    | _ => []

/-- the loop of the `bundleID != ""` branch; `fp` is the variable `fingerprint` -/
def bundleScan (bundleID : Str) : List (List Attr) → Str → Str
  | [], fp => fp
  | m :: ms, fp =>
    let fp' :=
      match attrValue m kMid with
      | some mid =>
        if mid = bundleID ∧ fp = [] then
          match attrValue m kFingerprint with
          | some v => v
          | none => fp
        else fp
      | none => fp
    bundleScan bundleID ms fp'

/-- the loop of the `else` branch ("first media section which has one") -/
def firstScan : List (List Attr) → Str → Str
  | [], fp => fp
  | m :: ms, fp =>
    let fp' :=
      match attrValue m kFingerprint with
      | some v => if fp = [] then v else fp
      | none => fp
    firstScan ms fp'

inductive ExtractErr | noFingerprint | invalidFingerprint
  deriving DecidableEq, Repr

/-- the raw attribute value `extractFingerprint` settles on before splitting it (`""` = none) -/
def chosenFingerprint (d : Desc) : Str :=
  let fp0 := (attrValue d.attrs kFingerprint).getD []
  if fp0 = [] then
    let bundleID := extractBundleID d
    if bundleID ≠ [] then bundleScan bundleID d.media [] else firstScan d.media []
  else fp0

/-- `extractFingerprint`: returns `(value, hash)` like the Go function (`parts[1], parts[0]`). -/
def extractFingerprint (d : Desc) : Except ExtractErr (Str × Str) :=
  let fp := chosenFingerprint d
  if fp = [] then .error .noFingerprint
  else match splitSpace fp with
    | [h, v] => .ok (v, h)
    | _ => .error .invalidFingerprint

/-! ### pion/dtls `fingerprint` package: name table and hex rendering -/

inductive Algo | md5 | sha1 | sha224 | sha256 | sha384 | sha512
  deriving DecidableEq, Repr, Inhabited

def Algo.all : List Algo := [.md5, .sha1, .sha224, .sha256, .sha384, .sha512]

def Algo.name : Algo → Str
  | .md5 => ['m','d','5']
  | .sha1 => ['s','h','a','-','1']
  | .sha224 => ['s','h','a','-','2','2','4']
  | .sha256 => ['s','h','a','-','2','5','6']
  | .sha384 => ['s','h','a','-','3','8','4']
  | .sha512 => ['s','h','a','-','5','1','2']

/-- `fingerprint.HashFromString`: map lookup of `strings.ToLower(s)`.  `ToLower` is modelled by its ASCII
    part: no non-ASCII character lower-cases to one of the characters of the six names. -/
def hashFromString (s : Str) : Option Algo :=
  let l := s.map asciiLower
  Algo.all.find? (fun a => a.name == l)

def hexDigit (n : Nat) : Char :=
  if n < 10 then Char.ofNat (48 + n) else Char.ofNat (87 + n)

def renderByte (b : UInt8) : Str := [hexDigit (b.toNat / 16), hexDigit (b.toNat % 16)]

/-- `fingerprint.Fingerprint` after hashing: `%x` of the digest with `:` between bytes (lower case);
    the empty digest renders as `""`. -/
def render : List UInt8 → Str
  | [] => []
  | [b] => renderByte b
  | b :: b' :: rest => renderByte b ++ ':' :: render (b' :: rest)

/-! ### DTLS transport: `validateFingerPrint`, `verifyPeerCertificateFunc` -/

structure DtlsFp where
  algorithm : Str
  value : Str
  deriving DecidableEq, Repr

inductive VerifyErr
  | noRemoteCertificate   -- errNoRemoteCertificate
  | badCertificate        -- x509.ParseCertificate failed
  | invalidHash           -- fingerprint.HashFromString failed
  | noMatch               -- errNoMatchingCertificateFingerprint
  deriving DecidableEq, Repr

/-- DER bytes of a certificate -/
abbrev Der := List UInt8

/-- The digest functions: an arbitrary parameter (SHA-2, SHA-1, MD5 are not modelled).  All six are linked
    into any binary that imports crypto/tls, so `Hash.Available()` is taken to be true. -/
abbrev Digest := Algo → Der → List UInt8

/-- `validateFingerPrint`: walks `remoteParameters.Fingerprints` in order; an unknown algorithm name aborts
    with an error (even if a later entry would match); the empty list matches nothing. -/
def validateFingerPrint (D : Digest) (cert : Der) : List DtlsFp → Except VerifyErr Unit
  | [] => .error .noMatch
  | fp :: rest =>
    match hashFromString fp.algorithm with
    | none => .error .invalidHash
    | some a =>
      if equalFold (render (D a cert)) fp.value then .ok ()
      else validateFingerPrint D cert rest

/-- what pion/dtls hands to the callback as `rawCerts` -/
inductive RawCert
  | none                    -- len(rawCerts) == 0
  | unparsable (raw : Der)  -- rawCerts[0] is rejected by x509.ParseCertificate
  | parsed (raw : Der)      -- rawCerts[0] parses; `raw` is cert.Raw
  deriving DecidableEq, Repr

/-- the closure returned by `verifyPeerCertificateFunc`; note the order: no certificate ⇒ error even when
    verification is disabled; the bypass comes before parsing. -/
def verifyPeerCertificate (disabled : Bool) (D : Digest) (fps : List DtlsFp) : RawCert → Except VerifyErr Unit
  | .none => .error .noRemoteCertificate
  | .unparsable _ => if disabled then .ok () else .error .badCertificate
  | .parsed raw => if disabled then .ok () else validateFingerPrint D raw fps

/-- `t.remoteCertificate` after the callback (what `GetRemoteCertificate` returns) -/
def recordedCertificate : RawCert → Option Der
  | .none => none
  | .unparsable raw => some raw
  | .parsed raw => some raw

/-! ### Certificates of a PeerConnection: advertised versus presented -/

structure Cert where
  raw : Der       -- x509Cert.Raw
  key : Nat       -- identity of the private key
  deriving DecidableEq, Repr

/-- `Certificate.GetFingerprints`: the algorithm list is `[SHA256]`; the index `i` is never advanced, so the
    result is `res[:1]` — with the one-element list that is the whole result. -/
def getFingerprints (D : Digest) (c : Cert) : List DtlsFp :=
  let algos : List Algo := [.sha256]
  let res := algos.map (fun a => ({ algorithm := a.name, value := render (D a c.raw) } : DtlsFp))
  res.take 1

/-- `strings.ToUpper` as applied to a hex rendering (ASCII only there) -/
def toUpper (s : Str) : Str := s.map asciiUpper

/-- value of the `a=fingerprint` attribute written by `WithFingerprint(algorithm, strings.ToUpper(value))` -/
def fingerprintAttr (f : DtlsFp) : Attr :=
  { key := kFingerprint, value := f.algorithm ++ ' ' :: toUpper f.value }

structure PC where
  /-- `pc.configuration.Certificates` -/
  cfgCerts : List Cert
  /-- `pc.dtlsTransport.certificates` -/
  dtlsCerts : List Cert
  deriving DecidableEq, Repr

/-- `NewPeerConnection`: `initConfiguration` copies the supplied certificates (expired ones are refused
    before) or generates one; `NewDTLSTransport(pc.configuration.Certificates)` copies that list (it only
    generates when handed an empty list). -/
def newPC (supplied : List Cert) (generated generated2 : Cert) : PC :=
  let cfg := if supplied.length > 0 then supplied else [generated]
  { cfgCerts := cfg, dtlsCerts := if cfg.length > 0 then cfg else [generated2] }

/-- `Certificate.Equals`: same key and `x509Cert.Equal` (byte equality of Raw) -/
def Cert.equals (a b : Cert) : Bool := a.key == b.key && a.raw == b.raw

def allEquals : List Cert → List Cert → Bool
  | [], [] => true
  | a :: as, b :: bs => a.equals b && allEquals as bs
  | _, _ => false

/-- `SetConfiguration` restricted to the Certificates field: a non-empty list must have the same length and
    be pairwise `Equals`, and then replaces `pc.configuration.Certificates`; the DTLS transport keeps its
    own list.  `none` = InvalidModificationError. -/
def setConfiguration (pc : PC) (certs : List Cert) : Option PC :=
  if certs.length > 0 then
    if certs.length ≠ pc.cfgCerts.length then none
    else if allEquals pc.cfgCerts certs then some { pc with cfgCerts := certs } else none
  else some pc

/-- a sequence of SetConfiguration calls; failed ones leave the PeerConnection unchanged -/
def setConfigurations (pc : PC) : List (List Cert) → PC
  | [] => pc
  | c :: cs => setConfigurations ((setConfiguration pc c).getD pc) cs

/-- `pc.configuration.Certificates[0].GetFingerprints()` (generateUnmatchedSDP / generateMatchedSDP);
    `none` = index out of range -/
def advertised (D : Digest) (pc : PC) : Option (List DtlsFp) :=
  pc.cfgCerts.head?.map (getFingerprints D)

/-- `prepareStart`: `t.certificates[0]` is what goes into `tls.Certificate` -/
def presented (pc : PC) : Option Cert := pc.dtlsCerts.head?

/-- where `populateSDP` puts the fingerprint attributes: every m-section (SetSDPMediaLevelFingerprints) or the
    session level; `sess` / `media` are the other attributes. -/
def localDescription (mediaLevel : Bool) (fps : List DtlsFp) (sess : List Attr) (media : List (List Attr)) : Desc :=
  if mediaLevel then { attrs := sess, media := media.map (· ++ fps.map fingerprintAttr) }
  else { attrs := sess ++ fps.map fingerprintAttr, media := media }

/-! ### The session: SetRemoteDescription → startTransports → DTLS start -/

inductive DtlsState | new | connecting | connected | closed | failed
  deriving DecidableEq, Repr

structure Outcome where
  /-- error returned by SetRemoteDescription from `extractFingerprint` -/
  srdError : Option ExtractErr
  /-- result of our VerifyPeerCertificate callback, if the handshake got that far -/
  verify : Option (Except VerifyErr Unit)
  dtls : DtlsState
  /-- `t.conn != nil` — precondition of `SCTPTransport.Start` and of the SRTP sessions (`startSRTP`) -/
  haveConn : Bool
  deriving Repr

/-- `startTransports` builds the DTLS parameters from the single extracted fingerprint -/
def remoteFingerprints (ex : Str × Str) : List DtlsFp := [{ algorithm := ex.2, value := ex.1 }]

/-- One PeerConnection applying the remote description `d` and then running DTLS against a peer that
    presents `peer`.  `handshakeRest` = every other condition of the handshake holds (trusted pion/dtls). -/
def session (disabled : Bool) (D : Digest) (d : Desc) (peer : RawCert) (handshakeRest : Bool) : Outcome :=
  match extractFingerprint d with
  | .error e => { srdError := some e, verify := none, dtls := .new, haveConn := false }
  | .ok ex =>
    let v := verifyPeerCertificate disabled D (remoteFingerprints ex) peer
    match v with
    | .ok () =>
      if handshakeRest then { srdError := none, verify := some v, dtls := .connected, haveConn := true }
      else { srdError := none, verify := some v, dtls := .failed, haveConn := false }
    | .error _ => { srdError := none, verify := some v, dtls := .failed, haveConn := false }

/-- application data (data-channel messages, RTP) from the peer that reaches the application: SCTP and SRTP
    exist only on top of `t.conn`. -/
def delivered {μ : Type} (o : Outcome) (sent : List μ) : List μ := if o.haveConn then sent else []

/-! ### Specification-side definitions (used by the theorems and by the judge) -/

/-- all `a=fingerprint` attribute values of a description, session level first -/
def allFingerprintValues (d : Desc) : List Str :=
  (d.attrs.filter (·.key = kFingerprint)).map (·.value)
    ++ (d.media.map (fun m => (m.filter (·.key = kFingerprint)).map (·.value))).flatten

/-- a certificate matches an `a=fingerprint` value `"<hash> <hex>"`: the hash name is one of the six
    registered names (any case) and the hex equals the digest rendering up to ASCII case -/
def matchesValue (D : Digest) (raw : Der) (v : Str) : Bool :=
  match splitSpace v with
  | [h, x] =>
    match hashFromString h with
    | some a => x.map asciiLower == render (D a raw)
    | none => false
  | _ => false

/-- the section has a non-empty `a=fingerprint` -/
def hasFp (m : List Attr) : Bool :=
  match attrValue m kFingerprint with
  | some (_ :: _) => true
  | _ => false

/-- precedence rule written with `find?` instead of the accumulator loops -/
def chosenSpec (d : Desc) : Str :=
  match attrValue d.attrs kFingerprint with
  | some v@(_ :: _) => v
  | _ =>
    let b := extractBundleID d
    let cands :=
      if b ≠ [] then d.media.filter (fun m => attrValue m kMid = some b) else d.media
    match cands.find? hasFp with
    | some m => (attrValue m kFingerprint).getD []
    | none => []

end WebrtcVerif.Fingerprint
