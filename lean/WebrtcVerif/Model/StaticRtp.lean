/-
  Model of track_local_static.go: TrackLocalStaticRTP.Bind / Unbind / WriteRTP / writeRTP (property C29),
  with the part of rtpcodec.go:codecParametersFuzzySearch and internal/fmtp that decides whether a
  context can be bound and which payload type it negotiates.

  Go pointers are made explicit where the property talks about them: `WriteRTP` receives the caller's
  `*rtp.Packet`, takes a packet from `rtpPacketPool`, assigns `*packet = *p` (a value copy of the struct:
  scalars are copied, the CSRC / Extensions / Payload slices are shared) and hands the *pooled* pointer to
  `writeRTP`, which mutates the packet it is given.  `Mem` holds both packets; `Ref` says which one a
  pointer designates, so "the caller's packet is never modified" is a statement about `Mem.caller`.
-/
namespace WebrtcVerif.StaticRtp

/-! ### rtp.Header / rtp.Packet -/

structure Ext where
  id : Nat
  payload : List UInt8
  deriving DecidableEq, Repr, Inhabited

structure Header where
  version : Nat := 0
  padding : Bool := false
  ext : Bool := false
  marker : Bool := false
  pt : Nat := 0
  seq : Nat := 0
  ts : Nat := 0
  ssrc : Nat := 0
  csrc : List Nat := []
  extProfile : Nat := 0
  exts : List Ext := []
  /-- `Header.PaddingSize` -/
  paddingSize : Nat := 0
  deriving DecidableEq, Repr, Inhabited

structure Packet where
  hdr : Header := {}
  payload : List UInt8 := []
  /-- the deprecated `Packet.PaddingSize` -/
  paddingSize : Nat := 0
  deriving DecidableEq, Repr, Inhabited

/-- `rtp.Packet{}` -/
def Packet.zero : Packet := {}

/-- pion/rtp's own reading of the two padding fields (`Packet.paddingSize()`): the header field wins
    when it is non-zero. -/
def Packet.effPadding (p : Packet) : Nat :=
  if p.hdr.paddingSize > 0 then p.hdr.paddingSize else p.paddingSize

/-! ### codec negotiation (rtpcodec.go:codecParametersFuzzySearch, internal/fmtp) -/

/-- text is a list of characters, so that every function below is structurally recursive and
    statements about concrete codecs can be decided by the kernel -/
abbrev Str := List Char

structure Codec where
  mime : Str
  clockRate : Nat
  channels : Nat
  fmtp : Str
  pt : Nat := 0
  deriving DecidableEq, Repr, Inhabited

/-- ASCII lower-casing.  `strings.EqualFold` / `strings.ToLower` agree with it on ASCII text, which is
    all the generators produce (non-ASCII folding is property C17). -/
def lower (s : Str) : Str := s.map Char.toLower

def eqFold (a b : Str) : Bool := lower a == lower b

def isSp (c : Char) : Bool :=
  c == ' ' || c == '\t' || c == '\n' || c == Char.ofNat 11 || c == Char.ofNat 12 || c == '\r'
    || c == Char.ofNat 0x85 || c == Char.ofNat 0xA0

def trimSpace (s : Str) : Str := ((s.dropWhile isSp).reverse.dropWhile isSp).reverse

/-- `strings.Split(s, sep)` for a one-character separator -/
def splitOn (sep : Char) : Str → List Str
  | [] => [[]]
  | c :: cs =>
    if c == sep then [] :: splitOn sep cs
    else match splitOn sep cs with
      | [] => [[c]]
      | h :: t => (c :: h) :: t

/-- `strings.SplitN(s, "=", 2)` -/
def splitEq (s : Str) : Str × Str := (s.takeWhile (· != '='), (s.dropWhile (· != '=')).drop 1)

/-- `fmtp.parseParameters`: a Go map, so a later duplicate key overwrites an earlier one — kept as an
    association list in source order and read with `lookupLast`. -/
def parseParameters (line : Str) : List (Str × Str) :=
  (splitOn ';' line).map (fun p => let kv := splitEq (trimSpace p); (lower kv.1, kv.2))

def lookupLast (ps : List (Str × Str)) (k : Str) : Option Str :=
  (ps.reverse.find? (·.1 == k)).map (·.2)

def audioOpus : Str := ['a','u','d','i','o','/','o','p','u','s']
def audioPcmu : Str := ['a','u','d','i','o','/','p','c','m','u']
def audioPcma : Str := ['a','u','d','i','o','/','p','c','m','a']
def videoH264 : Str := ['v','i','d','e','o','/','h','2','6','4']
def videoVp9 : Str := ['v','i','d','e','o','/','v','p','9']
def videoAv1 : Str := ['v','i','d','e','o','/','a','v','1']
def kPacketizationMode : Str := ['p','a','c','k','e','t','i','z','a','t','i','o','n','-','m','o','d','e']
def kProfileLevelId : Str := ['p','r','o','f','i','l','e','-','l','e','v','e','l','-','i','d']
def kProfileId : Str := ['p','r','o','f','i','l','e','-','i','d']
def kProfile : Str := ['p','r','o','f','i','l','e']

def defaultClockRate (mime : Str) : Nat :=
  let m := lower mime
  if m == audioOpus then 48000 else if m == audioPcmu || m == audioPcma then 8000 else 90000

def defaultChannels (mime : Str) : Nat := if lower mime == audioOpus then 2 else 0

def clockRateEqual (mime : Str) (a b : Nat) : Bool :=
  let a := if a == 0 then defaultClockRate mime else a
  let b := if b == 0 then defaultClockRate mime else b
  a == b

def channelsEqual (mime : Str) (a b : Nat) : Bool :=
  let a := if a == 0 then defaultChannels mime else a
  let b := if b == 0 then defaultChannels mime else b
  let a := if a == 0 then 1 else a
  let b := if b == 0 then 1 else b
  a == b

/-- `paramsEqual`: every key present on both sides has EqualFold values (both loops of the Go function
    test the same symmetric condition). -/
def paramsEqual (a b : List (Str × Str)) : Bool :=
  a.all (fun kv => match lookupLast b kv.1 with
    | some vb => eqFold vb (((lookupLast a kv.1).getD kv.2))
    | none => true)

inductive FmtpKind | h264 | vp9 | av1 | generic
  deriving DecidableEq, Repr

def fmtpKind (mime : Str) : FmtpKind :=
  if eqFold mime videoH264 then .h264
  else if eqFold mime videoVp9 then .vp9
  else if eqFold mime videoAv1 then .av1
  else .generic

def hexNibble (c : Char) : Option Nat :=
  if '0' ≤ c ∧ c ≤ '9' then some (c.toNat - 48)
  else if 'a' ≤ c ∧ c ≤ 'f' then some (c.toNat - 87)
  else if 'A' ≤ c ∧ c ≤ 'F' then some (c.toNat - 55)
  else none

/-- `hex.DecodeString` succeeded and yielded at least two bytes; returns the first two. -/
def hexFirstTwo (cs : Str) : Option (Nat × Nat) :=
  if cs.length % 2 != 0 || cs.length < 4 then none
  else if cs.all (fun c => (hexNibble c).isSome) then
    match cs with
    | a :: b :: c :: d :: _ =>
      some ((hexNibble a).getD 0 * 16 + (hexNibble b).getD 0, (hexNibble c).getD 0 * 16 + (hexNibble d).getD 0)
    | _ => none
  else none

def profileLevelIDMatches (a b : Str) : Bool :=
  match hexFirstTwo a, hexFirstTwo b with
  | some x, some y => x == y
  | _, _ => false

/-- `needleFmtp.Match(cfmtp)` for `fmtp.Parse` of the two codecs. -/
def fmtpMatch (a b : Codec) : Bool :=
  let pa := parseParameters a.fmtp
  let pb := parseParameters b.fmtp
  match fmtpKind a.mime, fmtpKind b.mime with
  | .h264, .h264 =>
    match lookupLast pa kPacketizationMode, lookupLast pb kPacketizationMode,
          lookupLast pa kProfileLevelId, lookupLast pb kProfileLevelId with
    | some ha, some hb, some la, some lb => ha == hb && profileLevelIDMatches la lb
    | _, _, _, _ => false
  | .vp9, .vp9 => (lookupLast pa kProfileId).getD ['0'] == (lookupLast pb kProfileId).getD ['0']
  | .av1, .av1 => (lookupLast pa kProfile).getD ['0'] == (lookupLast pb kProfile).getD ['0']
  | .generic, .generic =>
    eqFold a.mime b.mime && clockRateEqual a.mime a.clockRate b.clockRate
      && channelsEqual a.mime a.channels b.channels && paramsEqual pa pb
  | _, _ => false

/-- `codecParametersFuzzySearch`: exact pass over the haystack, then the mime/clock/channels pass. -/
def fuzzySearch (needle : Codec) (hay : List Codec) : Option Codec :=
  match hay.find? (fun c => fmtpMatch needle c) with
  | some c => some c
  | none => hay.find? (fun c => eqFold c.mime needle.mime
      && clockRateEqual c.mime c.clockRate needle.clockRate
      && channelsEqual c.mime c.channels needle.channels)

/-- `findRTXPayloadType` -/
def findRTXPayloadType (pt : Nat) (hay : List Codec) : Nat :=
  match hay.find? (fun c => c.fmtp == ['a','p','t','='] ++ (Nat.repr pt).toList) with
  | some c => c.pt
  | none => 0

/-! ### bindings -/

/-- What a `TrackLocalContext` answers.  `writer` names the `TrackLocalWriter` object returned by
    `WriteStream()` (an opaque handle: the model only ever hands deliveries to it). -/
structure Ctx where
  id : Str
  ssrc : Nat
  ssrcRTX : Nat := 0
  ssrcFEC : Nat := 0
  codecs : List Codec
  writer : Nat
  deriving DecidableEq, Repr, Inhabited

structure Binding where
  id : Str
  ssrc : Nat
  ssrcRTX : Nat
  ssrcFEC : Nat
  pt : Nat
  ptRTX : Nat
  writer : Nat
  deriving DecidableEq, Repr, Inhabited

structure Track where
  codec : Codec
  bindings : List Binding := []
  /-- the packet sitting in `rtpPacketPool` (always `rtp.Packet{}` between calls) -/
  pool : Packet := Packet.zero
  deriving DecidableEq, Repr, Inhabited

def bindingOf (ctx : Ctx) (c : Codec) : Binding :=
  { id := ctx.id, ssrc := ctx.ssrc, ssrcRTX := ctx.ssrcRTX, ssrcFEC := ctx.ssrcFEC, pt := c.pt,
    ptRTX := findRTXPayloadType c.pt ctx.codecs, writer := ctx.writer }

/-- `Bind`: returns the negotiated codec, or `none` for `ErrUnsupportedCodec`. -/
def bind (t : Track) (ctx : Ctx) : Track × Option Codec :=
  match fuzzySearch { t.codec with pt := 0 } ctx.codecs with
  | some c => ({ t with bindings := t.bindings ++ [bindingOf ctx c] }, some c)
  | none => (t, none)

/-- `s.bindings[i] = s.bindings[len-1]; s.bindings = s.bindings[:len-1]` -/
def swapDelete (bs : List Binding) (i : Nat) : List Binding :=
  match bs.getLast? with
  | some l => (bs.set i l).dropLast
  | none => bs

/-- `Unbind`: first index (in current slice order) whose id matches; `false` = `ErrUnbindFailed`. -/
def unbind (t : Track) (id : Str) : Track × Bool :=
  match t.bindings.findIdx? (fun b => b.id == id) with
  | some i => ({ t with bindings := swapDelete t.bindings i }, true)
  | none => (t, false)

/-! ### WriteRTP / writeRTP -/

inductive Ref | caller | pooled
  deriving DecidableEq, Repr

structure Mem where
  caller : Packet
  pooled : Packet
  deriving DecidableEq, Repr

def Mem.get (m : Mem) : Ref → Packet
  | .caller => m.caller
  | .pooled => m.pooled

def Mem.set (m : Mem) (r : Ref) (p : Packet) : Mem :=
  match r with
  | .caller => { m with caller := p }
  | .pooled => { m with pooled := p }

/-- What one `b.writeStream.WriteRTP(&packet.Header, packet.Payload)` call receives: the header as it
    is at the moment of the call, and the payload slice. -/
structure Delivery where
  writer : Nat
  hdr : Header
  payload : List UInt8
  deriving DecidableEq, Repr, Inhabited

/-- One iteration of the loop of `writeRTP` on the packet designated by `r`. -/
def writeOne (r : Ref) (m : Mem) (b : Binding) : Mem × Delivery :=
  let p := m.get r
  let h := { p.hdr with ssrc := b.ssrc, pt := b.pt }
  let h := if p.paddingSize != 0 && h.paddingSize == 0 then { h with paddingSize := p.paddingSize } else h
  let p' := { p with hdr := h }
  (m.set r p', { writer := b.writer, hdr := h, payload := p'.payload })

/-- `writeRTP(packet)`: the loop over the bindings; mutates the packet behind `r`. -/
def writeLoop (r : Ref) : Mem → List Binding → Mem × List Delivery
  | m, [] => (m, [])
  | m, b :: bs =>
    let (m1, d) := writeOne r m b
    let (m2, ds) := writeLoop r m1 bs
    (m2, d :: ds)

structure WriteResult where
  track : Track
  deliveries : List Delivery
  /-- the caller's packet after the call returned -/
  callerAfter : Packet
  deriving Repr

/-- `WriteRTP(p)`: pool.Get, `*packet = *p`, `writeRTP(packet)`, deferred reset + pool.Put. -/
def writeRTP (t : Track) (p : Packet) : WriteResult :=
  let m0 : Mem := { caller := p, pooled := t.pool }
  let m1 := m0.set .pooled (m0.get .caller)
  let (m2, ds) := writeLoop .pooled m1 t.bindings
  { track := { t with pool := Packet.zero }, deliveries := ds, callerAfter := m2.caller }

/-! ### histories -/

inductive Op
  | bind (c : Ctx)
  | unbind (id : Str)
  | write (p : Packet)
  deriving DecidableEq, Repr

inductive Ev
  | bound (pt : Option Nat)
  | unbound (ok : Bool)
  | wrote (ds : List Delivery) (callerAfter : Packet)
  deriving DecidableEq, Repr

def step (t : Track) : Op → Track × Ev
  | .bind c => let r := bind t c; (r.1, .bound (r.2.map (·.pt)))
  | .unbind id => let r := unbind t id; (r.1, .unbound r.2)
  | .write p => let r := writeRTP t p; (r.track, .wrote r.deliveries r.callerAfter)

def run : Track → List Op → Track × List Ev
  | t, [] => (t, [])
  | t, o :: os =>
    let (t1, e) := step t o
    let (t2, es) := run t1 os
    (t2, e :: es)

/-- all deliveries made while running a history -/
def deliveriesOf (evs : List Ev) : List Delivery :=
  evs.flatMap (fun e => match e with | .wrote ds _ => ds | _ => [])

end WebrtcVerif.StaticRtp
