import WebrtcVerif.Model.Codec
/-
  Model of the per-transceiver codec selection of pion/webrtc (properties C16, C10), on top of Model.Codec:

    rtptransceiver.go   SetCodecPreferences, getCodecs (= Codec.transceiverGetCodecs),
                        setCodecPreferencesFromRemoteDescription
    rtpcodec.go         findRTXPayloadType

  The model mirrors the code AFTER the two repairs made for C10:
    * filterUnattachedRTX works on a copy (no in-place shift of the MediaEngine's slice), so `getCodecs` has no
      side effect and `Codec.transceiverGetCodecs` is the whole story;
    * setCodecPreferencesFromRemoteDescription removes the local codec it matched (by payload type) from the
      codecs left for the next round.

  Go maps: `payloadMapping` is an association list with unique keys (insertion overwrites); Go iterates it in
  an unspecified order, the model in list order — theorems that depend on the order quantify over permutations.
-/
namespace WebrtcVerif.AnswerCodecs
open WebrtcVerif.Codec

/-- `SetCodecPreferences`: `(new value of t.codecs, errRTPTransceiverCodecUnsupported?)`.
    `engineCodecs` is `mediaEngine.getCodecsByKind(t.kind)`, `cur` the value stored so far. -/
def setCodecPreferences (engineCodecs cur codecs : List CodecP) : List CodecP × Bool :=
  if codecs.any (fun c => (fuzzySearch c engineCodecs).2 == .mNone) then (cur, true)
  else (filterUnattachedRTX codecs, false)

/-- `findRTXPayloadType`: payload type of the first codec whose fmtp line is exactly `apt=<needle>`, else 0 -/
def findRTXPayloadType (needle : Nat) (hay : List CodecP) : Nat :=
  match hay.find? (fun c => c.fmtp == "apt=".toList ++ showNat needle) with
  | some c => c.pt
  | none => 0

/-- Go `map[PayloadType]PayloadType` -/
abbrev PtMap := List (Nat × Nat)

def PtMap.insert : PtMap → Nat → Nat → PtMap
  | [], k, v => [(k, v)]
  | (k', v') :: rest, k, v => if k' = k then (k, v) :: rest else (k', v') :: PtMap.insert rest k v

/-- delete the first entry with the given payload type (`append(left[:i], left[i+1:]...)` on the private copy) -/
def eraseFirstPt : List CodecP → Nat → List CodecP
  | [], _ => []
  | c :: cs, pt => if c.pt = pt then cs else c :: eraseFirstPt cs pt

/-- state threaded through `filterByMatchType`: the remote codecs not consumed yet, the local codecs left,
    the payload type mapping, the codecs selected in this round (in the order of the remote description) -/
structure Round where
  remote : List CodecP
  left : List CodecP
  mapping : PtMap
  out : List CodecP
  deriving Repr

/-- the closure `filterByMatchType(matchFilter)`.  The Go loop walks `remoteCodecs` from the last index down
    and deletes consumed entries in place, so the entries are visited last-to-first: the recursion handles the
    tail first. -/
def filterByMatchType (mt : MatchType) : List CodecP → List CodecP → PtMap → Round
  | [], left, m => { remote := [], left, mapping := m, out := [] }
  | rc :: rest, left, m =>
    let r := filterByMatchType mt rest left m
    if equalFold rc.mime mimeRTX then { r with remote := rc :: r.remote }
    else
      let (mc, t) := fuzzySearch rc r.left
      if t = mt then
        { remote := r.remote
          left := eraseFirstPt r.left mc.pt
          mapping := r.mapping.insert rc.pt mc.pt
          out := { rc with pt := mc.pt } :: r.out }
      else { r with remote := rc :: r.remote }

/-- one iteration of "find RTX associations and add those" -/
def rtxFor (remote left : List CodecP) (kv : Nat × Nat) : Option CodecP :=
  if findRTXPayloadType kv.1 remote = 0 then none
  else
    let me := findRTXPayloadType kv.2 left
    if me = 0 then none else left.find? (fun c => c.pt == me)

/-- the list handed to `SetCodecPreferences` by `setCodecPreferencesFromRemoteDescription`, with the mapping
    iterated in the order `order` asks for (`id` = list order) -/
def remotePreferenceList (order : PtMap → PtMap) (engineCodecs remote : List CodecP) : List CodecP :=
  let r1 := filterByMatchType .mExact remote engineCodecs []
  let r2 := filterByMatchType .mPartial r1.remote r1.left r1.mapping
  r1.out ++ r2.out ++ (order r2.mapping).filterMap (rtxFor r2.remote r2.left)

/-- `setCodecPreferencesFromRemoteDescription`: the new value of `t.codecs`.  `remote = none`:
    codecsFromMediaDescription failed, nothing happens. -/
def setCodecPreferencesFromRemote (engineCodecs cur : List CodecP) (remote : Option (List CodecP)) : List CodecP :=
  match remote with
  | none => cur
  | some rs => (setCodecPreferences engineCodecs cur (remotePreferenceList id engineCodecs rs)).1

/-- `RTPTransceiver.getCodecs` (repaired code: no side effect on the engine) -/
abbrev getCodecs (engineCodecs prefs : List CodecP) : List CodecP := transceiverGetCodecs engineCodecs prefs

end WebrtcVerif.AnswerCodecs
