/-
  Model of pion/webrtc `pkg/media/samplebuilder` (samplebuilder.go, sampleSequenceLocation.go), core Lean only.

  * all `uint16` / `uint32` arithmetic is `UInt16` / `UInt32` (wrap-around is the point);
  * the two 65 536-entry arrays (`buffer`, `preparedSamples`) are `Buf`s: total maps `UInt16 → Option α`
    (a `Vector` underneath so that the compiled driver updates them in place; every proof goes through
    `Buf.get_set` / `Buf.get_empty` only);
  * every Go `for` loop is a structurally recursive function with fuel; `Proofs/SampleBuilderLemmas.lean`
    shows that the fuel handed in by the callers is never exhausted (`*_fuel` lemmas);
  * the depacketizer (pion/rtp, an external library) is the parameter `Depack`;
  * `State.released` (release-handler log) and `Sample.pkts` (the packets merged into a sample; the code
    exposes their headers as `Sample.RTPHeaders`) are the observables the property is stated over;
  * where the Go code would dereference a nil buffer slot the model sets `nilDeref` (never happens:
    `buildSample_no_nilDeref`).

  The model mirrors the code *after* the three `fix:` commits (purgeConsumedLocation loops; timestamp
  change tested before the tail flag; the purge loop stops when nothing is buffered).
-/
namespace WebrtcVerif.SampleBuilder

/-! ### total maps over sequence numbers -/

structure Buf (α : Type) where
  v : Vector (Option α) 65536

namespace Buf
variable {α : Type}

def empty : Buf α := ⟨Vector.replicate 65536 none⟩

@[inline] def get (b : Buf α) (i : UInt16) : Option α :=
  b.v[i.toNat]'(by have := i.toNat_lt; omega)

@[inline] def set (b : Buf α) (i : UInt16) (x : Option α) : Buf α :=
  ⟨b.v.set i.toNat x (by have := i.toNat_lt; omega)⟩

@[simp] theorem get_empty (i : UInt16) : (empty : Buf α).get i = none := by
  simp [empty, get]

theorem get_set (b : Buf α) (i j : UInt16) (x : Option α) :
    (b.set i x).get j = if j = i then x else b.get j := by
  simp only [get, set, Vector.getElem_set]
  by_cases h : j = i
  · subst h; simp
  · have : ¬ i.toNat = j.toNat := fun e => h (UInt16.toNat_inj.mp e.symm)
    simp [h, this]

@[simp] theorem get_set_self (b : Buf α) (i : UInt16) (x : Option α) : (b.set i x).get i = x := by
  simp [get_set]

theorem get_set_ne (b : Buf α) (i j : UInt16) (x : Option α) (h : j ≠ i) :
    (b.set i x).get j = b.get j := by
  simp [get_set, h]

end Buf

/-! ### packets, samples, the depacketizer parameter -/

structure Packet where
  /-- ghost: index of the `Push` call that handed this packet in (identity of the Go pointer) -/
  id : Nat
  seq : UInt16
  ts : UInt32
  marker : Bool
  payload : List UInt8
  deriving DecidableEq, Repr

/-- `rtp.Depacketizer`; `unmarshal = none` stands for a returned error -/
structure Depack where
  isHead : List UInt8 → Bool
  isTail : Bool → List UInt8 → Bool
  unmarshal : List UInt8 → Option (List UInt8)

structure Sample where
  data : List UInt8
  /-- `PacketTimestamp` -/
  ts : UInt32
  /-- `PrevDroppedPackets` -/
  dropped : UInt16
  /-- `afterTimestamp - sampleTimestamp`, the tick count `Duration` is computed from -/
  ticks : UInt32
  /-- the packets merged into the sample, in merge order (`RTPHeaders` exposes their headers) -/
  pkts : List Packet
  deriving DecidableEq, Repr

/-! ### sampleSequenceLocation.go -/

inductive Cmp where
  | void | before | inside | after
  deriving DecidableEq, Repr

structure Loc where
  head : UInt16 := 0
  tail : UInt16 := 0
  deriving DecidableEq, Repr

/-- `seqnumDistance`: `|int16(x - y)|` as `uint16` -/
def seqnumDistance (x y : UInt16) : UInt16 :=
  let d := x - y
  if 32768 ≤ d.toNat then 0 - d else d

/-- `timestampDistance`: `|int32(x - y)|` as `uint32` -/
def timestampDistance (x y : UInt32) : UInt32 :=
  let d := x - y
  if 2147483648 ≤ d.toNat then 0 - d else d

namespace Loc
def empty (l : Loc) : Bool := l.head == l.tail
def hasData (l : Loc) : Bool := l.head != l.tail
def count (l : Loc) : UInt16 := seqnumDistance l.head l.tail

/-- the two interval tests of `compare` (no wrap / wrap) -/
def within (l : Loc) (pos : UInt16) : Bool :=
  if l.head < l.tail then decide (l.head ≤ pos) && decide (pos < l.tail)
  else decide (l.head ≤ pos) || decide (pos < l.tail)

def compare (l : Loc) (pos : UInt16) : Cmp :=
  if l.head = l.tail then .void
  else if l.within pos then .inside
  else if l.head - pos ≤ pos - l.tail then .before
  else .after
end Loc

/-! ### SampleBuilder -/

structure State where
  maxLate : UInt16
  maxLateTs : UInt32 := 0
  buffer : Buf Packet := Buf.empty
  preparedSamples : Buf Sample := Buf.empty
  filled : Loc := {}
  active : Loc := {}
  prepared : Loc := {}
  lastSampleTs : Option UInt32 := none
  dropped : UInt16 := 0
  padding : UInt16 := 0
  /-- ghost: ids handed to the packet release handler, newest first -/
  released : List Nat := []
  /-- the Go code would have dereferenced a nil slot (panic) -/
  nilDeref : Bool := false
  /-- a fuelled loop of the model ran out of fuel -/
  outOfFuel : Bool := false
  /-- ghost monitor: a Push filled the last free slot of the ring (`filled` then reads as empty although all
      65 536 slots are taken) — the one situation in which a packet can sit outside the filled range -/
  ringFull : Bool := false
  /-- ghost monitor: a Push made the filled range span half the ring or more (sequence numbers that far apart
      have no order) -/
  wide : Bool := false
  /-- ghost: every sample `buildSample` has created, newest first -/
  built : List Sample := []

/-- `New(maxLate, depacketizer, sampleRate, WithMaxTimeDelay…)`; `maxLateTs` is the already converted
    `maxLateTimestamp` (0 = option absent) -/
def State.new (maxLate : UInt16) (maxLateTs : UInt32 := 0) : State := { maxLate, maxLateTs }

/-- number of iterations any `uint16` loop can make, plus one for the final test -/
@[irreducible] def ringFuel : Nat := 65536

/-- first non-nil slot walking up from `i` while `i != stop` -/
def findUp : Nat → Buf Packet → UInt16 → UInt16 → Option Packet
  | 0, _, _, _ => none
  | n + 1, b, i, stop =>
    if i = stop then none
    else match b.get i with
      | some p => some p
      | none => findUp n b (i + 1) stop

/-- first non-nil slot walking down from `i` while `i != stop` -/
def findDown : Nat → Buf Packet → UInt16 → UInt16 → Option Packet
  | 0, _, _, _ => none
  | n + 1, b, i, stop =>
    if i = stop then none
    else match b.get i with
      | some p => some p
      | none => findDown n b (i - 1) stop

def tooOld (s : State) (l : Loc) : Bool :=
  if s.maxLateTs = 0 then false
  else match findUp ringFuel s.buffer l.head l.tail with
    | none => false
    | some h =>
      match findDown ringFuel s.buffer (l.tail - 1) l.head with
      | none => false
      | some t => decide (s.maxLateTs < timestampDistance h.ts t.ts)

/-- `fetchTimestamp`: `none` stands for `(0, false)` -/
def fetchTs (s : State) (l : Loc) : Option UInt32 :=
  if l.head = l.tail then none else (s.buffer.get l.head).map (·.ts)

/-- `releasePacket(i)`: `p, s.buffer[i] = s.buffer[i], nil`, then the handler is called if `p != nil` -/
def release (s : State) (i : UInt16) : State :=
  let log := match s.buffer.get i with
    | some p => p.id :: s.released
    | none => s.released
  { s with buffer := s.buffer.set i none, released := log }

/-- `s.releasePacket(s.filled.head); s.filled.head++` -/
def releaseHead (s : State) : State :=
  let s := release s s.filled.head
  { s with filled := { s.filled with head := s.filled.head + 1 } }

/-- `purgeConsumedLocation(consume, forceConsume)` -/
def purgeLoc : Nat → State → Loc → Bool → State
  | 0, s, _, _ => { s with outOfFuel := true }
  | n + 1, s, consume, force =>
    if s.filled.head = s.filled.tail then s
    else match consume.compare s.filled.head with
      | .inside => if force then purgeLoc n (releaseHead s) consume force else s
      | .before => purgeLoc n (releaseHead s) consume force
      | _ => s

/-- `purgeConsumedBuffers` -/
def purgeConsumed (s : State) : State := purgeLoc (ringFuel + 1) s s.active false

/-- `s.purgeConsumedLocation(consume, true); s.purgeConsumedBuffers()` — the end of `buildSample` -/
def finishPurge (s : State) (consume : Loc) : State :=
  purgeConsumed (purgeLoc (ringFuel + 1) s consume true)

/-- the run-detection loop of `buildSample`; the result is `consume.tail` (`none`: `consume` stays empty) -/
def scan (d : Depack) (s : State) (headTs : Option UInt32) : Nat → UInt16 → Option UInt16
  | 0, _ => none
  | n + 1, i =>
    match s.buffer.get i with
    | none => none
    | some p =>
      if s.active.compare i = .after then none
      else if headTs.any (· ≠ p.ts) then some i
      else if d.isTail p.marker p.payload then some (i + 1)
      else scan d s headTs n (i + 1)

/-- `for i := consume.tail; i < s.active.tail; i++` — first non-nil slot's timestamp (plain `<`, no wrap) -/
def afterScan (s : State) : Nat → UInt16 → UInt32 → UInt32
  | 0, _, dflt => dflt
  | n + 1, i, dflt =>
    if i < s.active.tail then
      match s.buffer.get i with
      | some p => p.ts
      | none => afterScan s n (i + 1) dflt
    else dflt

/-- `buffer[i]` for `i := from; i != to; i++` -/
def slots (b : Buf Packet) : Nat → UInt16 → UInt16 → List (Option Packet)
  | 0, _, _ => []
  | n + 1, i, stop => if i = stop then [] else b.get i :: slots b n (i + 1) stop

def allSome {α : Type} : List (Option α) → Option (List α)
  | [] => some []
  | none :: _ => none
  | some a :: rest => (allSome rest).map (a :: ·)

def unmarshalAll (d : Depack) : List Packet → Option (List (List UInt8))
  | [] => some []
  | p :: rest =>
    match d.unmarshal p.payload with
    | none => none
    | some x => (unmarshalAll d rest).map (x :: ·)

/-- `if s.active.empty() { s.active = s.filled }` -/
def reseed (s : State) : State :=
  if s.active.head = s.active.tail then { s with active := s.filled } else s

/-- `if s.filled.compare(s.active.tail) == slCompareInside { s.active.tail = s.filled.tail }` -/
def extend (s : State) : State :=
  if s.filled.compare s.active.tail = .inside then { s with active := { s.active with tail := s.filled.tail } } else s

/-- the run-detection loop started at `active.head`: `consume.tail` if a run end was found -/
def consumeTail (d : Depack) (s : State) : Option UInt16 :=
  scan d s (fetchTs s s.active) ringFuel s.active.head

/-- second half of `buildSample`: `consume = [active.head, t)` is non-empty and may be taken -/
def emit (d : Depack) (s : State) (t : UInt16) : State × Option Sample :=
  let consume : Loc := { head := s.active.head, tail := t }
  let sampleTs := (fetchTs s s.active).getD 0
  let afterTs := afterScan s ringFuel t sampleTs
  let s := { s with active := { s.active with head := t } }
  match allSome (slots s.buffer ringFuel consume.head t) with
  | none => ({ s with nilDeref := true }, none)
  | some [] => ({ s with nilDeref := true }, none)
  | some (hp :: tl) =>
    if !d.isHead hp.payload then
      let isPadding := (hp :: tl).any (fun p => s.lastSampleTs == some p.ts && p.payload.isEmpty)
      let s := { s with dropped := s.dropped + consume.count,
                        padding := if isPadding then s.padding + consume.count else s.padding }
      (finishPurge s consume, none)
    else
      match unmarshalAll d (hp :: tl) with
      | none => (s, none)
      | some parts =>
        let sample : Sample :=
          { data := parts.flatten, ts := sampleTs, dropped := s.dropped, ticks := afterTs - sampleTs, pkts := hp :: tl }
        let s := { s with dropped := 0, padding := 0, lastSampleTs := some sampleTs,
                          preparedSamples := s.preparedSamples.set s.prepared.tail (some sample),
                          prepared := { s.prepared with tail := s.prepared.tail + 1 },
                          built := sample :: s.built }
        (finishPurge s consume, some sample)

def buildSample (d : Depack) (s : State) (purging : Bool) : State × Option Sample :=
  let s := reseed s
  if s.active.head = s.active.tail then (s, none) else
  let s := extend s
  match consumeTail d s with
  | none => (s, none)
  | some t =>
    if s.active.head = t then (s, none)                              -- consume.empty()
    else if !purging && (s.buffer.get t).isNone then (s, none)       -- wait for the packet after the run
    else emit d s t

/-- upper bound on the iterations of the `purgeBuffers` loop: one walk over the filled range, plus — when a
    dropped run ends exactly at `filled.tail` and the extra `filled.head++` steps over it — one walk round
    the (then empty) ring -/
@[irreducible] def purgeFuel : Nat := 2 * 65536 + 2

/-- the `for` condition of `purgeBuffers` (the three tests commute: they are pure) -/
def purgeCond (flush : Bool) (s : State) : Bool :=
  s.filled.hasData && (flush || decide (s.maxLate < s.filled.count) || tooOld s s.filled)

/-- `s.active.head++; s.droppedPackets++` -/
def dropOne (s : State) : State :=
  { s with active := { s.active with head := s.active.head + 1 }, dropped := s.dropped + 1 }

/-- one iteration of the `purgeBuffers` loop body; `false` = `break` -/
def purgeStep (d : Depack) (s : State) : State × Bool :=
  let s := reseed s                                   -- refill the active based on the filled packets
  if s.active.hasData && s.active.head == s.filled.head then
    match buildSample d s true with
    | (s, some _) => (s, true)                        -- continue
    | (s, none) =>
      if !s.filled.hasData then (s, false)            -- buildSample dropped everything that was still buffered
      else (releaseHead (dropOne s), true)            -- could not build the sample so drop it
  else (releaseHead s, true)

def purgeLoop (d : Depack) (flush : Bool) : Nat → State → State
  | 0, s => { s with outOfFuel := true }
  | n + 1, s =>
    if purgeCond flush s then
      match purgeStep d s with
      | (s, true) => purgeLoop d flush n s
      | (s, false) => s
    else s

def purgeBuffers (d : Depack) (s : State) (flush : Bool) : State :=
  purgeLoop d flush purgeFuel (purgeConsumed s)

/-- first half of `Push`: store the packet and grow `filled` to contain its sequence number -/
def insert (s : State) (p : Packet) : State :=
  let s := { s with buffer := s.buffer.set p.seq (some p) }
  let s := match s.filled.compare p.seq with
    | .void => { s with filled := { head := p.seq, tail := p.seq + 1 } }
    | .before => { s with filled := { s.filled with head := p.seq } }
    | .after => { s with filled := { s.filled with tail := p.seq + 1 },
                         ringFull := s.ringFull || p.seq + 1 == s.filled.head }
    | .inside => s
  { s with wide := s.wide || decide (32768 ≤ (s.filled.tail - s.filled.head).toNat) }

def push (d : Depack) (s : State) (p : Packet) : State :=
  purgeBuffers d (insert s p) false

def flush (d : Depack) (s : State) : State := purgeBuffers d s true

def pop (d : Depack) (s : State) : State × Option Sample :=
  let s := (buildSample d s false).1
  if s.prepared.head = s.prepared.tail then (s, none)
  else
    let r := s.preparedSamples.get s.prepared.head
    ({ s with preparedSamples := s.preparedSamples.set s.prepared.head none,
              prepared := { s.prepared with head := s.prepared.head + 1 } }, r)

/-! ### histories -/

inductive Op where
  | push (p : Packet) | pop | flush

def step (d : Depack) (s : State) : Op → State × Option Sample
  | .push p => (push d s p, none)
  | .pop => pop d s
  | .flush => (flush d s, none)

/-- runs a history: the final state and the samples the Pops returned, oldest first -/
def run (d : Depack) : State → List Op → State × List Sample
  | s, [] => (s, [])
  | s, op :: rest =>
    let r := step d s op
    let r' := run d r.1 rest
    (r'.1, match r.2 with | some sm => sm :: r'.2 | none => r'.2)

/-! ### depacketizers used by the correspondence run (pion/rtp codecs; external, exercised not proved) -/

/-- harness fake: first payload byte carries flags 1 = head, 2 = tail, 4 = Unmarshal fails -/
def Depack.fake : Depack where
  isHead p := match p with | [] => false | b :: _ => b &&& 1 != 0
  isTail m p := m || (match p with | [] => false | b :: _ => b &&& 2 != 0)
  unmarshal p := match p with
    | [] => none
    | b :: r => if b &&& 4 != 0 then none else some r

def dropByte : List UInt8 → Option (List UInt8)
  | [] => none
  | _ :: r => some r

/-- `codecs.VP8Packet` -/
def Depack.vp8 : Depack where
  isHead p := match p with | [] => false | b :: _ => b &&& 0x10 != 0
  isTail m _ := m
  unmarshal p := match p with
    | [] => none
    | b0 :: r1 => do
      let (e, r2) ← if b0 &&& 0x80 != 0 then (match r1 with | [] => none | e :: r => some (e, r)) else some (0, r1)
      let r3 ← if e &&& 0x80 != 0 then
          (match r2 with
           | [] => none
           | m :: r => if m &&& 0x80 != 0 then dropByte r else some r)
        else some r2
      let r4 ← if e &&& 0x40 != 0 then dropByte r3 else some r3
      let r5 ← if e &&& 0x20 != 0 || e &&& 0x10 != 0 then dropByte r4 else some r4
      pure r5

/-- `codecs.OpusPacket` -/
def Depack.opus : Depack where
  isHead _ := true
  isTail _ _ := true
  unmarshal p := if p.isEmpty then none else some p

end WebrtcVerif.SampleBuilder
