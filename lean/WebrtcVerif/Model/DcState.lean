/-
  Model of the DataChannel readyState machinery — property C20.
    datachannel.go : setReadyState, handleOpen, onOpen / onClose (sync.Once), readLoop, close, ensureOpen (Send)
    peerconnection.go : close (steps 5 and 6: every channel := closed; SCTP transport stopped)

  The Go code is a set of goroutines that touch the shared state in lock-delimited sections (`d.mu`) or
  through single atomic operations (`readyState` is an atomic value).  Each such section is one `Action`;
  the transition system allows ANY interleaving of the enabled actions of one `handleOpen` call, any
  number of `Close` / `GracefulClose` callers, the read loop, any number of `PeerConnection.Close`
  callers, `Send` callers, one `OnOpen(f)` / `OnClose(f)` registration each (before or during the run), the unobserved handler goroutines (`go once.Do(handler)`), and the environment
  (the remote peer resets the stream, acknowledges the channel, or the association goes away).

  The model mirrors the code AFTER the two repairs
    fix: DataChannel readyState could move backwards           (setReadyState is a forward-only CAS loop)
    fix: DataChannel closed while it is being opened stays in closing forever
                                                              (handleOpen stores closed on both paths on which
                                                               it finds the channel already closed)
-/
namespace WebrtcVerif.DcState

/-- DataChannelState (the zero value `unknown` is never stored) -/
inductive RS
  | connecting | open | closing | closed
  deriving DecidableEq, Repr

/-- position in connecting < open < closing < closed (the numeric order of the Go enum) -/
def RS.rank : RS → Nat
  | .connecting => 0
  | .open => 1
  | .closing => 2
  | .closed => 3

/-- `setReadyState(r)` on current value `cur`: the CAS loop returns without storing when `cur >= r`,
    otherwise it stores `r` (a failed CAS re-reads; the linearisation point is the successful CAS or the
    load that made it return) -/
def setRS (cur new : RS) : RS := if cur.rank < new.rank then new else cur

/-- what does not change during a run -/
structure Cfg where
  detach : Bool := false      -- settingEngine.detach.DataChannels
  immediate : Bool := false   -- isRemote || isAlreadyNegotiated (arguments of handleOpen)
  openH : Bool := true        -- an OnOpen handler is registered before the run
  closeH : Bool := true       -- an OnClose handler is registered before the run
                              -- (otherwise one may be registered at any time during the run, see `LPc`)
  deriving DecidableEq, Repr

/-- program counter of the `handleOpen` call -/
inductive OPc
  | idle      -- not called yet
  | early     -- first critical section found `isGracefulClosed`; about to close the transport, store closed, onClose
  | gap       -- `d.dataChannel = dc` done, lock released; before `setReadyState(open)`
  | opened    -- stored open; before onOpen() / dc.OnOpen(...)
  | tail      -- before the last critical section
  | late      -- last critical section found `isGracefulClosed`; about to store closed, onClose
  | done
  deriving DecidableEq, Repr

/-- a `close(shouldGracefullyClose)` caller -/
inductive CPc
  | idle
  | begun (wait haveT : Bool)   -- first critical section done (`wait`: will wait for the read loop; `haveT`: d.dataChannel != nil)
  | gap (wait haveT : Bool)     -- `ReadyState() != closed` seen; before `setReadyState(closing)`
  | waiting                     -- deferred `<-readLoopActive`
  | done
  deriving DecidableEq, Repr

/-- the read loop goroutine -/
inductive RPc
  | atWait    -- before `ReadDataChannel`
  | inRead    -- inside `ReadDataChannel`
  | failed    -- the read returned an error; before `setReadyState(closed)`
  | done
  deriving DecidableEq, Repr

/-- a `PeerConnection.close` caller -/
inductive PPc
  | idle
  | body      -- swapped isClosed false → true; before step 5
  | stop      -- stored closed on the channel; before `sctpTransport.Stop()`
  | done
  deriving DecidableEq, Repr

/-- the one `OnOpen(f)` / `OnClose(f)` call during the run (only when none was made before it) -/
inductive LPc
  | idle
  | locked    -- critical section done (Once reset, handler stored); before the `ReadyState()` test
  | done
  deriving DecidableEq, Repr

/-- outcome of `Send` -/
inductive SendRes
  | rejected  -- ensureOpen failed (io.ErrClosedPipe)
  | werr      -- passed the guard, the transport refused the write
  | ok
  deriving DecidableEq, Repr

structure St where
  rs : RS := .connecting                -- d.readyState
  graceful : Bool := false              -- d.isGracefulClosed
  dcSet : Bool := false                 -- d.dataChannel != nil
  rla : Option Bool := none             -- d.readLoopActive: none = nil, some false = open channel, some true = closed channel
  opener : OPc := .idle
  closers : List CPc := []
  reader : Option RPc := none           -- none = no read loop was started
  pcs : List PPc := []
  pcClosed : Bool := false              -- pc.isClosed
  -- transport (pion/datachannel on a pion/sctp stream), as far as this code can tell
  streamOpen : Bool := true             -- the local stream still accepts writes (not reset locally)
  assocDown : Bool := false             -- the association is closed
  remoteClosed : Bool := false          -- the remote has reset its outgoing stream
  eof : Bool := false                   -- a read on the stream fails once the queued data is consumed
  ackQueued : Bool := false             -- DATA_CHANNEL_ACK received, not read yet
  ackSent : Bool := false
  ackArmed : Bool := false              -- dc.OnOpen(handler) registered with pion/datachannel
  ackFired : Bool := false              -- pion/datachannel's openFired
  -- handler plumbing
  onOpenCalls : Nat := 0                -- `go handler()` goroutines (each will call d.onOpen()) not run yet
  openPending : Nat := 0                -- `go d.openHandlerOnce.Do(…)` goroutines not run yet
  openOnce : Bool := false              -- openHandlerOnce done
  openFired : Nat := 0                  -- how often the OnOpen handler ran
  closePending : Nat := 0
  closeOnce : Bool := false
  closeFired : Nat := 0
  openLate : LPc := .idle               -- the OnOpen(f) call made during the run
  closeLate : LPc := .idle              -- the OnClose(f) call made during the run
  -- ghosts
  hist : List RS := [.connecting]       -- every value readyState has held, in order
  sends : List (RS × SendRes) := []     -- per Send: the state its guard read, and the outcome
  pcSetDone : Bool := false             -- some PeerConnection.close passed step 5
  deriving DecidableEq, Repr

inductive Action
  | open1                 -- handleOpen: first critical section
  | openEarly             -- handleOpen, closed on entry: dc.Close(); setReadyState(closed); onClose()
  | open2                 -- setReadyState(open)
  | open3                 -- onOpen() or dc.OnOpen(…)
  | open4                 -- last critical section
  | open5                 -- closed while opening: setReadyState(closed); onClose()
  | closeBegin (c : Nat) (graceful : Bool)
  | closeTest (c : Nat)
  | closeSet (c : Nat)
  | closeWake (c : Nat)
  | readEnter
  | readAck               -- the read consumes the acknowledgement (handled inside ReadDataChannel, which keeps reading)
  | readFail              -- the read returns an error
  | readSet               -- setReadyState(closed); onClose(); return (closes readLoopActive)
  | pcBegin (p : Nat)
  | pcSet (p : Nat)
  | pcStop (p : Nat)
  | send
  | runOnOpen             -- a `go handler()` goroutine started by pion/datachannel runs d.onOpen()
  | fireOpen              -- a `go openHandlerOnce.Do(…)` goroutine runs
  | fireClose
  | remoteClose
  | remoteAbort
  | remoteAck
  | regOpen1              -- OnOpen(f): critical section (reset the Once, store the handler)
  | regOpen2              -- OnOpen(f): `if ReadyState() == open { go once.Do(f) }`
  | regClose1             -- OnClose(f): critical section
  | regClose2             -- OnClose(f): `if ReadyState() == closed { go once.Do(f) }`
  deriving DecidableEq, Repr

def setAt {α} (l : List α) (i : Nat) (x : α) : List α := l.set i x

/-- `setReadyState(new)` with the history ghost -/
def store (s : St) (new : RS) : St :=
  let r := setRS s.rs new
  { s with rs := r, hist := if r = s.rs then s.hist else s.hist ++ [r] }

/-- `d.onOpenHandler != nil` -/
def hasOpenH (cfg : Cfg) (s : St) : Bool := cfg.openH || s.openLate != .idle

/-- `d.onCloseHandler != nil` -/
def hasCloseH (cfg : Cfg) (s : St) : Bool := cfg.closeH || s.closeLate != .idle

/-- `d.onOpen()` -/
def callOnOpen (cfg : Cfg) (s : St) : St :=
  if !s.graceful && hasOpenH cfg s then { s with openPending := s.openPending + 1 } else s

/-- `d.onClose()` -/
def callOnClose (cfg : Cfg) (s : St) : St :=
  if hasCloseH cfg s then { s with closePending := s.closePending + 1 } else s

/-- `Send`: ensureOpen, then the write -/
def sendResult (s : St) : SendRes :=
  if s.rs ≠ .open then .rejected
  else if !s.streamOpen || s.assocDown then .werr
  else .ok

def afterClose (wait : Bool) : CPc := if wait then .waiting else .done

/-- one atomic step; `none` = the action is not enabled in this state -/
def step (cfg : Cfg) (s : St) : Action → Option St
  | .open1 =>
      match s.opener with
      | .idle =>
          if s.graceful then some { s with opener := .early }
          else some { s with dcSet := true, opener := .gap }
      | _ => none
  | .openEarly =>
      match s.opener with
      | .early => some (callOnClose cfg { store { s with streamOpen := false } .closed with opener := .done })
      | _ => none
  | .open2 =>
      match s.opener with
      | .gap => some { store s .open with opener := .opened }
      | _ => none
  | .open3 =>
      match s.opener with
      | .opened =>
          if cfg.detach || cfg.immediate then some { callOnOpen cfg s with opener := .tail }
          else some { s with ackArmed := true, opener := .tail }
      | _ => none
  | .open4 =>
      match s.opener with
      | .tail =>
          if s.graceful then some { s with opener := .late }
          else if cfg.detach then some { s with opener := .done }
          else some { s with rla := some false, reader := some .atWait, opener := .done }
      | _ => none
  | .open5 =>
      match s.opener with
      | .late => some (callOnClose cfg { store s .closed with opener := .done })
      | _ => none
  | .closeBegin c g =>
      match s.closers[c]? with
      | some .idle =>
          some { s with graceful := true, closers := setAt s.closers c (.begun (g && s.rla.isSome) s.dcSet) }
      | _ => none
  | .closeTest c =>
      match s.closers[c]? with
      | some (.begun w h) =>
          if s.rs = .closed then some { s with closers := setAt s.closers c (afterClose w) }
          else some { s with closers := setAt s.closers c (.gap w h) }
      | _ => none
  | .closeSet c =>
      match s.closers[c]? with
      | some (.gap w h) =>
          let s1 := store s .closing
          some { s1 with streamOpen := if h then false else s1.streamOpen, closers := setAt s1.closers c (afterClose w) }
      | _ => none
  | .closeWake c =>
      match s.closers[c]? with
      | some .waiting => if s.rla = some true then some { s with closers := setAt s.closers c .done } else none
      | _ => none
  | .readEnter =>
      match s.reader with
      | some .atWait => some { s with reader := some .inRead }
      | _ => none
  | .readAck =>
      match s.reader with
      | some .inRead =>
          if s.ackQueued then
            if s.ackArmed && !s.ackFired then
              some { s with ackQueued := false, ackFired := true, onOpenCalls := s.onOpenCalls + 1 }
            else some { s with ackQueued := false }
          else none
      | _ => none
  | .readFail =>
      match s.reader with
      | some .inRead =>
          if s.eof && !s.ackQueued then
            -- io.EOF (stream reset by the peer): pion/datachannel resets the outgoing stream as well
            some { s with reader := some .failed, streamOpen := if s.remoteClosed then false else s.streamOpen }
          else none
      | _ => none
  | .readSet =>
      match s.reader with
      | some .failed =>
          let s1 := callOnClose cfg (store s .closed)
          some { s1 with reader := some .done, rla := some true }
      | _ => none
  | .pcBegin p =>
      match s.pcs[p]? with
      | some .idle =>
          if s.pcClosed then some { s with pcs := setAt s.pcs p .done }
          else some { s with pcClosed := true, pcs := setAt s.pcs p .body }
      | _ => none
  | .pcSet p =>
      match s.pcs[p]? with
      | some .body =>
          let s1 := store s .closed
          some { s1 with pcSetDone := true, pcs := setAt s1.pcs p .stop }
      | _ => none
  | .pcStop p =>
      match s.pcs[p]? with
      | some .stop => some { s with assocDown := true, eof := true, pcs := setAt s.pcs p .done }
      | _ => none
  | .send => some { s with sends := s.sends ++ [(s.rs, sendResult s)] }
  | .runOnOpen =>
      if s.onOpenCalls = 0 then none
      else some (callOnOpen cfg { s with onOpenCalls := s.onOpenCalls - 1 })
  | .fireOpen =>
      if s.openPending = 0 then none
      else if s.openOnce then some { s with openPending := s.openPending - 1 }
      else some { s with openPending := s.openPending - 1, openOnce := true, openFired := s.openFired + 1 }
  | .fireClose =>
      if s.closePending = 0 then none
      else if s.closeOnce then some { s with closePending := s.closePending - 1 }
      else some { s with closePending := s.closePending - 1, closeOnce := true, closeFired := s.closeFired + 1 }
  | .remoteClose =>
      if s.remoteClosed || s.assocDown then none
      else some { s with remoteClosed := true, eof := true }
  | .remoteAbort =>
      if s.assocDown then none else some { s with assocDown := true, eof := true }
  | .remoteAck =>
      if s.remoteClosed || s.assocDown || s.ackSent then none
      else some { s with ackSent := true, ackQueued := true }
  | .regOpen1 =>
      if cfg.openH then none else
      match s.openLate with
      | .idle => some { s with openOnce := false, openLate := .locked }
      | _ => none
  | .regOpen2 =>
      match s.openLate with
      | .locked =>
          if s.rs = .open then some { s with openPending := s.openPending + 1, openLate := .done }
          else some { s with openLate := .done }
      | _ => none
  | .regClose1 =>
      if cfg.closeH then none else
      match s.closeLate with
      | .idle => some { s with closeOnce := false, closeLate := .locked }
      | _ => none
  | .regClose2 =>
      match s.closeLate with
      | .locked =>
          if s.rs = .closed then some { s with closePending := s.closePending + 1, closeLate := .done }
          else some { s with closeLate := .done }
      | _ => none

/-- initial state with `nc` close callers and `np` PeerConnection.Close callers that have not started -/
def init (nc np : Nat) : St :=
  { closers := List.replicate nc .idle, pcs := List.replicate np .idle }

def runActions (cfg : Cfg) (s : St) : List Action → Option St
  | [] => some s
  | a :: as => (step cfg s a).bind (fun s' => runActions cfg s' as)

/-- every state some interleaving can reach -/
inductive Reachable (cfg : Cfg) (nc np : Nat) : St → Prop
  | init : Reachable cfg nc np (init nc np)
  | step {s s' : St} (a : Action) : Reachable cfg nc np s → step cfg s a = some s' → Reachable cfg nc np s'

/-- the read loop, if one was started, has returned -/
def readerEnded (s : St) : Bool :=
  match s.reader with
  | none => true
  | some .done => true
  | _ => false

/-- `Close` / `GracefulClose` has been called (its first critical section ran) -/
def closeCalled (s : St) : Bool := s.graceful

/-- the transport is gone: reads on the channel's stream fail -/
def transportGone (s : St) : Bool := s.eof

/-- strictly forward in connecting < open < closing < closed -/
def RS.lt (a b : RS) : Prop := a.rank < b.rank

instance : DecidableRel RS.lt := fun a b => inferInstanceAs (Decidable (a.rank < b.rank))

end WebrtcVerif.DcState
