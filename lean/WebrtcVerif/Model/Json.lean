/-
  Model of this repository's JSON / text / PEM encodings of public value types (property C38).

  What is modelled (code of pion/webrtc itself, branch by branch):
    * every enum's `String()` switch, string constructor (`newX` / `NewX`) switch, and its
      `MarshalJSON`/`UnmarshalJSON` or `MarshalText`/`UnmarshalText` pair             (§ Enums)
    * `ICEServer.MarshalJSON` / `UnmarshalJSON` (`iceserverUnmarshalFields`, `…Urls`, `…Oauth`)  (§ ICEServer)
    * `SessionDescription`, `ICECandidateInit` (struct tags; the struct codec itself is encoding/json's)
    * `UnmarshalStatsJSON` and the four kind-dispatching helpers                        (§ Stats)
    * `Certificate.PEM`, `CertificateFromPEM` (block loop), `Certificate.Equals`         (§ PEM)

  What is NOT modelled but assumed (external, exercised by the harness on the real libraries):
    * `encoding/json` prints a value tree `J` and parses it back to the same tree; strings are valid
      UTF-8 (Go coerces invalid bytes to U+FFFD, which JSON text cannot avoid); the default struct /
      pointer / slice codec behaves as written in `decStr`, `decOptStr`, `decOptU16`.
    * `crypto/x509`, PKCS#8 and `encoding/pem`: a DER certificate / PKCS#8 key parses back to the
      certificate / key it was produced from (the `Payload` constructors carry the identity).
  Strings are `List Char` so that the finite tables are evaluated by the kernel (`decide`).
-/
namespace WebrtcVerif.Json

abbrev Str := List Char

instance {ε α} [DecidableEq ε] [DecidableEq α] : DecidableEq (Except ε α) := fun a b =>
  match a, b with
  | .ok x, .ok y => if h : x = y then isTrue (by rw [h]) else isFalse (fun e => h (by cases e; rfl))
  | .error x, .error y => if h : x = y then isTrue (by rw [h]) else isFalse (fun e => h (by cases e; rfl))
  | .ok _, .error _ => isFalse (fun e => by cases e)
  | .error _, .ok _ => isFalse (fun e => by cases e)

/-- JSON value tree.  Integers are kept apart from other numeric literals (`1.5`, `1e2`), which no
    integer-typed Go field accepts. -/
inductive J where
  | null
  | bool (b : Bool)
  | int (i : Int)
  | numx (text : Str)
  | str (s : Str)
  | arr (xs : List J)
  | obj (kvs : List (Str × J))
  deriving Inhabited

/-- field lookup as `map[string]any` / struct decoding sees it (object keys are distinct) -/
def J.get : J → Str → Option J
  | .obj kvs, k => kvs.lookup k
  | _, _ => none

/-! ## Case mapping used by the two case-insensitive decoders -/

def upperTab : List (Char × Char) :=
  [('A','a'),('B','b'),('C','c'),('D','d'),('E','e'),('F','f'),('G','g'),('H','h'),('I','i'),('J','j'),
   ('K','k'),('L','l'),('M','m'),('N','n'),('O','o'),('P','p'),('Q','q'),('R','r'),('S','s'),('T','t'),
   ('U','u'),('V','v'),('W','w'),('X','x'),('Y','y'),('Z','z')]

/-- `unicode.ToLower` as far as it can produce an ASCII letter: A–Z, U+212A KELVIN SIGN ↦ k,
    U+0130 ↦ i.  Every other rune maps to a non-ASCII rune (kept as is), which matches no table entry. -/
def goLower (c : Char) : Char :=
  match upperTab.lookup c with
  | some l => l
  | none => if c.toNat = 0x212A then 'k' else if c.toNat = 0x130 then 'i' else c

def strLower (s : Str) : Str := s.map goLower

/-- ASCII-only lower-casing: `strings.EqualFold` against a constant none of whose letters has a
    non-ASCII simple-fold partner (only k/K/U+212A and s/S/U+017F do) is ASCII case-insensitivity. -/
def asciiLower (c : Char) : Char := (upperTab.lookup c).getD c

/-! ## Enums -/

inductive Codec
  | json   -- MarshalJSON / UnmarshalJSON defined
  | text   -- MarshalText / UnmarshalText defined
  | plain  -- neither: encoding/json writes the underlying integer
  deriving DecidableEq, Repr

def unknownStr : Str := "unknown".toList   -- ErrUnknownType.Error()

/-- One enum type: its tables exactly as the Go switches list them (source order). -/
structure Enum where
  name : String
  /-- number of declared constants; they are the raw values `0 … count-1` -/
  count : Nat
  /-- `String()`: `case` raw ⇒ string; `default` ⇒ "unknown" -/
  strTab : List (Int × Str)
  /-- the string constructor's `case`s -/
  newTab : List (Str × Int) := []
  /-- value of its `default:` branch -/
  newDefault : Int := 0
  /-- the `default:` branch also returns an error -/
  newErr : Bool := false
  /-- the constructor compares with `strings.EqualFold` instead of `==` -/
  newFold : Bool := false
  hasNew : Bool := true
  codec : Codec := .plain
  /-- `UnmarshalJSON` carries its own table, applied to `strings.ToLower(s)`, error on `default:` -/
  ujTab : Option (List (Str × Int)) := none
  /-- range of the underlying integer type -/
  lo : Int := -9223372036854775808
  hi : Int := 9223372036854775807

namespace Enum

def string (e : Enum) (raw : Int) : Str := (e.strTab.lookup raw).getD unknownStr

/-- `newX(raw)`: value and "returned an error" -/
def new (e : Enum) (s : Str) : Int × Bool :=
  let hit := if e.newFold then (e.newTab.find? (fun p => p.1.map asciiLower == s.map asciiLower)).map (·.2)
             else e.newTab.lookup s
  match hit with
  | some v => (v, false)
  | none => (e.newDefault, e.newErr)

/-- raw values that are declared constants of the type -/
def declared (e : Enum) (raw : Int) : Bool := 0 ≤ raw && raw < e.count

/-- `MarshalText` -/
def marshalText (e : Enum) (raw : Int) : Str := e.string raw

/-- `UnmarshalText` (only the two constructors that can fail propagate an error) -/
def unmarshalText (e : Enum) (s : Str) : Except Unit Int :=
  let r := e.new s
  if r.2 then .error () else .ok r.1

/-- what `json.Marshal(v)` produces -/
def marshalJSON (e : Enum) (raw : Int) : J :=
  match e.codec with
  | .json => .str (e.string raw)      -- json.Marshal(t.String())
  | .text => .str (e.marshalText raw)
  | .plain => .int raw

/-- what `json.Unmarshal(tree, &v)` does to a variable currently holding `cur` -/
def unmarshalJSON (e : Enum) (cur : Int) (j : J) : Except Unit Int :=
  match e.codec with
  | .json =>
    -- `var s string; json.Unmarshal(b, &s)`: a string is stored, null leaves "", anything else fails
    let s? : Option Str := match j with | .str s => some s | .null => some [] | _ => none
    match s? with
    | none => .error ()
    | some s =>
      match e.ujTab with
      | some tab =>
        match tab.lookup (strLower s) with
        | some v => .ok v
        | none => .error ()
      | none =>
        let r := e.new s
        if r.2 then .error () else .ok r.1
  | .text =>
    match j with
    | .str s => e.unmarshalText s
    | .null => .ok cur                 -- encoding/json does not consult a TextUnmarshaler for null
    | _ => .error ()
  | .plain =>
    match j with
    | .int i => if e.lo ≤ i ∧ i ≤ e.hi then .ok i else .error ()
    | .null => .ok cur
    | _ => .error ()

end Enum

/-- string literal as a model string -/
abbrev lit (x : String) : Str := x.toList

section tables

def sdpType : Enum where
  name := "SDPType"
  count := 5
  strTab := [(1, lit "offer"), (2, lit "pranswer"), (3, lit "answer"), (4, lit "rollback")]
  newTab := [(lit "offer", 1), (lit "pranswer", 2), (lit "answer", 3), (lit "rollback", 4)]
  codec := .json
  ujTab := some [(lit "offer", 1), (lit "pranswer", 2), (lit "answer", 3), (lit "rollback", 4)]

def signalingState : Enum where
  name := "SignalingState"
  count := 7
  strTab := [(1, lit "stable"), (2, lit "have-local-offer"), (3, lit "have-remote-offer"),
             (4, lit "have-local-pranswer"), (5, lit "have-remote-pranswer"), (6, lit "closed")]
  newTab := [(lit "stable", 1), (lit "have-local-offer", 2), (lit "have-remote-offer", 3),
             (lit "have-local-pranswer", 4), (lit "have-remote-pranswer", 5), (lit "closed", 6)]
  lo := -2147483648
  hi := 2147483647

def iceConnectionState : Enum where
  name := "ICEConnectionState"
  count := 8
  strTab := [(1, lit "new"), (2, lit "checking"), (3, lit "connected"), (4, lit "completed"),
             (5, lit "disconnected"), (6, lit "failed"), (7, lit "closed")]
  newTab := [(lit "new", 1), (lit "checking", 2), (lit "connected", 3), (lit "completed", 4),
             (lit "disconnected", 5), (lit "failed", 6), (lit "closed", 7)]

def iceGatheringState : Enum where
  name := "ICEGatheringState"
  count := 4
  strTab := [(1, lit "new"), (2, lit "gathering"), (3, lit "complete")]
  newTab := [(lit "new", 1), (lit "gathering", 2), (lit "complete", 3)]

def iceGathererState : Enum where
  name := "ICEGathererState"
  count := 5
  strTab := [(1, lit "new"), (2, lit "gathering"), (3, lit "complete"), (4, lit "closed")]
  hasNew := false
  lo := 0
  hi := 4294967295

def iceTransportState : Enum where
  name := "ICETransportState"
  count := 8
  strTab := [(1, lit "new"), (2, lit "checking"), (3, lit "connected"), (4, lit "completed"),
             (5, lit "failed"), (6, lit "disconnected"), (7, lit "closed")]
  newTab := [(lit "new", 1), (lit "checking", 2), (lit "connected", 3), (lit "completed", 4),
             (lit "failed", 5), (lit "disconnected", 6), (lit "closed", 7)]
  codec := .text

def dtlsTransportState : Enum where
  name := "DTLSTransportState"
  count := 6
  strTab := [(1, lit "new"), (2, lit "connecting"), (3, lit "connected"), (4, lit "closed"), (5, lit "failed")]
  newTab := [(lit "new", 1), (lit "connecting", 2), (lit "connected", 3), (lit "closed", 4), (lit "failed", 5)]
  codec := .text

def sctpTransportState : Enum where
  name := "SCTPTransportState"
  count := 4
  strTab := [(1, lit "connecting"), (2, lit "connected"), (3, lit "closed")]
  newTab := [(lit "connecting", 1), (lit "connected", 2), (lit "closed", 3)]

def dataChannelState : Enum where
  name := "DataChannelState"
  count := 5
  strTab := [(1, lit "connecting"), (2, lit "open"), (3, lit "closing"), (4, lit "closed")]
  newTab := [(lit "connecting", 1), (lit "open", 2), (lit "closing", 3), (lit "closed", 4)]
  codec := .text

def peerConnectionState : Enum where
  name := "PeerConnectionState"
  count := 7
  strTab := [(1, lit "new"), (2, lit "connecting"), (3, lit "connected"), (4, lit "disconnected"),
             (5, lit "failed"), (6, lit "closed")]
  newTab := [(lit "new", 1), (lit "connecting", 2), (lit "connected", 3), (lit "disconnected", 4),
             (lit "failed", 5), (lit "closed", 6)]

def bundlePolicy : Enum where
  name := "BundlePolicy"
  count := 4
  strTab := [(1, lit "balanced"), (2, lit "max-compat"), (3, lit "max-bundle")]
  newTab := [(lit "balanced", 1), (lit "max-compat", 2), (lit "max-bundle", 3)]
  codec := .json

def rtcpMuxPolicy : Enum where
  name := "RTCPMuxPolicy"
  count := 3
  strTab := [(1, lit "negotiate"), (2, lit "require")]
  newTab := [(lit "negotiate", 1), (lit "require", 2)]
  codec := .json

def iceTransportPolicy : Enum where
  name := "ICETransportPolicy"
  count := 3
  strTab := [(2, lit "nohost"), (1, lit "relay"), (0, lit "all")]
  newTab := [(lit "nohost", 2), (lit "relay", 1)]
  newDefault := 0
  codec := .json

def sdpSemantics : Enum where
  name := "SDPSemantics"
  count := 3
  strTab := [(2, lit "unified-plan-with-fallback"), (0, lit "unified-plan"), (1, lit "plan-b")]
  newTab := [(lit "plan-b", 1), (lit "unified-plan-with-fallback", 2)]
  newDefault := 0
  codec := .json

def iceCredentialType : Enum where
  name := "ICECredentialType"
  count := 2
  strTab := [(0, lit "password"), (1, lit "oauth")]
  newTab := [(lit "password", 0), (lit "oauth", 1)]
  newDefault := 0
  newErr := true
  codec := .json

def iceRole : Enum where
  name := "ICERole"
  count := 3
  strTab := [(1, lit "controlling"), (2, lit "controlled")]
  newTab := [(lit "controlling", 1), (lit "controlled", 2)]
  codec := .text

def iceCandidateType : Enum where
  name := "ICECandidateType"
  count := 5
  strTab := [(1, lit "host"), (2, lit "srflx"), (3, lit "prflx"), (4, lit "relay")]
  newTab := [(lit "host", 1), (lit "srflx", 2), (lit "prflx", 3), (lit "relay", 4)]
  newErr := true
  codec := .text

def iceProtocol : Enum where
  name := "ICEProtocol"
  count := 3
  strTab := [(1, lit "udp"), (2, lit "tcp")]
  newTab := [(lit "udp", 1), (lit "tcp", 2)]
  newErr := true
  newFold := true

end tables

def allEnums : List Enum :=
  [sdpType, signalingState, iceConnectionState, iceGatheringState, iceGathererState, iceTransportState,
   dtlsTransportState, sctpTransportState, dataChannelState, peerConnectionState, bundlePolicy,
   rtcpMuxPolicy, iceTransportPolicy, sdpSemantics, iceCredentialType, iceRole, iceCandidateType,
   iceProtocol]

def Enum.byName (n : String) : Option Enum := allEnums.find? (·.name == n)

/-! ## encoding/json's default codec for the field kinds that occur (assumed, see header) -/

/-- `string` field: a JSON string is stored, `null` leaves the field, anything else is an error -/
def decStr (cur : Str) : J → Except Unit Str
  | .str s => .ok s
  | .null => .ok cur
  | _ => .error ()

/-- `*string` field -/
def decOptStr : J → Except Unit (Option Str)
  | .str s => .ok (some s)
  | .null => .ok none
  | _ => .error ()

/-- `*uint16` field -/
def decOptU16 : J → Except Unit (Option Nat)
  | .int i => if 0 ≤ i ∧ i < 65536 then .ok (some i.toNat) else .error ()
  | .null => .ok none
  | _ => .error ()

/-- a struct field: absent key ⇒ field untouched -/
def field {α} (j : J) (k : Str) (cur : α) (dec : J → Except Unit α) : Except Unit α :=
  match j.get k with
  | some v => dec v
  | none => .ok cur

def strs : J → Option (List Str)
  | .arr xs => xs.mapM (fun | .str s => some s | _ => none)
  | _ => none

/-! ## SessionDescription  (`Type SDPType "type"`, `SDP string "sdp"`; `parsed` is unexported) -/

structure SessionDescription where
  type : Int
  sdp : Str
  deriving DecidableEq, Repr

def SessionDescription.marshal (d : SessionDescription) : J :=
  .obj [("type".toList, sdpType.marshalJSON d.type), ("sdp".toList, .str d.sdp)]

/-- `json.Unmarshal(tree, &SessionDescription{})` -/
def SessionDescription.unmarshal : J → Except Unit SessionDescription
  | .null => .ok ⟨0, []⟩
  | .obj kvs => do
      let t ← field (.obj kvs) "type".toList 0 (sdpType.unmarshalJSON 0)
      let s ← field (.obj kvs) "sdp".toList [] (decStr [])
      pure ⟨t, s⟩
  | _ => .error ()

/-! ## ICECandidateInit -/

structure ICECandidateInit where
  candidate : Str
  sdpMid : Option Str
  sdpMLineIndex : Option Nat
  usernameFragment : Option Str
  deriving DecidableEq, Repr

def optStrJ : Option Str → J
  | some s => .str s
  | none => .null

def ICECandidateInit.marshal (c : ICECandidateInit) : J :=
  .obj [("candidate".toList, .str c.candidate),
        ("sdpMid".toList, optStrJ c.sdpMid),
        ("sdpMLineIndex".toList, match c.sdpMLineIndex with | some n => .int n | none => .null),
        ("usernameFragment".toList, optStrJ c.usernameFragment)]

def ICECandidateInit.unmarshal : J → Except Unit ICECandidateInit
  | .null => .ok ⟨[], none, none, none⟩
  | .obj kvs => do
      let c ← field (.obj kvs) "candidate".toList [] (decStr [])
      let m ← field (.obj kvs) "sdpMid".toList none decOptStr
      let i ← field (.obj kvs) "sdpMLineIndex".toList none decOptU16
      let u ← field (.obj kvs) "usernameFragment".toList none decOptStr
      pure ⟨c, m, i, u⟩
  | _ => .error ()

/-! ## ICEServer -/

/-- the `Credential any` field -/
inductive Cred where
  | none                              -- nil
  | str (s : Str)                     -- a Go string
  | oauth (macKey accessToken : Str)  -- an OAuthCredential
  | generic (j : J)                   -- a value of the shape encoding/json decodes into `any`
                                      -- (bool, float64, []any, map[string]any); `j` is its tree
  | foreignInt (i : Int)              -- some other Go value (an `int`), marshalled as `i`
  deriving Inhabited

structure ICEServer where
  /-- `none` = nil slice, `some []` = empty non-nil slice -/
  urls : Option (List Str)
  username : Str
  credential : Cred
  credentialType : Int
  deriving Inhabited

def kUrls : Str := "urls".toList
def kUsername : Str := "username".toList
def kCredential : Str := "credential".toList
def kCredentialType : Str := "credentialType".toList
def kMACKey : Str := "MACKey".toList
def kAccessToken : Str := "AccessToken".toList

def Cred.toJ : Cred → J
  | .none => .null
  | .str s => .str s
  | .oauth m t => .obj [(kMACKey, .str m), (kAccessToken, .str t)]
  | .generic j => j
  | .foreignInt i => .int i

def Cred.isNone : Cred → Bool
  | .none => true
  | _ => false

/-- `[]string` as encoding/json writes it: a nil slice is `null` -/
def urlsJ : Option (List Str) → J
  | none => .null
  | some l => .arr (l.map .str)

/-- `ICEServer.MarshalJSON`: the map it builds (Go sorts the keys when printing) -/
def ICEServer.marshal (s : ICEServer) : J :=
  .obj ([(kUrls, urlsJ s.urls)]
        ++ (if s.username ≠ [] then [(kUsername, J.str s.username)] else [])
        ++ (if s.credential.isNone then [] else [(kCredential, s.credential.toJ)])
        ++ [(kCredentialType, iceCredentialType.marshalJSON s.credentialType)])

/-- `iceserverUnmarshalUrls` (with the `null` case of commit "fix: ICEServer.UnmarshalJSON accepts …") -/
def unmarshalUrls : J → Except Unit (Option (List Str))
  | .null => .ok none
  | .arr xs =>
    match strs (.arr xs) with
    | some l => .ok (some l)
    | none => .error ()
  | _ => .error ()

/-- `iceserverUnmarshalOauth` -/
def unmarshalOauth : J → Except Unit Cred
  | .obj kvs =>
    match kvs.lookup kMACKey with
    | some (.str m) =>
      match kvs.lookup kAccessToken with
      | some (.str t) => .ok (.oauth m t)
      | _ => .error ()
    | _ => .error ()
  | _ => .error ()

/-- a decoded `any` stored into `Credential` -/
def Cred.ofAny : J → Cred
  | .null => .none
  | .str s => .str s
  | j => .generic j

/-- `iceserverUnmarshalFields` on a fresh `ICEServer{}` -/
def unmarshalFields (kvs : List (Str × J)) : Except Unit ICEServer := do
  let urls ← match kvs.lookup kUrls with
    | some v => unmarshalUrls v
    | none => .ok (some [])
  let username ← match kvs.lookup kUsername with
    | some (.str u) => .ok u
    | some _ => .error ()
    | none => .ok []
  let ct ← match kvs.lookup kCredentialType with
    | some (.str c) =>
      let r := iceCredentialType.new c
      if r.2 then .error () else .ok r.1
    | some _ => .error ()
    | none => .ok 0
  let cred ← match kvs.lookup kCredential with
    | some v =>
      if ct = 0 then .ok (Cred.ofAny v)
      else if ct = 1 then unmarshalOauth v
      else .error ()
    | none => .ok Cred.none
  pure ⟨urls, username, cred, ct⟩

/-- `ICEServer.UnmarshalJSON` -/
def ICEServer.unmarshal : J → Except Unit ICEServer
  | .obj kvs => unmarshalFields kvs
  | _ => .error ()

/-! ## Stats: `UnmarshalStatsJSON` -/

inductive StatsStruct
  | codec | inboundRTP | outboundRTP | remoteInboundRTP | remoteOutboundRTP | csrc
  | audioSource | videoSource | audioPlayout | peerConnection | dataChannel | mediaStream
  | audioSender | videoSender | senderAudioTrack | senderVideoTrack
  | audioReceiver | videoReceiver | transport | candidatePair | iceCandidate | certificate | sctpTransport
  deriving DecidableEq, Repr, Inhabited

def StatsStruct.all : List StatsStruct :=
  [.codec, .inboundRTP, .outboundRTP, .remoteInboundRTP, .remoteOutboundRTP, .csrc, .audioSource,
   .videoSource, .audioPlayout, .peerConnection, .dataChannel, .mediaStream, .audioSender, .videoSender,
   .senderAudioTrack, .senderVideoTrack, .audioReceiver, .videoReceiver, .transport, .candidatePair,
   .iceCandidate, .certificate, .sctpTransport]

/-- Go type name -/
def StatsStruct.goName : StatsStruct → String
  | .codec => "CodecStats" | .inboundRTP => "InboundRTPStreamStats" | .outboundRTP => "OutboundRTPStreamStats"
  | .remoteInboundRTP => "RemoteInboundRTPStreamStats" | .remoteOutboundRTP => "RemoteOutboundRTPStreamStats"
  | .csrc => "RTPContributingSourceStats" | .audioSource => "AudioSourceStats" | .videoSource => "VideoSourceStats"
  | .audioPlayout => "AudioPlayoutStats" | .peerConnection => "PeerConnectionStats"
  | .dataChannel => "DataChannelStats" | .mediaStream => "MediaStreamStats" | .audioSender => "AudioSenderStats"
  | .videoSender => "VideoSenderStats" | .senderAudioTrack => "SenderAudioTrackAttachmentStats"
  | .senderVideoTrack => "SenderVideoTrackAttachmentStats" | .audioReceiver => "AudioReceiverStats"
  | .videoReceiver => "VideoReceiverStats" | .transport => "TransportStats"
  | .candidatePair => "ICECandidatePairStats" | .iceCandidate => "ICECandidateStats"
  | .certificate => "CertificateStats" | .sctpTransport => "SCTPTransportStats"

inductive Kind | audio | video
  deriving DecidableEq, Repr

/-- `switch MediaKind(kindHolder.Kind)` of the four helpers -/
def kindOf (s : Str) : Option Kind :=
  if s = "audio".toList then some .audio else if s = "video".toList then some .video else none

/-- what a `case` of `switch typeHolder.Type` does: unmarshal into one struct, or call a helper that
    switches on `kind` between an audio and a video struct -/
inductive Target
  | one (s : StatsStruct)
  | byKind (audio video : StatsStruct)
  deriving DecidableEq, Repr

/-- the `switch typeHolder.Type` of `UnmarshalStatsJSON`, case by case in source order
    (`case StatsTypeLocalCandidate, StatsTypeRemoteCandidate:` is two entries) -/
def statsTypeTab : List (Str × Target) :=
  [(lit "codec", .one .codec),
   (lit "inbound-rtp", .one .inboundRTP),
   (lit "outbound-rtp", .one .outboundRTP),
   (lit "remote-inbound-rtp", .one .remoteInboundRTP),
   (lit "remote-outbound-rtp", .one .remoteOutboundRTP),
   (lit "csrc", .one .csrc),
   (lit "media-source", .byKind .audioSource .videoSource),         -- unmarshalMediaSourceStats
   (lit "media-playout", .one .audioPlayout),
   (lit "peer-connection", .one .peerConnection),
   (lit "data-channel", .one .dataChannel),
   (lit "stream", .one .mediaStream),
   (lit "track", .byKind .senderAudioTrack .senderVideoTrack),      -- unmarshalTrackStats
   (lit "sender", .byKind .audioSender .videoSender),               -- unmarshalSenderStats
   (lit "receiver", .byKind .audioReceiver .videoReceiver),         -- unmarshalReceiverStats
   (lit "transport", .one .transport),
   (lit "candidate-pair", .one .candidatePair),
   (lit "local-candidate", .one .iceCandidate),
   (lit "remote-candidate", .one .iceCandidate),
   (lit "certificate", .one .certificate),
   (lit "sctp-transport", .one .sctpTransport)]

/-- which struct a (type, kind) pair is unmarshalled into; `none` = `default:` ⇒ ErrUnknownType -/
def statsDispatch (type kind : Str) : Option StatsStruct :=
  match statsTypeTab.lookup type with
  | none => none
  | some (.one s) => some s
  | some (.byKind a v) =>
    match kindOf kind with
    | some .audio => some a
    | some .video => some v
    | none => none

/-- the `Type` constants a struct is emitted with by this repository (ICECandidateStats has two) -/
def StatsStruct.ownTypes : StatsStruct → List Str
  | .codec => ["codec".toList] | .inboundRTP => ["inbound-rtp".toList] | .outboundRTP => ["outbound-rtp".toList]
  | .remoteInboundRTP => ["remote-inbound-rtp".toList] | .remoteOutboundRTP => ["remote-outbound-rtp".toList]
  | .csrc => ["csrc".toList] | .audioSource => ["media-source".toList] | .videoSource => ["media-source".toList]
  | .audioPlayout => ["media-playout".toList] | .peerConnection => ["peer-connection".toList]
  | .dataChannel => ["data-channel".toList] | .mediaStream => ["stream".toList]
  | .audioSender => ["sender".toList] | .videoSender => ["sender".toList]
  | .senderAudioTrack => ["track".toList] | .senderVideoTrack => ["track".toList]
  | .audioReceiver => ["receiver".toList] | .videoReceiver => ["receiver".toList]
  | .transport => ["transport".toList] | .candidatePair => ["candidate-pair".toList]
  | .iceCandidate => ["local-candidate".toList, "remote-candidate".toList]
  | .certificate => ["certificate".toList] | .sctpTransport => ["sctp-transport".toList]

/-- the `Kind` a kind-dispatched struct must carry to come back as itself (none: kind is not consulted) -/
def StatsStruct.ownKind : StatsStruct → Option Str
  | .audioSource | .senderAudioTrack | .audioSender | .audioReceiver => some "audio".toList
  | .videoSource | .senderVideoTrack | .videoSender | .videoReceiver => some "video".toList
  | _ => none

/-- structs that have a `Kind string "kind"` field -/
def StatsStruct.hasKind : StatsStruct → Bool
  | .inboundRTP | .outboundRTP | .remoteInboundRTP | .remoteOutboundRTP | .audioSource | .videoSource
  | .audioPlayout | .audioSender | .videoSender | .senderAudioTrack | .senderVideoTrack
  | .audioReceiver | .videoReceiver => true
  | _ => false

/-- enum-typed fields (JSON key, enum) of a stats struct -/
def StatsStruct.enumFields : StatsStruct → List (Str × Enum)
  | .dataChannel => [("state".toList, dataChannelState)]
  | .transport => [("iceRole".toList, iceRole), ("dtlsState".toList, dtlsTransportState),
                   ("iceState".toList, iceTransportState)]
  | .iceCandidate => [("candidateType".toList, iceCandidateType)]
  | _ => []

/-- The part of a Stats value this repository's code looks at: which Go struct it is, its `Type` and
    `Kind` strings and its enum-typed fields (raw values, in `enumFields` order).  All other fields go
    through encoding/json's struct codec only. -/
structure StatsValue where
  struct : StatsStruct
  type : Str
  kind : Str
  enums : List Int
  deriving DecidableEq, Repr

def StatsValue.marshal (v : StatsValue) : J :=
  .obj ([("type".toList, J.str v.type)]
        ++ (if v.struct.hasKind then [("kind".toList, J.str v.kind)] else [])
        ++ (v.struct.enumFields.zip v.enums).map (fun p => (p.1.1, p.1.2.marshalJSON p.2)))

def decodeEnums (j : J) : List (Str × Enum) → Except Unit (List Int)
  | [] => .ok []
  | (k, e) :: rest => do
      let v ← field j k 0 (e.unmarshalJSON 0)
      let tl ← decodeEnums j rest
      pure (v :: tl)

/-- does decoding along this `case` read the `kind` key at all?  (the kind-switching helpers do; so does the
    final struct decode when the struct has a `Kind` field) -/
def Target.readsKind : Target → Bool
  | .one s => s.hasKind
  | .byKind _ _ => true

/-- `UnmarshalStatsJSON` on a value tree -/
def unmarshalStats : J → Except Unit StatsValue
  | .obj kvs => do
      let type ← field (.obj kvs) "type".toList [] (decStr [])
      match statsTypeTab.lookup type with
      | none => .error ()                    -- `default:` ⇒ ErrUnknownType
      | some tgt => do
          let kind ← if tgt.readsKind then field (.obj kvs) "kind".toList [] (decStr []) else pure []
          match statsDispatch type kind with
          | none => .error ()
          | some s => do
              let es ← decodeEnums (.obj kvs) s.enumFields
              pure ⟨s, type, kind, es⟩
  | _ => .error ()      -- null: Type stays "" ⇒ ErrUnknownType; other trees: type error

/-! ## PEM -/

inductive KeyKind | rsa | ecdsa | ed25519 | other | absent
  deriving DecidableEq, Repr

/-- a private key: its Go dynamic type and an abstract identity (the public parameters `Equals` compares) -/
structure Key where
  kind : KeyKind
  id : Nat
  deriving DecidableEq, Repr

/-- `Certificate{privateKey, x509Cert}`; `cert` is the identity of the DER encoding (`x509Cert.Raw`);
    fingerprint and expiry are functions of it. -/
structure Certificate where
  key : Key
  cert : Nat
  deriving DecidableEq, Repr

/-- `Certificate.Equals` (with the Ed25519 case of commit "fix: Certificate.Equals compares Ed25519 keys") -/
def Certificate.equals (c o : Certificate) : Bool :=
  match c.key.kind with
  | .rsa => if o.key.kind = .rsa then (if c.key.id ≠ o.key.id then false else c.cert == o.cert) else false
  | .ecdsa => if o.key.kind = .ecdsa then (if c.key.id ≠ o.key.id then false else c.cert == o.cert) else false
  | .ed25519 => if o.key.kind = .ed25519 then (if c.key.id ≠ o.key.id then false else c.cert == o.cert) else false
  | _ => false

/-- content of a PEM block, by what the parsers make of it -/
inductive Payload
  | certDer (cert : Nat)     -- DER of certificate `cert`
  | certB64 (cert : Nat)     -- base64 text of that DER
  | keyPkcs8 (k : Key)       -- PKCS#8 of key `k`
  | junk                     -- anything the parser in question rejects
  deriving DecidableEq, Repr

inductive BlockType | certificate | privateKey | otherType
  deriving DecidableEq, Repr

structure Block where
  type : BlockType
  payload : Payload
  deriving DecidableEq, Repr

inductive PemErr | multipleCert | multiplePriv | decode | missing | marshalKey
  deriving DecidableEq, Repr

/-- `Certificate.PEM()`: the block list it writes -/
def Certificate.pem (c : Certificate) : Except PemErr (List Block) :=
  if c.key.kind = .absent then .error .marshalKey        -- x509.MarshalPKCS8PrivateKey(nil) fails
  else .ok [⟨.certificate, .certDer c.cert⟩, ⟨.privateKey, .keyPkcs8 c.key⟩]

/-- the loop of `CertificateFromPEM` over the decoded blocks -/
def fromPEMLoop : List Block → Option Nat → Option Key → Except PemErr (Option Nat × Option Key)
  | [], cert, key => .ok (cert, key)
  | b :: rest, cert, key =>
    match b.type with
    | .certificate =>
      if cert.isSome then .error .multipleCert
      else match b.payload with
        | .certDer c => fromPEMLoop rest (some c) key
        | .certB64 c => fromPEMLoop rest (some c) key      -- ParseCertificate fails, base64 fallback succeeds
        | _ => .error .decode
    | .privateKey =>
      if key.isSome then .error .multiplePriv
      else match b.payload with
        | .keyPkcs8 k => fromPEMLoop rest cert (some k)
        | _ => .error .decode
    | .otherType => fromPEMLoop rest cert key

def certificateFromPEM (blocks : List Block) : Except PemErr Certificate :=
  match fromPEMLoop blocks none none with
  | .error e => .error e
  | .ok (some c, some k) => .ok ⟨k, c⟩
  | .ok _ => .error .missing

end WebrtcVerif.Json
