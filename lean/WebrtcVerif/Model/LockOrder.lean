/-
  Model for the deadlock half of C40: threads that request, acquire and release mutual-exclusion locks.
  (sync.Mutex and sync.RWMutex are both treated as exclusive: a recursive RLock can deadlock against a
  waiting writer, so read locks get no special treatment.)
-/
namespace WebrtcVerif.LockOrder

abbrev Lock := Nat
abbrev Thread := Nat

structure St where
  holds : Thread → List Lock       -- locks a thread currently holds
  wants : Thread → Option Lock     -- the lock a thread is blocked on, if any

inductive Action
  | request (t : Thread) (l : Lock)   -- t calls l.Lock() (may block)
  | acquire (t : Thread)              -- the lock t wants is free: t gets it
  | release (t : Thread) (l : Lock)
  deriving Repr

def init : St := { holds := fun _ => [], wants := fun _ => none }

/-- `edges` is the program discipline: a thread only ever requests `l` while holding `h` if `(h, l)` is an
    edge of the extracted lock graph (that is what the extractor enumerates from the source). -/
def step (edges : List (Nat × Nat)) (s : St) : Action → Option St
  | .request t l =>
      if s.wants t = none ∧ (s.holds t).all (fun h => edges.contains (h, l)) then
        some { s with wants := fun u => if u = t then some l else s.wants u }
      else none
  | .acquire t =>
      match s.wants t with
      | none => none
      | some l =>
        -- enabled only if nobody holds l (which thread holds it is irrelevant to the discipline)
        some { holds := fun u => if u = t then l :: s.holds t else s.holds u,
               wants := fun u => if u = t then none else s.wants u }
  | .release t l =>
      if l ∈ s.holds t ∧ s.wants t = none then
        some { s with holds := fun u => if u = t then (s.holds t).erase l else s.holds u }
      else none

inductive Reachable (edges : List (Nat × Nat)) : St → Prop
  | init : Reachable edges init
  | step {s s' : St} (a : Action) : Reachable edges s → step edges s a = some s' → Reachable edges s'

/-- every lock a blocked thread already holds ranks below the lock it waits for -/
def Disciplined (rank : Lock → Nat) (s : St) : Prop :=
  ∀ t l, s.wants t = some l → ∀ h ∈ s.holds t, rank h < rank l

/-- a wait-for cycle: thread i waits for a lock held by thread i+1 (cyclically) -/
def WaitCycle (s : St) (ts : List Thread) : Prop :=
  ts ≠ [] ∧ ∀ i, (hi : i < ts.length) →
    ∃ l, s.wants ts[i] = some l ∧ l ∈ s.holds (ts[(i + 1) % ts.length]'(Nat.mod_lt _ (by omega)))

/-- the rank list of the generated file as a function (missing entries rank 0) -/
def rankOf (rank : List Nat) (l : Lock) : Nat := rank.getD l 0

/-- the decidable check run on the generated graph: every edge goes strictly up in rank
    (in particular there is no self-edge, i.e. no recursive locking) -/
def ranked (edges : List (Nat × Nat)) (rank : List Nat) : Bool :=
  edges.all (fun e => rankOf rank e.1 < rankOf rank e.2)

/-! ## Lock discipline (guarded fields)

The extractor also emits, for every struct that owns a mutex, every syntactic access to one of its fields
together with the guard relations that MUST hold at that point (`Generated.LockGraph.accesses`), and a
specification of guarded fields (`guardSpec`). Fields, kinds and guards are small numbers there. -/

/-- (field id, kind: 0 read / 1 write / 2 call on the field's value, base object still private, guards held) -/
abbrev Access := Nat × Nat × Bool × List Nat
/-- (field id, kind, guards of which one must be held) -/
abbrev Spec := Nat × Nat × List Nat

/-- `a` satisfies every specification entry that speaks about its field and kind -/
def accessOk (sp : List Spec) (a : Access) : Bool :=
  sp.all (fun s => !(s.1 == a.1 && s.2.1 == a.2.1) || a.2.2.1 || s.2.2.any (fun g => a.2.2.2.contains g))

/-- the decidable check run on the generated table -/
def guardedOk (as : List Access) (sp : List Spec) : Bool := as.all (accessOk sp)

/-- translate the specification in words into ids (position in the generated name lists) -/
def encodeSpec (fields guards : List String) (t : List (String × Nat × List String)) : List Spec :=
  t.map (fun e => (fields.idxOf e.1, e.2.1, e.2.2.map guards.idxOf))

end WebrtcVerif.LockOrder
