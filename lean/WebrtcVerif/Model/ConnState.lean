/-
  Model of peerconnection.go:updateConnectionState / onConnectionStateChange (property C22).
  Enum constructor order = the Go iota order, so `toNat`/`ofNat` are the raw Go values.
-/
namespace WebrtcVerif.ConnState

inductive Ice | unknown | new | checking | connected | completed | disconnected | failed | closed
  deriving DecidableEq, Repr, Inhabited
inductive Dtls | unknown | new | connecting | connected | closed | failed
  deriving DecidableEq, Repr, Inhabited
inductive Pc | unknown | new | connecting | connected | disconnected | failed | closed
  deriving DecidableEq, Repr, Inhabited

def Ice.all : List Ice := [.unknown, .new, .checking, .connected, .completed, .disconnected, .failed, .closed]
def Dtls.all : List Dtls := [.unknown, .new, .connecting, .connected, .closed, .failed]
def Pc.all : List Pc := [.unknown, .new, .connecting, .connected, .disconnected, .failed, .closed]

def Ice.toNat : Ice → Nat
  | .unknown => 0 | .new => 1 | .checking => 2 | .connected => 3 | .completed => 4
  | .disconnected => 5 | .failed => 6 | .closed => 7
def Dtls.toNat : Dtls → Nat
  | .unknown => 0 | .new => 1 | .connecting => 2 | .connected => 3 | .closed => 4 | .failed => 5
def Pc.toNat : Pc → Nat
  | .unknown => 0 | .new => 1 | .connecting => 2 | .connected => 3 | .disconnected => 4
  | .failed => 5 | .closed => 6

/-- Go `int` values outside the enum never compare equal to a named constant; they behave as `unknown`
    in every comparison of `updateConnectionState`. -/
def Ice.ofRaw (n : Nat) : Ice := (Ice.all.find? (·.toNat == n)).getD .unknown
def Dtls.ofRaw (n : Nat) : Dtls := (Dtls.all.find? (·.toNat == n)).getD .unknown
def Pc.ofRaw (n : Nat) : Pc := (Pc.all.find? (·.toNat == n)).getD .unknown

/-- The `switch` of `updateConnectionState`, case by case, in source order.  The initial value of
    `connectionState` (`PeerConnectionStateNew`) is what remains when no case matches. -/
def aggregate (isClosed : Bool) (ice : Ice) (dtls : Dtls) : Pc :=
  if isClosed then .closed
  else if ice = .failed ∨ dtls = .failed then .failed
  else if ice = .disconnected then .disconnected
  else if (ice = .new ∨ ice = .closed) ∧ (dtls = .new ∨ dtls = .closed) then .new
  else if (ice = .new ∨ ice = .checking) ∨ (dtls = .new ∨ dtls = .connecting) then .connecting
  else if (ice = .connected ∨ ice = .completed ∨ ice = .closed) ∧ (dtls = .connected ∨ dtls = .closed)
    then .connected
  else .new

/-- `pc.connectionState` plus the sequence of values handed to the OnConnectionStateChange handler. -/
structure St where
  state : Pc
  notified : List Pc := []
  deriving Repr, DecidableEq

/-- One call of `updateConnectionState`: compare with the stored value; store and notify on change. -/
def update (s : St) (inp : Bool × Ice × Dtls) : St :=
  let c := aggregate inp.1 inp.2.1 inp.2.2
  if s.state = c then s else { state := c, notified := s.notified ++ [c] }

def run (s : St) (inps : List (Bool × Ice × Dtls)) : St := inps.foldl update s

/-! ### Specification, written from the W3C text (RTCPeerConnectionState) as a precedence list -/

inductive Clause | closed | failed | disconnected | new | connecting | connected
  deriving DecidableEq, Repr

def Clause.holds (isClosed : Bool) (ice : Ice) (dtls : Dtls) : Clause → Bool
  | .closed => isClosed
  | .failed => ice == .failed || dtls == .failed
  | .disconnected => ice == .disconnected
  | .new => [Ice.new, Ice.closed].contains ice && [Dtls.new, Dtls.closed].contains dtls
  | .connecting => [Ice.new, Ice.checking].contains ice || [Dtls.new, Dtls.connecting].contains dtls
  | .connected => [Ice.connected, Ice.completed, Ice.closed].contains ice
                    && [Dtls.connected, Dtls.closed].contains dtls

def Clause.value : Clause → Pc
  | .closed => .closed | .failed => .failed | .disconnected => .disconnected
  | .new => .new | .connecting => .connecting | .connected => .connected

/-- W3C order: "closed", "failed", "disconnected", "new", "connecting", "connected";
    each clause is qualified by "none of the previous states apply". -/
def precedence : List Clause := [.closed, .failed, .disconnected, .new, .connecting, .connected]

def w3c (isClosed : Bool) (ice : Ice) (dtls : Dtls) : Option Pc :=
  (precedence.find? (Clause.holds isClosed ice dtls)).map Clause.value

def Ice.named (i : Ice) : Bool := i != .unknown
def Dtls.named (d : Dtls) : Bool := d != .unknown

/-- no two equal neighbours -/
def noRepeat : List Pc → Bool
  | a :: b :: rest => a != b && noRepeat (b :: rest)
  | _ => true

end WebrtcVerif.ConnState
