/-
  Model of peerconnection.go:updateConnectionState / onConnectionStateChange (property C22).
  Enum constructor order = the Go iota order, so `toNat`/`ofNat` are the raw Go values.
-/
namespace WebrtcVerif.ConnState

inductive Ice | unknown | new | checking | connected | completed | disconnected | failed | closed
  deriving DecidableEq, Repr, Inhabited
inductive Dtls | unknown | new | connecting | connected | closed | failed
  deriving DecidableEq, Repr, Inhabited
inductive Pc | unknown | new | connecting | connected | disconnected | failed | closed
  deriving DecidableEq, Repr, Inhabited

def Ice.all : List Ice := [.unknown, .new, .checking, .connected, .completed, .disconnected, .failed, .closed]
def Dtls.all : List Dtls := [.unknown, .new, .connecting, .connected, .closed, .failed]
def Pc.all : List Pc := [.unknown, .new, .connecting, .connected, .disconnected, .failed, .closed]

def Ice.toNat : Ice → Nat
  | .unknown => 0 | .new => 1 | .checking => 2 | .connected => 3 | .completed => 4
  | .disconnected => 5 | .failed => 6 | .closed => 7
def Dtls.toNat : Dtls → Nat
  | .unknown => 0 | .new => 1 | .connecting => 2 | .connected => 3 | .closed => 4 | .failed => 5
def Pc.toNat : Pc → Nat
  | .unknown => 0 | .new => 1 | .connecting => 2 | .connected => 3 | .disconnected => 4
  | .failed => 5 | .closed => 6

/-- Go `int` values outside the enum never compare equal to a named constant; they behave as `unknown`
    in every comparison of `updateConnectionState`. -/
def Ice.ofRaw (n : Nat) : Ice := (Ice.all.find? (·.toNat == n)).getD .unknown
def Dtls.ofRaw (n : Nat) : Dtls := (Dtls.all.find? (·.toNat == n)).getD .unknown
def Pc.ofRaw (n : Nat) : Pc := (Pc.all.find? (·.toNat == n)).getD .unknown

/-- The `switch` of `updateConnectionState`, case by case, in source order.  The initial value of
    `connectionState` (`PeerConnectionStateNew`) is what remains when no case matches. -/
def aggregate (isClosed : Bool) (ice : Ice) (dtls : Dtls) : Pc :=
  if isClosed then .closed
  else if ice = .failed ∨ dtls = .failed then .failed
  else if ice = .disconnected then .disconnected
  else if (ice = .new ∨ ice = .closed) ∧ (dtls = .new ∨ dtls = .closed) then .new
  else if (ice = .new ∨ ice = .checking) ∨ (dtls = .new ∨ dtls = .connecting) then .connecting
  else if (ice = .connected ∨ ice = .completed ∨ ice = .closed) ∧ (dtls = .connected ∨ dtls = .closed)
    then .connected
  else .new

/-- `pc.connectionState` plus the sequence of values handed to the OnConnectionStateChange handler. -/
structure St where
  state : Pc
  notified : List Pc := []
  deriving Repr, DecidableEq

/-- One call of `updateConnectionState`: compare with the stored value; store and notify on change. -/
def update (s : St) (inp : Bool × Ice × Dtls) : St :=
  let c := aggregate inp.1 inp.2.1 inp.2.2
  if s.state = c then s else { state := c, notified := s.notified ++ [c] }

def run (s : St) (inps : List (Bool × Ice × Dtls)) : St := inps.foldl update s

/-! ### Specification, written from the W3C text (RTCPeerConnectionState) as a precedence list -/

inductive Clause | closed | failed | disconnected | new | connecting | connected
  deriving DecidableEq, Repr

def Clause.holds (isClosed : Bool) (ice : Ice) (dtls : Dtls) : Clause → Bool
  | .closed => isClosed
  | .failed => ice == .failed || dtls == .failed
  | .disconnected => ice == .disconnected
  | .new => [Ice.new, Ice.closed].contains ice && [Dtls.new, Dtls.closed].contains dtls
  | .connecting => [Ice.new, Ice.checking].contains ice || [Dtls.new, Dtls.connecting].contains dtls
  | .connected => [Ice.connected, Ice.completed, Ice.closed].contains ice
                    && [Dtls.connected, Dtls.closed].contains dtls

def Clause.value : Clause → Pc
  | .closed => .closed | .failed => .failed | .disconnected => .disconnected
  | .new => .new | .connecting => .connecting | .connected => .connected

/-- W3C order: "closed", "failed", "disconnected", "new", "connecting", "connected";
    each clause is qualified by "none of the previous states apply". -/
def precedence : List Clause := [.closed, .failed, .disconnected, .new, .connecting, .connected]

def w3c (isClosed : Bool) (ice : Ice) (dtls : Dtls) : Option Pc :=
  (precedence.find? (Clause.holds isClosed ice dtls)).map Clause.value

def Ice.named (i : Ice) : Bool := i != .unknown
def Dtls.named (d : Dtls) : Bool := d != .unknown

/-- no two equal neighbours -/
def noRepeat : List Pc → Bool
  | a :: b :: rest => a != b && noRepeat (b :: rest)
  | _ => true

/-! ### The call sites of `updateConnectionState`

`updateConnectionState(ice, dtls)` is a function of its arguments; whether `PeerConnectionState` follows the
transports depends on WHERE it is called and with WHICH values.  The code has three call sites
(peerconnection.go):

* `createICETransport`: the ICE transport's internal state-change handler maps the `ICETransportState` to an
  `ICEConnectionState` (an unmapped value is logged and ignored: no store, no update), stores it
  (`onICEConnectionStateChange`) and calls `updateConnectionState(cs, pc.dtlsTransport.State())`: the new ICE
  state with the CURRENT DTLS state.
* `startTransports`: after `pc.dtlsTransport.Start(...)` has returned, with or without error,
  `updateConnectionState(pc.ICEConnectionState(), pc.dtlsTransport.State())`.  The PeerConnection registers no
  DTLS state-change handler: `DTLSTransport.Start` first sets `connecting` (`prepareStart`, only from `new`;
  otherwise it refuses and changes nothing) WITHOUT any update, and ends in `connected` (`completeStart`) or
  `failed` (`failStart`, `completeStart`), which the update that follows the call picks up.
* `close()`: sets `isClosed`, stops the DTLS transport (`Stop`: state `closed`) and calls
  `updateConnectionState(pc.ICEConnectionState(), pc.dtlsTransport.State())`; the ICE transport's own `closed`
  arrives through the ICE handler like any other ICE state.  A second `close()` returns early.

Each action below is one such step, executed atomically (the snapshot-then-lock window inside
`updateConnectionState` and its race with `Close` is the subject of C21's model, not of this one). -/

/-- Closed flag, the two transport states as the PeerConnection reads them, the stored `connectionState` and
    the values handed to the handler so far. -/
structure Sys where
  closed : Bool := false
  ice : Ice := .new
  dtls : Dtls := .new
  conn : Pc := .new
  notes : List Pc := []
  deriving Repr, DecidableEq

/-- A fresh PeerConnection. -/
def Sys.init : Sys := {}

/-- `updateConnectionState(pc.ICEConnectionState(), pc.dtlsTransport.State())` on the current values. -/
def Sys.sync (s : Sys) : Sys :=
  let st := update { state := s.conn, notified := s.notes } (s.closed, s.ice, s.dtls)
  { s with conn := st.state, notes := st.notified }

inductive Act
  /-- the ICE transport reports a state: store it, update with the current DTLS state -/
  | ice (i : Ice)
  /-- `DTLSTransport.prepareStart`: `new → connecting`, no update of its own -/
  | dtlsBegin
  /-- `completeStart` (`connected`), then the update of `startTransports` -/
  | dtlsConnected
  /-- the DTLS start fails (`failStart` / `completeStart`: `failed`), then the update of `startTransports` -/
  | dtlsStartFails
  /-- `prepareStart` refuses (state is not `new`): nothing changes, `startTransports` still updates -/
  | dtlsStartRefused
  /-- `close()`: closed flag, DTLS transport stopped, update -/
  | close
  deriving Repr, DecidableEq

def step (s : Sys) : Act → Sys
  | .ice i => if i = .unknown then s else Sys.sync { s with ice := i }
  | .dtlsBegin => if s.dtls = .new then { s with dtls := .connecting } else s
  | .dtlsConnected => Sys.sync { s with dtls := .connected }
  | .dtlsStartFails => Sys.sync { s with dtls := .failed }
  | .dtlsStartRefused => Sys.sync s
  | .close => if s.closed then s else Sys.sync { s with closed := true, dtls := .closed }

def exec (s : Sys) (as : List Act) : Sys := as.foldl step s

/-- States a PeerConnection can be in after any finite sequence of call-site steps. -/
inductive Reachable : Sys → Prop
  | init : Reachable Sys.init
  | step {s : Sys} (a : Act) : Reachable s → Reachable (step s a)

/-- The stored state after each action of a run. -/
def history (s : Sys) : List Act → List Pc
  | [] => []
  | a :: as => (step s a).conn :: history (step s a) as

/-- The distinct successive values of a sequence that starts after `prev`. -/
def changes (prev : Pc) : List Pc → List Pc
  | [] => []
  | x :: xs => if x = prev then changes prev xs else x :: changes x xs

/-- A state in which no update is outstanding.  The only step that changes an input of the aggregate without
    updating is `dtlsBegin`; it is invisible in the aggregate unless the ICE state the PeerConnection has stored
    is still `new` (or `closed`), i.e. unless `DTLSTransport.Start` has begun before the ICE agent's asynchronous
    `checking`/`connected` notifications were delivered.  Such a state is not settled: those notifications are
    still on their way, and each of them updates. -/
def Sys.quiescent (s : Sys) : Bool :=
  s.dtls != .connecting || s.closed || (s.ice != .new && s.ice != .closed)

/-! ### The same call sites without the atomicity assumption

`updateConnectionState(ice, dtls)` receives a SNAPSHOT of the transport states taken by its caller and only later
takes `pc.mu` to compare, store and notify (re-reading nothing but `isClosed`).  Two callers can therefore
overlap: the one with the older snapshot may reach the lock last.  `Sys2` keeps the snapshots of callers that
have not reached the lock yet. -/

structure Sys2 where
  base : Sys := {}
  pending : List (Ice × Dtls) := []
  deriving Repr, DecidableEq

inductive Act2
  /-- a call-site step up to and including the evaluation of the arguments of `updateConnectionState` -/
  | begin (a : Act)
  /-- the caller holding the `k`-th pending snapshot takes `pc.mu`: re-read `isClosed`, compare, store, notify -/
  | commit (k : Nat)
  deriving Repr, DecidableEq

/-- The state changes of a call-site step without its update. -/
def prepare (s : Sys) : Act → Sys × Bool   -- (state, does an update follow)
  | .ice i => if i = .unknown then (s, false) else ({ s with ice := i }, true)
  | .dtlsBegin => (if s.dtls = .new then { s with dtls := .connecting } else s, false)
  | .dtlsConnected => ({ s with dtls := .connected }, true)
  | .dtlsStartFails => ({ s with dtls := .failed }, true)
  | .dtlsStartRefused => (s, true)
  | .close => if s.closed then (s, false) else ({ s with closed := true, dtls := .closed }, true)

def step2 (s : Sys2) : Act2 → Sys2
  | .begin a =>
    let (b, upd) := prepare s.base a
    { base := b, pending := if upd then s.pending ++ [(b.ice, b.dtls)] else s.pending }
  | .commit k =>
    match s.pending[k]? with
    | none => s
    | some (i, d) =>
      let st := update { state := s.base.conn, notified := s.base.notes } (s.base.closed, i, d)
      { base := { s.base with conn := st.state, notes := st.notified }, pending := s.pending.eraseIdx k }

def exec2 (s : Sys2) (as : List Act2) : Sys2 := as.foldl step2 s

/-- every call-site step runs to completion before the next one starts -/
def serialize : List Act → List Act2
  | [] => []
  | a :: as => .begin a :: .commit 0 :: serialize as

/-- What the live tier's judge demands of one settled side, as a verdict key (`none` = accepted).
    Written from the property statement with `w3c` and `noRepeat` only (no model function). -/
def liveVerdict (closed : Bool) (ice : Ice) (dtls : Dtls) (conn : Pc) (notes : List Pc) : Option String :=
  if ice.named && dtls.named && !(w3c closed ice dtls == some conn) then some "not-w3c-aggregate-live"
  else if conn == .unknown then some "not-w3c-aggregate-live"
  else if (notes.dropWhile (· != .closed)).length > 1 then some "state-after-closed"
  else if !noRepeat (.new :: notes) then some "notified-without-change"
  else match notes.getLast? with
    | some l => if l == conn then none else some "last-notification-not-current-state"
    | none => if conn == .new then none else some "change-without-notification"

end WebrtcVerif.ConnState
