/-
  Model of the JSEP signaling state machine of pion/webrtc (properties C01, C02, C03):
    signalingstate.go   checkNextSignalingState
    peerconnection.go   setDescription, SetLocalDescription, SetRemoteDescription, CreateOffer / CreateAnswer
                        (only their guards and lastOffer/lastAnswer), LocalDescription, RemoteDescription, Close
  as the code is AFTER the two repairs
    a3035d3 fix: rollback returns to stable …          (C02)
    a9f9656 fix: SetRemoteDescription validates the description before applying it   (C03)
  Enum constructor order = Go iota order, so `toNat` is the raw Go value.
-/
namespace WebrtcVerif.Signaling

/-! ### enums -/

inductive Sig | unknown | stable | haveLocalOffer | haveRemoteOffer | haveLocalPranswer | haveRemotePranswer | closed
  deriving DecidableEq, Repr, Inhabited

/-- `stateChangeOp` (iota + 1): raw 0 is not a named value. -/
inductive Op | unknown | setLocal | setRemote
  deriving DecidableEq, Repr, Inhabited

/-- `SDPType`: raw 0 is `SDPTypeUnknown`; raw values above 4 behave like it in every comparison. -/
inductive Ty | unknown | offer | pranswer | answer | rollback
  deriving DecidableEq, Repr, Inhabited

def Sig.all : List Sig :=
  [.unknown, .stable, .haveLocalOffer, .haveRemoteOffer, .haveLocalPranswer, .haveRemotePranswer, .closed]
def Op.all : List Op := [.unknown, .setLocal, .setRemote]
def Ty.all : List Ty := [.unknown, .offer, .pranswer, .answer, .rollback]

def Sig.toNat : Sig → Nat
  | .unknown => 0 | .stable => 1 | .haveLocalOffer => 2 | .haveRemoteOffer => 3
  | .haveLocalPranswer => 4 | .haveRemotePranswer => 5 | .closed => 6
def Op.toNat : Op → Nat
  | .unknown => 0 | .setLocal => 1 | .setRemote => 2
def Ty.toNat : Ty → Nat
  | .unknown => 0 | .offer => 1 | .pranswer => 2 | .answer => 3 | .rollback => 4

def Sig.ofRaw (n : Nat) : Sig := (Sig.all.find? (·.toNat == n)).getD .unknown
def Op.ofRaw (n : Nat) : Op := (Op.all.find? (·.toNat == n)).getD .unknown
def Ty.ofRaw (n : Nat) : Ty := (Ty.all.find? (·.toNat == n)).getD .unknown

/-! ### checkNextSignalingState -/

/-- the two errors `checkNextSignalingState` can return (both `rtcerr.InvalidModificationError`) -/
inductive TErr | cannotRollback | invalidTransition
  deriving DecidableEq, Repr

/-- `checkNextSignalingState(cur, next, op, sdpType)`, branch by branch, in source order.
    Returns the state the Go function returns (`next` on success, `cur` on error). -/
def checkNext (cur next : Sig) (op : Op) (ty : Ty) : Sig × Option TErr :=
  let invalid : Sig × Option TErr := (cur, some .invalidTransition)
  -- "Special case for rollbacks": a `switch` without default inside `if sdpType == rollback`
  if ty = .rollback ∧ cur = .stable then (cur, some .cannotRollback)
  else if ty = .rollback ∧ op = .setLocal ∧ next = .stable ∧
      (cur = .haveLocalOffer ∨ cur = .haveLocalPranswer) then (next, none)
  else if ty = .rollback ∧ op = .setRemote ∧ next = .stable ∧
      (cur = .haveRemoteOffer ∨ cur = .haveRemotePranswer) then (next, none)
  else
  -- 4.3.1 valid state transitions
  match cur with
  | .stable =>
    match op with
    | .setLocal => if ty = .offer ∧ next = .haveLocalOffer then (next, none) else invalid
    | .setRemote => if ty = .offer ∧ next = .haveRemoteOffer then (next, none) else invalid
    | .unknown => invalid
  | .haveLocalOffer =>
    if op = .setRemote then
      match ty with
      | .answer => if next = .stable then (next, none) else invalid
      | .pranswer => if next = .haveRemotePranswer then (next, none) else invalid
      | _ => invalid
    else invalid
  | .haveRemotePranswer =>
    if op = .setRemote ∧ ty = .answer then
      if next = .stable then (next, none) else invalid
    else invalid
  | .haveRemoteOffer =>
    if op = .setLocal then
      match ty with
      | .answer => if next = .stable then (next, none) else invalid
      | .pranswer => if next = .haveLocalPranswer then (next, none) else invalid
      | _ => invalid
    else invalid
  | .haveLocalPranswer =>
    if op = .setLocal ∧ ty = .answer then
      if next = .stable then (next, none) else invalid
    else invalid
  | _ => invalid

/-! ### descriptions -/

/-- Identity of an SDP text.  `made k m`: the text returned by the `k`-th successful CreateOffer/CreateAnswer
    of a history, altered by mutation number `m` (0 = unaltered).  Two `Txt` are equal iff the Go strings are
    (`sd.SDP != pc.lastOffer` is a string comparison). -/
inductive Txt | empty | garbage | made (k : Nat) (m : Nat)
  deriving DecidableEq, Repr, Inhabited

/-- What the checks of SetLocalDescription / SetRemoteDescription find in a description, one field per
    check, in code order.  The last three are outcomes of steps that run AFTER setDescription and depend
    on more than the description (media engine contents, transceivers, ICE agent). -/
structure Flags where
  /-- `pion/sdp` accepts the text (`UnmarshalString`) -/
  parses : Bool := true
  /-- every media section has an `a=mid` (or Plan-B was detected, which skips the test) -/
  midOk : Bool := true
  /-- `extractICEDetailsFromMedia`: not (no usable candidate and a malformed one) -/
  candOk : Bool := true
  ufragOk : Bool := true
  pwdOk : Bool := true
  /-- `extractFingerprint` finds a fingerprint … -/
  fpPresent : Bool := true
  /-- … of exactly two space-separated parts -/
  fpWellFormed : Bool := true
  /-- `mediaEngine.updateFromRemoteDescription` returns nil (runs after setDescription; registers codecs) -/
  engineOk : Bool := true
  /-- the rest of SetRemoteDescription after setDescription returns nil (transceiver.Stop, NewRTPReceiver,
      SetMid, ICE restart / credentials / AddRemoteCandidate, startRTPSenders) -/
  remotePostOk : Bool := true
  /-- the rest of SetLocalDescription after setDescription returns nil (startRTPSenders, iceGatherer.Gather) -/
  localPostOk : Bool := true
  deriving DecidableEq, Repr, Inhabited

structure Desc where
  ty : Ty
  txt : Txt
  f : Flags := {}
  deriving DecidableEq, Repr, Inhabited

/-- error classes (the tokens of `VerifSignalingErrClass`) -/
inductive Err
  | closed | type | oper | emptysdp | parse | mismatchOffer | mismatchAnswer | norollback | transition
  | nomid | cand | noufrag | nopwd | nofp | badfp
  | engine      -- media engine rejected the description  (after the commit point)
  | remotePost  -- a later step of SetRemoteDescription failed (after the commit point)
  | localPost   -- a later step of SetLocalDescription failed (after the commit point)
  | noremote | wrongstate
  deriving DecidableEq, Repr

def Err.ofT : TErr → Err
  | .cannotRollback => .norollback
  | .invalidTransition => .transition

/-! ### negotiation state of one PeerConnection -/

structure Neg where
  sig : Sig := .stable
  pendL : Option Desc := none
  pendR : Option Desc := none
  curL : Option Desc := none
  curR : Option Desc := none
  lastOffer : Txt := .empty
  lastAnswer : Txt := .empty
  isClosed : Bool := false
  deriving DecidableEq, Repr, Inhabited

def Neg.init : Neg := {}

/-- result of one API call: new state, OnSignalingStateChange events, error -/
structure Res where
  st : Neg
  events : List Sig := []
  err : Option Err := none
  deriving DecidableEq, Repr

def fail (s : Neg) (e : Err) : Res := { st := s, err := some e }

/-- `LocalDescription()`: pending if not nil, else current -/
def Neg.localDescription (s : Neg) : Option Desc :=
  match s.pendL with
  | some d => some d
  | none => s.curL

/-- `RemoteDescription()` -/
def Neg.remoteDescription (s : Neg) : Option Desc :=
  match s.pendR with
  | some d => some d
  | none => s.curR

/-- The tail of `setDescription`: `if err == nil { signalingState.Set(nextState); …; onSignalingStateChange(nextState) }` -/
def commit (s' : Neg) (s : Neg) (chk : Sig × Option TErr) : Res :=
  match chk.2 with
  | some e => fail s (Err.ofT e)
  | none => { st := { s' with sig := chk.1 }, events := [chk.1] }

/-- `setDescription(sd, op)`.  `s'` in each branch is the bookkeeping done under `pc.mu` when
    `checkNextSignalingState` succeeded. -/
def setDescription (s : Neg) (d : Desc) (op : Op) : Res :=
  if s.isClosed then fail s .closed
  else if d.ty = .unknown then fail s .type
  else
  match op with
  | .setLocal =>
    match d.ty with
    | .offer =>
      if d.txt ≠ s.lastOffer then fail s .mismatchOffer
      else commit { s with pendL := some d } s (checkNext s.sig .haveLocalOffer .setLocal d.ty)
    | .answer =>
      if d.txt ≠ s.lastAnswer then fail s .mismatchAnswer
      else commit { s with curL := some d, curR := s.pendR, pendR := none, pendL := none } s
             (checkNext s.sig .stable .setLocal d.ty)
    | .rollback =>
      commit { s with pendL := none, pendR := none } s (checkNext s.sig .stable .setLocal d.ty)
    | .pranswer =>
      if d.txt ≠ s.lastAnswer then fail s .mismatchAnswer
      else commit { s with pendL := some d } s (checkNext s.sig .haveLocalPranswer .setLocal d.ty)
    | .unknown => fail s .oper
  | .setRemote =>
    match d.ty with
    | .offer => commit { s with pendR := some d } s (checkNext s.sig .haveRemoteOffer .setRemote d.ty)
    | .answer =>
      commit { s with curR := some d, curL := s.pendL, pendR := none, pendL := none } s
        (checkNext s.sig .stable .setRemote d.ty)
    | .rollback =>
      commit { s with pendR := none, pendL := none } s (checkNext s.sig .stable .setRemote d.ty)
    | .pranswer => commit { s with pendR := some d } s (checkNext s.sig .haveRemotePranswer .setRemote d.ty)
    | .unknown => fail s .oper
  | .unknown => fail s .oper

/-- JSEP 5.4 in `SetLocalDescription`: an empty SDP text stands for the last created offer / answer;
    for any other type it is an error (`none`). -/
def localSubst (s : Neg) (d : Desc) : Option Desc :=
  if d.txt = .empty then
    match d.ty with
    | .answer | .pranswer => some { d with txt := s.lastAnswer }
    | .offer => some { d with txt := s.lastOffer }
    | _ => none
  else some d

/-- What `SetLocalDescription` does after `setDescription` returned `r`: on success startRTPSenders /
    iceGatherer.Gather may still return an error — the transition stays applied. -/
def localPost (d : Desc) (r : Res) : Res :=
  match r.err with
  | some _ => r
  | none => if !d.f.localPostOk then { r with err := some .localPost } else r

/-- `SetLocalDescription(desc)` -/
def setLocal (s : Neg) (d : Desc) : Res :=
  if s.isClosed then fail s .closed
  else if d.ty = .rollback then setDescription s d .setLocal
  else
  match localSubst s d with
  | none => fail s .emptysdp
  | some d =>
    if !d.f.parses then fail s .parse
    else localPost d (setDescription s d .setLocal)

/-- The checks of `SetRemoteDescription` that run before `setDescription`, in source order
    (`isRenegotiation := pc.currentRemoteDescription != nil` is read on entry). -/
def remotePreCheck (s : Neg) (d : Desc) : Option Err :=
  let isRenegotiation := s.curR.isSome
  let weOffer := d.ty = .answer
  if !d.f.parses then some .parse
  else if ¬weOffer ∧ !d.f.midOk then some .nomid
  else if !d.f.candOk then some .cand
  else if !d.f.ufragOk then some .noufrag
  else if !d.f.pwdOk then some .nopwd
  else if !isRenegotiation ∧ !d.f.fpPresent then some .nofp
  else if !isRenegotiation ∧ !d.f.fpWellFormed then some .badfp
  else none

/-- What `SetRemoteDescription` does after `setDescription` returned `r`: the media engine update and the
    transceiver / ICE / RTP steps can still return an error — the transition stays applied. -/
def remotePost (d : Desc) (r : Res) : Res :=
  match r.err with
  | some _ => r
  | none =>
    if !d.f.engineOk then { r with err := some .engine }
    else if !d.f.remotePostOk then { r with err := some .remotePost }
    else r

/-- `SetRemoteDescription(desc)` -/
def setRemote (s : Neg) (d : Desc) : Res :=
  if s.isClosed then fail s .closed
  else if d.ty = .rollback then setDescription s d .setRemote
  else
  match remotePreCheck s d with
  | some e => fail s e
  | none => remotePost d (setDescription s d .setRemote)

/-- `CreateOffer`: only the closed guard and `pc.lastOffer = offer.SDP` matter here. -/
def createOffer (s : Neg) (k : Nat) : Res :=
  if s.isClosed then fail s .closed
  else { st := { s with lastOffer := .made k 0 } }

/-- `CreateAnswer`: guards in source order, then `pc.lastAnswer = desc.SDP`. -/
def createAnswer (s : Neg) (k : Nat) : Res :=
  if s.remoteDescription.isNone then fail s .noremote
  else if s.isClosed then fail s .closed
  else if s.sig ≠ .haveRemoteOffer ∧ s.sig ≠ .haveLocalPranswer then fail s .wrongstate
  else { st := { s with lastAnswer := .made k 0 } }

/-- `Close`: `isClosed = true`, `signalingState = closed`, no signaling event. -/
def close (s : Neg) : Res := { st := { s with isClosed := true, sig := .closed } }

/-! ### histories on one PeerConnection -/

inductive Action
  | createOffer (k : Nat) | createAnswer (k : Nat) | setLocal (d : Desc) | setRemote (d : Desc) | close
  deriving DecidableEq, Repr

def step (s : Neg) : Action → Res
  | .createOffer k => createOffer s k
  | .createAnswer k => createAnswer s k
  | .setLocal d => setLocal s d
  | .setRemote d => setRemote s d
  | .close => close s

def run (s : Neg) (acts : List Action) : Neg := acts.foldl (fun s a => (step s a).st) s

/-! ### specification: the JSEP / W3C signaling state machine, written from RFC 8829 §3.2 (figure 2) and
    §5.7 (rollback: "in any state except stable"), independently of `checkNext` -/

inductive Side | loc | rem
  deriving DecidableEq, Repr

def Sig.negotiating (s : Sig) : Bool :=
  s == .haveLocalOffer || s == .haveRemoteOffer || s == .haveLocalPranswer || s == .haveRemotePranswer

def jsepEdge : Sig → Side → Ty → Option Sig
  | .stable, .loc, .offer => some .haveLocalOffer
  | .stable, .rem, .offer => some .haveRemoteOffer
  | .haveLocalOffer, .loc, .offer => some .haveLocalOffer
  | .haveLocalOffer, .rem, .pranswer => some .haveRemotePranswer
  | .haveLocalOffer, .rem, .answer => some .stable
  | .haveRemotePranswer, .rem, .pranswer => some .haveRemotePranswer
  | .haveRemotePranswer, .rem, .answer => some .stable
  | .haveRemoteOffer, .rem, .offer => some .haveRemoteOffer
  | .haveRemoteOffer, .loc, .pranswer => some .haveLocalPranswer
  | .haveRemoteOffer, .loc, .answer => some .stable
  | .haveLocalPranswer, .loc, .pranswer => some .haveLocalPranswer
  | .haveLocalPranswer, .loc, .answer => some .stable
  | s, _, .rollback => if s.negotiating then some .stable else none
  | _, _, _ => none

def Side.ofOp : Op → Option Side
  | .setLocal => some .loc
  | .setRemote => some .rem
  | .unknown => none

end WebrtcVerif.Signaling
