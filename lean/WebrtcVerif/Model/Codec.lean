/-
  Model of the codec negotiation of pion/webrtc (properties C15; reused by C16, C10):

    internal/fmtp/{fmtp,h264,vp9,av1}.go   parseParameters, Parse, the four Match, ClockRateEqual, ChannelsEqual
    rtpcodec.go                             codecParametersFuzzySearch, rtcpFeedbackIntersection,
                                            primaryPayloadTypeForRTXExists, filterUnattachedRTX
    mediaengine.go                          addCodec, RegisterCodec, matchRemoteCodec, pushCodecs,
                                            updateFromRemoteDescription, getCodecsByKind, getCodecByPayload

  Strings are `List Char`; case folding (`strings.EqualFold`, `strings.ToLower`) is ASCII folding — the
  generators stay inside ASCII (the non-ASCII difference between the two Go functions is C17's subject).
  Numbers are `Nat` (Go: uint32 clock rate, uint16 channels, uint8 payload type; no arithmetic is done on
  them, only equality tests).  `pion/sdp` is a parameter: a remote media section enters the model as the
  list `codecsFromMediaDescription` returned (or `none` when that function returned an error).
  Header extensions are not modelled (they do not influence codecs).
-/
namespace WebrtcVerif.Codec

abbrev Str := List Char

/-! ### strings -/

def lowerChar (c : Char) : Char :=
  if 'A' ≤ c ∧ c ≤ 'Z' then Char.ofNat (c.toNat + 32) else c

/-- `strings.ToLower` (ASCII) -/
def lower (s : Str) : Str := s.map lowerChar

/-- `strings.EqualFold` (ASCII) -/
def equalFold (a b : Str) : Bool := lower a == lower b

/-- `unicode.IsSpace` on Latin-1 -/
def isSpace (c : Char) : Bool :=
  c == ' ' || c == '\t' || c == '\n' || c == Char.ofNat 11 || c == Char.ofNat 12 || c == '\r'
    || c == Char.ofNat 0x85 || c == Char.ofNat 0xA0

/-- `strings.TrimSpace` -/
def trimSpace (s : Str) : Str := ((s.dropWhile isSpace).reverse.dropWhile isSpace).reverse

/-- `strings.Split(s, sep)` for a one-character separator (never returns the empty list) -/
def splitOn (sep : Char) : Str → List Str
  | [] => [[]]
  | c :: cs =>
    if c = sep then [] :: splitOn sep cs
    else match splitOn sep cs with
      | [] => [[c]]
      | h :: t => (c :: h) :: t

/-- `strings.SplitN(s, "=", 2)`: text before the first `=`, and what follows it if there is one -/
def splitKV : Str → Str × Option Str
  | [] => ([], none)
  | c :: cs =>
    if c = '=' then ([], some cs)
    else let (k, v) := splitKV cs; (c :: k, v)

/-- `strings.Replace(s, old, new, 1)` for non-empty `old` -/
def replaceFirst (old new : Str) : Str → Str
  | [] => []
  | c :: cs =>
    if old.isPrefixOf (c :: cs) then new ++ (c :: cs).drop old.length
    else c :: replaceFirst old new cs

def isDigit (c : Char) : Bool := '0' ≤ c && c ≤ '9'

/-- value of a digit string, most significant first -/
def digitsVal (s : Str) : Nat := s.foldl (fun acc c => acc * 10 + (c.toNat - 48)) 0

/-- `strconv.ParseUint(s, 10, 8)`: non-empty, digits only (no sign, no underscore), value ≤ 255 -/
def parseUint8 (s : Str) : Option Nat :=
  if s.isEmpty || !s.all isDigit then none
  else if digitsVal s ≤ 255 then some (digitsVal s) else none

/-- `%d` of a number below 1000 (payload types) -/
def showNat (n : Nat) : Str :=
  if n < 10 then [Char.ofNat (48 + n)]
  else if n < 100 then [Char.ofNat (48 + n / 10), Char.ofNat (48 + n % 10)]
  else [Char.ofNat (48 + n / 100 % 10), Char.ofNat (48 + n / 10 % 10), Char.ofNat (48 + n % 10)]

/-! ### internal/fmtp -/

/-- Go `map[string]string` as an association list with unique keys (insertion overwrites) -/
abbrev Params := List (Str × Str)

def Params.get (m : Params) (k : Str) : Option Str := (m.find? (fun kv => kv.1 == k)).map (·.2)

def Params.set : Params → Str → Str → Params
  | [], k, v => [(k, v)]
  | (k', v') :: rest, k, v => if k' == k then (k, v) :: rest else (k', v') :: Params.set rest k v

/-- `parseParameters`: split on `;`, trim, split at the first `=`, lower-case the key, last one wins.
    The empty line yields the single entry `"" ↦ ""`. -/
def parseParameters (line : Str) : Params :=
  (splitOn ';' line).foldl (fun m p =>
    let (k, v) := splitKV (trimSpace p)
    m.set (lower k) (v.getD [])) []

def defaultClockRate (mime : Str) : Nat :=
  let m := lower mime
  if m == "audio/opus".toList then 48000
  else if m == "audio/pcmu".toList then 8000
  else if m == "audio/pcma".toList then 8000
  else 90000

def defaultChannels (mime : Str) : Nat :=
  if lower mime == "audio/opus".toList then 2 else 0

/-- `ClockRateEqual` -/
def clockRateEqual (mime : Str) (a b : Nat) : Bool :=
  let a := if a = 0 then defaultClockRate mime else a
  let b := if b = 0 then defaultClockRate mime else b
  a == b

/-- `ChannelsEqual` -/
def channelsEqual (mime : Str) (a b : Nat) : Bool :=
  let a := if a = 0 then defaultChannels mime else a
  let b := if b = 0 then defaultChannels mime else b
  let a := if a = 0 then 1 else a
  let b := if b = 0 then 1 else b
  a == b

/-- one direction of `paramsEqual` -/
def paramsLeq (a b : Params) : Bool :=
  a.all (fun kv => match b.get kv.1 with
    | some vb => equalFold vb kv.2
    | none => true)

def paramsEqual (a b : Params) : Bool := paramsLeq a b && paramsLeq b a

inductive FmtpKind | h264 | vp9 | av1 | generic
  deriving DecidableEq, Repr

/-- the value `fmtp.Parse` returns -/
structure Fmtp where
  kind : FmtpKind
  mime : Str
  clock : Nat
  channels : Nat
  params : Params
  deriving Repr

def fmtpKindOf (mime : Str) : FmtpKind :=
  if equalFold mime "video/h264".toList then .h264
  else if equalFold mime "video/vp9".toList then .vp9
  else if equalFold mime "video/av1".toList then .av1
  else .generic

/-- `fmtp.Parse` -/
def fmtpParse (mime : Str) (clock channels : Nat) (line : Str) : Fmtp :=
  { kind := fmtpKindOf mime, mime, clock, channels, params := parseParameters line }

def hexVal (c : Char) : Option Nat :=
  if '0' ≤ c ∧ c ≤ '9' then some (c.toNat - 48)
  else if 'a' ≤ c ∧ c ≤ 'f' then some (c.toNat - 87)
  else if 'A' ≤ c ∧ c ≤ 'F' then some (c.toNat - 55)
  else none

/-- `hex.DecodeString` succeeds and yields at least two bytes; returns the first two -/
def hexFirst2 (s : Str) : Option (Nat × Nat) :=
  if s.length % 2 != 0 || !s.all (fun c => (hexVal c).isSome) then none
  else match s with
    | a :: b :: c :: d :: _ =>
      match hexVal a, hexVal b, hexVal c, hexVal d with
      | some a, some b, some c, some d => some (a * 16 + b, c * 16 + d)
      | _, _, _, _ => none
    | _ => none

/-- `profileLevelIDMatches` -/
def profileLevelIDMatches (a b : Str) : Bool :=
  match hexFirst2 a, hexFirst2 b with
  | some x, some y => x == y
  | _, _ => false

/-- `(a).Match(b)` — dispatch on the dynamic type of the receiver; the argument must have the same type -/
def fmtpMatch (a b : Fmtp) : Bool :=
  match a.kind with
  | .h264 =>
    b.kind == .h264 &&
    (match a.params.get "packetization-mode".toList, b.params.get "packetization-mode".toList with
     | some x, some y => x == y
     | _, _ => false) &&
    (match a.params.get "profile-level-id".toList, b.params.get "profile-level-id".toList with
     | some x, some y => profileLevelIDMatches x y
     | _, _ => false)
  | .vp9 =>
    b.kind == .vp9 &&
    (a.params.get "profile-id".toList).getD ['0'] == (b.params.get "profile-id".toList).getD ['0']
  | .av1 =>
    b.kind == .av1 &&
    (a.params.get "profile".toList).getD ['0'] == (b.params.get "profile".toList).getD ['0']
  | .generic =>
    b.kind == .generic && equalFold a.mime b.mime && clockRateEqual a.mime a.clock b.clock
      && channelsEqual a.mime a.channels b.channels && paramsEqual a.params b.params

/-! ### rtpcodec.go -/

structure Feedback where
  typ : Str
  param : Str
  deriving DecidableEq, Repr, Inhabited

/-- `RTPCodecParameters` (without statsID) -/
structure CodecP where
  mime : Str := []
  clock : Nat := 0
  channels : Nat := 0
  fmtp : Str := []
  fb : List Feedback := []
  pt : Nat := 0
  deriving DecidableEq, Repr, Inhabited

def CodecP.parse (c : CodecP) : Fmtp := fmtpParse c.mime c.clock c.channels c.fmtp

inductive MatchType | mNone | mPartial | mExact
  deriving DecidableEq, Repr, Inhabited

/-- first loop of `codecParametersFuzzySearch`: `needleFmtp.Match(cfmtp)` -/
def exactPred (needle c : CodecP) : Bool := fmtpMatch needle.parse c.parse

/-- second loop of `codecParametersFuzzySearch`: mime, clock rate, channels -/
def partialPred (needle c : CodecP) : Bool :=
  equalFold c.mime needle.mime && clockRateEqual c.mime c.clock needle.clock
    && channelsEqual c.mime c.channels needle.channels

/-- `codecParametersFuzzySearch` -/
def fuzzySearch (needle : CodecP) (hay : List CodecP) : CodecP × MatchType :=
  match hay.find? (exactPred needle) with
  | some c => (c, .mExact)
  | none =>
    match hay.find? (partialPred needle) with
    | some c => (c, .mPartial)
    | none => ({}, .mNone)

/-- `rtcpFeedbackIntersection a b`: the elements of `a` that occur in `b` (compared case-sensitively),
    in the order of `a` -/
def fbInter (a b : List Feedback) : List Feedback :=
  a.filter (fun x => b.any (fun y => x.typ == y.typ && x.param == y.param))

def findByPt (codecs : List CodecP) (pt : Nat) : Option CodecP := codecs.find? (fun c => c.pt == pt)

/-! ### mediaengine.go -/

/-- `addCodec`: `(list, ErrCodecAlreadyRegistered?)` -/
def addCodec (codecs : List CodecP) (c : CodecP) : List CodecP × Bool :=
  match findByPt codecs c.pt with
  | some o =>
    if equalFold o.mime c.mime && clockRateEqual o.mime o.clock c.clock
        && channelsEqual o.mime o.channels c.channels then (codecs, false)
    else (codecs, true)
  | none => (codecs ++ [c], false)

inductive Kind | other | audio | video
  deriving DecidableEq, Repr, Inhabited

/-- the `switch` on `media.MediaName.Media` -/
def kindOf (media : Str) : Kind :=
  if equalFold media "audio".toList then .audio
  else if equalFold media "video".toList then .video
  else .other

structure Engine where
  audio : List CodecP := []
  video : List CodecP := []
  multi : Bool := false
  negAudio : Bool := false
  negVideo : Bool := false
  negAudioCodecs : List CodecP := []
  negVideoCodecs : List CodecP := []
  deriving DecidableEq, Repr, Inhabited

def Engine.locals (e : Engine) : Kind → List CodecP
  | .audio => e.audio | .video => e.video | .other => []
def Engine.negFlag (e : Engine) : Kind → Bool
  | .audio => e.negAudio | .video => e.negVideo | .other => false
def Engine.negCodecs (e : Engine) : Kind → List CodecP
  | .audio => e.negAudioCodecs | .video => e.negVideoCodecs | .other => []
def Engine.setFlag (e : Engine) : Kind → Engine
  | .audio => { e with negAudio := true } | .video => { e with negVideo := true } | .other => e
def Engine.setNeg (e : Engine) (k : Kind) (l : List CodecP) : Engine :=
  match k with
  | .audio => { e with negAudioCodecs := l } | .video => { e with negVideoCodecs := l } | .other => e

/-- `RegisterCodec`; `true` = ErrCodecAlreadyRegistered (ErrUnknownType for another kind) -/
def Engine.register (e : Engine) (k : Kind) (c : CodecP) : Engine × Bool :=
  match k with
  | .audio => let (l, err) := addCodec e.audio c; ({ e with audio := l }, err)
  | .video => let (l, err) := addCodec e.video c; ({ e with video := l }, err)
  | .other => (e, true)

inductive Err | apt | dup | sdp
  deriving DecidableEq, Repr, Inhabited

/-- the two loops of `matchRemoteCodec` that look the apt payload type up among the remote codecs
    accepted so far: exact matches first, then partial ones -/
def findApt (exact partialM : List CodecP) (pt : Nat) : Option (CodecP × MatchType) :=
  match findByPt exact pt with
  | some c => some (c, .mExact)
  | none =>
    match findByPt partialM pt with
    | some c => some (c, .mPartial)
    | none => none

/-- "replace the apt value with the original codec's payload type": done only when searching the
    primary (as accepted earlier, feedback already intersected) among the local codecs reproduces
    the recorded match type; textual, first occurrence of `apt=<n>` -/
def aptRewrite (codecs : List CodecP) (remote : CodecP) (payloadType : Nat) (aptCodec : CodecP)
    (aptMatch : MatchType) : CodecP :=
  let s := fuzzySearch aptCodec codecs
  if s.2 = aptMatch then
    { remote with fmtp := replaceFirst ("apt=".toList ++ showNat payloadType)
                            ("apt=".toList ++ showNat s.1.pt) remote.fmtp }
  else remote

/-- "if apt's media codec is partial match, then apt codec must be partial match too" -/
def demote (aptMatch : MatchType) (res : CodecP × MatchType) : CodecP × MatchType :=
  if res.2 = .mExact ∧ aptMatch = .mPartial then (res.1, .mPartial) else res

/-- `matchRemoteCodec` against the locally registered codecs `codecs` of the section's kind.
    `error` = the `strconv.ParseUint` error on the apt value. -/
def matchRemoteCodec (codecs : List CodecP) (remote : CodecP) (exact partialM : List CodecP) :
    Except Err (CodecP × MatchType) :=
  match remote.parse.params.get "apt".toList with
  | some apt =>
    match parseUint8 apt with
    | none => .error .apt
    | some payloadType =>
      match findApt exact partialM payloadType with
      | none => .ok ({}, .mNone)   -- "not an error, we just ignore this codec we don't support"
      | some (aptCodec, aptMatch) =>
        .ok (demote aptMatch (fuzzySearch (aptRewrite codecs remote payloadType aptCodec aptMatch) codecs))
  | none => .ok (fuzzySearch remote codecs)

/-- the closure `addIfNew` -/
def addIfNew (xs : List CodecP) (c : CodecP) : List CodecP :=
  if xs.any (fun x => x.pt == c.pt) then xs else xs ++ [c]

/-- one of the two `for _, remoteCodec := range codecs` loops of `updateFromRemoteDescription` -/
def pass (locals : List CodecP) : List CodecP → List CodecP → List CodecP →
    Except Err (List CodecP × List CodecP)
  | [], ex, pa => .ok (ex, pa)
  | r :: rs, ex, pa =>
    match matchRemoteCodec locals r ex pa with
    | .error e => .error e
    | .ok (l, mt) =>
      let r' := { r with fb := fbInter l.fb r.fb }
      match mt with
      | .mExact => pass locals rs (addIfNew ex r') pa
      | .mPartial => pass locals rs ex (addIfNew pa r')
      | .mNone => pass locals rs ex pa

/-- both passes over one remote section: `(exactMatches, partialMatches)` -/
def matchSection (locals remote : List CodecP) : Except Err (List CodecP × List CodecP) :=
  match pass locals remote [] [] with
  | .error e => .error e
  | .ok (ex, pa) => pass locals remote ex pa

/-- "use exact matches when they exist, otherwise fall back to partial" -/
def chosen (ex pa : List CodecP) : List CodecP := if ex.isEmpty then pa else ex

/-- `pushCodecs` onto one negotiated list: every codec is attempted; the errors are joined -/
def pushCodecs : List CodecP → List CodecP → List CodecP × Bool
  | neg, [] => (neg, false)
  | neg, c :: cs =>
    let (neg', e1) := addCodec neg c
    let (neg'', e2) := pushCodecs neg' cs
    (neg'', e1 || e2)

/-- a remote media section: media name and what `codecsFromMediaDescription` returned -/
structure Section where
  media : Str
  codecs : Option (List CodecP)
  deriving DecidableEq, Repr, Inhabited

/-- body of the `for _, media := range desc.MediaDescriptions` loop.  `(engine, error)`; with an error
    the loop (and the function) returns, leaving the engine as it is at that point. -/
def updateSection (e : Engine) (s : Section) : Engine × Option Err :=
  let typ := kindOf s.media
  -- switch { case !negotiatedAudio && audio / case !negotiatedVideo && video / default }
  let first := typ != .other && !e.negFlag typ
  if !first && (!e.multi || typ == .other) then (e, none)      -- `continue`
  else
    let e := if first then e.setFlag typ else e
    match s.codecs with
    | none => (e, some .sdp)
    | some remote =>
      match matchSection (e.locals typ) remote with
      | .error er => (e, some er)
      | .ok (ex, pa) =>
        if ex.isEmpty && pa.isEmpty then (e, none)               -- "no match, not negotiated"
        else
          let (neg, err) := pushCodecs (e.negCodecs typ) (chosen ex pa)
          (e.setNeg typ neg, if err then some .dup else none)

/-- `updateFromRemoteDescription` -/
def update (e : Engine) : List Section → Engine × Option Err
  | [] => (e, none)
  | s :: rest =>
    match updateSection e s with
    | (e', some er) => (e', some er)
    | (e', none) => update e' rest

/-- a history of remote descriptions applied one after the other (errors do not undo anything) -/
def updateMany (e : Engine) : List (List Section) → Engine × List (Option Err)
  | [] => (e, [])
  | d :: ds =>
    let (e', er) := update e d
    let (e'', ers) := updateMany e' ds
    (e'', er :: ers)

/-- `getCodecsByKind` -/
def Engine.codecsByKind (e : Engine) (k : Kind) : List CodecP :=
  match k with
  | .video => if e.negVideo then e.negVideoCodecs else e.video
  | .audio => if e.negAudio then e.negAudioCodecs else e.audio
  | .other => []

/-- `getCodecByPayload` (`none` = ErrCodecNotFound) -/
def Engine.codecByPayload (e : Engine) (pt : Nat) : Option (CodecP × Kind) :=
  match (if e.negVideo then findByPt e.negVideoCodecs pt else none) with
  | some c => some (c, .video)
  | none =>
    match (if e.negAudio then findByPt e.negAudioCodecs pt else none) with
    | some c => some (c, .audio)
    | none =>
      match (if !e.negVideo then findByPt e.video pt else none) with
      | some c => some (c, .video)
      | none =>
        match (if !e.negAudio then findByPt e.audio pt else none) with
        | some c => some (c, .audio)
        | none => none

/-! ### RTX filtering (rtpcodec.go) — used by C10/C16 -/

def mimeRTX : Str := "video/rtx".toList

/-- `strconv.Atoi` restricted to what matters here: optional sign, digits; `none` on a syntax error.
    Values outside 0..255 are reported as `some 256` (the caller rejects them alike). -/
def atoiPt (s : Str) : Option Nat :=
  match s with
  | '+' :: ds => if ds.isEmpty || !ds.all isDigit then none else some (min (digitsVal ds) 256)
  | '-' :: ds => if ds.isEmpty || !ds.all isDigit then none
                 else if digitsVal ds = 0 then some 0 else some 256
  | ds => if ds.isEmpty || !ds.all isDigit then none else some (min (digitsVal ds) 256)

/-- `primaryPayloadTypeForRTXExists`: `(isRTX, primaryExists)`.  `PayloadType(n)` truncates to 8 bits,
    but n is already known to be in 0..255. -/
def primaryForRTXExists (needle : CodecP) (hay : List CodecP) : Bool × Bool :=
  if !equalFold needle.mime mimeRTX then (false, false)
  else match needle.parse.params.get "apt".toList with
    | none => (true, false)
    | some apt =>
      match atoiPt apt with
      | none => (true, false)
      | some n => if n > 255 then (true, false) else (true, hay.any (fun c => c.pt == n))

/-- `filterUnattachedRTX` as a function on values: walk from the last index down, deleting unattached RTX
    entries from the current list.  `i` = number of indices still to visit. -/
def filterRTXFrom : Nat → List CodecP → List CodecP
  | 0, cs => cs
  | i + 1, cs =>
    match cs[i]? with
    | none => filterRTXFrom i cs
    | some c =>
      let (isRTX, prim) := primaryForRTXExists c cs
      if isRTX && !prim then filterRTXFrom i (cs.eraseIdx i) else filterRTXFrom i cs

def filterUnattachedRTX (cs : List CodecP) : List CodecP := filterRTXFrom cs.length cs

/-- What the caller's own view of the backing array looks like after `filterUnattachedRTX` ran on it
    (`append(codecs[:i], codecs[i+1:]...)` shifts in place; the view keeps its length): the filtered
    list followed by the stale tail of the old array. -/
def aliasedAfterFilter (cs : List CodecP) : List CodecP :=
  let rec go : Nat → List CodecP → Nat → List CodecP
    | 0, arr, _ => arr
    | i + 1, arr, len =>
      match arr[i]? with
      | none => go i arr len
      | some c =>
        let (isRTX, prim) := primaryForRTXExists c (arr.take len)
        if isRTX && !prim then
          -- shift arr[i+1 .. len) one to the left; arr[len-1] keeps its old value
          go i (arr.take i ++ (arr.take len).drop (i + 1) ++ arr.drop (len - 1)) (len - 1)
        else go i arr len
  go cs.length cs cs.length

/-- `RTPTransceiver.getCodecs`: `engineCodecs` is `mediaEngine.getCodecsByKind(t.kind)`, `prefs` the list
    stored by `SetCodecPreferences`.  Without preferences the engine's own slice is filtered in place
    (see `aliasedAfterFilter` for what that leaves behind in the engine). -/
def transceiverGetCodecs (engineCodecs prefs : List CodecP) : List CodecP :=
  if prefs.isEmpty then filterUnattachedRTX engineCodecs
  else filterUnattachedRTX (prefs.filterMap (fun codec =>
    let (c, mt) := fuzzySearch codec engineCodecs
    if mt = .mNone then none
    else some { codec with pt := if codec.pt = 0 then c.pt else codec.pt, fb := fbInter codec.fb c.fb }))

end WebrtcVerif.Codec
