import WebrtcVerif.Model.LockOrder
import WebrtcVerif.Generated.LockGraph
/-!
# C40 — Concurrent use of PeerConnection is race-free and deadlock-free  (deadlock half)

"Any concurrent mix of AddTrack, RemoveTrack, … Close, alongside a serialized signaling exchange, is
free of data races and deadlocks: every call returns and the race detector reports nothing."

What is a theorem here: lock-order deadlock freedom.  `Generated.LockGraph` is re-extracted from /repo's
source on every run; `C40_graph_ranked` re-checks it; the general theorems below say what that buys.
Data-race freedom is NOT proved (it is a statement about the Go memory model); it is only searched by
the race-detector run of the harness.
-/
namespace WebrtcVerif.C40
open WebrtcVerif.LockOrder WebrtcVerif.Generated

/-- The lock graph extracted from the current source is strictly ranked: no cycle, no recursive locking. -/
theorem C40_graph_ranked : ranked LockGraph.edges LockGraph.rank = true := by decide

/-- Programs that respect a ranked edge relation keep every reachable state disciplined,
    for any number of threads and any interleaving. -/
theorem C40_reachable_disciplined (edges : List (Nat × Nat)) (rank : List Nat) (hr : ranked edges rank = true)
    {s : St} (h : Reachable edges s) : Disciplined (rankOf rank) s := by
  induction h with
  | init => intro t l hw; simp [init] at hw
  | step a _ hs ih =>
    rename_i s0 s1
    cases a with
    | request t l =>
      simp only [step] at hs
      split at hs
      · rename_i hc
        injection hs with hs; subst hs
        intro u l' hw h' hh
        by_cases hu : u = t
        · subst hu
          simp at hw; subst hw
          have hall := hc.2
          rw [List.all_eq_true] at hall
          have hmem := hall h' hh
          have : (h', l) ∈ edges := by simpa using hmem
          unfold ranked at hr
          rw [List.all_eq_true] at hr
          simpa using hr (h', l) this
        · simp [hu] at hw
          exact ih u l' hw h' hh
      · cases hs
    | acquire t =>
      simp only [step] at hs
      split at hs
      · cases hs
      · injection hs with hs; subst hs
        intro u l' hw h' hh
        by_cases hu : u = t
        · subst hu; simp at hw
        · simp [hu] at hw hh
          exact ih u l' hw h' hh
    | release t l =>
      simp only [step] at hs
      split at hs
      · rename_i hc
        injection hs with hs; subst hs
        intro u l' hw h' hh
        by_cases hu : u = t
        · subst hu
          simp at hw hh
          rw [hc.2] at hw; cases hw
        · simp [hu] at hh
          exact ih u l' hw h' hh
      · cases hs

/-- A disciplined state has no wait-for cycle. -/
theorem C40_no_cycle_of_disciplined (rank : Lock → Nat) (s : St) (hd : Disciplined rank s) :
    ¬ ∃ ts, WaitCycle s ts := by
  rintro ⟨ts, hne, hc⟩
  have hpos : 0 < ts.length := List.length_pos_iff.mpr hne
  -- the lock wanted at position i
  -- key step: the lock wanted at i ranks below the lock wanted at (i+1) % n
  have key : ∀ i (hi : i < ts.length), ∃ l l', s.wants ts[i] = some l ∧
      s.wants (ts[(i + 1) % ts.length]'(Nat.mod_lt _ hpos)) = some l' ∧ rank l < rank l' := by
    intro i hi
    obtain ⟨l, hw, hh⟩ := hc i hi
    obtain ⟨l', hw', _⟩ := hc ((i + 1) % ts.length) (Nat.mod_lt _ hpos)
    exact ⟨l, l', hw, hw', hd _ l' hw' l hh⟩
  -- ranks of wanted locks strictly increase along 0,1,…,n-1 and then wrap to 0
  obtain ⟨l0, hw0, _⟩ := hc 0 hpos
  have chain : ∀ k, k < ts.length → ∀ (hk : k < ts.length), ∃ lk, s.wants ts[k] = some lk ∧ rank l0 + k ≤ rank lk := by
    intro k
    induction k with
    | zero => intro _ hk; exact ⟨l0, hw0, by omega⟩
    | succ k ih =>
      intro _ hk
      have hk' : k < ts.length := by omega
      obtain ⟨lk, hwk, hle⟩ := ih hk' hk'
      obtain ⟨l, l', hw, hw', hlt⟩ := key k hk'
      have hmod : (k + 1) % ts.length = k + 1 := Nat.mod_eq_of_lt hk
      simp only [hmod] at hw'
      rw [hwk] at hw; cases hw
      exact ⟨l', hw', by omega⟩
  have hlast : ts.length - 1 < ts.length := by omega
  obtain ⟨ln, hwn, hle⟩ := chain (ts.length - 1) hlast hlast
  obtain ⟨l, l', hw, hw', hlt⟩ := key (ts.length - 1) hlast
  have hmod : (ts.length - 1 + 1) % ts.length = 0 := by
    have : ts.length - 1 + 1 = ts.length := by omega
    rw [this, Nat.mod_self]
  simp only [hmod] at hw'
  rw [hwn] at hw; cases hw
  rw [hw0] at hw'; cases hw'
  omega

/-- Deadlock freedom of the locking discipline extracted from the source: no reachable state of any
    number of threads following the extracted acquisition order contains a wait-for cycle. -/
theorem C40_no_deadlock {s : St} (h : Reachable LockGraph.edges s) : ¬ ∃ ts, WaitCycle s ts :=
  C40_no_cycle_of_disciplined _ s (C40_reachable_disciplined _ _ C40_graph_ranked h)

-- non-vacuity: the extracted graph is not empty, and a two-thread state that violates the discipline does deadlock
example : LockGraph.edges ≠ [] := by decide

/-! ## Lock discipline: the listed guarded fields are only touched with their lock held

`Generated.LockGraph.accesses` (re-extracted from the source on every run by `harness/cmd/lockgraph/guards.go`)
lists EVERY syntactic access `x.f` to a field of a struct that owns a mutex, in every function of package
webrtc, internal/* and pkg/* — 0 read, 1 write (assignment, `++`, element or sub-field assignment,
address taken), 2 method call on the field's value, either directly (`x.f.M()`) or through a local
variable loaded from the field in the same function (`v := x.f; …; v.M()`); element reads / writes and
`range` through a local copy of a slice or map field (`bs := x.f; for … range bs`) count as reads / writes
of the field — with the guard relations
that MUST hold there: a forward must-analysis (intersection at joins, loops to a fixpoint, break /
continue / return followed, deferred unlocks and closures run at the exits), where a lock only counts
for an access on the SAME base expression (`s.mu` for `s.remainder`: `self:…`) or on the owner of the
sub-object it was taken on (`s.rtpTrack.mu` for `s.packetizer`: `via rtpTrack:…`), and unexported,
non-escaping helpers inherit the intersection of what all their static callers hold.

What `C40_guarded_accesses` implies: for the fields named in `expectedSpec`, in every function of the
analysed packages, every read happens under the named lock (read or write mode), every write under the
write lock, and — for the `operations` queue and the sample track's `packetizer` / `sequencer` — every
method call on the object behind the field happens under the named mutex; so two such accesses to the same
object from two goroutines are ordered by that mutex.  This is the rule that seeded change C40-3 breaks
(`packetizer.Packetize` moved behind `s.mu.Unlock()`: row kind 2 of `TrackLocalStaticSample.packetizer`
loses `self:TrackLocalStaticSample.mu/W`), and that `GeneratePadding` broke before its repair.

What it does NOT imply: (1) anything about fields that are not listed (e.g. `DataChannel.dataChannel`, which is
published before an atomic state change and read behind a test of that state); (2) anything about uses of
the object behind a field other than method calls (and, for slices and maps, element accesses) made in the
function that loaded it — a value that is passed on, stored, returned or captured by a closure is not followed; (3) freedom from races inside the called
object itself (the rtp packetizer is assumed to need external serialisation — that is why the rule asks
for the mutex — but calls made under DIFFERENT locks by other code paths of the dependency are invisible);
(4) identity of objects beyond syntax: two names for one object are treated as different (reported as
unguarded, never wrongly accepted), a re-assigned base variable forgets its locks; (5) accesses through
reflection, unsafe, or pointers obtained earlier with `&x.f` (taking the address is itself counted as a
write).  Data-race freedom of the package as a whole is still only searched by the race-detector scenarios. -/

/-- soundness of the decidable check: it is exactly the ∀-statement over the table -/
theorem C40_guardedOk_sound {as : List Access} {sp : List Spec} (h : guardedOk as sp = true) :
    ∀ a ∈ as, ∀ s ∈ sp, s.1 = a.1 → s.2.1 = a.2.1 →
      a.2.2.1 = true ∨ ∃ g ∈ s.2.2, g ∈ a.2.2.2 := by
  intro a ha s hs hf hk
  unfold guardedOk at h
  rw [List.all_eq_true] at h
  have h1 := h a ha
  unfold accessOk at h1
  rw [List.all_eq_true] at h1
  have h2 := h1 s hs
  simp only [Bool.or_eq_true, Bool.not_eq_true', Bool.and_eq_false_iff, beq_eq_false_iff_ne, ne_eq,
    List.any_eq_true, List.contains_eq_mem, decide_eq_true_eq] at h2
  rcases h2 with (h3 | h3) | h3
  · rcases h3 with h3 | h3
    · exact absurd hf h3
    · exact absurd hk h3
  · exact Or.inl h3
  · exact Or.inr h3

/-- The guarded-field specification, in words: (`Type.field`, kind, guards of which one must be held). Written
    here by hand; `C40_guard_spec_pinned` makes sure it is the one the extractor checked. -/
def expectedSpec : List (String × Nat × List String) := [
  ("TrackLocalStaticRTP.bindings", 0, ["self:TrackLocalStaticRTP.mu/R", "self:TrackLocalStaticRTP.mu/W"]),
  ("TrackLocalStaticRTP.bindings", 1, ["self:TrackLocalStaticRTP.mu/W"]),
  ("TrackLocalStaticSample.packetizer", 0, ["via rtpTrack:TrackLocalStaticRTP.mu/R", "via rtpTrack:TrackLocalStaticRTP.mu/W"]),
  ("TrackLocalStaticSample.packetizer", 1, ["via rtpTrack:TrackLocalStaticRTP.mu/W"]),
  ("TrackLocalStaticSample.sequencer", 0, ["via rtpTrack:TrackLocalStaticRTP.mu/R", "via rtpTrack:TrackLocalStaticRTP.mu/W"]),
  ("TrackLocalStaticSample.sequencer", 1, ["via rtpTrack:TrackLocalStaticRTP.mu/W"]),
  ("TrackLocalStaticSample.clockRate", 0, ["via rtpTrack:TrackLocalStaticRTP.mu/R", "via rtpTrack:TrackLocalStaticRTP.mu/W"]),
  ("TrackLocalStaticSample.clockRate", 1, ["via rtpTrack:TrackLocalStaticRTP.mu/W"]),
  ("TrackLocalStaticSample.packetizer", 2, ["self:TrackLocalStaticSample.mu/W"]),
  ("TrackLocalStaticSample.sequencer", 2, ["self:TrackLocalStaticSample.mu/W"]),
  ("TrackLocalStaticSample.remainder", 0, ["self:TrackLocalStaticSample.mu/W"]),
  ("TrackLocalStaticSample.remainder", 1, ["self:TrackLocalStaticSample.mu/W"]),
  ("operations.ops", 0, ["self:operations.mu/W"]),
  ("operations.ops", 1, ["self:operations.mu/W"]),
  ("operations.ops", 2, ["self:operations.mu/W"]),
  ("operations.busyCh", 0, ["self:operations.mu/W"]),
  ("operations.busyCh", 1, ["self:operations.mu/W"]),
  ("operations.busyCh", 2, ["self:operations.mu/W"]),
  ("operations.isClosed", 0, ["self:operations.mu/W"]),
  ("operations.isClosed", 1, ["self:operations.mu/W"]),
  ("operations.isClosed", 2, ["self:operations.mu/W"]),
  ("DataChannel.onMessageHandler", 0, ["self:DataChannel.mu/R", "self:DataChannel.mu/W"]),
  ("DataChannel.onMessageHandler", 1, ["self:DataChannel.mu/W"]),
  ("DataChannel.onOpenHandler", 0, ["self:DataChannel.mu/R", "self:DataChannel.mu/W"]),
  ("DataChannel.onOpenHandler", 1, ["self:DataChannel.mu/W"]),
  ("DataChannel.openHandlerOnce", 0, ["self:DataChannel.mu/R", "self:DataChannel.mu/W"]),
  ("DataChannel.openHandlerOnce", 1, ["self:DataChannel.mu/W"]),
  ("DataChannel.onDialHandler", 0, ["self:DataChannel.mu/R", "self:DataChannel.mu/W"]),
  ("DataChannel.onDialHandler", 1, ["self:DataChannel.mu/W"]),
  ("DataChannel.dialHandlerOnce", 0, ["self:DataChannel.mu/R", "self:DataChannel.mu/W"]),
  ("DataChannel.dialHandlerOnce", 1, ["self:DataChannel.mu/W"]),
  ("DataChannel.onCloseHandler", 0, ["self:DataChannel.mu/R", "self:DataChannel.mu/W"]),
  ("DataChannel.onCloseHandler", 1, ["self:DataChannel.mu/W"]),
  ("DataChannel.closeHandlerOnce", 0, ["self:DataChannel.mu/R", "self:DataChannel.mu/W"]),
  ("DataChannel.closeHandlerOnce", 1, ["self:DataChannel.mu/W"]),
  ("DataChannel.onBufferedAmountLow", 0, ["self:DataChannel.mu/R", "self:DataChannel.mu/W"]),
  ("DataChannel.onBufferedAmountLow", 1, ["self:DataChannel.mu/W"]),
  ("DataChannel.onErrorHandler", 0, ["self:DataChannel.mu/R", "self:DataChannel.mu/W"]),
  ("DataChannel.onErrorHandler", 1, ["self:DataChannel.mu/W"]),
  ("DataChannel.isGracefulClosed", 0, ["self:DataChannel.mu/R", "self:DataChannel.mu/W"]),
  ("DataChannel.isGracefulClosed", 1, ["self:DataChannel.mu/W"]),
  ("DataChannel.detachCalled", 0, ["self:DataChannel.mu/R", "self:DataChannel.mu/W"]),
  ("DataChannel.detachCalled", 1, ["self:DataChannel.mu/W"]),
  ("DataChannel.bufferedAmountLowThreshold", 0, ["self:DataChannel.mu/R", "self:DataChannel.mu/W"]),
  ("DataChannel.bufferedAmountLowThreshold", 1, ["self:DataChannel.mu/W"]),
  ("TrackRemote.peekedPackets", 0, ["self:TrackRemote.mu/R", "self:TrackRemote.mu/W"]),
  ("TrackRemote.peekedPackets", 1, ["self:TrackRemote.mu/W"]),
  ("TrackRemote.payloadType", 0, ["self:TrackRemote.mu/R", "self:TrackRemote.mu/W"]),
  ("TrackRemote.payloadType", 1, ["self:TrackRemote.mu/W"]),
  ("TrackRemote.codec", 0, ["self:TrackRemote.mu/R", "self:TrackRemote.mu/W"]),
  ("TrackRemote.codec", 1, ["self:TrackRemote.mu/W"]),
  ("TrackRemote.kind", 0, ["self:TrackRemote.mu/R", "self:TrackRemote.mu/W"]),
  ("TrackRemote.kind", 1, ["self:TrackRemote.mu/W"]),
  ("TrackRemote.ssrc", 0, ["self:TrackRemote.mu/R", "self:TrackRemote.mu/W"]),
  ("TrackRemote.ssrc", 1, ["self:TrackRemote.mu/W"]),
  ("TrackRemote.rtxSsrc", 0, ["self:TrackRemote.mu/R", "self:TrackRemote.mu/W"]),
  ("TrackRemote.rtxSsrc", 1, ["self:TrackRemote.mu/W"]),
  ("TrackRemote.id", 0, ["self:TrackRemote.mu/R", "self:TrackRemote.mu/W"]),
  ("TrackRemote.id", 1, ["self:TrackRemote.mu/W"]),
  ("TrackRemote.streamID", 0, ["self:TrackRemote.mu/R", "self:TrackRemote.mu/W"]),
  ("TrackRemote.streamID", 1, ["self:TrackRemote.mu/W"]),
  ("ICETransport.gatherer", 0, ["self:ICETransport.lock/R", "self:ICETransport.lock/W"]),
  ("ICETransport.gatherer", 1, ["self:ICETransport.lock/W"]),
  ("mux.Mux.endpoints", 0, ["self:mux.Mux.lock/W"]),
  ("mux.Mux.endpoints", 1, ["self:mux.Mux.lock/W"]),
  ("mux.Mux.endpoints", 2, ["self:mux.Mux.lock/W"]),
  ("mux.Mux.pendingPackets", 0, ["self:mux.Mux.lock/W"]),
  ("mux.Mux.pendingPackets", 1, ["self:mux.Mux.lock/W"]),
  ("mux.Mux.pendingPackets", 2, ["self:mux.Mux.lock/W"])
]

/-- the generated specification is the one written above … -/
theorem C40_guard_spec_pinned : LockGraph.guardSpecText = expectedSpec := by decide

/-- … and its numeric form is its translation through the generated name tables -/
theorem C40_guard_spec_encoding :
    LockGraph.guardSpec = encodeSpec LockGraph.fieldNames LockGraph.guardNames expectedSpec := by decide

set_option maxRecDepth 100000 in
/-- the check on the table extracted from the current source -/
theorem C40_guard_table_ok : guardedOk LockGraph.accesses LockGraph.guardSpec = true := by decide +kernel

/-- For every access to a listed field, in every function of the analysed packages: the base object is still
    private to the function that created it, or one of the listed guards is held. -/
theorem C40_guarded_accesses :
    ∀ a ∈ LockGraph.accesses, ∀ s ∈ LockGraph.guardSpec, s.1 = a.1 → s.2.1 = a.2.1 →
      a.2.2.1 = true ∨ ∃ g ∈ s.2.2, g ∈ a.2.2.2 :=
  C40_guardedOk_sound C40_guard_table_ok

-- non-vacuity: the specification speaks about accesses that exist (the sample track's packetizer is called
-- somewhere), and the check can fail (an access without its guard is rejected)
set_option maxRecDepth 100000 in
example : LockGraph.accesses.any (fun a => LockGraph.guardSpec.any (fun s => s.1 == a.1 && s.2.1 == a.2.1 && s.2.1 == 2)) = true := by decide
example : guardedOk [(0, 2, false, [])] [(0, 2, [7])] = false := by decide
example : guardedOk [(0, 2, false, [7])] [(0, 2, [7])] = true := by decide

end WebrtcVerif.C40
