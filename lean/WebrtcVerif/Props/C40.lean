import WebrtcVerif.Model.LockOrder
import WebrtcVerif.Generated.LockGraph
/-!
# C40 — Concurrent use of PeerConnection is race-free and deadlock-free  (deadlock half)

"Any concurrent mix of AddTrack, RemoveTrack, … Close, alongside a serialized signaling exchange, is
free of data races and deadlocks: every call returns and the race detector reports nothing."

What is a theorem here: lock-order deadlock freedom.  `Generated.LockGraph` is re-extracted from /repo's
source on every run; `C40_graph_ranked` re-checks it; the general theorems below say what that buys.
Data-race freedom is NOT proved (it is a statement about the Go memory model); it is only searched by
the race-detector run of the harness.
-/
namespace WebrtcVerif.C40
open WebrtcVerif.LockOrder WebrtcVerif.Generated

/-- The lock graph extracted from the current source is strictly ranked: no cycle, no recursive locking. -/
theorem C40_graph_ranked : ranked LockGraph.edges LockGraph.rank = true := by decide

/-- Programs that respect a ranked edge relation keep every reachable state disciplined,
    for any number of threads and any interleaving. -/
theorem C40_reachable_disciplined (edges : List (Nat × Nat)) (rank : List Nat) (hr : ranked edges rank = true)
    {s : St} (h : Reachable edges s) : Disciplined (rankOf rank) s := by
  induction h with
  | init => intro t l hw; simp [init] at hw
  | step a _ hs ih =>
    rename_i s0 s1
    cases a with
    | request t l =>
      simp only [step] at hs
      split at hs
      · rename_i hc
        injection hs with hs; subst hs
        intro u l' hw h' hh
        by_cases hu : u = t
        · subst hu
          simp at hw; subst hw
          have hall := hc.2
          rw [List.all_eq_true] at hall
          have hmem := hall h' hh
          have : (h', l) ∈ edges := by simpa using hmem
          unfold ranked at hr
          rw [List.all_eq_true] at hr
          simpa using hr (h', l) this
        · simp [hu] at hw
          exact ih u l' hw h' hh
      · cases hs
    | acquire t =>
      simp only [step] at hs
      split at hs
      · cases hs
      · injection hs with hs; subst hs
        intro u l' hw h' hh
        by_cases hu : u = t
        · subst hu; simp at hw
        · simp [hu] at hw hh
          exact ih u l' hw h' hh
    | release t l =>
      simp only [step] at hs
      split at hs
      · rename_i hc
        injection hs with hs; subst hs
        intro u l' hw h' hh
        by_cases hu : u = t
        · subst hu
          simp at hw hh
          rw [hc.2] at hw; cases hw
        · simp [hu] at hh
          exact ih u l' hw h' hh
      · cases hs

/-- A disciplined state has no wait-for cycle. -/
theorem C40_no_cycle_of_disciplined (rank : Lock → Nat) (s : St) (hd : Disciplined rank s) :
    ¬ ∃ ts, WaitCycle s ts := by
  rintro ⟨ts, hne, hc⟩
  have hpos : 0 < ts.length := List.length_pos_iff.mpr hne
  -- the lock wanted at position i
  -- key step: the lock wanted at i ranks below the lock wanted at (i+1) % n
  have key : ∀ i (hi : i < ts.length), ∃ l l', s.wants ts[i] = some l ∧
      s.wants (ts[(i + 1) % ts.length]'(Nat.mod_lt _ hpos)) = some l' ∧ rank l < rank l' := by
    intro i hi
    obtain ⟨l, hw, hh⟩ := hc i hi
    obtain ⟨l', hw', _⟩ := hc ((i + 1) % ts.length) (Nat.mod_lt _ hpos)
    exact ⟨l, l', hw, hw', hd _ l' hw' l hh⟩
  -- ranks of wanted locks strictly increase along 0,1,…,n-1 and then wrap to 0
  obtain ⟨l0, hw0, _⟩ := hc 0 hpos
  have chain : ∀ k, k < ts.length → ∀ (hk : k < ts.length), ∃ lk, s.wants ts[k] = some lk ∧ rank l0 + k ≤ rank lk := by
    intro k
    induction k with
    | zero => intro _ hk; exact ⟨l0, hw0, by omega⟩
    | succ k ih =>
      intro _ hk
      have hk' : k < ts.length := by omega
      obtain ⟨lk, hwk, hle⟩ := ih hk' hk'
      obtain ⟨l, l', hw, hw', hlt⟩ := key k hk'
      have hmod : (k + 1) % ts.length = k + 1 := Nat.mod_eq_of_lt hk
      simp only [hmod] at hw'
      rw [hwk] at hw; cases hw
      exact ⟨l', hw', by omega⟩
  have hlast : ts.length - 1 < ts.length := by omega
  obtain ⟨ln, hwn, hle⟩ := chain (ts.length - 1) hlast hlast
  obtain ⟨l, l', hw, hw', hlt⟩ := key (ts.length - 1) hlast
  have hmod : (ts.length - 1 + 1) % ts.length = 0 := by
    have : ts.length - 1 + 1 = ts.length := by omega
    rw [this, Nat.mod_self]
  simp only [hmod] at hw'
  rw [hwn] at hw; cases hw
  rw [hw0] at hw'; cases hw'
  omega

/-- Deadlock freedom of the locking discipline extracted from the source: no reachable state of any
    number of threads following the extracted acquisition order contains a wait-for cycle. -/
theorem C40_no_deadlock {s : St} (h : Reachable LockGraph.edges s) : ¬ ∃ ts, WaitCycle s ts :=
  C40_no_cycle_of_disciplined _ s (C40_reachable_disciplined _ _ C40_graph_ranked h)

-- non-vacuity: the extracted graph is not empty, and a two-thread state that violates the discipline does deadlock
example : LockGraph.edges ≠ [] := by decide

end WebrtcVerif.C40
