import WebrtcVerif.Model.Signaling
import WebrtcVerif.Proofs.SignalingLemmas
/-!
# C01 — Signaling state follows the JSEP transition table, with matching descriptions

"Across any sequence of SetLocalDescription/SetRemoteDescription calls, a call succeeds only if (current
state, side, description type) is an edge of the JSEP/W3C signaling state machine, and the signaling state
then becomes that edge's target. LocalDescription/RemoteDescription always return the pending description
if one exists and otherwise the current one. The pending descriptions are empty whenever the state is
stable, and completing an offer/answer exchange makes that offer and answer the current descriptions."

`jsepEdge` (Model/Signaling.lean) is the JSEP machine written from RFC 8829 §3.2 / §5.7 independently of
the code's table; it contains edges pion does not take (re-applying an offer or pranswer, rollback on either
side), which is what an "only if" statement needs.  Histories are lists of `Action`s (createOffer,
createAnswer, SetLocal/SetRemoteDescription with an arbitrary description, Close) applied to one
PeerConnection; a pair of PeerConnections is two such histories, since a description is an input.
-/
namespace WebrtcVerif.C01
open WebrtcVerif.Signaling

/-! ### clause 1 — success only along a JSEP edge, landing on its target -/

/-- `checkNextSignalingState`, all 7 × 7 × 3 × 5 argument tuples: a success is a JSEP edge from `cur` to the
    proposed `next` for the side of `op`, and `next` is returned; an error returns `cur`. -/
theorem C01_table_sound (cur next : Sig) (op : Op) (ty : Ty) :
    ((checkNext cur next op ty).2 = none →
      (∃ side, Side.ofOp op = some side ∧ jsepEdge cur side ty = some next) ∧
      (checkNext cur next op ty).1 = next) ∧
    (∀ e, (checkNext cur next op ty).2 = some e → (checkNext cur next op ty).1 = cur) :=
  ⟨checkNext_ok, fun _ h => checkNext_err h⟩

/-- The edges pion takes: exactly these twelve.  (Of the JSEP machine's edges it leaves out re-applying an
    offer or a provisional answer, and rollback through the "other" call.) -/
def pionEdges : List (Sig × Op × Ty × Sig) :=
  [ (.stable, .setLocal, .offer, .haveLocalOffer), (.stable, .setRemote, .offer, .haveRemoteOffer),
    (.haveLocalOffer, .setRemote, .answer, .stable), (.haveLocalOffer, .setRemote, .pranswer, .haveRemotePranswer),
    (.haveRemotePranswer, .setRemote, .answer, .stable),
    (.haveRemoteOffer, .setLocal, .answer, .stable), (.haveRemoteOffer, .setLocal, .pranswer, .haveLocalPranswer),
    (.haveLocalPranswer, .setLocal, .answer, .stable),
    (.haveLocalOffer, .setLocal, .rollback, .stable), (.haveLocalPranswer, .setLocal, .rollback, .stable),
    (.haveRemoteOffer, .setRemote, .rollback, .stable), (.haveRemotePranswer, .setRemote, .rollback, .stable) ]

/-- `checkNextSignalingState` accepts a tuple iff it is one of `pionEdges` (all 735 tuples). -/
theorem C01_table_accepts_exactly (cur next : Sig) (op : Op) (ty : Ty) :
    (checkNext cur next op ty).2 = none ↔ (cur, op, ty, next) ∈ pionEdges := by
  cases cur <;> cases next <;> cases op <;> cases ty <;> decide

/-- A `SetLocalDescription` that returns nil followed the JSEP edge (state, local, type), and the signaling
    state is that edge's target.  For every state (reachable or not) and every description. -/
theorem C01_setLocal_success_is_edge (s : Neg) (d : Desc) (h : (setLocal s d).err = none) :
    jsepEdge s.sig .loc d.ty = some (setLocal s d).st.sig := by
  rcases setLocal_outcome s d with ⟨⟨_, he, _⟩, _⟩ | ⟨d', hty, _, _, hok, hst, _⟩
  · rw [h] at he; cases he
  · obtain ⟨_, _, _, _, hchk, hst', _⟩ := setDescription_ok s d' .setLocal hok
    obtain ⟨⟨side, hs, hedge⟩, _⟩ := checkNext_ok hchk
    simp [Side.ofOp] at hs; subst hs
    rw [hst, hst', ← hty]; exact hedge

/-- The same for `SetRemoteDescription`. -/
theorem C01_setRemote_success_is_edge (s : Neg) (d : Desc) (h : (setRemote s d).err = none) :
    jsepEdge s.sig .rem d.ty = some (setRemote s d).st.sig := by
  rcases setRemote_outcome s d with ⟨⟨_, he, _⟩, _⟩ | ⟨hok, hst, _⟩
  · rw [h] at he; cases he
  · obtain ⟨_, _, _, _, hchk, hst', _⟩ := setDescription_ok s d .setRemote hok
    obtain ⟨⟨side, hs, hedge⟩, _⟩ := checkNext_ok hchk
    simp [Side.ofOp] at hs; subst hs
    rw [hst, hst']; exact hedge

/-- A successful call emits exactly one signaling event, and it names the new state. -/
theorem C01_success_event (s : Neg) (d : Desc) :
    ((setLocal s d).err = none → (setLocal s d).events = [(setLocal s d).st.sig]) ∧
    ((setRemote s d).err = none → (setRemote s d).events = [(setRemote s d).st.sig]) := by
  constructor
  · intro h
    rcases setLocal_outcome s d with ⟨⟨_, he, _⟩, _⟩ | ⟨d', _, _, _, hok, hst, hev, _⟩
    · rw [h] at he; cases he
    · obtain ⟨_, _, _, _, _, hst', hev'⟩ := setDescription_ok s d' .setLocal hok
      rw [hev, hst, hev', hst']
  · intro h
    rcases setRemote_outcome s d with ⟨⟨_, he, _⟩, _⟩ | ⟨hok, hst, hev, _⟩
    · rw [h] at he; cases he
    · obtain ⟨_, _, _, _, _, hst', hev'⟩ := setDescription_ok s d .setRemote hok
      rw [hev, hst, hev', hst']

-- non-vacuity: the five kinds of accepted call, on concrete states
example : (setLocal { lastOffer := .made 1 0 } { ty := .offer, txt := .made 1 0 }).err = none := by decide
example : (setRemote {} { ty := .offer, txt := .made 1 0 }).st.sig = .haveRemoteOffer := by decide
example : (setRemote { sig := .haveLocalOffer, pendL := some { ty := .offer, txt := .made 1 0 } }
    { ty := .answer, txt := .made 2 0 }).err = none := by decide

/-! ### clause 2 — the getters -/

/-- `LocalDescription()` / `RemoteDescription()` return the pending description if there is one and the
    current one otherwise, in every state. -/
theorem C01_getters_pending_else_current (s : Neg) :
    (∀ d, s.pendL = some d → s.localDescription = some d) ∧ (s.pendL = none → s.localDescription = s.curL) ∧
    (∀ d, s.pendR = some d → s.remoteDescription = some d) ∧ (s.pendR = none → s.remoteDescription = s.curR) := by
  refine ⟨?_, ?_, ?_, ?_⟩ <;> intros <;> simp_all [Neg.localDescription, Neg.remoteDescription]

/-! ### clause 3 — stable ⇒ no pending descriptions -/

/-- After any history from a fresh PeerConnection the pending descriptions are determined by the signaling
    state (`Inv`: none in stable; the offer in have-*-offer; offer and pranswer in have-*-pranswer). -/
theorem C01_pending_matches_state (acts : List Action) : Inv (run Neg.init acts) :=
  run_inv _ acts Inv_init

/-- … in particular both are nil whenever the state is stable. -/
theorem C01_stable_has_no_pending (acts : List Action) (h : (run Neg.init acts).sig = .stable) :
    (run Neg.init acts).pendL = none ∧ (run Neg.init acts).pendR = none := by
  have hi := (C01_pending_matches_state acts).2
  rw [h] at hi
  exact hi

-- non-vacuity: a history that returns to stable after an exchange, and one that leaves stable
example : (run Neg.init [.createOffer 1, .setLocal { ty := .offer, txt := .made 1 0 },
    .setRemote { ty := .answer, txt := .made 2 0 }]).sig = .stable := by decide
example : (run Neg.init [.createOffer 1, .setLocal { ty := .offer, txt := .made 1 0 }]).pendL
    = some { ty := .offer, txt := .made 1 0 } := by decide

/-! ### clause 4 — completing an exchange makes that offer and that answer current -/

/-- what `SetLocalDescription` stores for `o`: `o` itself, or `o` with the last created offer's text when
    `o` has no text (JSEP 5.4) -/
def storedLocal (s : Neg) (o o' : Desc) : Prop :=
  o'.ty = o.ty ∧ o'.f = o.f ∧ (o'.txt = o.txt ∨ (o.txt = .empty ∧ (o'.txt = s.lastOffer ∨ o'.txt = s.lastAnswer)))

/-- Local offer, then any history that never passes through stable (failed calls, createOffer/createAnswer,
    a remote pranswer, post-commit failures …), then a remote answer that is accepted: the offer that
    was applied and that answer are the current descriptions, and nothing is pending. -/
theorem C01_exchange_completes_local_offer (s : Neg) (o a : Desc) (mid : List Action) (hi : Inv s)
    (ho : o.ty = .offer) (h1 : (setLocal s o).err = none)
    (hmid : ∀ k, 1 ≤ k → k ≤ mid.length → (run (setLocal s o).st (mid.take k)).sig ≠ .stable)
    (ha : a.ty = .answer) (h2 : (setRemote (run (setLocal s o).st mid) a).err = none) :
    ∃ o', storedLocal s o o' ∧
      (setRemote (run (setLocal s o).st mid) a).st.curL = some o' ∧
      (setRemote (run (setLocal s o).st mid) a).st.curR = some a ∧
      (setRemote (run (setLocal s o).st mid) a).st.pendL = none ∧
      (setRemote (run (setLocal s o).st mid) a).st.pendR = none ∧
      (setRemote (run (setLocal s o).st mid) a).st.sig = .stable := by
  -- the offer becomes the pending local description
  rcases setLocal_outcome s o with ⟨⟨_, he, _⟩, _⟩ | ⟨o', hty, hf, htxt, hok, hst, _⟩
  · rw [h1] at he; cases he
  obtain ⟨_, _, _, _, hchk, hst', _⟩ := setDescription_ok s o' .setLocal hok
  have hs1 : (setLocal s o).st = { book s .setLocal o' with sig := .haveLocalOffer } := by
    rw [hst, hst', hty, ho]; rfl
  have hi1 : Inv (setLocal s o).st := setLocal_inv s o hi
  have he1 : LocalExch o' (setLocal s o).st := by
    rw [hs1]; exact Or.inl ⟨Or.inl rfl, by simp [book, hty, ho]⟩
  -- it stays pending while the exchange is in progress
  have he2 := run_keeps (LocalExch o') (moves_localExch o') _ mid hi1 he1 hmid
  have hi2 : Inv (run (setLocal s o).st mid) := run_inv _ mid hi1
  -- the answer completes it
  generalize run (setLocal s o).st mid = t at he2 hi2 h2 ⊢
  rcases setRemote_outcome t a with ⟨⟨_, he, _⟩, _⟩ | ⟨hok2, hst2, _⟩
  · rw [h2] at he; cases he
  obtain ⟨hc, _, _, _, hchk2, hst2', _⟩ := setDescription_ok t a .setRemote hok2
  refine ⟨o', ⟨hty, hf, htxt⟩, ?_⟩
  rw [hst2, hst2']
  rcases he2 with ⟨hsig, hp⟩ | hcl
  · simp [book, proposed, ha, hp]
  · exfalso
    have := hi2.1.2 hcl
    simp [this] at hc

/-- Remote offer, then any history that never passes through stable (createAnswer, a local pranswer,
    failed calls …), then a local answer that is accepted: that offer and the answer that was applied are
    the current descriptions, and nothing is pending. -/
theorem C01_exchange_completes_remote_offer (s : Neg) (o a : Desc) (mid : List Action) (hi : Inv s)
    (ho : o.ty = .offer) (h1 : (setRemote s o).err = none)
    (hmid : ∀ k, 1 ≤ k → k ≤ mid.length → (run (setRemote s o).st (mid.take k)).sig ≠ .stable)
    (ha : a.ty = .answer) (h2 : (setLocal (run (setRemote s o).st mid) a).err = none) :
    ∃ a', storedLocal (run (setRemote s o).st mid) a a' ∧
      (setLocal (run (setRemote s o).st mid) a).st.curR = some o ∧
      (setLocal (run (setRemote s o).st mid) a).st.curL = some a' ∧
      (setLocal (run (setRemote s o).st mid) a).st.pendL = none ∧
      (setLocal (run (setRemote s o).st mid) a).st.pendR = none ∧
      (setLocal (run (setRemote s o).st mid) a).st.sig = .stable := by
  rcases setRemote_outcome s o with ⟨⟨_, he, _⟩, _⟩ | ⟨hok, hst, _⟩
  · rw [h1] at he; cases he
  obtain ⟨_, _, _, _, hchk, hst', _⟩ := setDescription_ok s o .setRemote hok
  have hs1 : (setRemote s o).st = { book s .setRemote o with sig := .haveRemoteOffer } := by
    rw [hst, hst', ho]; rfl
  have hi1 : Inv (setRemote s o).st := setRemote_inv s o hi
  have he1 : RemoteExch o (setRemote s o).st := by
    rw [hs1]; exact Or.inl ⟨Or.inl rfl, by simp [book, ho]⟩
  have he2 := run_keeps (RemoteExch o) (moves_remoteExch o) _ mid hi1 he1 hmid
  have hi2 : Inv (run (setRemote s o).st mid) := run_inv _ mid hi1
  generalize run (setRemote s o).st mid = t at he2 hi2 h2 ⊢
  rcases setLocal_outcome t a with ⟨⟨_, he, _⟩, _⟩ | ⟨a', hty, hf, htxt, hok2, hst2, _⟩
  · rw [h2] at he; cases he
  obtain ⟨hc, _, _, _, hchk2, hst2', _⟩ := setDescription_ok t a' .setLocal hok2
  refine ⟨a', ⟨hty, hf, htxt⟩, ?_⟩
  rw [hst2, hst2']
  rcases he2 with ⟨hsig, hp⟩ | hcl
  · simp [book, proposed, hty, ha, hp]
  · exfalso
    have := hi2.1.2 hcl
    simp [this] at hc

-- non-vacuity: an exchange through a provisional answer, with a failed call and a createOffer in between
example :
    let s1 := (setLocal { lastOffer := .made 1 0 } { ty := .offer, txt := .empty }).st
    let mid : List Action := [.setRemote { ty := .pranswer, txt := .made 2 0 }, .setLocal { ty := .offer, txt := .garbage },
      .createOffer 3]
    (∀ k, 1 ≤ k → k ≤ mid.length → (run s1 (mid.take k)).sig ≠ .stable) ∧
    (setRemote (run s1 mid) { ty := .answer, txt := .made 2 0 }).st.curL = some { ty := .offer, txt := .made 1 0 } ∧
    (setRemote (run s1 mid) { ty := .answer, txt := .made 2 0 }).st.curR = some { ty := .answer, txt := .made 2 0 } := by
  refine ⟨?_, by decide, by decide⟩
  intro k h1 h2
  have : k = 1 ∨ k = 2 ∨ k = 3 := by simp at h2; omega
  rcases this with rfl | rfl | rfl <;> decide

/-! ### closed -/

/-- Once closed (in any state satisfying the invariant, hence after any history), every call is rejected and
    changes nothing. -/
theorem C01_closed_rejects_all (s : Neg) (d : Desc) (h : s.isClosed = true) :
    (setLocal s d).err = some .closed ∧ (setLocal s d).st = s ∧
    (setRemote s d).err = some .closed ∧ (setRemote s d).st = s := by
  simp [setLocal, setRemote, h, fail]

/-- `Close` is final: after it, no history brings the signaling state out of `closed`. -/
theorem C01_closed_is_final (acts : List Action) (s : Neg) (hi : Inv s) (h : s.isClosed = true) :
    (run s acts).sig = .closed ∧ (run s acts).isClosed = true := by
  induction acts generalizing s with
  | nil => exact ⟨hi.1.1 h, h⟩
  | cons a as ih =>
    have hm := step_moves s a
    have hi' := step_inv s a hi
    apply ih _ hi'
    generalize (step s a).st = t' at hm hi' ⊢
    cases hm with
    | same => exact h
    | offer x => exact h
    | answer x => exact h
    | close => rfl
    | commit op d hop hty hc hchk => simp [h] at hc

example : (run Neg.init [.createOffer 1, .close, .setLocal { ty := .offer, txt := .made 1 0 }]).sig = .closed := by
  decide

end WebrtcVerif.C01
