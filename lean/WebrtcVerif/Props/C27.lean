import WebrtcVerif.Model.Mux
import WebrtcVerif.Proofs.MuxLemmas
/-!
# C27 — Transport demultiplexing is exclusive and order-preserving

"Every incoming datagram is classified as DTLS, SRTP or SRTCP using the RFC 7983 first-byte ranges (SRTCP
when the second byte is 192-223). The three classes are mutually exclusive, so each datagram reaches at most
one endpoint. Datagrams that arrive before their endpoint exists are queued and delivered to it, in arrival
order, before any datagram that arrives after the endpoint was created."

Part 1 (classification) quantifies over ALL byte lists.  Part 2 (delivery) quantifies over `Reachable s`:
every state that ANY interleaving of the atomic sections of the readLoop (`arrive`, `write`), any number of
`NewEndpoint` / `Endpoint.Close` / `RemoveEndpoint` / `Mux.Close` callers and the endpoint consumers can reach.
The model mirrors the repaired `NewEndpoint` (register + flush in one critical section).
-/
namespace WebrtcVerif.C27
open WebrtcVerif.Mux

/-! ## Part 1 — classification -/

inductive Class
  | dtls | srtp | srtcp | other
  deriving DecidableEq, Repr

/-- The specification, written from RFC 7983 §7 (first byte 20..63 → DTLS, 128..191 → RTP/RTCP) and the
    property text (RTCP when the second byte is 192..223).  A datagram in the RTP/RTCP range that is shorter
    than the 4-byte RTCP header cannot be told apart by its second byte and counts as SRTP. -/
def rfcClass : Pkt → Class
  | [] => .other
  | b0 :: rest =>
    if 20 ≤ b0.toNat ∧ b0.toNat ≤ 63 then .dtls
    else if 128 ≤ b0.toNat ∧ b0.toNat ≤ 191 then
      match rest with
      | b1 :: _ :: _ :: _ => if 192 ≤ b1.toNat ∧ b1.toNat ≤ 223 then .srtcp else .srtp
      | _ => .srtp
    else .other

/-- The three match functions compute exactly the RFC 7983 class — for every byte list. -/
theorem C27_class_is_rfc7983 (buf : Pkt) :
    (matchDTLS buf = true ↔ rfcClass buf = .dtls) ∧ (matchSRTP buf = true ↔ rfcClass buf = .srtp)
    ∧ (matchSRTCP buf = true ↔ rfcClass buf = .srtcp) := by
  match buf with
  | [] => simp [matchDTLS, matchSRTP, matchSRTCP, matchSRTPOrSRTCP, matchRange, rfcClass]
  | [b0] =>
    simp only [matchDTLS, matchSRTP, matchSRTCP, matchSRTPOrSRTCP, rfcClass, Bool.and_eq_true, matchRange_cons,
      Bool.not_eq_true', isRTCP_short [b0] (by simp)]
    grind
  | [b0, b1] =>
    simp only [matchDTLS, matchSRTP, matchSRTCP, matchSRTPOrSRTCP, rfcClass, Bool.and_eq_true, matchRange_cons,
      Bool.not_eq_true', isRTCP_short [b0, b1] (by simp)]
    grind
  | [b0, b1, b2] =>
    simp only [matchDTLS, matchSRTP, matchSRTCP, matchSRTPOrSRTCP, rfcClass, Bool.and_eq_true, matchRange_cons,
      Bool.not_eq_true', isRTCP_short [b0, b1, b2] (by simp)]
    grind
  | b0 :: b1 :: b2 :: b3 :: rest =>
    have h := isRTCP_long b0 b1 b2 b3 rest
    simp only [matchDTLS, matchSRTP, matchSRTCP, matchSRTPOrSRTCP, rfcClass, Bool.and_eq_true, matchRange_cons,
      Bool.not_eq_true']
    grind

/-- The three classes are mutually exclusive — for every byte list. -/
theorem C27_classes_exclusive (buf : Pkt) :
    ¬(matchDTLS buf = true ∧ matchSRTP buf = true) ∧ ¬(matchDTLS buf = true ∧ matchSRTCP buf = true)
    ∧ ¬(matchSRTP buf = true ∧ matchSRTCP buf = true) := by
  obtain ⟨h1, h2, h3⟩ := C27_class_is_rfc7983 buf
  rw [h1, h2, h3]
  refine ⟨?_, ?_, ?_⟩ <;> (intro ⟨ha, hb⟩; rw [ha] at hb; cases hb)

/-- DTLS: exactly the datagrams whose first byte is 20..63 (any length ≥ 1). -/
theorem C27_dtls_first_byte (buf : Pkt) :
    matchDTLS buf = true ↔ ∃ b0 rest, buf = b0 :: rest ∧ 20 ≤ b0.toNat ∧ b0.toNat ≤ 63 := by
  cases buf with
  | nil => simp [matchDTLS, matchRange]
  | cons b r => simp [matchDTLS, matchRange_cons]

/-- SRTCP: exactly first byte 128..191, at least 4 bytes, second byte 192..223. -/
theorem C27_srtcp_bytes (buf : Pkt) :
    matchSRTCP buf = true ↔ ∃ b0 b1 b2 b3 rest, buf = b0 :: b1 :: b2 :: b3 :: rest ∧
      128 ≤ b0.toNat ∧ b0.toNat ≤ 191 ∧ 192 ≤ b1.toNat ∧ b1.toNat ≤ 223 := by
  match buf with
  | [] => simp [matchSRTCP, matchSRTPOrSRTCP, matchRange]
  | [b0] => simp [matchSRTCP, isRTCP_short [b0] (by simp)]
  | [b0, b1] => simp [matchSRTCP, isRTCP_short [b0, b1] (by simp)]
  | [b0, b1, b2] => simp [matchSRTCP, isRTCP_short [b0, b1, b2] (by simp)]
  | b0 :: b1 :: b2 :: b3 :: rest =>
    have h := isRTCP_long b0 b1 b2 b3 rest
    simp only [matchSRTCP, matchSRTPOrSRTCP, Bool.and_eq_true, matchRange_cons, h]
    simp
    grind

/-- SRTP: first byte 128..191 and not SRTCP. -/
theorem C27_srtp_bytes (buf : Pkt) :
    matchSRTP buf = true ↔ (∃ b0 rest, buf = b0 :: rest ∧ 128 ≤ b0.toNat ∧ b0.toNat ≤ 191) ∧ matchSRTCP buf = false := by
  have hR : (∃ b0 rest, buf = b0 :: rest ∧ 128 ≤ b0.toNat ∧ b0.toNat ≤ 191) ↔ matchSRTPOrSRTCP buf = true := by
    cases buf with
    | nil => simp [matchSRTPOrSRTCP, matchRange]
    | cons b r => simp [matchSRTPOrSRTCP, matchRange_cons]
  rw [hR]
  unfold matchSRTP matchSRTCP
  cases matchSRTPOrSRTCP buf <;> cases isRTCP buf <;> simp

/-- The class depends only on the first two bytes and on min(length, 4): enumerating
    (first byte, second byte, length 0..5) covers every byte list. -/
theorem C27_class_depends_on_two_bytes_and_length (buf buf' : Pkt) (h2 : buf.take 2 = buf'.take 2)
    (hl : min buf.length 4 = min buf'.length 4) :
    matchDTLS buf = matchDTLS buf' ∧ matchSRTP buf = matchSRTP buf' ∧ matchSRTCP buf = matchSRTCP buf' := by
  have key : rfcClass buf = rfcClass buf' := by
    match buf, buf' with
    | [], [] => rfl
    | [], _ :: _ => exfalso; simp at hl <;> omega
    | _ :: _, [] => exfalso; simp at hl <;> omega
    | [a], [b] => simp at h2; subst h2; rfl
    | [a], _ :: _ :: _ => exfalso; simp at hl <;> omega
    | _ :: _ :: _, [b] => exfalso; simp at hl <;> omega
    | [a, a1], [b, b1] => simp at h2; obtain ⟨rfl, rfl⟩ := h2; rfl
    | [a, a1], _ :: _ :: _ :: _ => exfalso; simp at hl <;> omega
    | _ :: _ :: _ :: _, [b, b1] => exfalso; simp at hl <;> omega
    | [a, a1, a2], [b, b1, b2] => simp at h2; obtain ⟨rfl, rfl⟩ := h2; simp [rfcClass]
    | [a, a1, a2], _ :: _ :: _ :: _ :: _ => exfalso; simp at hl <;> omega
    | _ :: _ :: _ :: _ :: _, [b, b1, b2] => exfalso; simp at hl <;> omega
    | a :: a1 :: a2 :: a3 :: ar, b :: b1 :: b2 :: b3 :: br =>
      simp at h2; obtain ⟨rfl, rfl⟩ := h2; simp [rfcClass]
  obtain ⟨h1, h2', h3⟩ := C27_class_is_rfc7983 buf
  obtain ⟨g1, g2, g3⟩ := C27_class_is_rfc7983 buf'
  rw [key] at h1 h2' h3
  refine ⟨?_, ?_, ?_⟩
  · exact Bool.eq_iff_iff.mpr (h1.trans g1.symm)
  · exact Bool.eq_iff_iff.mpr (h2'.trans g2.symm)
  · exact Bool.eq_iff_iff.mpr (h3.trans g3.symm)

-- non-vacuity: each class is inhabited, at the range boundaries
example : rfcClass [20] = .dtls ∧ rfcClass [63, 0] = .dtls ∧ rfcClass [19] = .other ∧ rfcClass [64] = .other := by decide
example : rfcClass [128, 192, 0, 0] = .srtcp ∧ rfcClass [191, 223, 0, 0] = .srtcp ∧ rfcClass [128, 191, 0, 0] = .srtp
    ∧ rfcClass [128, 224, 0, 0] = .srtp ∧ rfcClass [128, 200, 0] = .srtp ∧ rfcClass [192, 200, 0, 0] = .other := by decide
example : matchSRTCP [128, 200, 0, 0, 9] = true ∧ matchSRTP [128, 200, 0] = true ∧ matchDTLS [22, 254, 253] = true := by decide
example : ([1, 2, 3, 4, 5] : Pkt).take 2 = ([1, 2, 9, 9] : Pkt).take 2 ∧
    min ([1, 2, 3, 4, 5] : Pkt).length 4 = min ([1, 2, 9, 9] : Pkt).length 4 := by decide

/-! ## Part 2 — each datagram reaches at most one endpoint, in arrival order -/

/-- a datagram delivered to an endpoint is a datagram that arrived, and the endpoint's match function accepts it -/
theorem C27_delivered_only_to_matching {s : St} (h : Reachable s) (k : Nat) (e : Ep) (hk : s.eps[k]? = some e)
    (d : Dg) (hd : d ∈ e.got) : d ∈ s.arrivals ∧ e.m.eval d.data = true :=
  ⟨(inv_of_reachable h).gotArr k e hk d hd, (inv_of_reachable h).gotMatch k e hk d hd⟩

/-- Each datagram reaches at most one endpoint — whatever the match functions are … -/
theorem C27_at_most_one_endpoint {s : St} (h : Reachable s) (k1 k2 : Nat) (e1 e2 : Ep)
    (h1 : s.eps[k1]? = some e1) (h2 : s.eps[k2]? = some e2) (d : Dg) (hd1 : d ∈ e1.got) (hd2 : d ∈ e2.got) :
    k1 = k2 := by
  rcases Nat.decEq k1 k2 with hne | heq
  · exact absurd hd2 ((inv_of_reachable h).disjoint k1 k2 e1 e2 hne h1 h2 d hd1)
  · exact heq

/-- … and at most once. -/
theorem C27_delivered_at_most_once {s : St} (h : Reachable s) (k : Nat) (e : Ep) (hk : s.eps[k]? = some e) :
    e.got.Nodup := by
  have := (inv_of_reachable h).gotAsc k e hk
  unfold SeqAsc at this
  exact this.imp (fun hlt heq => by rw [heq] at hlt; exact Nat.lt_irrefl _ hlt)

/-- arrival numbers are positions in the arrival sequence (so `seq` order IS arrival order) -/
theorem C27_seq_is_arrival_position {s : St} (h : Reachable s) (i : Nat) (d : Dg) (hi : s.arrivals[i]? = some d) :
    d.seq = i := (inv_of_reachable h).arrSeq i d hi

/-- With the three exclusive classes the endpoint is determined: two different class matchers never accept
    the same datagram, so the map iteration of `dispatch` can find at most one endpoint. -/
theorem C27_class_matchers_disjoint (m1 m2 : Matcher) (h1 : m1 = .dtls ∨ m1 = .srtp ∨ m1 = .srtcp)
    (h2 : m2 = .dtls ∨ m2 = .srtp ∨ m2 = .srtcp) (hne : m1 ≠ m2) (p : Pkt) :
    ¬(m1.eval p = true ∧ m2.eval p = true) := by
  obtain ⟨a, b, c⟩ := C27_classes_exclusive p
  rcases h1 with rfl | rfl | rfl <;> rcases h2 with rfl | rfl | rfl <;> dsimp only [Matcher.eval] <;>
    first
    | exact absurd rfl hne
    | exact a
    | exact b
    | exact c
    | exact fun h => a ⟨h.2, h.1⟩
    | exact fun h => b ⟨h.2, h.1⟩
    | exact fun h => c ⟨h.2, h.1⟩

theorem C27_dispatch_target_unique {s s1 s2 : St} (d : Pkt) (k1 k2 : Nat)
    (hcls : ∀ (k : Nat) (e : Ep), s.eps[k]? = some e → e.registered = true → e.m = .dtls ∨ e.m = .srtp ∨ e.m = .srtcp)
    (hdist : ∀ (k k' : Nat) (e e' : Ep), s.eps[k]? = some e → s.eps[k']? = some e' → e.registered = true →
      e'.registered = true → k ≠ k' → e.m ≠ e'.m)
    (h1 : step s (.arrive d (some k1)) = some s1) (h2 : step s (.arrive d (some k2)) = some s2) : k1 = k2 := by
  have ext : ∀ (k : Nat) (s' : St), step s (.arrive d (some k)) = some s' →
      ∃ e, s.eps[k]? = some e ∧ e.registered = true ∧ e.m.eval d = true := by
    intro k s' hs
    simp only [step] at hs
    split at hs
    · cases hs
    · split at hs
      · cases hs
      · split at hs
        · next e hk =>
          split at hs
          · next hm => simp only [Bool.and_eq_true] at hm; exact ⟨e, hk, hm.1, hm.2⟩
          · cases hs
        · cases hs
  obtain ⟨e1, hk1, hr1, hm1⟩ := ext k1 s1 h1
  obtain ⟨e2, hk2, hr2, hm2⟩ := ext k2 s2 h2
  rcases Nat.decEq k1 k2 with hne | heq
  · exact absurd ⟨hm1, hm2⟩ (C27_class_matchers_disjoint e1.m e2.m (hcls k1 e1 hk1 hr1) (hcls k2 e2 hk2 hr2)
      (hdist k1 k2 e1 e2 hk1 hk2 hr1 hr2 hne) d)
  · exact heq

/-- Delivery order is arrival order: the packets written to an endpoint's buffer carry strictly increasing
    arrival numbers — in every reachable state, i.e. under every interleaving. -/
theorem C27_delivery_in_arrival_order {s : St} (h : Reachable s) (k : Nat) (e : Ep) (hk : s.eps[k]? = some e) :
    e.got.Pairwise (fun a b => a.seq < b.seq) :=
  (inv_of_reachable h).gotAsc k e hk

/-- The datagrams that arrived before the endpoint was created come out of it before every datagram that
    arrived after its creation: the delivered sequence is (queued part) ++ (later part). -/
theorem C27_queued_before_later {s : St} (h : Reachable s) (k : Nat) (e : Ep) (hk : s.eps[k]? = some e) :
    ∃ queued later, e.got = queued ++ later ∧ (∀ d ∈ queued, d.seq < e.regAt) ∧ (∀ d ∈ later, e.regAt ≤ d.seq) :=
  split_at_seq e.got e.regAt (C27_delivery_in_arrival_order h k e hk)

/-- No datagram waits in the pending queue while a registered endpoint accepts it. -/
theorem C27_no_waiting_while_endpoint_exists {s : St} (h : Reachable s) (d : Dg) (hd : d ∈ s.pending)
    (k : Nat) (e : Ep) (hk : s.eps[k]? = some e) (hr : e.registered = true) : e.m.eval d.data = false :=
  (inv_of_reachable h).pendNoReg d hd k e hk hr

/-- Every datagram that arrived is accounted for: delivered to an endpoint, still queued, between lookup and
    buffer write, or dropped by one of the logged branches (`lost` records which). Nothing vanishes silently. -/
theorem C27_conservation {s : St} (h : Reachable s) (d : Dg) (hd : d ∈ s.arrivals) :
    (∃ (k : Nat) (e : Ep), s.eps[k]? = some e ∧ d ∈ e.got) ∨ d ∈ s.pending ∨ (∃ k, s.inflight = some (k, d)) ∨
      d ∈ s.lost.map Prod.fst :=
  (inv_of_reachable h).conserve d hd

/-- "Datagrams that arrive before their endpoint exists are queued and delivered to it": a datagram that
    arrived before endpoint #k was created and that #k's match function accepts has been delivered to #k —
    unless a logged branch dropped it, or another endpoint whose match function also accepts it took it. -/
theorem C27_queued_are_delivered {s : St} (h : Reachable s) (k : Nat) (e : Ep) (hk : s.eps[k]? = some e)
    (d : Dg) (hd : d ∈ s.arrivals) (hbefore : d.seq < e.regAt) (hm : e.m.eval d.data = true) :
    d ∈ e.got ∨ d ∈ s.lost.map Prod.fst ∨
      (∃ (k' : Nat) (e' : Ep), k' ≠ k ∧ s.eps[k']? = some e' ∧ e'.m.eval d.data = true ∧
        (d ∈ e'.got ∨ s.inflight = some (k', d))) := by
  have hi := inv_of_reachable h
  rcases hi.conserve d hd with ⟨k', e', hk', hde⟩ | hp | ⟨k', hin⟩ | hl
  · rcases Nat.decEq k' k with hne | heq
    · exact Or.inr (Or.inr ⟨k', e', hne, hk', hi.gotMatch k' e' hk' d hde, Or.inl hde⟩)
    · subst heq; rw [hk] at hk'; cases hk'; exact Or.inl hde
  · have := hi.pendAfterReg k e hk d hp hm
    omega
  · obtain ⟨_, _, e', hk', hm', hreg⟩ := hi.infl k' d hin
    rcases Nat.decEq k' k with hne | heq
    · exact Or.inr (Or.inr ⟨k', e', hne, hk', hm', Or.inr hin⟩)
    · subst heq; rw [hk] at hk'; cases hk'; omega
  · exact Or.inr (Or.inl hl)

/-- … and when no other endpoint ever accepts what #k accepts (the three exclusive classes, one endpoint
    each), the only exceptions are the logged drops. -/
theorem C27_queued_are_delivered_exclusive {s : St} (h : Reachable s) (k : Nat) (e : Ep) (hk : s.eps[k]? = some e)
    (hex : ∀ (k' : Nat) (e' : Ep), k' ≠ k → s.eps[k']? = some e' → ∀ p, ¬(e.m.eval p = true ∧ e'.m.eval p = true))
    (d : Dg) (hd : d ∈ s.arrivals) (hbefore : d.seq < e.regAt) (hm : e.m.eval d.data = true) :
    d ∈ e.got ∨ d ∈ s.lost.map Prod.fst := by
  rcases C27_queued_are_delivered h k e hk d hd hbefore hm with h1 | h1 | ⟨k', e', hne, hk', hm', _⟩
  · exact Or.inl h1
  · exact Or.inr h1
  · exact absurd ⟨hm, hm'⟩ (hex k' e' hne hk' d.data)

/-- The third sentence of the property in one statement.  An endpoint that is still registered, whose class no
    other endpoint shares, reads EXACTLY the datagrams of its class — those that arrived before it was created and
    those that arrived after — in arrival order; the only datagrams missing are the logged drops of its class and the
    one between lookup and buffer write (if any). -/
theorem C27_endpoint_reads_its_class_in_arrival_order {s : St} (h : Reachable s) (k : Nat) (e : Ep)
    (hk : s.eps[k]? = some e) (hreg : e.registered = true)
    (hex : ∀ (k' : Nat) (e' : Ep), k' ≠ k → s.eps[k']? = some e' → ∀ p, ¬(e.m.eval p = true ∧ e'.m.eval p = true))
    (hlost : ∀ x ∈ s.lost, e.m.eval x.1.data = false)
    (hinf : ∀ d, s.inflight ≠ some (k, d)) :
    e.got = s.arrivals.filter (fun d => e.m.eval d.data) := by
  have hi := inv_of_reachable h
  apply asc_ext
  · exact hi.gotAsc k e hk
  · exact List.Pairwise.sublist List.filter_sublist (arrivals_asc hi)
  · intro d
    rw [List.mem_filter]
    constructor
    · intro hd
      exact ⟨hi.gotArr k e hk d hd, hi.gotMatch k e hk d hd⟩
    · intro ⟨hd, hm⟩
      rcases hi.conserve d hd with ⟨k', e', hk', hde⟩ | hp | ⟨k', hin⟩ | hl
      · rcases Nat.decEq k' k with hne | heq
        · exact absurd ⟨hm, hi.gotMatch k' e' hk' d hde⟩ (hex k' e' hne hk' d.data)
        · subst heq; rw [hk] at hk'; cases hk'; exact hde
      · have := hi.pendNoReg d hp k e hk hreg
        rw [hm] at this; cases this
      · rcases Nat.decEq k' k with hne | heq
        · obtain ⟨_, _, e', hk', hm', _⟩ := hi.infl k' d hin
          exact absurd ⟨hm, hm'⟩ (hex k' e' hne hk' d.data)
        · subst heq; exact absurd hin (hinf d)
      · simp only [List.mem_map] at hl
        obtain ⟨x, hx, rfl⟩ := hl
        have := hlost x hx
        rw [hm] at this; cases this

/-- "are queued": a non-empty datagram that no registered endpoint accepts is appended to the pending queue
    (open Mux, fewer than 15 waiting) — and the state is otherwise unchanged. -/
theorem C27_queued_when_room (s : St) (d : Pkt) (hin : s.inflight = none) (hl : s.loopDead = false)
    (hne : d ≠ []) (hno : anyMatch s.eps d = false) (hopen : s.isClosed = false)
    (hroom : s.pending.length < maxPendingPackets) :
    step s (.arrive d none) = some { s with arrivals := s.arrivals ++ [⟨s.arrivals.length, d⟩],
                                            pending := s.pending ++ [⟨s.arrivals.length, d⟩] } := by
  have hne' : d.isEmpty = false := by cases d with | nil => exact absurd rfl hne | cons _ _ => rfl
  have : ¬ (s.pending.length ≥ maxPendingPackets) := by omega
  simp [step, hin, hl, hne', hno, hopen, this]

/-- "and delivered to it": `NewEndpoint` moves exactly the accepted pending datagrams out of the queue, and
    each of them is in the new endpoint's buffer or was refused by the buffer (logged). -/
theorem C27_flush_on_creation (s s' : St) (m : Matcher) (hs : step s (.newEndpoint m) = some s') :
    s'.pending = s.pending.filter (fun d => !m.eval d.data) ∧
    ∃ e, s'.eps = s.eps ++ [e] ∧ e.m = m ∧ e.registered = true ∧ e.regAt = s.arrivals.length ∧
      (∃ sub, sub.Sublist (s.pending.filter (fun d => m.eval d.data)) ∧ e.got = sub) ∧
      ∀ d ∈ s.pending, m.eval d.data = true → d ∈ e.got ∨ d ∈ s'.lost.map Prod.fst := by
  simp only [step, Option.some.injEq] at hs
  subst hs
  obtain ⟨hm, hreg, hra, _, _, _, sub, hsub, hgot, hall⟩ :=
    writeAll_spec { m := m, regAt := s.arrivals.length } (s.pending.filter (fun d => m.eval d.data))
  refine ⟨rfl, _, rfl, hm, hreg, hra, ⟨sub, hsub, by simpa using hgot⟩, ?_⟩
  intro d hd hmd
  rcases hall d (by simp [hd, hmd]) with h1 | h1
  · left; rw [hgot]; simpa using h1
  · right; simp only [List.map_append, List.mem_append]; exact Or.inr h1

/-- … and in every reachable state the buffer cannot refuse them: at most 15 packets wait, each below 64 KiB,
    which is less than the 1 MB limit of the fresh buffer.  So `NewEndpoint` delivers EXACTLY the accepted pending
    datagrams, in queue (= arrival) order, and drops none. -/
theorem C27_flush_delivers_all {s s' : St} (h : Reachable s) (m : Matcher) (hs : step s (.newEndpoint m) = some s')
    (hsz : ∀ d ∈ s.pending, d.data.length < 65536) :
    ∃ e, s'.eps = s.eps ++ [e] ∧ e.got = s.pending.filter (fun d => m.eval d.data) ∧ s'.lost = s.lost := by
  simp only [step, Option.some.injEq] at hs
  subst hs
  have hcap := (inv_of_reachable h).pendCap
  have hlen : (s.pending.filter (fun d => m.eval d.data)).length ≤ 15 :=
    Nat.le_trans (List.length_filter_le _ _) hcap
  have hsz' : ∀ d ∈ s.pending.filter (fun d => m.eval d.data), d.data.length < 65536 :=
    fun d hd => hsz d (List.mem_filter.mp hd).1
  have hsum := sum_sizes_le _ hsz'
  obtain ⟨hg, hl⟩ := writeAll_all_ok { m := m, regAt := s.arrivals.length } (s.pending.filter (fun d => m.eval d.data))
    rfl (by simp) hsz' (by simp [Ep.used, maxBufferSize]; omega)
  refine ⟨_, rfl, by simpa using hg, ?_⟩
  simp [hl]

/-! ### non-vacuity: concrete interleavings -/

def d1 : Pkt := [22, 254, 253, 0, 1]
def d2 : Pkt := [22, 254, 253, 0, 2]
def r1 : Pkt := [128, 96, 0, 1]
def c1 : Pkt := [128, 200, 0, 1]

/-- d1 and r1 arrive before any endpoint exists and are queued; the DTLS endpoint is created (d1 is flushed to it);
    d2 is looked up and found; the SRTP endpoint is created (r1 flushed) while d2 is still between lookup and
    buffer write; d2 is written; c1 is queued until the SRTCP endpoint exists; a consumer reads from endpoint 0. -/
def demo : List Action :=
  [.arrive d1 none, .arrive r1 none, .newEndpoint .dtls, .arrive d2 (some 0), .newEndpoint .srtp, .write,
   .arrive c1 none, .newEndpoint .srtcp, .read 0]

/-- every run of actions accepted by `step` ends in a `Reachable` state (so the theorems above apply to
    every run the driver's simulator produces: it changes the core state only through `step`) -/
theorem C27_runs_are_reachable (l : List Action) (s0 s : St) (h0 : Reachable s0) (hr : runActions s0 l = some s) :
    Reachable s := by
  induction l generalizing s0 with
  | nil => simp [runActions] at hr; subst hr; exact h0
  | cons a t ih =>
    simp only [runActions] at hr
    cases hst : step s0 a with
    | none => simp [hst] at hr
    | some s1 => simp [hst] at hr; exact ih s1 (Reachable.step a h0 hst) hr

example : ∃ s, runActions init demo = some s ∧ Reachable s :=
  ⟨_, rfl, C27_runs_are_reachable demo init _ Reachable.init rfl⟩

example : ∃ s, runActions init demo = some s ∧
    s.eps.map (fun e => (e.m, e.got.map (·.seq), e.regAt)) = [(.dtls, [0, 2], 2), (.srtp, [1], 3), (.srtcp, [3], 4)] ∧
    s.pending = [] ∧ s.lost = [] := ⟨_, rfl, by decide, by decide, by decide⟩

-- hypotheses of C27_queued_are_delivered_exclusive are satisfiable: endpoint #0 (DTLS) of `demo`, datagram 0
example : ∃ s e, runActions init demo = some s ∧ s.eps[0]? = some e ∧ (⟨0, d1⟩ : Dg) ∈ s.arrivals ∧
    (0 : Nat) < e.regAt ∧ e.m.eval d1 = true ∧ (⟨0, d1⟩ : Dg) ∈ e.got := by
  refine ⟨_, _, rfl, rfl, ?_, ?_, ?_, ?_⟩ <;> decide

-- hypotheses of C27_flush_delivers_all are satisfiable (two datagrams waiting, both small)
example : ∃ s, runActions init [.arrive d1 none, .arrive r1 none] = some s ∧
    (∀ d ∈ s.pending, d.data.length < 65536) ∧ (step s (.newEndpoint .dtls)).isSome = true := ⟨_, rfl, by decide, by decide⟩

-- hypotheses of C27_endpoint_reads_its_class_in_arrival_order are satisfiable: endpoint #0 (DTLS) at the end of `demo`
example : ∃ s e, runActions init demo = some s ∧ s.eps[0]? = some e ∧ e.registered = true ∧ s.lost = [] ∧
    s.inflight = none ∧ e.got = s.arrivals.filter (fun d => e.m.eval d.data) := ⟨_, _, rfl, rfl, by decide, by decide, by decide, by decide⟩

-- the pending queue takes 15 datagrams and drops the 16th (logged as queueFull)
example : ∃ s, runActions init ((List.range 16).map (fun i => Action.arrive [64, UInt8.ofNat i] none)) = some s ∧
    s.pending.length = 15 ∧ s.lost.map (fun x => (x.1.seq, x.2)) = [(15, .queueFull)] := ⟨_, rfl, by decide, by decide⟩

-- hypotheses of C27_dispatch_target_unique / C27_queued_when_room are satisfiable
example : (step init (.arrive d1 none)).isSome = true ∧ anyMatch init.eps d1 = false := by decide
example : ∃ s s1, runActions init [.newEndpoint .dtls, .newEndpoint .srtp] = some s ∧
    step s (.arrive d1 (some 0)) = some s1 := ⟨_, _, rfl, rfl⟩

/-! ### while a creator is inside NewEndpoint's critical section

  (`lstep`: the same system with `m.lock` explicit around the registration + flush section, whose MatchFunc
  calls are supplied by the caller and may take arbitrarily long.) -/

/-- the explicit-lock system is the core system: its states are reachable states of `step`, so every theorem
    above holds for them -/
theorem C27_locked_runs_are_core_runs {s : LSt} (h : LReachable s) : Reachable s.st := by
  induction h with
  | init => exact Reachable.init
  | step a _ hs ih =>
    cases a with
    | enter c m =>
      simp only [lstep] at hs
      split at hs
      · cases hs
      · simp only [Option.some.injEq] at hs; subst hs; exact ih
    | matchCall c =>
      simp only [lstep] at hs
      split at hs
      · split at hs
        · simp only [Option.some.injEq] at hs; subst hs; exact ih
        · cases hs
      · cases hs
    | leave c =>
      simp only [lstep] at hs
      split at hs
      · split at hs
        · simp only [Option.map_eq_some_iff] at hs
          obtain ⟨st, hst, rfl⟩ := hs
          exact Reachable.step _ ih hst
        · cases hs
      · cases hs
    | free a =>
      simp only [lstep] at hs
      split at hs
      · cases hs
      · simp only [Option.map_eq_some_iff] at hs
        obtain ⟨st, hst, rfl⟩ := hs
        exact Reachable.step _ ih hst

/-- While a creator is between registering its endpoint and the end of the pending flush, no datagram can be
    dispatched (no lookup of a non-empty datagram is enabled), no other endpoint can be created or removed and
    the Mux cannot be closed: the window in which a later datagram could overtake the queued ones does not exist. -/
theorem C27_no_dispatch_while_creator_inside (s : LSt) (hh : s.holder.isSome = true) :
    (∀ (d : Pkt) (target : Option Nat), d ≠ [] → lstep s (.free (.arrive d target)) = none) ∧
    (∀ (c : Nat) (m : Matcher), lstep s (.enter c m) = none) ∧
    (∀ m, lstep s (.free (.newEndpoint m)) = none) ∧ (∀ k, lstep s (.free (.remove k)) = none) ∧
    lstep s (.free .muxClose) = none := by
  refine ⟨?_, ?_, ?_, ?_, ?_⟩
  · intro d target hd
    have : d.isEmpty = false := by cases d with | nil => exact absurd rfl hd | cons _ _ => rfl
    simp [lstep, hh, Action.takesLock, this]
  · intro c m
    cases hs : s.holder with
    | none => simp [hs] at hh
    | some x => simp [lstep, hs]
  · intro m; simp [lstep, hh, Action.takesLock]
  · intro k; simp [lstep, hh, Action.takesLock]
  · simp [lstep, hh, Action.takesLock]

-- non-vacuity: two datagrams wait, a creator enters (2 MatchFunc calls to come); a third datagram cannot be
-- looked up until the creator has left, and then follows the two queued ones
example : ∃ s, (lstep linit (.free (.arrive d1 none))).bind (fun s => (lstep s (.free (.arrive d2 none))).bind
      (fun s => lstep s (.enter 1 .dtls))) = some s ∧ s.holder.isSome = true ∧
    lstep s (.free (.arrive [22, 0, 3] (some 0))) = none ∧ lstep s (.free (.arrive [22, 0, 3] none)) = none ∧
    ((lstep s (.matchCall 1)).bind (fun s => (lstep s (.matchCall 1)).bind (fun s => (lstep s (.leave 1)).bind
      (fun s => (lstep s (.free (.arrive [22, 0, 3] (some 0)))).bind (fun s => lstep s (.free .write)))))).map
        (fun s => s.st.eps.map (fun e => e.got.map (·.seq))) = some [[0, 1, 2]] :=
  ⟨_, rfl, by decide, by decide, by decide, by decide⟩

/-! ### the schedule the repair removed (documentation)

  With the unrepaired `NewEndpoint` (register under the lock, flush in a goroutine) the following
  interleaving was possible on the real code (confirmed with the yield hooks before the `fix:` commit):
  d1 arrives and is queued; the endpoint is registered; d2 arrives, is found and written; the flush
  goroutine delivers d1 — the endpoint reads d2 before d1. -/
theorem C27_unrepaired_schedule_breaks_order :
    ∃ s e, legacyRun init [.cur (.arrive d1 none), .registerOnly .dtls, .cur (.arrive d2 (some 0)), .cur .write,
        .flush 0] = some s ∧ s.eps[0]? = some e ∧ e.got.map (·.seq) = [1, 0] :=
  ⟨_, _, rfl, rfl, by decide⟩

end WebrtcVerif.C27
