import WebrtcVerif.Model.Rtpdump
import WebrtcVerif.Proofs.RtpdumpLemmas
/-!
# C36 — rtpdump files round-trip, and malformed records are rejected

"For any header with an IPv4 source, a port and a start time representable in the format (to the
microsecond), and any packets with 1-65527-byte payloads and millisecond offsets, the rtpdump reader
returns exactly what the writer wrote. The writer refuses anything the format can't represent rather
than writing a corrupt file. The reader rejects records whose length field is smaller than the 8-byte
record header."
-/
namespace WebrtcVerif.C36
open WebrtcVerif.Bytes WebrtcVerif.Rtpdump

/-- a packet the format can represent exactly -/
def Packet.representable (p : Packet) : Prop :=
  1 ≤ p.payload.length ∧ p.payload.length ≤ 65527 ∧
  0 ≤ p.offsetNanos ∧ p.offsetNanos % 1000000 = 0 ∧ p.offsetNanos / 1000000 ≤ 4294967295

/-- a header the format can represent exactly -/
def Header.representable (h : Header) : Prop :=
  h.source.isSome ∧ h.port < 65536 ∧
  0 ≤ h.startNanos ∧ h.startNanos % 1000 = 0 ∧ h.startNanos / 1000000000 ≤ 4294967295

/-- what the format cannot represent at all (as opposed to representing it with reduced precision) -/
def Packet.unrepresentable (p : Packet) : Prop :=
  65527 < p.payload.length ∨ p.offsetNanos < 0 ∨ 4294967295 < p.offsetNanos / 1000000

def Header.unrepresentable (h : Header) : Prop :=
  h.source = none ∨ h.startNanos < 0 ∨ 4294967295 < h.startNanos / 1000000000

/-- A representable packet is written, and `Next` on what was written (followed by anything) returns
    exactly that packet and leaves exactly what followed. -/
theorem C36_packet_roundtrip (p : Packet) (rest : Bs) (hp : Packet.representable p) :
    ∃ d, p.marshal = .ok d ∧ next (d ++ rest) = .ok (p, rest) := by
  obtain ⟨h1, h2, h3, h4, h5⟩ := hp
  exact next_marshal p rest h1 h2 h3 h4 h5

/-- Any list of representable packets reads back as exactly that list, then clean end of stream. -/
theorem C36_packets_roundtrip (ps : List Packet) (hp : ∀ p ∈ ps, Packet.representable p) :
    ∃ bytes, writePackets ps 0 [] = (bytes, none) ∧ readAll bytes = (ps, .eof) := by
  obtain ⟨body, hw, hr⟩ := writePackets_ok ps 0 [] (fun p hmem => by
    obtain ⟨h1, h2, h3, h4, h5⟩ := hp p hmem
    refine ⟨_, marshal_ok p h2 h3 h5, fun rest => ?_⟩
    obtain ⟨d, hd, hn⟩ := next_marshal p rest h1 h2 h3 h4 h5
    rw [marshal_ok p h2 h3 h5] at hd
    cases hd
    exact hn)
  exact ⟨body, by simpa using hw, hr⟩

/-- The binary header round-trips. -/
theorem C36_header_roundtrip (h : Header) (hh : Header.representable h) :
    ∃ d, h.marshal = .ok d ∧ d.length = 16 ∧ Header.unmarshal d = some h := by
  obtain ⟨st, src, port⟩ := h
  obtain ⟨hs, hport, h0, h1, h2⟩ := hh
  simp only at hs hport h0 h1 h2
  match src, hs with
  | some (a, b', c, d), _ => exact header_roundtrip st a b' c d port hport h0 h1 h2

-- (`hport` and `hlen` are not needed: `digits` always yields 1–5 digits, and `take` tolerates short input)
set_option linter.unusedVariables false in
/-- The preamble the writer emits is accepted by the reader's regular expression and consumed exactly. -/
theorem C36_preamble_accepted (a b' c d : Byte) (port : Nat) (hport : port < 65536) (rest : Bs)
    (hlen : 36 ≤ (preamble a b' c d port ++ rest).length) :
    matchPreamble ((preamble a b' c d port ++ rest).take preambleLen) = true ∧
    dropLine (preamble a b' c d port ++ rest) = rest := by
  exact ⟨matchPreamble_take a b' c d port rest, dropLine_preamble a b' c d port rest⟩

/-- Whole file: header then packets read back as written. -/
theorem C36_file_roundtrip (h : Header) (ps : List Packet) (hh : Header.representable h)
    (hp : ∀ p ∈ ps, Packet.representable p) :
    ∃ hd body, newWriter h = .ok hd ∧ writePackets ps 0 [] = (body, none) ∧
      ∃ r, newReader (hd ++ body) = .ok (h, r) ∧ readAll r = (ps, .eof) := by
  obtain ⟨body, hw, hr⟩ := C36_packets_roundtrip ps hp
  obtain ⟨st, src, port⟩ := h
  obtain ⟨hs, hport, h0, h1, h2⟩ := hh
  simp only at hs hport h0 h1 h2
  match src, hs with
  | some (a, b', c, d), _ =>
    obtain ⟨hd, hm, hlen, hu⟩ := header_roundtrip st a b' c d port hport h0 h1 h2
    refine ⟨preamble a b' c d port ++ hd, body, ?_, hw, body, ?_, hr⟩
    · simp [newWriter, hm]
    · exact newReader_preamble a b' c d port hd body _ hlen hu

/-- The writer refuses what the format cannot represent (nothing is written for that item). -/
theorem C36_writer_refuses_packet (p : Packet) (hp : Packet.unrepresentable p) :
    p.marshal = .error .unrepresentable := by
  exact marshal_refuses p hp

theorem C36_writer_refuses_header (h : Header) (hh : Header.unrepresentable h) :
    newWriter h = .error .unrepresentable := by
  exact newWriter_refuses h hh

/-- A refused packet leaves the file as it was: the bytes written are those of the packets before it. -/
theorem C36_refusal_writes_nothing (ps : List Packet) (p : Packet) (qs : List Packet)
    (hps : ∀ q ∈ ps, Packet.representable q) (hp : Packet.unrepresentable p) :
    ∃ bytes, writePackets ps 0 [] = (bytes, none) ∧
      writePackets (ps ++ p :: qs) 0 [] = (bytes, some ps.length) := by
  obtain ⟨bytes, h1, h2⟩ := writePackets_refuse ps p qs 0 []
    (fun q hq => by
      obtain ⟨_, h2, h3, _, h5⟩ := hps q hq
      exact ⟨_, marshal_ok q h2 h3 h5⟩)
    ⟨_, marshal_refuses p hp⟩
  exact ⟨bytes, h1, by simpa using h2⟩

/-- The reader rejects every record whose length field is below 8, whatever follows. -/
theorem C36_reader_rejects_short (l0 l1 q0 q1 o0 o1 o2 o3 : Byte) (rest : Bs) (h : rd16be l0 l1 < 8) :
    next ([l0, l1, q0, q1, o0, o1, o2, o3] ++ rest) = .error .malformed := by
  exact next_short l0 l1 q0 q1 o0 o1 o2 o3 rest h

/-- …and never returns a payload that is not the `Length − 8` bytes following the record header. -/
theorem C36_reader_payload_exact (s : Bs) (p : Packet) (r : Bs) (h : next s = .ok (p, r)) :
    ∃ l0 l1 q0 q1 o0 o1 o2 o3, s = [l0, l1, q0, q1, o0, o1, o2, o3] ++ p.payload ++ r ∧
      rd16be l0 l1 = p.payload.length + 8 := by
  exact next_payload_exact s p r h

-- non-vacuity
example : Packet.representable { offsetNanos := 123000000, isRTCP := false, payload := [1, 2, 3, 4] } := by
  unfold Packet.representable; decide
example : Header.representable { startNanos := 1553475661000001000, source := some (1, 2, 3, 4), port := 5004 } := by
  unfold Header.representable; decide

end WebrtcVerif.C36
