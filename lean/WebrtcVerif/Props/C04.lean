import WebrtcVerif.Model.NegNeeded
import WebrtcVerif.Proofs.NegNeededLemmas
/-!
# C04 — negotiationneeded fires only in stable state, once per needed negotiation

"When calls are sequential and each one's queued work finishes before the next call, OnNegotiationNeeded is
never invoked while the signaling state is not stable or the connection is closed. After a change that requires
renegotiation, such as adding a track or transceiver or creating the first data channel, it fires once the
connection is stable. It does not fire a second time until an offer/answer exchange completes."

The theorems are about `NegNeeded.Reach`: every state one PeerConnection can get into by ANY sequence of
API calls (AddTrack, RemoveTrack, AddTransceiverFromKind, CreateDataChannel, CreateOffer, CreateAnswer,
SetLocalDescription, SetRemoteDescription with arbitrary remote descriptions of type offer, pranswer or answer,
SetLocal/SetRemoteDescription(rollback), Close), tails of
SetLocal/SetRemoteDescription(answer) and worker steps of the operations queue — the worker may run between an
API call's setDescription and its tail, blocked operations finish, fail or stay blocked as the outside world
decides.  The property's hypothesis (calls are sequential) is what makes an API call one step; "each one's queued
work finishes before the next call" is NOT needed for the first and the second clause (they hold for every
interleaving of calls and worker steps) and appears in the third as `quiescent` (observed after the queue drains).

`events` is the ghost log of handler invocations (`fire`), completed exchanges (`stable`: setDescription of an
answer succeeded with next state stable), rollbacks (`rolledBack`: setDescription(rollback) succeeded, next state
stable) and withdrawals (`withdrawn`: negotiationNeededOp found negotiation no
longer needed and cleared a set [[NegotiationNeeded]], W3C 4.7.3.2.4).

Findings (unchanged tree, both W3C-conformant): the third sentence of the property is violated when the need is
withdrawn and renewed — `C04_once_per_exchange_counterexample` — and when a rollback brings the connection back
to stable with the need still there — `C04_rollback_refire_events`.
-/
namespace WebrtcVerif.C04
open WebrtcVerif.NegNeeded

/-! ### clause 1: only in stable state, only on an open connection -/

/-- Every handler invocation, in every reachable state, happened with `SignalingState() = stable` — none of
    have-local-offer, have-remote-offer, have-local-pranswer, have-remote-pranswer, closed — and
    `isClosed = false`, and with checkNegotiationNeeded() true: it fires only for a needed negotiation. -/
theorem C04_fire_only_stable_open {pc : PC} (h : Reach pc) :
    ∀ f ∈ pc.fired, f.sig = .stable ∧ f.closed = false ∧ f.needed = true := by
  induction h with
  | init => intro f hf; simp at hf
  | step a _ hs ih =>
    have e := eff_step hs
    cases e with
    | keep _ _ z => rw [z]; exact ih
    | stable _ _ z => rw [z]; exact ih
    | rolledBack _ _ z => rw [z]; exact ih
    | withdrawn _ _ _ z => rw [z]; exact ih
    | fire _ _ _ z =>
      rw [z]
      intro f hf
      rcases List.mem_append.mp hf with hf | hf
      · exact ih f hf
      · simp only [List.mem_singleton] at hf
        subst hf
        exact ⟨rfl, rfl, rfl⟩

/-- The ghost log counts exactly the handler invocations. -/
theorem C04_fired_matches_events {pc : PC} (h : Reach pc) :
    pc.fired.length = pc.events.count .fire := by
  induction h with
  | init => rfl
  | step a _ hs ih =>
    have e := eff_step hs
    cases e with
    | keep _ y z => rw [z, y]; exact ih
    | stable _ y z => rw [z, y, List.count_append]; simp [ih]
    | rolledBack _ y z => rw [z, y, List.count_append]; simp [ih]
    | withdrawn _ _ y z => rw [z, y, List.count_append]; simp [ih]
    | fire _ _ y z => rw [z, y, List.count_append]; simp [ih]

/-! ### clause 3: not a second time until an exchange completes -/

/-- `armed`: a handler invocation happened and no event satisfying `sep` since -/
def armedAfter (sep : Ev → Bool) : Bool → List Ev → Bool
  | a, [] => a
  | a, e :: es => armedAfter sep (if e == .fire then true else a && !sep e) es

/-- no handler invocation follows another one unless an event satisfying `sep` lies between -/
def sepBy (sep : Ev → Bool) : Bool → List Ev → Bool
  | _, [] => true
  | a, e :: es => (if e == .fire then !a else true) && sepBy sep (if e == .fire then true else a && !sep e) es

def sepStable (e : Ev) : Bool := e == .stable
def sepAny (e : Ev) : Bool := e == .stable || e == .withdrawn || e == .rolledBack

private theorem armedAfter_append (sep : Ev → Bool) (a : Bool) (es : List Ev) (e : Ev) :
    armedAfter sep a (es ++ [e]) = (if e == .fire then true else armedAfter sep a es && !sep e) := by
  induction es generalizing a with
  | nil => simp [armedAfter]
  | cons x xs ih => simp only [List.cons_append, armedAfter, ih]

private theorem sepBy_append (sep : Ev → Bool) (a : Bool) (es : List Ev) (e : Ev) :
    sepBy sep a (es ++ [e]) = (sepBy sep a es && (if e == .fire then !armedAfter sep a es else true)) := by
  induction es generalizing a with
  | nil => simp [sepBy, armedAfter]
  | cons x xs ih => simp only [List.cons_append, sepBy, armedAfter, ih, Bool.and_assoc]

/-- [[NegotiationNeeded]] is set exactly when the last thing that happened to it was a handler invocation,
    and no two handler invocations are adjacent in the log. -/
private theorem flag_and_log {pc : PC} (h : Reach pc) :
    pc.isNN = armedAfter sepAny false pc.events ∧ sepBy sepAny false pc.events = true := by
  induction h with
  | init => exact ⟨rfl, rfl⟩
  | @step pc0 pc1 a _ hs ih =>
    have e := eff_step hs
    cases e with
    | keep x y _ => rw [x, y]; exact ih
    | stable x y _ =>
      rw [x, y, armedAfter_append, sepBy_append]
      simp [sepAny, ih.2]
    | rolledBack x y _ =>
      rw [x, y, armedAfter_append, sepBy_append]
      simp [sepAny, ih.2]
    | withdrawn _ x y _ =>
      rw [x, y, armedAfter_append, sepBy_append]
      simp [sepAny, ih.2]
    | fire w x y _ =>
      rw [x, y, armedAfter_append, sepBy_append]
      have : armedAfter sepAny false pc0.events = false := by rw [← ih.1]; exact w
      simp [ih.2, this]

/-- [[NegotiationNeeded]] is true iff the most recent event is a handler invocation: a completed exchange
    (setDescription into stable) and a withdrawal are the only things that clear it. -/
theorem C04_flag_iff_last_event_fire {pc : PC} (h : Reach pc) :
    pc.isNN = true ↔ pc.events.getLast? = some .fire := by
  induction h with
  | init => simp
  | step a _ hs ih =>
    have e := eff_step hs
    cases e with
    | keep x y _ => rw [x, y]; exact ih
    | stable x y _ => rw [x, y]; simp
    | rolledBack x y _ => rw [x, y]; simp
    | withdrawn _ x y _ => rw [x, y]; simp
    | fire _ x y _ => rw [x, y]; simp

/-- Between two handler invocations there is always a completed exchange, a rollback into stable or a
    withdrawal of the need — for every reachable state, i.e. every history and every schedule of the queue's
    worker. -/
theorem C04_second_fire_needs_exchange_or_withdrawal {pc : PC} (h : Reach pc) :
    sepBy sepAny false pc.events = true := (flag_and_log h).2

/-- The property's third sentence, literally: between two handler invocations an offer/answer exchange
    completes. -/
def C04_once_per_exchange_Full : Prop :=
  ∀ pc : PC, Reach pc → sepBy sepStable false pc.events = true

private theorem run_reach {pc pc' : PC} (acts : List Act) (h : Reach pc) (hr : pc.run acts = some pc') : Reach pc' := by
  induction acts generalizing pc with
  | nil => simp [PC.run] at hr; subst hr; exact h
  | cons a as ih =>
    simp only [PC.run] at hr
    cases hs : pc.step a with
    | none => simp [hs] at hr
    | some pc1 =>
      simp only [hs, Option.bind_some] at hr
      exact ih (.step a h hs) hr

def cexOffer : Desc := { offer := true, secs := [{ mid := 0, app := false, kind := .video, dir := .recvonly, msid := none }] }
def cexAnswer : Desc := { offer := false, secs := [{ mid := 0, app := false, kind := .video, dir := .sendonly, msid := none }] }

/-- AddTransceiverFromKind(video, recvonly); a complete exchange (the peer answers sendonly); AddTrack (the
    transceiver is re-used: fire); RemoveTrack (the transceiver is back to what was negotiated:
    negotiationNeededOp clears the flag); AddTrack (fire again, no exchange in between). -/
def cexActs : List Act :=
  [.call (.addTransceiver .video .recvonly), .work none,
   .call .createOffer, .call (.setLocal cexOffer false), .call (.setRemote cexAnswer false), .tail,
   .work none, .work none, .work (some true), .work none, .work none,
   .call (.addTrack .video 0), .work none,
   .call (.removeTrack 0), .work none,
   .call (.addTrack .video 1), .work none]

theorem C04_counterexample_events :
    ((PC.run {} cexActs).map (·.events)) = some [.fire, .stable, .fire, .withdrawn, .fire] := by decide

/-- The unchanged code violates the third sentence as written: a withdrawn and renewed need fires twice
    with no exchange in between (what W3C 4.7.3.2.4 prescribes). -/
theorem C04_once_per_exchange_counterexample : ¬ C04_once_per_exchange_Full := by
  intro hfull
  cases hrun : PC.run {} cexActs with
  | none => have := C04_counterexample_events; simp [hrun] at this
  | some pc =>
    have hev : pc.events = [.fire, .stable, .fire, .withdrawn, .fire] := by
      have := C04_counterexample_events; simpa [hrun] using this
    have := hfull pc (run_reach cexActs .init hrun)
    rw [hev] at this
    exact absurd this (by decide)

private theorem sepBy_congr {s1 s2 : Ev → Bool} (a : Bool) (es : List Ev) (h : ∀ e ∈ es, s1 e = s2 e) :
    sepBy s1 a es = sepBy s2 a es := by
  induction es generalizing a with
  | nil => rfl
  | cons x xs ih =>
    simp only [sepBy]
    rw [h x (List.mem_cons_self ..), ih _ (fun e he => h e (List.mem_cons_of_mem _ he))]

/-- Excluding exactly the two findings: in a history in which negotiationNeededOp never withdrew a signalled
    need and no rollback succeeded, two handler invocations are always separated by a completed exchange. -/
theorem C04_once_per_exchange_partial {pc : PC} (h : Reach pc) (hw : Ev.withdrawn ∉ pc.events)
    (hr : Ev.rolledBack ∉ pc.events) : sepBy sepStable false pc.events = true := by
  rw [sepBy_congr (s2 := sepAny) false pc.events]
  · exact (flag_and_log h).2
  · intro e he
    cases e with
    | fire => rfl
    | stable => rfl
    | rolledBack => exact absurd he hr
    | withdrawn => exact absurd he hw

/-- second witness against the literal third sentence: AddTrack (fire); CreateOffer; SetLocalDescription(offer);
    SetLocalDescription(rollback) clears [[NegotiationNeeded]] on reaching stable and the check fires again — no
    exchange completed in between (what W3C 4.4.1.5/4.7.3 prescribe for any description that ends in stable). -/
def cexRollbackActs : List Act :=
  [.call (.addTrack .video 0), .work none, .call .createOffer,
   .call (.setLocal { offer := true, secs := [{ mid := 0, app := false, kind := .video, dir := .sendrecv, msid := some 0 }] } false),
   .call (.rollback true), .work none]

theorem C04_rollback_refire_events :
    ((PC.run {} cexRollbackActs).map (·.events)) = some [.fire, .rolledBack, .fire] := by decide

/-! ### clause 2: a change that requires renegotiation fires once stable -/

/-- In every drained state (no API call in progress, queue empty, worker idle, flag consumed) of an open
    connection in stable state that is not pristine (a transceiver, a data channel or a local description
    exists): if checkNegotiationNeeded says negotiation is needed, [[NegotiationNeeded]] is set and the most
    recent event is a handler invocation — it has fired since the last completed exchange.  (Hypothesis
    `dcOpenFailed = false`: no CreateDataChannel call returned an error from `dataChannel.open` after the
    channel had been appended; that path returns before onNegotiationNeeded.) -/
theorem C04_needed_implies_fired {pc : PC} (h : Reach pc) (hq : pc.quiescent = true)
    (hdc : pc.dcOpenFailed = false) (hs : pc.sig = .stable) (hc : pc.closed = false)
    (hp : pc.pristine = false) (hn : check pc = true) :
    pc.isNN = true ∧ pc.events.getLast? = some .fire := by
  have hK := K_reach h
  simp only [PC.quiescent, Bool.and_eq_true, Bool.not_eq_true', List.isEmpty_iff] at hq
  have hnn : pc.isNN = true := by
    rcases hK with hK | hK | hK | hK
    · rw [hp] at hK; cases hK
    · exact hK hs hc hn
    · rcases hK with hK | hK
      · rw [hq.2] at hK; cases hK
      · rw [hq.1.1.2] at hK; cases hK
    · rw [hdc] at hK; cases hK
  exact ⟨hnn, (C04_flag_iff_last_event_fire h).mp hnn⟩

/-- The tail of SetLocal/SetRemoteDescription(answer) does not change what checkNegotiationNeeded returns:
    a negotiationNeededOp that ran before the tail saw the value it would have seen after it. -/
theorem C04_tail_keeps_check (pc : PC) (t : Tail) : check (runTail pc t).1 = check pc := by
  cases t with
  | localAnswer ans remote =>
    simp only [runTail]
    split
    · exact check_congr rfl rfl rfl (setCurDirs_view _ _ _ _)
    · rename_i trs hs
      exact check_congr rfl rfl rfl ((startSenders_view hs).trans (setCurDirs_view _ _ _ _))
  | remoteAnswer ans isReneg =>
    simp only [runTail]
    split
    · exact check_congr rfl rfl rfl (setCurDirs_view _ _ _ _)
    · rename_i trs hs
      split <;> exact check_congr rfl rfl rfl ((startSenders_view hs).trans (setCurDirs_view _ _ _ _))

/-! ### the pair the harness runs -/

private theorem world_sides_reach {w : World} (h : WReach w) : Reach w.a ∧ Reach w.b := by
  induction h with
  | init => exact ⟨.init, .init⟩
  | @step w0 w1 a _ hs ih =>
    unfold World.step at hs
    split at hs
    · simp at hs
    · rename_i s act _
      cases hst : (w0.get s).step act with
      | none => simp [hst] at hs
      | some pc' =>
        simp only [hst, Option.map_some, Option.some.injEq] at hs
        subst hs
        cases s with
        | a => exact ⟨.step act ih.1 hst, ih.2⟩
        | b => exact ⟨ih.1, .step act ih.2 hst⟩

/-- All of the above for both ends of every history the harness can play (remote descriptions are the peer's
    last offer / answer; blocked operations finish when the peer got far enough). -/
theorem C04_pair {w : World} (h : WReach w) (s : Side) :
    (∀ f ∈ (w.get s).fired, f.sig = .stable ∧ f.closed = false ∧ f.needed = true)
    ∧ sepBy sepAny false (w.get s).events = true
    ∧ (Ev.withdrawn ∉ (w.get s).events → Ev.rolledBack ∉ (w.get s).events →
        sepBy sepStable false (w.get s).events = true)
    ∧ ((w.get s).quiescent = true → (w.get s).dcOpenFailed = false → (w.get s).sig = .stable →
        (w.get s).closed = false → (w.get s).pristine = false → check (w.get s) = true →
        (w.get s).isNN = true ∧ (w.get s).events.getLast? = some .fire) := by
  have hr : Reach (w.get s) := by
    cases s with
    | a => exact (world_sides_reach h).1
    | b => exact (world_sides_reach h).2
  exact ⟨C04_fire_only_stable_open hr, C04_second_fire_needs_exchange_or_withdrawal hr,
    C04_once_per_exchange_partial hr, C04_needed_implies_fired hr⟩

private theorem drain_reach (n : Nat) {w : World} (h : WReach w) : WReach (w.drain n) := by
  induction n generalizing w with
  | zero => exact h
  | succ n ih =>
    unfold World.drain
    split
    · rename_i w' hs; exact ih (.step _ h hs)
    · split
      · rename_i w' hs; exact ih (.step _ h hs)
      · exact h

/-- Waiting for both queues (what the harness and the driver do after every call) stays inside the
    transition system. -/
theorem C04_drain_reach (n : Nat) {w : World} (h : WReach w) : WReach (w.drain n) := drain_reach n h

/-! ### non-vacuity -/

-- a reachable, drained, stable, open, non-pristine state in which negotiation is needed (and was signalled)
example : ∃ pc, PC.run {} [.call (.addTrack .video 0), .work none] = some pc ∧ pc.quiescent = true ∧
    pc.dcOpenFailed = false ∧ pc.sig = .stable ∧ pc.closed = false ∧ pc.pristine = false ∧ check pc = true ∧
    pc.fired.length = 1 := by
  refine ⟨_, rfl, ?_⟩
  decide

-- a history with two handler invocations separated by a completed exchange and no withdrawal
example : ((PC.run {} (cexActs.take 13)).map (·.events)) = some [.fire, .stable, .fire] := by decide

-- a drained have-local-pranswer state with a pending need: nothing fires before the final answer
def pranswerOffer : Desc := { offer := true, secs := [{ mid := 0, app := false, kind := .video, dir := .sendrecv, msid := none }] }
example : ∃ pc, PC.run {} [.call (.setRemote pranswerOffer false), .call .createAnswer,
      .call (.setLocal { offer := false, secs := [{ mid := 0, app := false, kind := .video, dir := .recvonly, msid := none }] } true),
      .call (.addTransceiver .video .recvonly), .work none, .work none, .work (some true), .work none, .work none] = some pc ∧
    pc.sig = .haveLocalPranswer ∧ pc.queue = [] ∧ pc.running = none ∧ check pc = true ∧ pc.fired = [] := by
  refine ⟨_, rfl, ?_⟩
  decide

-- a need raised while not stable fires once stable is reached by a rollback: remote offer, AddTransceiverFromKind
-- (negotiationNeededOp stops at its stable test), SetRemoteDescription(rollback), queue drained
example : ∃ pc, PC.run {} [.call (.setRemote pranswerOffer false), .work none, .work none,
      .call (.addTransceiver .audio .recvonly), .call (.rollback false), .work (some true), .work none, .work none, .work none] = some pc ∧
    pc.quiescent = true ∧ pc.sig = .stable ∧ pc.events = [.rolledBack, .fire] ∧ pc.fired.length = 1 := by
  refine ⟨_, rfl, ?_⟩
  decide

-- the pristine state needs the exemption: checkNegotiationNeeded is true there (no local description)
example : check ({} : PC) = true ∧ ({} : PC).isNN = false := by decide

end WebrtcVerif.C04
