import WebrtcVerif.Model.Ogg
import WebrtcVerif.Model.OggSpec
import WebrtcVerif.Proofs.OggSingle
import WebrtcVerif.Proofs.OggMultiW
import WebrtcVerif.Proofs.OggCfg
/-!
# C33 — Ogg/Opus writer output is valid Ogg that reads back as the written packets

"For any sequence of Opus packets and track configurations, every page the Ogg writers emit has a valid CRC.
Each logical stream starts with a beginning-of-stream OpusHead page, then OpusTags, then data pages whose
sequence numbers increase by one from 0, and its last page carries end-of-stream. Granule positions never
decrease and equal the cumulative Opus sample count, and reading the pages back (joining continued pages)
yields exactly the written Opus packets and header fields."

The model (`Model/Ogg.lean`) mirrors pkg/media/oggwriter and pkg/media/oggreader after the repair
`fix: oggwriter single-track writer without a file handle ends its stream with an EOS page`.
Reading back is specified independently in `Model/OggSpec.lean` (bitwise CRC-32, packets cut at lacing values
below 255, RFC 6716 durations).
-/
namespace WebrtcVerif.C33
open WebrtcVerif.Bytes WebrtcVerif.Ogg WebrtcVerif.OggSpec

/-- One logical stream, read back from the pages with its serial number, is what the property asks for. -/
structure StreamOk (pages : List Page) (head tags : Bs) (written : List Bs) : Prop where
  /-- the first page, and no other, carries beginning-of-stream -/
  bos : bosOk pages = true
  /-- the last page, and no other, carries end-of-stream -/
  eos : eosOk pages = true
  /-- page sequence numbers are 0, 1, 2, … -/
  seq : seqFrom 0 pages = true
  /-- continuation flags agree with the lacing -/
  cont : contFrom false pages = true
  /-- joining continued pages yields OpusHead, OpusTags and then exactly the written packets -/
  packets : packetsOf pages = head :: tags :: written
  /-- a page on which a packet ends carries the cumulative sample count, others −1 (or the count so far) -/
  granules : granulesFrom (fun k => cumSamples written (k - 2)) 0 pages = true
  /-- granule positions never decrease -/
  monotone : granuleMonotoneFrom 0 pages = true

/-- The reader's checksum routine (header with a zeroed CRC field, then segment table, then payload) applied to
    any page built by `createPageForSerialWithSegments` equals the CRC stored in it, and `ParseNextPage` returns
    the payload and header fields that were written. -/
theorem C33_crc_valid (doChecksum : Bool) (payload : Bs) (segs : List UInt8) (ht : UInt8) (g s i : Nat) (rest : Bs)
    (hseg : segs.length ≤ 255) (hpay : payload.length = sumSegs segs) :
    parseNextPage doChecksum (createPage payload segs ht g s i ++ rest) =
      .ok payload { granulePosition := g % two64, sig := oggS, version := 0, headerType := ht,
                    serial := s % two32, index := i % two32, segmentsCount := b segs.length } rest :=
  parseNextPage_createPage doChecksum payload segs ht g s i rest hseg hpay

example : ([] : List UInt8).length ≤ 255 ∧ ([] : Bs).length = sumSegs [] := by decide

/-- The table-driven checksum of writer and reader is the bitwise CRC-32 of RFC 3533 (polynomial 0x04c11db7). -/
theorem C33_crc_is_rfc3533 (bs : Bs) : crc bs = crc32 bs := crc_eq_crc32 bs

/-- The writer's duration is RFC 6716's, and a packet with a valid duration is never refused by an open writer. -/
theorem C33_valid_packet_written (w : OggWriter) (p : Bs) (n : Nat) (hopen : w.streamOpen = true)
    (hp : packetSamples p = some n) : (w.writeRTP (some p)).2 = .written := by
  have hs := sampleCount_spec p
  rw [hp] at hs
  cases p with
  | nil => simp [packetSamples] at hp
  | cons x xs => simp [OggWriter.writeRTP, hopen, writeOpusPayload, hs]

example : packetSamples [0xfc, 0x01] = some 960 := by decide

/-- Single-track writer (`New`: rewritable file, `NewWith`: plain stream), any history of WriteRTP / Close calls
    followed by Close: the file parses (every CRC valid), all pages carry the writer's serial, and the stream is
    OpusHead, OpusTags, exactly the packets whose WriteRTP returned nil with a non-empty payload, EOS on the last
    page.  `hsize` excludes wrap-around of the 32-bit page counter and of the 64-bit granule position. -/
theorem C33_single_track (fd : Bool) (rate ch serial : Nat) (hs : serial < two32) (w : OggWriter)
    (hnew : OggWriter.new fd rate ch serial = .ok w) (ops : List SOp)
    (hsize : (w.session ops).1.close.out.length < 27 * two32) :
    ∃ m pages, defaultChannelMapping ch = .ok m ∧
      (w.session ops).1.close.out = flat pages ∧ (∀ p ∈ pages, p.wf) ∧
      parsePages (w.session ops).1.close.out = some pages ∧
      (∀ p ∈ pages, p.serial = serial) ∧
      StreamOk pages (buildIDHeader rate defaultPreSkip m) (buildCommentHeader defaultTags) (w.session ops).2 ∧
      ∀ p ∈ (w.session ops).2, (packetSamples p).isSome := by
  obtain ⟨m, S, hm, hval, hout, hlen, hfin⟩ := OggWriter.final fd rate ch serial w hnew ops
  have h27 := flat_length_ge27 S
  rw [hout] at hsize
  have hB : (bodyPages serial (buildIDHeader rate defaultPreSkip m) (buildCommentHeader defaultTags)
      ((w.session ops).2.map pktOf)).length < two32 := by omega
  have hS := hfin hB
  have hno : samplesSum ((w.session ops).2.map pktOf) < two64 - 1 := by
    have h1 := samplesSum_pktOf_le (w.session ops).2
    have h2 := bodyPages_length_ge serial (buildIDHeader rate defaultPreSkip m) (buildCommentHeader defaultTags)
      ((w.session ops).2.map pktOf)
    simp only [List.length_map] at h2
    simp only [two32, two64] at hB ⊢
    omega
  obtain ⟨f1, f2, f3, f4, f5, f6, f7, f8⟩ := finalStream_ok fd serial (buildIDHeader rate defaultPreSkip m)
    (buildCommentHeader defaultTags) ((w.session ops).2.map pktOf) hs hB hno
  rw [← hS] at f1 f2 f3 f4 f5 f6 f7 f8
  refine ⟨m, S, hm, hout, fun p hp => (f8 p hp).1, ?_, fun p hp => (f8 p hp).2, ⟨f1, f2, f3, f4, ?_, ?_, f7⟩, hval⟩
  · rw [hout]; exact parsePages_flat S (fun p hp => (f8 p hp).1)
  · simpa [pktOf, Function.comp_def] using f5
  · have : (fun k => cumSamples (w.session ops).2 (k - 2)) = cumOf ((w.session ops).2.map pktOf) := by
      funext k; rw [cumOf_pktOf]
    rw [this]; exact f6


-- non-vacuity: a writer exists, and a history with an accepted packet, a nil packet and an invalid one meets `hsize`
def exampleSingle : OggWriter :=
  match OggWriter.new false 48000 2 7 with
  | .ok w => w
  | .error _ => ⟨[], false, false, newTrackState 0 ⟨0, 0, 0, 0, []⟩ 0 defaultTags⟩
example : OggWriter.new false 48000 2 7 = .ok exampleSingle := by rfl
set_option maxRecDepth 100000 in
example : (exampleSingle.session [.write (some [0xfc, 1, 2]), .write none, .write (some [3])]).1.close.out.length
    < 27 * two32 := by decide

/-- the payloads accepted on track `i` in a history of the multi-track writer -/
def writtenOn (written : List (Nat × Bs)) (i : Nat) : List Bs := (written.filter (fun x => x.1 == i)).map (·.2)

/-- Multi-track writer (`NewWriter`, any options; rewritable output through `WithSeekableOutput` or not), any
    history of NewTrack / WriteRTP (any track, any packet, right or wrong SSRC) / Close calls followed by Close:
    the file parses (every CRC valid), and for every track the pages with its serial form the stream
    OpusHead, OpusTags, exactly the packets accepted on that track, EOS on the last page. -/
theorem C33_multi_track (sk : Bool) (opts : List Opt) (w : Writer) (hnew : Writer.new sk opts = .ok w)
    (ops : List MOp) (hsize : (w.session ops).1.close.out.length < 27 * two32) :
    ∃ pages, (w.session ops).1.close.out = flat pages ∧ (∀ p ∈ pages, p.wf) ∧
      parsePages (w.session ops).1.close.out = some pages ∧
      (∀ (i : Nat) (m : MTrack), (w.session ops).1.close.tracks[i]? = some m →
        StreamOk (streamOf m.t.serial pages) (buildIDHeader m.t.sampleRate m.t.preSkip m.t.mapping)
          (buildCommentHeader m.t.tags) (writtenOn (w.session ops).2 i)) ∧
      ∀ x ∈ (w.session ops).2, (packetSamples x.2).isSome := by
  obtain ⟨hst, hval⟩ := MState.session (sk := sk) ops w [] (Or.inl ⟨Writer.new_W0 sk opts w hnew, rfl⟩)
  simp only [List.nil_append] at hst
  have hcl := hst.close
  -- after Close the writer is closed
  have h2 : W2 sk (w.session ops).1.close (w.session ops).2 := by
    rcases hcl with ⟨h0, _⟩ | h1 | h2
    · rcases hst with ⟨a, _⟩ | a | a
      · have := close_closed _ a.isOpen; rw [h0.isOpen] at this; cases this
      · have := close_closed _ a.isOpen; rw [h0.isOpen] at this; cases this
      · rw [a.inert.1]; exact a
    · rcases hst with ⟨a, _⟩ | a | a
      · have := close_closed _ a.isOpen; rw [h1.isOpen] at this; cases this
      · have := close_closed _ a.isOpen; rw [h1.isOpen] at this; cases this
      · rw [a.inert.1]; exact a
    · exact h2
  obtain ⟨log, hout, hwf, htr⟩ := h2.fin
  refine ⟨log, hout, hwf, by rw [hout]; exact parsePages_flat log hwf, ?_, hval⟩
  intro i m hm
  obtain ⟨hs, hlen, hfin⟩ := htr i m hm
  have h27 := flat_length_ge27 log
  rw [hout] at hsize
  have hfl : (streamOf m.t.serial log).length ≤ log.length := List.length_filter_le _ _
  have hB : (bodyPages m.t.serial (hdrOf m.t) (tagsOf m.t) (accFor (w.session ops).2 i)).length < two32 := by omega
  have hS := hfin hB
  have hacc : accFor (w.session ops).2 i = (writtenOn (w.session ops).2 i).map pktOf := by
    simp [accFor, writtenOn, List.map_map, Function.comp_def]
  rw [hacc] at hS hB
  have hno : samplesSum ((writtenOn (w.session ops).2 i).map pktOf) < two64 - 1 := by
    have h1 := samplesSum_pktOf_le (writtenOn (w.session ops).2 i)
    have h2 := bodyPages_length_ge m.t.serial (hdrOf m.t) (tagsOf m.t) ((writtenOn (w.session ops).2 i).map pktOf)
    simp only [List.length_map] at h2
    simp only [two32, two64] at hB ⊢
    omega
  obtain ⟨f1, f2, f3, f4, f5, f6, f7, _⟩ := finalStream_ok sk m.t.serial (hdrOf m.t) (tagsOf m.t)
    ((writtenOn (w.session ops).2 i).map pktOf) hs hB hno
  rw [← hS] at f1 f2 f3 f4 f5 f6 f7
  refine ⟨f1, f2, f3, f4, ?_, ?_, f7⟩
  · simpa [pktOf, Function.comp_def, hdrOf, tagsOf] using f5
  · have : (fun k => cumSamples (writtenOn (w.session ops).2 i) (k - 2)) =
        cumOf ((writtenOn (w.session ops).2 i).map pktOf) := by
      funext k; rw [cumOf_pktOf]
    rw [this]; exact f6


-- non-vacuity: a seekable two-track history
def exampleMulti : Writer :=
  match Writer.new true [.vendor [112], .channelCount 1] with
  | .ok w => w
  | .error _ => ⟨[], false, false, 0, ⟨0, 0, 0, 0, []⟩, defaultTags, [], false⟩
example : Writer.new true [.vendor [112], .channelCount 1] = .ok exampleMulti := by rfl
set_option maxRecDepth 100000 in
example : (exampleMulti.session [.newTrack 1 [.serial 5], .newTrack 2 [.serial 6, .channelMapping 255 1 0 [0, 255]],
    .write 1 (some [0xfc, 1, 2]) true, .write 0 (some [0]) true, .write 0 (some [1]) false, .close]).1.close.out.length
    < 27 * two32 := by decide

/-- The real reader's view: `ParseNextPage` (with or without checksum verification) called until `io.EOF` on any
    sequence of well-formed pages — which the outputs above are — returns exactly each page's payload and header
    fields, every checksum test passing. -/
theorem C33_reader_reads_pages (doChecksum : Bool) (pages : List Page) (hwf : ∀ p ∈ pages, p.wf) :
    readAllPages doChecksum (pages.length + 1) (flat pages) = some (pages.map (fun p => (p.payload, p.header))) :=
  readAllPages_flat doChecksum pages hwf

/-- Header fields, single-track writer: `ParseOpusHead` / `ParseOpusTags` of the two header packets return the
    configured channel count, pre-skip 3840, sample rate, mapping family 0 and the default tags. -/
theorem C33_header_fields_single (rate ch : Nat) (hr : rate < two32) (m : ChannelMapping)
    (hm : defaultChannelMapping ch = .ok m) :
    parseOpusHead (buildIDHeader rate defaultPreSkip m) =
      .ok { channelMap := 0, channels := m.channelCount, outputGain := 0, preSkip := defaultPreSkip,
            sampleRate := rate, version := 1 } ∧
    parseOpusTags (buildCommentHeader defaultTags) = .ok defaultTags := by
  have hf : m.family = 0 := by
    unfold defaultChannelMapping at hm
    split at hm
    · cases hm; rfl
    · split at hm
      · cases hm; rfl
      · cases hm
  exact ⟨head_family0 rate defaultPreSkip m hf hr (by decide), tags_roundtrip defaultTags validDefaultTags⟩

/-- Header fields, multi-track writer: for every track of any history, the two header packets read back through
    `ParseOpusHead` / `ParseOpusTags` as the track's configuration (writer defaults overridden by track options:
    channel count or explicit mapping with stream/coupled counts, sample rate, vendor, user comments). -/
theorem C33_header_fields_multi (sk : Bool) (opts : List Opt) (w : Writer) (hnew : Writer.new sk opts = .ok w)
    (ops : List MOp) (i : Nat) (m : MTrack) (hm : (w.session ops).1.close.tracks[i]? = some m) :
    parseOpusHead (buildIDHeader m.t.sampleRate m.t.preSkip m.t.mapping) = .ok (expectedHead m.t) ∧
    parseOpusTags (buildCommentHeader m.t.tags) = .ok m.t.tags := by
  have hok := ((Writer.new_ok sk opts w hnew).session ops).close.track i m hm
  exact ⟨head_roundtrip m.t hok, tags_roundtrip' m.t hok⟩

end WebrtcVerif.C33
