import WebrtcVerif.Model.StaticRtp
import WebrtcVerif.Proofs.StaticRtpLemmas
/-!
# C29 — Static RTP tracks fan out to each binding and leave the caller's packet intact

"A packet written to a TrackLocalStaticRTP reaches every currently bound sender exactly once, rewritten
with that sender's SSRC and negotiated payload type, with its payload and other header fields unchanged.
The caller's packet is never modified, and after a binding is removed no further packets reach it."

Reading of "other header fields unchanged" for the padding length: pion/rtp keeps it in two places
(`Header.PaddingSize` and the deprecated `Packet.PaddingSize`) and defines the packet's padding length as
the header field when non-zero, else the packet field (`Packet.effPadding`).  A writer only receives the
header, so the delivered `Header.PaddingSize` must be that effective value.
-/
namespace WebrtcVerif.C29
open WebrtcVerif.StaticRtp

/-! ## one write, any track state -/

/-- Full characterisation of a write: the deliveries are, binding by binding, exactly `expected p b`
    — nothing else is delivered, nothing is delivered twice, nothing is left out. -/
theorem C29_deliveries_exact (t : Track) (p : Packet) :
    (writeRTP t p).deliveries = t.bindings.map (expected p) := by
  unfold writeRTP
  exact (writeLoop_pooled t.bindings _ p rfl).1

/-- Every currently bound sender is reached exactly once: the writers reached, with multiplicity, are
    the writers of the current bindings. -/
theorem C29_fanout_exactly_once (t : Track) (p : Packet) (w : Nat) :
    ((writeRTP t p).deliveries.map (·.writer)).count w = (t.bindings.map (·.writer)).count w := by
  rw [C29_deliveries_exact]
  simp [List.map_map, Function.comp_def, expected]

/-- …and when distinct bindings have distinct writers (every `Bind` got its own `TrackLocalWriter`),
    a bound writer receives exactly one packet and any other writer none. -/
theorem C29_fanout_count (t : Track) (p : Packet) (w : Nat)
    (hnd : (t.bindings.map (·.writer)).Nodup) :
    ((writeRTP t p).deliveries.map (·.writer)).count w
      = if w ∈ t.bindings.map (·.writer) then 1 else 0 := by
  rw [C29_fanout_exactly_once]
  exact hnd.count

/-- Each delivery is the caller's packet rewritten with that binding's SSRC and negotiated payload
    type; the payload and every other header field are the caller's. -/
theorem C29_rewritten (t : Track) (p : Packet) (d : Delivery) (hd : d ∈ (writeRTP t p).deliveries) :
    ∃ b ∈ t.bindings, d.writer = b.writer ∧ d.hdr.ssrc = b.ssrc ∧ d.hdr.pt = b.pt ∧
      d.payload = p.payload ∧
      d.hdr.version = p.hdr.version ∧ d.hdr.padding = p.hdr.padding ∧ d.hdr.ext = p.hdr.ext ∧
      d.hdr.marker = p.hdr.marker ∧ d.hdr.seq = p.hdr.seq ∧ d.hdr.ts = p.hdr.ts ∧
      d.hdr.csrc = p.hdr.csrc ∧ d.hdr.extProfile = p.hdr.extProfile ∧ d.hdr.exts = p.hdr.exts ∧
      d.hdr.paddingSize = p.effPadding := by
  rw [C29_deliveries_exact, List.mem_map] at hd
  obtain ⟨b, hb, rfl⟩ := hd
  exact ⟨b, hb, rfl, rfl, rfl, rfl, rfl, rfl, rfl, rfl, rfl, rfl, rfl, rfl, rfl, rfl⟩

/-- The caller's packet is never modified (every field, including both padding fields). -/
theorem C29_caller_unchanged (t : Track) (p : Packet) : (writeRTP t p).callerAfter = p := by
  unfold writeRTP
  exact (writeLoop_pooled t.bindings _ p rfl).2

/-- A write changes neither the bindings nor what the pool holds between calls. -/
theorem C29_write_keeps_bindings (t : Track) (p : Packet) :
    (writeRTP t p).track.bindings = t.bindings ∧ (writeRTP t p).track.pool = Packet.zero := by
  simp [writeRTP]

/-- Nothing of an earlier write leaks into a later one: the deliveries do not depend on what the pool
    held. -/
theorem C29_pool_irrelevant (t : Track) (q p : Packet) :
    (writeRTP { t with pool := q } p).deliveries = (writeRTP t p).deliveries := by
  rw [C29_deliveries_exact, C29_deliveries_exact]

/-! ## bind / unbind -/

/-- A successful `Bind` adds exactly one binding, at the end: the context's SSRC and writer, and the
    payload type of the codec it returns, which is one of the context's own codecs.  A refused `Bind`
    changes nothing. -/
theorem C29_bind (t : Track) (ctx : Ctx) :
    (∃ c, (StaticRtp.bind t ctx).2 = some c ∧ c ∈ ctx.codecs ∧
        ∃ b, (StaticRtp.bind t ctx).1.bindings = t.bindings ++ [b] ∧ b.id = ctx.id ∧ b.ssrc = ctx.ssrc ∧
          b.pt = c.pt ∧ b.writer = ctx.writer)
    ∨ ((StaticRtp.bind t ctx).2 = none ∧ (StaticRtp.bind t ctx).1 = t) := by
  unfold StaticRtp.bind
  cases hf : fuzzySearch { t.codec with pt := 0 } ctx.codecs with
  | none => exact Or.inr ⟨rfl, rfl⟩
  | some c =>
    refine Or.inl ⟨c, rfl, ?_, bindingOf ctx c, rfl, rfl, rfl, rfl, rfl⟩
    unfold fuzzySearch at hf
    split at hf
    · rename_i c' h1; cases hf; exact List.mem_of_find?_eq_some h1
    · exact List.mem_of_find?_eq_some hf

/-- `Unbind` succeeds exactly when some current binding has that id, … -/
theorem C29_unbind_ok_iff (t : Track) (id : Str) :
    (unbind t id).2 = true ↔ ∃ b ∈ t.bindings, b.id = id := by
  unfold unbind
  cases hf : t.bindings.findIdx? (fun b => b.id == id) with
  | none =>
    have := findIdx?_none_spec _ _ hf
    simp only [Bool.false_eq_true, false_iff, not_exists, not_and]
    intro b hb e
    simpa [e] using this b hb
  | some i =>
    obtain ⟨hi, hp⟩ := findIdx?_some_spec _ _ _ hf
    simp only [true_iff]
    exact ⟨t.bindings[i], List.getElem_mem hi, by simpa using hp⟩

/-- … then removes one binding with that id and keeps every other binding exactly once (the
    swap-with-last delete permutes the survivors, it neither loses nor duplicates one); a failed
    `Unbind` changes nothing. -/
theorem C29_unbind (t : Track) (id : Str) :
    ((unbind t id).2 = true ∧ ∃ i, ∃ hi : i < t.bindings.length, t.bindings[i].id = id ∧
        (unbind t id).1.bindings.Perm (t.bindings.eraseIdx i))
    ∨ ((unbind t id).2 = false ∧ (unbind t id).1 = t) := by
  unfold unbind
  cases hf : t.bindings.findIdx? (fun b => b.id == id) with
  | none => exact Or.inr ⟨rfl, rfl⟩
  | some i =>
    obtain ⟨hi, hp⟩ := findIdx?_some_spec _ _ _ hf
    exact Or.inl ⟨rfl, i, hi, by simpa using hp, swapDelete_perm _ _ hi⟩

/-! ## histories -/

/-- Specification of "currently bound", written without reference to the slice manipulation: binding
    adds, unbinding an id removes *some* binding carrying that id (which one is the implementation's
    choice when ids repeat), writing changes nothing. -/
inductive SpecStep : List Binding → Op → List Binding → Prop
  | bindOk (l : List Binding) (c : Ctx) (b : Binding) (hw : b.writer = c.writer) (hs : b.ssrc = c.ssrc)
      (hi : b.id = c.id) : SpecStep l (.bind c) (l ++ [b])
  | bindRefused (l : List Binding) (c : Ctx) : SpecStep l (.bind c) l
  | unbindOne (l : List Binding) (id : Str) (i : Nat) (hi : i < l.length) (hid : l[i].id = id) :
      SpecStep l (.unbind id) (l.eraseIdx i)
  | unbindAbsent (l : List Binding) (id : Str) (h : ∀ b ∈ l, b.id ≠ id) : SpecStep l (.unbind id) l
  | write (l : List Binding) (p : Packet) : SpecStep l (.write p) l

inductive SpecRun : List Binding → List Op → List Binding → Prop
  | nil (l : List Binding) : SpecRun l [] l
  | cons (l l1 l2 : List Binding) (o : Op) (os : List Op) (h1 : SpecStep l o l1) (h2 : SpecRun l1 os l2) :
      SpecRun l (o :: os) l2

theorem step_refines (t : Track) (o : Op) (l : List Binding) (hp : t.bindings.Perm l) :
    ∃ l', SpecStep l o l' ∧ (step t o).1.bindings.Perm l' := by
  cases o with
  | bind c =>
    rcases C29_bind t c with ⟨cd, _, _, b, hb, hid, hss, _, hw⟩ | ⟨_, he⟩
    · exact ⟨l ++ [b], .bindOk l c b hw hss hid, by
        simp only [step]; rw [hb]; exact List.Perm.append hp (List.Perm.refl _)⟩
    · exact ⟨l, .bindRefused l c, by simp only [step]; rw [he]; exact hp⟩
  | unbind id =>
    rcases C29_unbind t id with ⟨_, i, hi, hid, hperm⟩ | ⟨hf, he⟩
    · -- the spec removes the same binding, wherever the permutation put it
      have hmem : t.bindings[i] ∈ l := hp.subset (List.getElem_mem hi)
      obtain ⟨j, hj, hje⟩ := List.getElem_of_mem hmem
      refine ⟨l.eraseIdx j, .unbindOne l id j hj (by rw [hje]; exact hid), ?_⟩
      simp only [step]
      refine hperm.trans ?_
      have e1 : (t.bindings.eraseIdx i).Perm (t.bindings.erase t.bindings[i]) := by
        have := List.perm_cons_erase (List.getElem_mem hi)
        have h2 : t.bindings.Perm (t.bindings[i] :: t.bindings.eraseIdx i) := by
          have := set_perm_cons_eraseIdx t.bindings i t.bindings[i] hi
          simpa using this
        exact (List.Perm.cons_inv (h2.symm.trans this))
      have e2 : (l.eraseIdx j).Perm (l.erase l[j]) := by
        have := List.perm_cons_erase (List.getElem_mem hj)
        have h2 : l.Perm (l[j] :: l.eraseIdx j) := by
          have := set_perm_cons_eraseIdx l j l[j] hj
          simpa using this
        exact (List.Perm.cons_inv (h2.symm.trans this))
      rw [hje] at e2
      exact e1.trans ((List.Perm.erase _ hp).trans e2.symm)
    · have : ∀ b ∈ l, b.id ≠ id := by
        intro b hb e
        have hb' : b ∈ t.bindings := hp.symm.subset hb
        have := (C29_unbind_ok_iff t id).mpr ⟨b, hb', e⟩
        rw [hf] at this; exact absurd this (by decide)
      exact ⟨l, .unbindAbsent l id this, by simp only [step]; rw [he]; exact hp⟩
  | write p =>
    exact ⟨l, .write l p, by simp only [step]; rw [(C29_write_keeps_bindings t p).1]; exact hp⟩

/-- For every bind / unbind / write history the track's bindings are, up to order, a "currently bound"
    list the specification allows. -/
theorem C29_bindings_follow_spec (t : Track) (ops : List Op) :
    ∃ l, SpecRun t.bindings ops l ∧ (run t ops).1.bindings.Perm l := by
  suffices h : ∀ (t : Track) (l0 : List Binding), t.bindings.Perm l0 →
      ∃ l, SpecRun l0 ops l ∧ (run t ops).1.bindings.Perm l from h t _ (List.Perm.refl _)
  induction ops with
  | nil => intro t l0 hp; exact ⟨l0, .nil l0, hp⟩
  | cons o os ih =>
    intro t l0 hp
    obtain ⟨l1, hs, hp1⟩ := step_refines t o l0 hp
    obtain ⟨l2, hr, hp2⟩ := ih (step t o).1 l1 hp1
    exact ⟨l2, .cons l0 l1 l2 o os hs hr, by simpa [run] using hp2⟩

theorem run_append (t : Track) (a b : List Op) :
    run t (a ++ b) = ((run (run t a).1 b).1, (run t a).2 ++ (run (run t a).1 b).2) := by
  induction a generalizing t with
  | nil => simp [run]
  | cons o os ih => simp [run, ih]

/-- Every write inside any history fans out to the bindings current at that moment (and to nothing
    else), and leaves the caller's packet as it was. -/
theorem C29_history_fanout (t : Track) (before after : List Op) (p : Packet) :
    (run t (before ++ .write p :: after)).2[(run t before).2.length]? =
      some (.wrote ((run t before).1.bindings.map (expected p)) p) := by
  rw [run_append]
  simp only [run, step]
  rw [List.getElem?_append_right (Nat.le_refl _)]
  simp [C29_deliveries_exact, C29_caller_unchanged]

/-! ### after a binding is removed no further packets reach it -/

def writersOf (t : Track) : List Nat := t.bindings.map (·.writer)

/-- ops that never hand writer `w` to `Bind` again -/
def NeverRebinds (w : Nat) (ops : List Op) : Prop := ∀ c, Op.bind c ∈ ops → c.writer ≠ w

theorem step_writers (t : Track) (o : Op) (w : Nat) (hw : w ∉ writersOf t)
    (ho : ∀ c, o = .bind c → c.writer ≠ w) :
    w ∉ writersOf (step t o).1 ∧ ∀ d ∈ deliveriesOf [(step t o).2], d.writer ≠ w := by
  cases o with
  | bind c =>
    refine ⟨?_, by simp [step, deliveriesOf]⟩
    rcases C29_bind t c with ⟨_, _, _, b, hb, _, _, _, hbw⟩ | ⟨_, he⟩
    · simp only [step, writersOf]; rw [hb]
      simp only [List.map_append, List.map_cons, List.map_nil, List.mem_append, List.mem_singleton, not_or]
      exact ⟨hw, fun e => ho c rfl (by rw [← hbw, e])⟩
    · simp only [step]; rw [he]; exact hw
  | unbind id =>
    refine ⟨?_, by simp [step, deliveriesOf]⟩
    rcases C29_unbind t id with ⟨_, i, hi, _, hperm⟩ | ⟨_, he⟩
    · simp only [step, writersOf]
      intro hmem
      obtain ⟨b, hb, hbw⟩ := List.mem_map.mp hmem
      have : b ∈ t.bindings := (List.eraseIdx_sublist _ _).subset (hperm.subset hb)
      exact hw (List.mem_map.mpr ⟨b, this, hbw⟩)
    · simp only [step]; rw [he]; exact hw
  | write p =>
    refine ⟨by simp only [step, writersOf]; rw [(C29_write_keeps_bindings t p).1]; exact hw, ?_⟩
    intro d hd
    simp only [step, deliveriesOf, List.flatMap_cons, List.flatMap_nil, List.append_nil] at hd
    obtain ⟨b, hb, hbw, _⟩ := C29_rewritten t p d hd
    intro e
    exact hw (List.mem_map.mpr ⟨b, hb, by rw [← hbw, e]⟩)

theorem run_writers (t : Track) (ops : List Op) (w : Nat) (hw : w ∉ writersOf t)
    (ho : NeverRebinds w ops) : ∀ d ∈ deliveriesOf (run t ops).2, d.writer ≠ w := by
  induction ops generalizing t with
  | nil => simp [run, deliveriesOf]
  | cons o os ih =>
    obtain ⟨h1, h2⟩ := step_writers t o w hw (fun c e => ho c (by simp [e]))
    have h3 := ih (step t o).1 h1 (fun c hc => ho c (List.mem_cons_of_mem _ hc))
    intro d hd
    simp only [run, deliveriesOf, List.flatMap_cons, List.mem_append] at hd
    rcases hd with hd | hd
    · exact h2 d (by simpa [deliveriesOf] using hd)
    · exact h3 d hd

/-- After a successful `Unbind`, the binding it removed receives nothing from any later write, in every
    continuation of the history (as long as its writer is not bound again), while every other binding
    is still there exactly once.  Distinct bindings are assumed to have distinct writers — otherwise
    "reaches it" cannot be told apart from reaching its twin. -/
theorem C29_unbind_stops (t : Track) (id : Str) (hnd : (writersOf t).Nodup)
    (hok : (unbind t id).2 = true) :
    ∃ i, ∃ hi : i < t.bindings.length, t.bindings[i].id = id ∧
      (unbind t id).1.bindings.Perm (t.bindings.eraseIdx i) ∧
      ∀ ops, NeverRebinds t.bindings[i].writer ops →
        ∀ d ∈ deliveriesOf (run (unbind t id).1 ops).2, d.writer ≠ t.bindings[i].writer := by
  rcases C29_unbind t id with ⟨_, i, hi, hid, hperm⟩ | ⟨hf, _⟩
  · refine ⟨i, hi, hid, hperm, fun ops hops => run_writers _ ops _ ?_ hops⟩
    -- the removed writer is not among the survivors, because writers were pairwise distinct
    intro hmem
    have hmem' : t.bindings[i].writer ∈ (t.bindings.eraseIdx i).map (·.writer) := by
      obtain ⟨b, hb, hbw⟩ := List.mem_map.mp hmem
      exact List.mem_map.mpr ⟨b, hperm.subset hb, hbw⟩
    have hsplit : (writersOf t).Perm (t.bindings[i].writer :: (t.bindings.eraseIdx i).map (·.writer)) := by
      have := set_perm_cons_eraseIdx t.bindings i t.bindings[i] hi
      have h2 : t.bindings.Perm (t.bindings[i] :: t.bindings.eraseIdx i) := by simpa using this
      simpa [writersOf] using h2.map (·.writer)
    have := (hsplit.nodup_iff.mp hnd)
    exact (List.nodup_cons.mp this).1 hmem'
  · rw [hf] at hok; exact absurd hok (by decide)

/-- Writers stay pairwise distinct along any history whose `Bind` calls bring fresh writers. -/
theorem C29_writers_nodup (t : Track) (o : Op) (hnd : (writersOf t).Nodup)
    (hfresh : ∀ c, o = .bind c → c.writer ∉ writersOf t) : (writersOf (step t o).1).Nodup := by
  cases o with
  | bind c =>
    rcases C29_bind t c with ⟨_, _, _, b, hb, _, _, _, hbw⟩ | ⟨_, he⟩
    · simp only [step, writersOf]; rw [hb]
      simp only [List.map_append, List.map_cons, List.map_nil]
      refine List.nodup_append.mpr ⟨hnd, by simp, ?_⟩
      intro a ha b' hb' e
      simp only [List.mem_singleton] at hb'
      subst hb'
      rw [hbw] at e
      subst e
      exact hfresh c rfl ha
    · simp only [step]; rw [he]; exact hnd
  | unbind id =>
    rcases C29_unbind t id with ⟨_, i, hi, _, hperm⟩ | ⟨_, he⟩
    · simp only [step, writersOf]
      have h1 : ((t.bindings.eraseIdx i).map (·.writer)).Nodup :=
        List.Nodup.sublist ((List.eraseIdx_sublist _ _).map _) hnd
      exact ((hperm.map (·.writer)).nodup_iff).mpr h1
    · simp only [step]; rw [he]; exact hnd
  | write p => simp only [step, writersOf]; rw [(C29_write_keeps_bindings t p).1]; exact hnd

/-! ## non-vacuity: a concrete history exercising every clause -/

def exCodec : Codec := { mime := ['v','i','d','e','o','/','V','P','8'], clockRate := 90000, channels := 0, fmtp := [] }
def exCtx (id : Char) (ssrc pt w : Nat) : Ctx :=
  { id := [id], ssrc, codecs := [{ mime := ['v','i','d','e','o','/','v','p','8'], clockRate := 90000, channels := 0, fmtp := [], pt }], writer := w }
def exPkt : Packet :=
  { hdr := { version := 2, padding := true, marker := true, pt := 5, seq := 7, ts := 9, ssrc := 11, csrc := [1, 2],
             ext := true, extProfile := 0xBEDE, exts := [{ id := 1, payload := [0xAA] }] },
    payload := [1, 2, 3], paddingSize := 4 }

-- three bindings, the first is unbound (swap-delete moves the last into its slot), then a write
example :
    (run { codec := exCodec } [.bind (exCtx 'a' 100 96 0), .bind (exCtx 'b' 200 97 1), .bind (exCtx 'c' 300 98 2),
        .unbind ['a'], .write exPkt]).2.getLast? =
      some (.wrote [expected exPkt { id := ['c'], ssrc := 300, ssrcRTX := 0, ssrcFEC := 0, pt := 98, ptRTX := 0, writer := 2 },
                    expected exPkt { id := ['b'], ssrc := 200, ssrcRTX := 0, ssrcFEC := 0, pt := 97, ptRTX := 0, writer := 1 }]
              exPkt) := by decide
-- hypotheses of C29_unbind_stops / C29_fanout_count are satisfiable
example : (writersOf (run { codec := exCodec } [.bind (exCtx 'a' 100 96 0), .bind (exCtx 'b' 200 97 1)]).1).Nodup ∧
    (unbind (run { codec := exCodec } [.bind (exCtx 'a' 100 96 0), .bind (exCtx 'b' 200 97 1)]).1 ['a']).2 = true := by
  decide
-- the padding length reaches the writer through the header
example : (expected exPkt { id := ['c'], ssrc := 300, ssrcRTX := 0, ssrcFEC := 0, pt := 98, ptRTX := 0, writer := 2 }).hdr.paddingSize = 4 := by
  decide
-- an unsupported codec is refused
example : (StaticRtp.bind { codec := exCodec } { id := ['x'], ssrc := 1, codecs := [{ mime := ['a','u','d','i','o','/','o','p','u','s'], clockRate := 48000, channels := 2, fmtp := [] }], writer := 0 }).2 = none := by
  decide

end WebrtcVerif.C29
