import WebrtcVerif.Model.Close
import WebrtcVerif.Proofs.CloseFinal
/-!
# C21 — Close is idempotent, concurrency-safe and final

"Any number of Close and GracefulClose calls from any goroutines, in any order, all return, and the state
is then final. Signaling state is closed, connection state is closed, and calls that would change
negotiation state return an InvalidStateError. The connection-state handler never reports a non-closed
state after reporting closed, and once GracefulClose returns, no goroutine started by the connection is
still running."

All theorems quantify over `Reachable gs nu c0 s`: every state reachable by ANY interleaving of the atomic
sections of `gs.length` close() callers (`gs` = their `shouldGracefullyClose` flags, any mix), `nu` transport
callbacks inside updateConnectionState (with arbitrary ICE/DTLS inputs), API calls and spontaneous transport
state changes, starting at a point of setup where the connection state is `c0`.  The model mirrors the
REPAIRED updateConnectionState (isClosed re-read under pc.mu).  The goroutine census of the last clause is
a statement about the Go runtime and the dependencies' goroutines: it is observed by the harness, it is
not a theorem.
-/
namespace WebrtcVerif.C21
open WebrtcVerif.Close
open WebrtcVerif.ConnState (Ice Dtls Pc aggregate)

/-! ## all calls return -/

/-- No deadlock: while some close() caller has not returned, a progress action is enabled: a step of some
    close() caller, or — when a GracefulClose is joining the data-channel read loops — the application's
    OnMessage handler returning / a read loop ending.  (A caller blocked on `<-isCloseDone` /
    `<-isGracefulCloseDone` is always waiting for a caller that can run; a caller blocked on a
    `<-readLoopActive` is waiting for a live read loop, which can.)  Each caller step is an atomic section
    or a call that is assumed to return: transport `Stop`s, `ops.GracefulClose()` (C05), interceptor
    `Close`; that the application's handlers return is the application's part. -/
theorem C21_no_deadlock {gs : List Bool} {nu : Nat} {c0 : Pc} {s : St} (h : Reachable gs nu c0 s)
    (c : Nat) (cl : Closer) (hcl : s.closers[c]? = some cl) (hnr : cl.pc ≠ .returned) :
    ∃ a, a.isProgress = true ∧ (step s a).isSome = true :=
  progress (closeInv_of_reachable h) hcl hnr

/-- Every progress action (caller step, handler return, read loop end) decreases `totalMeasure`. -/
theorem C21_progress_decreases {s s' : St} {a : Action} (ha : a.isProgress = true) (h : step s a = some s') :
    totalMeasure s' < totalMeasure s :=
  progress_decreases ha h

/-- Termination: every step of a close() caller decreases `measure` (the number of steps the callers
    still have to take), and no other action touches the callers. -/
theorem C21_caller_step_decreases {s s' : St} {c : Nat} (h : step s (.cstep c) = some s') :
    measure s' < measure s :=
  measure_cstep h

theorem C21_only_callers_move {s s' : St} {a : Action} (h : step s a = some s') (ha : ∀ c, a ≠ .cstep c) :
    s'.closers = s.closers :=
  closers_of_non_cstep h ha

/-- Hence every schedule runs at most `measure s` caller steps, whatever the other threads do in between
    (they do not change the measure). -/
theorem C21_caller_steps_bounded {s s' : St} {cs : List Nat} (h : runActions s (cs.map .cstep) = some s') :
    cs.length + measure s' ≤ measure s :=
  run_csteps_bound h

/-- All return: from every reachable state the system can be run to completion by at most `totalMeasure s`
    progress actions, and then every caller has returned.  (With `C21_no_deadlock` and
    `C21_progress_decreases`: every maximal run of progress actions ends with all callers returned.) -/
theorem C21_all_return {gs : List Bool} {nu : Nat} {c0 : Pc} {s : St} (h : Reachable gs nu c0 s) :
    ∃ as : List Action, ∃ s', runActions s as = some s' ∧ as.length ≤ totalMeasure s
      ∧ (∀ a ∈ as, a.isProgress = true)
      ∧ ∀ (c : Nat) (cl : Closer), s'.closers[c]? = some cl → cl.pc = .returned :=
  exists_completion (closeInv_of_reachable h)

/-- Neither channel is closed twice (a second `close` of a channel would panic). -/
theorem C21_no_double_close {gs : List Bool} {nu : Nat} {c0 : Pc} {s : St} (h : Reachable gs nu c0 s) :
    s.panicked = false :=
  (closeInv_of_reachable h).g.noPanic

/-! ## the main body runs once, the graceful tail runs once -/

/-- At most one caller takes the main continuation. -/
theorem C21_single_main {gs : List Bool} {nu : Nat} {c0 : Pc} {s : St} (h : Reachable gs nu c0 s)
    (c1 c2 : Nat) (cl1 cl2 : Closer) (h1 : s.closers[c1]? = some cl1) (h2 : s.closers[c2]? = some cl2)
    (r1 : cl1.role = .main) (r2 : cl2.role = .main) : c1 = c2 := by
  have hi := closeInv_of_reachable h
  have a := (hi.each c1 cl1 h1).mainIs r1
  have b := (hi.each c2 cl2 h2).mainIs r2
  rw [a] at b
  exact Option.some.inj b

/-- The body steps executed so far (by whichever callers) are a prefix of the source order
    sig · media · channels · sctp · dtls · ice · update · store · graceful · join · finish: each step at most
    once, in order. -/
theorem C21_body_once {gs : List Bool} {nu : Nat} {c0 : Pc} {s : St} (h : Reachable gs nu c0 s) :
    ∃ n, s.bodyLog = BStep.canon.take n := by
  have hi := closeInv_of_reachable h
  cases hm : s.mainIdx with
  | none => exact ⟨0, (hi.g.noMain hm).2.1⟩
  | some m =>
    obtain ⟨clm, hclm, hrm⟩ := hi.mainAt m hm
    exact ⟨_, (hi.each m clm hclm).mainLog hrm⟩

/-- … and the transport / interceptor calls inside them happen at most once. -/
theorem C21_stops_once {gs : List Bool} {nu : Nat} {c0 : Pc} {s : St} (h : Reachable gs nu c0 s) :
    s.iceStops ≤ 1 ∧ s.interceptorCloses ≤ 1 := by
  have hi := closeInv_of_reachable h
  cases hm : s.mainIdx with
  | none => have := hi.g.noMain hm; omega
  | some m =>
    obtain ⟨clm, hclm, hrm⟩ := hi.mainAt m hm
    have hok := hi.each m clm hclm
    have a := hok.mainIce hrm
    have b := hok.mainIcpt hrm
    constructor
    · rw [a]; split <;> omega
    · rw [b]; split <;> omega

/-- The graceful tail (ICE GracefulStop, ops.GracefulClose, data-channel graceful closes) runs at most
    once, whoever runs it (the main caller, or the first GracefulClose arriving after a plain Close). -/
theorem C21_graceful_tail_once {gs : List Bool} {nu : Nat} {c0 : Pc} {s : St} (h : Reachable gs nu c0 s) :
    s.opsCloses ≤ 1 ∧ s.iceGracefulStops = s.opsCloses := by
  have hi := closeInv_of_reachable h
  refine ⟨?_, hi.g.iceG⟩
  cases ho : s.gOwner with
  | none => have := hi.g.noOwner ho; omega
  | some o =>
    obtain ⟨clo, hclo, hown⟩ := hi.ownerAt o ho
    rw [(hi.each o clo hclo).ownerOps hown]; split <;> omega

/-- Without any GracefulClose caller the graceful tail does not run. -/
theorem C21_no_tail_unrequested {gs : List Bool} {nu : Nat} {c0 : Pc} {s : St} (h : Reachable gs nu c0 s)
    (hg : s.graceful = false) : s.opsCloses = 0 := by
  have hi := closeInv_of_reachable h
  have := hi.g.ownerSome
  rw [hg] at this
  exact (hi.g.noOwner (by cases ho : s.gOwner <;> simp_all)).2

/-- The graceful tail never runs before the closed connection state has been stored — whoever runs it
    (the main caller after its updateConnectionState, or the tailer after the main caller has returned). -/
theorem C21_graceful_tail_after_update {gs : List Bool} {nu : Nat} {c0 : Pc} {s : St} (h : Reachable gs nu c0 s)
    (hops : 1 ≤ s.opsCloses) : s.bodyLog.contains .store = true ∧ s.conn = .closed := by
  have hi := closeInv_of_reachable h
  suffices hst : s.bodyLog.contains .store = true from ⟨hst, hi.g.stored hst⟩
  cases ho : s.gOwner with
  | none => have := (hi.g.noOwner ho).2; omega
  | some o =>
    obtain ⟨clo, hclo, hown⟩ := hi.ownerAt o ho
    have hok := hi.each o clo hclo
    have hopsEq := hok.ownerOps hown
    have hgd : gDone clo = true := by
      cases hg : gDone clo with
      | true => rfl
      | false => rw [hg] at hopsEq; simp at hopsEq; omega
    obtain ⟨g, role, pc⟩ := clo
    have hal := hok.allowed
    cases role <;> simp [isOwner] at hown
    · -- tailer past its receive: the main caller has returned
      have hcd : s.closeDone = true := by
        apply hok.tailerPast rfl
        cases pc <;> simp [gDone, pastWait] at hgd ⊢
      rw [body_complete_of_closeDone hi hcd]; decide
    · -- main caller at or after `finish`
      have hl := hok.mainLog rfl
      rw [hl]
      cases pc <;> simp [gDone] at hgd <;> simp [prog, BStep.canon]

/-! ## the state is then final -/

/-- From the first critical section of the first call on, the connection is closed for the API
    (`isClosed`), and it stays so … -/
theorem C21_started_is_closed {gs : List Bool} {nu : Nat} {c0 : Pc} {s : St} (h : Reachable gs nu c0 s)
    (c : Nat) (cl : Closer) (hcl : s.closers[c]? = some cl) (hst : cl.pc ≠ .idle) : s.isClosed = true :=
  ((closeInv_of_reachable h).each c cl hcl).closed hst

/-- … in particular after any call has returned. -/
theorem C21_returned_is_closed {gs : List Bool} {nu : Nat} {c0 : Pc} {s : St} (h : Reachable gs nu c0 s)
    (c : Nat) (cl : Closer) (hcl : s.closers[c]? = some cl) (hr : cl.pc = .returned) : s.isClosed = true :=
  C21_started_is_closed h c cl hcl (by rw [hr]; simp)

/-- isClosed, the closed signaling state and both channel closes are never undone. -/
theorem C21_flags_monotone {s s' : St} {a : Action} (hs : step s a = some s') :
    (s.isClosed = true → s'.isClosed = true) ∧ (s.sigClosed = true → s'.sigClosed = true)
    ∧ (s.closeDone = true → s'.closeDone = true) ∧ (s.gracefulDone = true → s'.gracefulDone = true) := by
  cases a with
  | cstep c =>
    simp only [step] at hs
    cases hcl : s.closers[c]? with
    | none => simp [hcl] at hs
    | some cl =>
      cases hfn : cstepFn s c cl with
      | none => simp [hcl, hfn] at hs
      | some r =>
        obtain ⟨s1, cl'⟩ := r
        simp only [hcl, hfn, Option.some.injEq] at hs
        subst hs
        have h1 := cstepFn_isClosed hfn
        have h2 := cstepFn_mono hfn
        exact ⟨h1, h2.1, h2.2.1, h2.2.2⟩
  | uCompute u ice dtls => simp only [step] at hs; split at hs <;> cases hs; exact ⟨id, id, id, id⟩
  | uStore u => simp only [step] at hs; split at hs <;> cases hs; exact ⟨id, id, id, id⟩
  | api a env => simp only [step, Option.some.injEq] at hs; subst hs; exact ⟨id, id, id, id⟩
  | env ice dtls => simp only [step, Option.some.injEq] at hs; subst hs; exact ⟨id, id, id, id⟩
  | lDeliver l => simp only [step] at hs; split at hs <;> (try split at hs) <;> cases hs; exact ⟨id, id, id, id⟩
  | lReturn l => simp only [step] at hs; split at hs <;> cases hs; exact ⟨id, id, id, id⟩
  | lExit l => simp only [step] at hs; split at hs <;> cases hs; exact ⟨id, id, id, id⟩

/-- After the main body: signaling state closed, connection state closed, everything stopped. -/
theorem C21_final_after_body {gs : List Bool} {nu : Nat} {c0 : Pc} {s : St} (h : Reachable gs nu c0 s)
    (hb : s.bodyLog = BStep.canon) :
    Final s ∧ s.mediaStopped = true ∧ s.channelsClosed = true ∧ s.sctpStopped = true ∧ s.dtlsStopped = true
      ∧ s.interceptorCloses = 1 := by
  have hi := closeInv_of_reachable h
  refine ⟨final_of_body_complete hi hb, ?_, ?_, ?_, ?_, ?_⟩
  · rw [hi.g.media.1, hb]; decide
  · rw [hi.g.media.2.1, hb]; decide
  · rw [hi.g.media.2.2.1, hb]; decide
  · rw [hi.g.media.2.2.2, hb]; decide
  · cases hm : s.mainIdx with
    | none => have := (hi.g.noMain hm).2.1; rw [hb] at this; cases this
    | some m =>
      obtain ⟨clm, hclm, hrm⟩ := hi.mainAt m hm
      have hok := hi.each m clm hclm
      have hl := hok.mainLog hrm
      rw [hb] at hl
      have hp : prog clm.pc = 11 := by
        have := congrArg List.length hl
        simp [BStep.canon] at this
        have hle : prog clm.pc ≤ 11 := by cases clm.pc <;> simp [prog]
        omega
      rw [hok.mainIcpt hrm, hp]; rfl

/-- When all callers have returned (and there was at least one), the main body is complete: the state is
    final. -/
theorem C21_final_when_all_returned {gs : List Bool} {nu : Nat} {c0 : Pc} {s : St} (h : Reachable gs nu c0 s)
    (hne : s.closers ≠ [])
    (hall : ∀ (c : Nat) (cl : Closer), s.closers[c]? = some cl → cl.pc = .returned) :
    Final s ∧ s.bodyLog = BStep.canon ∧ s.closeDone = true := by
  have hi := closeInv_of_reachable h
  obtain ⟨cl0, t, hs⟩ := List.exists_cons_of_ne_nil hne
  have h0 : s.closers[0]? = some cl0 := by rw [hs]; rfl
  have hc := (hi.each 0 cl0 h0).closed (by rw [hall 0 cl0 h0]; simp)
  have hms := hi.g.mainSome
  rw [hc] at hms
  obtain ⟨m, hm⟩ := Option.isSome_iff_exists.mp hms
  obtain ⟨clm, hclm, hrm⟩ := hi.mainAt m hm
  have hok := hi.each m clm hclm
  have hret := hall m clm hclm
  have hcd : s.closeDone = true := by rw [hok.mainCloseDone hrm, hret]; rfl
  have hb := body_complete_of_closeDone hi hcd
  exact ⟨final_of_body_complete hi hb, hb, hcd⟩

/-- When a GracefulClose call has returned, the main body is complete, the graceful tail has run exactly
    once, isGracefulCloseDone is closed — whichever of the three graceful continuations the caller took —
    and every goroutine the model accounts for has ended: every data-channel read loop (including one
    that was busy inside the application's OnMessage handler when the close started), the operations
    worker (ops.GracefulClose returned, C05), the ICE agent's (GracefulStop returned). -/
theorem C21_final_when_graceful_returned {gs : List Bool} {nu : Nat} {c0 : Pc} {s : St}
    (h : Reachable gs nu c0 s) (c : Nat) (cl : Closer) (hcl : s.closers[c]? = some cl)
    (hg : cl.g = true) (hr : cl.pc = .returned) :
    Final s ∧ s.bodyLog = BStep.canon ∧ s.opsCloses = 1 ∧ s.gracefulDone = true
      ∧ allExited s.loops = true ∧ s.iceGracefulStops = 1 := by
  have hi := closeInv_of_reachable h
  have hok := hi.each c cl hcl
  have hgd : s.gracefulDone = true := by
    obtain ⟨g, role, pc⟩ := cl
    simp only at hg hr; subst hg; subst hr
    have hal := hok.allowed
    cases role <;> simp [allowed] at hal
    · exact hok.waiterPast rfl (by simp [pastWait])
    · have := hok.ownerGDone (by simp [isOwner]); simpa [pastDG] using this
    · have := hok.ownerGDone (by simp [isOwner]); simpa [pastDG] using this
  have hb := body_complete_of_gracefulDone hi hgd
  exact ⟨final_of_body_complete hi hb.1, hb.1, hb.2, hgd, joined_of_gracefulDone hi hgd, by rw [hi.g.iceG, hb.2]⟩

/-- A GracefulClose never returns while a read loop goroutine is alive — stated on the loops: as long as
    some read loop has not ended (for instance because the application's handler has not returned), no
    GracefulClose caller is in the `returned` state. -/
theorem C21_graceful_waits_for_read_loops {gs : List Bool} {nu : Nat} {c0 : Pc} {s : St}
    (h : Reachable gs nu c0 s) (l : Nat) (x : LPc) (hl : s.loops[l]? = some x) (hx : x ≠ .exited)
    (c : Nat) (cl : Closer) (hcl : s.closers[c]? = some cl) (hg : cl.g = true) : cl.pc ≠ .returned := by
  intro hr
  have := (C21_final_when_graceful_returned h c cl hcl hg hr).2.2.2.2.1
  exact hx (allExited_getElem this hl)

/-- … and ended read loops stay ended (no goroutine is started after the close). -/
theorem C21_read_loops_stay_ended {s s' : St} {a : Action} (hs : step s a = some s')
    (he : allExited s.loops = true) : allExited s'.loops = true :=
  allExited_step hs he

/-- Final means final: once signaling and connection state are closed, no action of any thread — further
    Close/GracefulClose calls, late transport callbacks, API calls — changes the signaling state, the
    connection state, the handler's log or the negotiation state. -/
theorem C21_final_is_stable {gs : List Bool} {nu : Nat} {c0 : Pc} {s s' : St} {a : Action}
    (h : Reachable gs nu c0 s) (hf : Final s) (hs : step s a = some s') :
    Final s' ∧ s'.notified = s.notified ∧ s'.negVersion = s.negVersion :=
  final_step (closeInv_of_reachable h) hf hs

/-! ## calls that would change negotiation state return an InvalidStateError -/

/-- Every mutating entry point returns an InvalidStateError once `isClosed` is set (`pc.idpLoginURL` is
    never assigned, so `useIdentity` is false). -/
theorem C21_api_rejects_when_closed (a : Api) (env : ApiEnv) (hid : env.useIdentity = false) :
    (apiOutcome true env a).isInvalidState = true := by
  cases a <;> cases hr : env.hasRemoteDescription <;> simp [apiOutcome, hid, hr, ApiOut.isInvalidState]

/-- … in particular in every reachable state in which some Close/GracefulClose call has passed its first
    critical section (a fortiori: has returned), and the call changes nothing. -/
theorem C21_api_rejects {gs : List Bool} {nu : Nat} {c0 : Pc} {s s' : St} (h : Reachable gs nu c0 s)
    (c : Nat) (cl : Closer) (hcl : s.closers[c]? = some cl) (hr : cl.pc ≠ .idle)
    (a : Api) (env : ApiEnv) (hid : env.useIdentity = false) (hs : step s (.api a env) = some s') :
    (apiOutcome s.isClosed env a).isInvalidState = true
      ∧ s'.apiLog = s.apiLog ++ [(a, apiOutcome s.isClosed env a)] ∧ s'.negVersion = s.negVersion
      ∧ s'.sigClosed = s.sigClosed ∧ s'.conn = s.conn := by
  have hc := C21_started_is_closed h c cl hcl hr
  have hrej := C21_api_rejects_when_closed a env hid
  simp only [step, Option.some.injEq] at hs
  subst hs
  rw [hc]
  refine ⟨hrej, rfl, ?_, rfl, rfl⟩
  simp only
  split
  · rename_i hp; rw [hp] at hrej; cases hrej
  · rfl

/-! ## the handler never reports a non-closed state after closed -/

/-- In the sequence of values handed to the OnConnectionStateChange handler, `closed` is only followed
    by `closed` — for every interleaving, including callbacks that computed their state before Close. -/
theorem C21_no_state_after_closed {gs : List Bool} {nu : Nat} {c0 : Pc} {s : St} (h : Reachable gs nu c0 s) :
    closedFinal s.notified = true :=
  (closeInv_of_reachable h).g.notifiedFinal

/-- `closed` is reported at most once, and only once the connection is closed and stored as such. -/
theorem C21_closed_reported_once {gs : List Bool} {nu : Nat} {c0 : Pc} {s : St} (h : Reachable gs nu c0 s) :
    s.notified.count .closed ≤ 1 ∧ (Pc.closed ∈ s.notified → s.isClosed = true ∧ s.conn = .closed) :=
  ⟨(ninv_of_reachable h).1, (closeInv_of_reachable h).g.notifiedClosed⟩

/-- The last value reported is the stored state; so after the main body the handler's last report is
    `closed` (if the connection was not already stored as closed at the start). -/
theorem C21_last_report_is_closed {gs : List Bool} {nu : Nat} {c0 : Pc} {s : St} (h : Reachable gs nu c0 s)
    (hc0 : c0 ≠ .closed) (hb : s.bodyLog = BStep.canon) : s.notified.getLast? = some .closed := by
  have hf := final_of_body_complete (closeInv_of_reachable h) hb
  rcases (ninv_of_reachable h).2 with ⟨_, hc⟩ | hl
  · exact absurd (hc ▸ hf.2.2) hc0
  · rw [hl, hf.2.2]

/-! ## non-vacuity: concrete interleavings -/

/-- Close ‖ GracefulClose ‖ GracefulClose with a transport callback that computed `failed` before the
    first close: caller 0 becomes main, caller 1 the tailer (waits for isCloseDone, runs the graceful
    tail), caller 2 a waiter; the late callback stores nothing. -/
example : (runActions (init [false, true, true] 1 .connected)
    ([.uCompute 0 .failed .connected, .cstep 0, .cstep 1, .cstep 2, .cstep 1, .cstep 2] ++
      List.replicate 13 (.cstep 0) ++ [.uStore 0] ++ List.replicate 5 (.cstep 1) ++ List.replicate 2 (.cstep 2))).map
      (fun s => (s.closers.map (·.pc), s.closers.map (·.role), s.notified, s.conn == .closed && s.sigClosed && s.opsCloses == 1))
    = some ([.returned, .returned, .returned], [.main, .tailer, .waiter], [.closed], true) := by
  decide

/-- A plain Close that finds the connection already closing returns at once — before the main caller
    has set the signaling state: "signaling state closed" holds when ALL calls have returned (or any
    GracefulClose has), not after each single call. -/
example : (runActions (init [false, false] 0 .new) [.cstep 0, .cstep 1, .cstep 1]).map
      (fun s => (s.closers.map (·.pc), s.sigClosed, s.isClosed))
    = some ([.cs1, .returned], false, true) := by
  decide

/-- Why the re-check matters: the same system WITHOUT the re-read of isClosed (`retest := false`, the code
    before the repair): the callback that computed `failed` stores and reports it after `closed`. -/
example : (runActions { init [false] 1 .new with retest := false }
    ([.uCompute 0 .failed .new] ++ List.replicate 14 (.cstep 0) ++ [.uStore 0])).map
      (fun s => (s.closers.map (·.pc), s.conn, s.notified, closedFinal s.notified))
    = some ([.returned], .failed, [.closed, .failed], false) := by
  decide

/-- GracefulClose during data transfer: the read loop of the open data channel is inside the application's
    handler.  The caller runs up to the join and is then disabled (11th step); a plain Close in parallel
    returns at once; only after the handler has returned and the read loop has ended can the GracefulClose
    finish. -/
example : (runActions (init [true, false] 0 .connected [.handler]) (List.replicate 11 (.cstep 0))).map
      (fun s => (s.closers.map (·.pc), (step s (.cstep 0)).isSome, s.loops))
    = some ([.bJoin, .idle], false, [.handler]) := by
  decide

example : (runActions (init [true, false] 0 .connected [.handler])
    (List.replicate 11 (.cstep 0) ++ [.cstep 1, .cstep 1, .lReturn 0, .lExit 0] ++ List.replicate 4 (.cstep 0))).map
      (fun s => (s.closers.map (·.pc), s.loops, s.opsCloses))
    = some ([.returned, .returned], [.exited], 1) := by
  decide

/-- hypotheses of `C21_api_rejects` are satisfiable: after one Close every entry point is rejected -/
example : (runActions (init [false] 0 .new) (List.replicate 14 (.cstep 0) ++
      Api.all.map (fun a => .api a { hasRemoteDescription := true }))).map
      (fun s => (s.apiLog.map (·.2.isInvalidState), s.negVersion))
    = some (List.replicate 10 true, 0) := by
  decide

end WebrtcVerif.C21
