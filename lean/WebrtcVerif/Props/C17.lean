import WebrtcVerif.Model.Fmtp
import WebrtcVerif.Proofs.FmtpLemmas
/-!
# C17 — Codec compatibility is symmetric and case-insensitive

"Codec compatibility is symmetric for all inputs: A matches B exactly when B matches A, for any two codec
descriptions (mime type, clock rate, channels, fmtp line). The result doesn't change when the mime type's
letter case changes. Every codec pion registers by default matches itself."

`matchFmtp a b` is `fmtp.Parse(a…).Match(fmtp.Parse(b…))` (Model/Fmtp.lean).

Finding on the unchanged tree (`unicode-fold-asymmetry`, recorded, not repaired): `strings.EqualFold`
folds U+017F 'ſ' with 's', while `defaultClockRate` / `defaultChannels` look the *receiver's* mime type up
under `strings.ToLower`, which leaves 'ſ' alone.  So symmetry and (Unicode) case-insensitivity fail for
mime types containing U+017F; the full statements are kept as `def … : Prop`, refuted by a concrete
witness, and proved under the decidable hypothesis `noLongS` ("the mime type contains no U+017F") —
every ASCII mime type satisfies it (`…_ascii` corollaries).  For the case of ASCII letters the
case-insensitivity clause holds with **no** hypothesis at all (`C17_mime_case_insensitive_*`).
-/
namespace WebrtcVerif.C17
open WebrtcVerif.Fmtp

/-! ## Clause 1 — symmetry -/

/-- the clause at full strength: all pairs of codec descriptions, any Unicode text -/
def C17_Symmetric_Full : Prop := ∀ a b : Codec, matchFmtp a b = matchFmtp b a

/-- "audio/opu\u017f" (no clock rate, no channels) against "audio/opus" 48000/2 -/
def witnessA : Codec := { mime := "audio/opu\u017f".toList, clockRate := 0, channels := 0, line := [] }
def witnessB : Codec := { mime := "audio/opus".toList, clockRate := 48000, channels := 2, line := [] }

theorem C17_symmetric_counterexample : ¬ C17_Symmetric_Full := by
  intro h
  exact absurd (h witnessA witnessB) (by decide)

/-- Symmetry holds for every pair whose mime types have the same lower-case form whenever they are equal
    under case folding (the only thing `genericFMTP.Match` needs; everything else is symmetric as written). -/
theorem C17_symmetric_of_lower_agree (a b : Codec)
    (h : equalFold a.mime b.mime = true → toLower a.mime = toLower b.mime) :
    matchFmtp a b = matchFmtp b a := by
  unfold matchFmtp Codec.parsed
  rw [parse_eq a.mime, parse_eq b.mime]
  cases family a.mime <;> cases family b.mime <;> simp only [Parsed.matches]
  · exact h264Match_comm _ _
  · exact profileMatch_comm _ _ _
  · exact profileMatch_comm _ _ _
  · exact genericMatch_comm _ _ _ _ _ _ _ _ h

/-- Symmetry for all codec descriptions whose mime types do not contain U+017F: any clock rates, channel
    counts and fmtp lines (arbitrary keys, case, values, duplicates, malformed text). -/
theorem C17_symmetric_partial (a b : Codec) (ha : noLongS a.mime = true) (hb : noLongS b.mime = true) :
    matchFmtp a b = matchFmtp b a :=
  C17_symmetric_of_lower_agree a b (toLower_eq_of_equalFold ha hb)

example : noLongS witnessB.mime = true ∧ noLongS "video/H264".toList = true := by decide

/-- … in particular for all ASCII mime types (the hypothesis named in DESIGN §6 C17). -/
theorem C17_symmetric_ascii (a b : Codec) (ha : isAscii a.mime = true) (hb : isAscii b.mime = true) :
    matchFmtp a b = matchFmtp b a :=
  C17_symmetric_partial a b (noLongS_of_isAscii ha) (noLongS_of_isAscii hb)

example : isAscii "audio/opus".toList = true ∧ isAscii "audio/opu\u017f".toList = false := by decide

/-- H.264, VP9 and AV1 (any spelling `Parse` accepts for them) are symmetric without any hypothesis on the
    other side: the other codec may be anything. -/
theorem C17_symmetric_special (a b : Codec) (ha : family a.mime ≠ .generic) :
    matchFmtp a b = matchFmtp b a := by
  unfold matchFmtp Codec.parsed
  rw [parse_eq a.mime, parse_eq b.mime]
  cases hfa : family a.mime <;> cases family b.mime <;> simp only [Parsed.matches]
  · exact h264Match_comm _ _
  · exact profileMatch_comm _ _ _
  · exact profileMatch_comm _ _ _
  · exact absurd hfa ha

example : family "VIDEO/h264".toList ≠ .generic := by decide

/-- the two comparisons the partial-match fallback of `codecParametersFuzzySearch` is built from -/
theorem C17_clockRateEqual_symmetric (mime : Str) (a b : Nat) :
    clockRateEqual mime a b = clockRateEqual mime b a := clockRateEqual_comm mime a b

theorem C17_channelsEqual_symmetric (mime : Str) (a b : Nat) :
    channelsEqual mime a b = channelsEqual mime b a := channelsEqual_comm mime a b

/-! ## Clause 2 — the result does not depend on the letter case of the mime type -/

/-- replacing the mime type of the receiver by one with the same folded and the same lower-case form -/
theorem matchFmtp_congr_left (a b : Codec) (m' : Str) (hf : equalFold a.mime m' = true)
    (hl : toLower a.mime = toLower m') : matchFmtp { a with mime := m' } b = matchFmtp a b := by
  unfold matchFmtp Codec.parsed
  simp only
  rw [parse_eq a.mime, parse_eq b.mime, parse_eq m', ← family_congr hf]
  cases family a.mime <;> cases family b.mime <;> simp only [Parsed.matches]
  unfold genericMatch
  rw [← equalFold_congr_left hf, ← clockRateEqual_congr hl, ← channelsEqual_congr hl]

/-- replacing the mime type of the argument by any string equal to it under case folding: the argument's
    mime type is only ever compared with `EqualFold` -/
theorem matchFmtp_congr_right (a b : Codec) (m' : Str) (hf : equalFold b.mime m' = true) :
    matchFmtp a { b with mime := m' } = matchFmtp a b := by
  unfold matchFmtp Codec.parsed
  simp only
  rw [parse_eq a.mime, parse_eq b.mime, parse_eq m', ← family_congr hf]
  cases family a.mime <;> cases family b.mime <;> simp only [Parsed.matches]
  unfold genericMatch
  rw [← equalFold_congr_right hf]

/-- Changing the case of any ASCII letters of the receiver's mime type never changes the result —
    no hypothesis on either codec, not even ASCII-ness of the rest of the string. -/
theorem C17_mime_case_insensitive_left (a b : Codec) (m' : Str) (h : asciiRecasing a.mime m' = true) :
    matchFmtp { a with mime := m' } b = matchFmtp a b :=
  matchFmtp_congr_left a b m' (asciiRecasing_sound h).2 (asciiRecasing_sound h).1

/-- … nor does changing the case of ASCII letters of the argument's mime type. -/
theorem C17_mime_case_insensitive_right (a b : Codec) (m' : Str) (h : asciiRecasing b.mime m' = true) :
    matchFmtp a { b with mime := m' } = matchFmtp a b :=
  matchFmtp_congr_right a b m' (asciiRecasing_sound h).2

/-- both mime types recased at once -/
theorem C17_mime_case_insensitive_both (a b : Codec) (ma mb : Str)
    (ha : asciiRecasing a.mime ma = true) (hb : asciiRecasing b.mime mb = true) :
    matchFmtp { a with mime := ma } { b with mime := mb } = matchFmtp a b := by
  rw [C17_mime_case_insensitive_right { a with mime := ma } b mb hb]
  exact C17_mime_case_insensitive_left a b ma ha

example : asciiRecasing "video/H264".toList "VIDEO/h264".toList = true
    ∧ asciiRecasing "audio/opus".toList "AUDIO/Opus".toList = true
    ∧ asciiRecasing "audio/opus".toList "audio/opu5".toList = false
    ∧ asciiRecasing "audio/opus".toList "audio/opu\u017f".toList = false := by decide

/-- The clause for *Unicode* case variants (Go's own notion: strings equal under `strings.EqualFold`,
    e.g. "AUDIO/OPUS" for "audio/opuſ"), at full strength. -/
def C17_CaseInsensitive_Full : Prop :=
  ∀ (a b : Codec) (m' : Str), equalFold a.mime m' = true →
    matchFmtp { a with mime := m' } b = matchFmtp a b ∧ matchFmtp b { a with mime := m' } = matchFmtp b a

theorem C17_case_insensitive_counterexample : ¬ C17_CaseInsensitive_Full := by
  intro h
  exact absurd (h witnessA witnessB "AUDIO/OPUS".toList (by decide)).1 (by decide)

/-- Unicode case variants of the receiver's mime type: holds when neither spelling contains U+017F. -/
theorem C17_case_insensitive_partial (a b : Codec) (m' : Str) (hf : equalFold a.mime m' = true)
    (ha : noLongS a.mime = true) (hm : noLongS m' = true) :
    matchFmtp { a with mime := m' } b = matchFmtp a b :=
  matchFmtp_congr_left a b m' hf (toLower_eq_of_equalFold ha hm hf)

example : equalFold "video/mkv".toList "video/M\u212av".toList = true
    ∧ noLongS "video/mkv".toList = true ∧ noLongS "video/M\u212av".toList = true := by decide

/-- Unicode case variants of the argument's mime type: holds unconditionally (U+017F included). -/
theorem C17_case_insensitive_argument (a b : Codec) (m' : Str) (hf : equalFold b.mime m' = true) :
    matchFmtp a { b with mime := m' } = matchFmtp a b :=
  matchFmtp_congr_right a b m' hf

example : equalFold "audio/opus".toList "AUDIO/OPU\u017f".toList = true := by decide

/-! ## Clause 3 — every default codec matches itself -/

/-- The table is `RegisterDefaultCodecs` transcribed (Model/Fmtp.lean); the correspondence run compares it
    with the real MediaEngine. The quantifier is that finite table. -/
theorem C17_defaults_self_match : ∀ c ∈ defaultCodecs, matchFmtp c c = true := by decide

/-- Why: every description matches itself, except an H.264 one that lacks `packetization-mode` or a
    `profile-level-id` that hex-decodes to at least two bytes (for those `Match` returns false). -/
theorem C17_self_match_iff (c : Codec) :
    matchFmtp c c = true ↔ (family c.mime = .h264 → h264SelfOK (parseParameters c.line) = true) := by
  unfold matchFmtp Codec.parsed
  rw [parse_eq c.mime]
  cases family c.mime <;> simp only [Parsed.matches]
  · rw [h264Match_self]; simp
  · simp [profileMatch_refl]
  · simp [profileMatch_refl]
  · simp [genericMatch_refl]

/-- every non-H.264 description matches itself -/
theorem C17_self_match_non_h264 (c : Codec) (h : family c.mime ≠ .h264) : matchFmtp c c = true :=
  (C17_self_match_iff c).2 (fun e => absurd e h)

example : family "audio/opu\u017f".toList ≠ .h264 := by decide

/-! ## The parsed parameter map -/

/-- keys of `parseParameters` are lower-case: looking a key up is insensitive to its case in the fmtp line -/
theorem C17_param_keys_lowercase (line : Str) : ∀ e ∈ parseParameters line, toLower e.1 = e.1 := by
  intro e he
  simp only [parseParameters, List.mem_reverse, List.mem_map] at he
  obtain ⟨seg, _, rfl⟩ := he
  exact toLower_idem _

/-- an fmtp line always yields at least one entry (the empty line yields `"" ↦ ""`) -/
theorem C17_params_nonempty (line : Str) : parseParameters line ≠ [] := by
  have : splitOn ';' line ≠ [] := by
    cases line with
    | nil => simp [splitOn]
    | cons c cs =>
      simp only [splitOn]
      split
      · simp
      · split <;> simp
  simpa [parseParameters] using this

/-- a later assignment of the same key shadows an earlier one (Go map assignment in a loop), whatever the
    two parts of the line contain -/
theorem C17_later_duplicate_wins (s t k : Str) :
    (parseParameters (s ++ ';' :: t)).get? k = ((parseParameters t).get? k).or ((parseParameters s).get? k) := by
  simp [Params.get?, parseParameters_append, List.lookup_append]

example : (parseParameters "a=1;b=2;A=3".toList).get? ['a'] = some ['3'] := by decide

/-! ## A match implies equal mime types up to case -/

theorem family_sound (m : Str) :
    match family m with
    | .h264 => equalFold m mimeH264 = true
    | .vp9 => equalFold m mimeVP9 = true
    | .av1 => equalFold m mimeAV1 = true
    | .generic => True := by
  unfold family
  by_cases h1 : equalFold m mimeH264 = true
  · simp [h1]
  · by_cases h2 : equalFold m mimeVP9 = true
    · simp [h1, h2]
    · by_cases h3 : equalFold m mimeAV1 = true
      · simp [h1, h2, h3]
      · simp [h1, h2, h3]

/-- Compatible descriptions have mime types that are equal up to case: no fmtp line, clock rate or channel
    count can make "video/VP9" compatible with "video/H264", or an unknown mime type with a known one. -/
theorem C17_match_implies_mime_equalFold (a b : Codec) (h : matchFmtp a b = true) :
    equalFold a.mime b.mime = true := by
  have hf := family_eq_of_matches h
  have ha := family_sound a.mime
  have hb := family_sound b.mime
  rw [← hf] at hb
  cases hfa : family a.mime <;> simp only [hfa] at ha hb
  · exact equalFold_trans ha (by rw [equalFold_comm]; exact hb)
  · exact equalFold_trans ha (by rw [equalFold_comm]; exact hb)
  · exact equalFold_trans ha (by rw [equalFold_comm]; exact hb)
  · unfold matchFmtp Codec.parsed at h
    rw [parse_eq a.mime, parse_eq b.mime, ← hf, hfa] at h
    simp only [Parsed.matches, genericMatch, Bool.and_eq_true] at h
    exact h.1.1.1

example : matchFmtp (mkCodec "video/vp9" 90000 0 "profile-id=0") (mkCodec "VIDEO/VP9" 0 0 "") = true := by decide

end WebrtcVerif.C17
