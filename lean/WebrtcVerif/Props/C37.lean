import WebrtcVerif.Proofs.ReadLoops
/-!
# C37 — Container readers never crash or hang on arbitrary bytes

"The IVF, Ogg, H.264, H.265 and rtpdump readers, and the OpusHead/OpusTags parsers, return a value or an
error for every input byte stream. They never panic, and they make progress on every call until they report
an error or end of stream."

The five readers are modelled — on ARBITRARY byte streams, `io.ReadFull` / chunked `Read` semantics and
checked slicing included — by the properties that own them: `Model/Ivf` (C32), `Model/Ogg` (C33),
`Model/AnnexB` (C34, both codecs; the model mirrors the tree after the trailing-SEI repair), `Model/Rtpdump`
(C36; the model mirrors the tree after the `Length < 8` repair).  This file states C37 about those models,
per parser, for ALL inputs:

* `C37_no_panic_<p>`   — the outcome is never `.panic`.  In these models every Go index / slice expression /
  integer division that can fail at run time is an explicit `Option`/`.panic` outcome, so this is the audit
  "every index is covered by a preceding length test".  The rtpdump model has no panic outcome: its only
  indexed buffers are the ones `io.ReadFull` has just filled; `C37_no_panic_rtpdump` proves the guard facts
  (buffer has exactly the indexed length; `Length − 8` cannot wrap) that justify writing them as patterns.
* `C37_progress_<p>`   — a successful call consumes at least one byte (exact consumption where the format
  fixes it), i.e. strictly decreases the measure the loop recurses on.
* `C37_terminates_<p>` — "call until it reports an error or end of stream" is a total function (the
  definitions `Ivf.readFrames`, `Ogg.readPages`, `AnnexB.readAll`, `Rtpdump.readAll` are accepted by
  well-founded recursion on that measure), it ends with one of the reader's errors — never by panicking —
  and the number of successful calls is bounded by the input length.
* `ParseOpusHead` / `ParseOpusTags` are one-shot functions of a byte slice: progress does not apply; they are
  total, panic-free, and the comment loop of `ParseOpusTags` runs at most `len/4` times.

Outside the model (and therefore outside these theorems; the harness skips or bounds them, see `Rule` in
harness/cmd/wvh/c37.go):
* allocation: `ivfreader.ParseNextFrame` does `make([]byte, FrameSize)` with an attacker-chosen 32-bit
  `FrameSize` (up to 4 GiB) BEFORE reading; `rtpdump.Next` allocates up to 65 527 bytes, `ParseNextPage` up to
  255 + 65 025 bytes, `ParseOpusTags` `count ≤ len/4` comment slots.  Memory exhaustion is not a modelled outcome.
* streams: the Annex-B stream is a FINITE list of `Read` results followed by `(0, io.EOF)` for ever.  A stream
  that answers `(0, nil)` for ever is not such a list; `C37_annexb_zero_read` shows what a single `(0, nil)`
  does (the call returns at once), from which such a stream cannot make a call or the loop spin either.
  The other readers use `io.ReadFull`, whose behaviour on a misbehaving `io.Reader` is Go's, not this
  repository's.
* wall-clock time: "does not hang" is "the call is a terminating function of the bytes and the loop makes
  finitely many calls"; how long a call takes is not modelled.
-/
namespace WebrtcVerif.C37
open WebrtcVerif.Bytes

/-! ## IVF (`ivfreader.NewWith`, `ParseNextFrame`) -/
section IVF
open WebrtcVerif.Ivf

/-- `NewWith` / `parseFileHeader`: the ten slice expressions on the 32-byte buffer are in range. -/
theorem C37_no_panic_ivf_new (s : Bs) : parseFileHeader s ≠ .panic ∧ newReader s ≠ .panic :=
  ⟨parseFileHeader_no_panic s, newReader_no_panic s⟩

/-- `ParseNextFrame` on a reader that `NewWith` returned: `buffer[4:12]`, `buffer[:4]` are in range and the
    division in `ptsToTimestamp` is by a non-zero numerator (NewWith rejects a zero timebase) — whatever
    bytes follow, and whatever bytes the header had. -/
theorem C37_no_panic_ivf_frame (file : Bs) (r : Reader) (h : FileHeader) (rest : Bs)
    (hnew : newReader file = .ok (r, h, rest)) (s : Bs) : parseNextFrame r s ≠ .panic :=
  parseNextFrame_no_panic r (newReader_num_ne_zero file r h rest hnew).1 s

/-- A returned frame consumed exactly its 12-byte header and its payload: at least 12 bytes per call. -/
theorem C37_progress_ivf (r : Reader) (s payload : Bs) (fh : FrameHeader) (rest : Bs)
    (h : parseNextFrame r s = .ok (payload, fh, rest)) :
    rest.length + 12 + payload.length = s.length ∧ rest.length < s.length := by
  have := (parseNextFrame_consumes r s payload fh rest h).1
  exact ⟨this, by omega⟩

/-- `NewWith` consumed exactly the 32 header bytes. -/
theorem C37_progress_ivf_new (file : Bs) (r : Reader) (h : FileHeader) (rest : Bs)
    (hnew : newReader file = .ok (r, h, rest)) : rest.length + 32 = file.length :=
  (newReader_num_ne_zero file r h rest hnew).2.2

/-- The frame loop (`Ivf.readFrames`, total by well-founded recursion on the remaining length) ends with
    io.EOF or one of the two "incomplete" errors, and returns at most `len/12` frames whose payloads fit in
    the input. -/
theorem C37_terminates_ivf (file : Bs) (r : Reader) (h : FileHeader) (rest : Bs)
    (hnew : newReader file = .ok (r, h, rest)) :
    ((readFrames r rest).2 = .err .eof ∨ (readFrames r rest).2 = .err .incompleteFrameHeader ∨
      (readFrames r rest).2 = .err .incompleteFrameData) ∧
    (readFrames r rest).1.length * 12 + ((readFrames r rest).1.map (·.1.length)).sum ≤ rest.length :=
  ⟨readFrames_end r (newReader_num_ne_zero file r h rest hnew).1 rest, readFrames_count r rest⟩

/-- Whole file, no hypothesis: `NewWith` then `ParseNextFrame` until it stops never panics, and the frames it
    returns account for `32 + 12·n + Σ payload` bytes of the input. -/
theorem C37_ivf_file (s : Bs) :
    readFile s ≠ .panic ∧
    ∀ h fs e, readFile s = .ok (h, fs, e) →
      e ≠ .panic ∧ 32 + fs.length * 12 + (fs.map (·.1.length)).sum ≤ s.length := by
  refine ⟨(readFile_no_panic s).1, fun h fs e hr => ⟨(readFile_no_panic s).2 h fs e hr, readFile_count s h fs e hr⟩⟩

end IVF

/-! ## Ogg (`ParseNextPage`, `NewWith`/`readOpusHeader`, `ParseOpusHead`, `ParseOpusTags`) -/
section OGG
open WebrtcVerif.Ogg

/-- `ParseNextPage`: `header[0..26]` are read from a buffer `io.ReadFull` filled completely. -/
theorem C37_no_panic_ogg_page (doChecksum : Bool) (s : Bs) : parseNextPage doChecksum s ≠ .panic :=
  parseNextPage_no_panic doChecksum s

/-- A returned page consumed exactly 27 header bytes + its segment table + its payload. -/
theorem C37_progress_ogg_page (doChecksum : Bool) (s payload : Bs) (hdr : PageHeader) (rest : Bs)
    (h : parseNextPage doChecksum s = .ok payload hdr rest) :
    rest.length + 27 + hdr.segmentsCount.toNat + payload.length = s.length ∧ rest.length < s.length := by
  have := parseNextPage_consumes doChecksum s payload hdr rest h
  exact ⟨this, by omega⟩

/-- The page loop (`Ogg.readPages`, total by well-founded recursion on the remaining length) ends with
    io.EOF, io.ErrUnexpectedEOF or a checksum mismatch, and returns at most `len/27` pages whose bytes fit in
    the input. -/
theorem C37_terminates_ogg_pages (doChecksum : Bool) (s : Bs) :
    ((readPages doChecksum s).2 = .eof ∨ (readPages doChecksum s).2 = .unexpectedEOF ∨
      (readPages doChecksum s).2 = .checksumMismatch) ∧
    (readPages doChecksum s).1.length * 27 ≤ s.length ∧
    ((readPages doChecksum s).1.map pageBytes).sum ≤ s.length :=
  ⟨readPages_end doChecksum s,
   Nat.le_trans (sum_pageBytes_ge _) (readPages_count doChecksum s), readPages_count doChecksum s⟩

/-- `oggreader.NewWith` (`readOpusHeader`): `payload[8]`, `[9]`, `[10:12]`, `[12:16]`, `[16:18]`, `[18]`,
    `[19]`, `[20]`, `[21:21+channels]` are all behind a length test, for every first page. -/
theorem C37_no_panic_ogg_new (doChecksum : Bool) (s : Bs) :
    (readOpusHeader doChecksum s).1 ≠ .panic ∧ (readOpusHeader doChecksum s).1 ≠ .readErr .panic :=
  readOpusHeader_no_panic doChecksum s

/-- A successful `NewWith` consumed at least a page header and the 19-byte OpusHead. -/
theorem C37_progress_ogg_new (doChecksum : Bool) (s : Bs) (h : OggHeader) (rest : Bs)
    (hr : readOpusHeader doChecksum s = (.ok h, rest)) : rest.length + 46 ≤ s.length := by
  have := readOpusHeader_rest doChecksum s h rest hr; omega

/-- Whole file through `NewWith`: after the OpusHead page at most `(len − 46) / 27` further pages are
    returned, and the loop ends with one of the three page errors. -/
theorem C37_terminates_ogg_file (s : Bs) (h : OggHeader) (rest : Bs)
    (hr : readOpusHeader true s = (.ok h, rest)) :
    ((readPages true rest).2 = .eof ∨ (readPages true rest).2 = .unexpectedEOF ∨
      (readPages true rest).2 = .checksumMismatch) ∧
    46 + (readPages true rest).1.length * 27 ≤ s.length := by
  have h1 := readOpusHeader_rest true s h rest hr
  have h2 := Nat.le_trans (sum_pageBytes_ge _) (readPages_count true rest)
  exact ⟨readPages_end true rest, by omega⟩

/-- `ParseOpusHead` is a total function of the payload that never indexes out of range. -/
theorem C37_no_panic_opus_head (payload : Bs) : parseOpusHead payload ≠ .panic :=
  parseOpusHead_no_panic payload

/-- `ParseOpusTags` is a total function of the payload that never slices out of range: the vendor length,
    the comment count and every comment length are tested against `len(payload)` before use
    (a 32-bit length read as `int` is non-negative on 64-bit platforms; `Nat` here). -/
theorem C37_no_panic_opus_tags (payload : Bs) : parseOpusTags payload ≠ .panic :=
  parseOpusTags_no_panic payload

/-- The comment loop of `ParseOpusTags` (and the `make([]UserComment, count)` before it) is bounded by a
    quarter of the payload length. -/
theorem C37_opus_tags_loop_bounded (payload : Bs) (t : Tags) (h : parseOpusTags payload = .ok t) :
    t.comments.length * 4 ≤ payload.length :=
  parseOpusTags_comments_bounded payload t h

end OGG

/-! ## Annex-B (`h264reader.NextNAL`, `h265reader.NextNAL`) -/
section ANNEXB
open WebrtcVerif.AnnexB

/-- `NextNAL` of either reader never indexes an empty `nalBuffer` / `Data` — for every reader state, hence
    for every byte stream, every chunking (zero-length reads, data delivered together with an error
    included) and every call of the loop. -/
theorem C37_no_panic_annexb (r : Reader) : (nextNAL r).1 ≠ .panic := nextNAL_no_panic r

theorem C37_no_panic_h264 (sei : Bool) (src : List Ev) : (nextNAL (init .h264 sei src)).1 ≠ .panic :=
  nextNAL_no_panic _
theorem C37_no_panic_h265 (sei : Bool) (src : List Ev) : (nextNAL (init .h265 sei src)).1 ≠ .panic :=
  nextNAL_no_panic _

/-- A call that returns a unit returns a non-empty one, strictly decreases the loop's measure
    (`Reader.size`: buffered bytes + pending `Read` results and their bytes) and removes at least the
    unit's bytes from what the reader holds or will be handed (`Reader.bytes`). -/
theorem C37_progress_annexb (r : Reader) (n : NAL) (r' : Reader) (h : nextNAL r = (.nal n, r')) :
    n.data ≠ [] ∧ r'.size < r.size ∧ r'.bytes + n.data.length ≤ r.bytes ∧ r'.bytes < r.bytes := by
  have h1 := (nextNAL_nal r n r' h).1.1
  have h2 := nextNAL_bytes r n r' h
  have : 0 < n.data.length := List.length_pos_iff.mpr h1
  exact ⟨h1, nextNAL_progress r n r' h, h2, by omega⟩

/-- The unit loop (`AnnexB.readAll`, total by well-founded recursion on `Reader.size`) ends with an error
    (io.EOF, "not a bitstream", or the stream's own error), never by panicking; it returns at most as many
    units as the stream has bytes, and the units' total length is bounded by the stream's length. -/
theorem C37_terminates_annexb (c : Codec) (sei : Bool) (src : List Ev) :
    (∃ e, (readAll (init c sei src)).2 = .err e) ∧
    (readAll (init c sei src)).1.length ≤ (flat src).length ∧
    ((readAll (init c sei src)).1.map (·.data.length)).sum ≤ (flat src).length := by
  refine ⟨readAll_end_err _, ?_, ?_⟩
  · have := readAll_count (init c sei src); rwa [init_bytes] at this
  · have := readAll_bytes (init c sei src); rwa [init_bytes] at this

/-- …and from any reader state (e.g. in the middle of a stream). -/
theorem C37_terminates_annexb_any (r : Reader) :
    (∃ e, (readAll r).2 = .err e) ∧ (readAll r).1.length ≤ r.bytes :=
  ⟨readAll_end_err r, readAll_count r⟩

/-- A zero-length read ends the call at once (io.EOF when nothing is buffered) and is used up by it. -/
theorem C37_annexb_zero_read (c : Codec) (sei : Bool) (z : Nat) (rest : List Ev) :
    nextNAL { codec := c, includeSEI := sei, src := .data [] :: rest, readBuffer := [], nalRev := [],
              zeros := z, prefixParsed := true } =
      (.err .eof, { codec := c, includeSEI := sei, src := rest, readBuffer := [], nalRev := [],
                    zeros := z, prefixParsed := true }) ∧
    (nextNAL (init c sei (.data [] :: rest))).1 = .err .eof :=
  ⟨nextNAL_zero_read c sei z rest, nextNAL_zero_read_prefix c sei rest⟩

end ANNEXB

/-! ## rtpdump (`NewReader`, `Reader.Next`) -/
section RTPDUMP
open WebrtcVerif.Rtpdump

/-- The guard facts behind the panic-free shape of the rtpdump model:
    (1) the buffer `packetHeader.Unmarshal` indexes (`d[0:]`, `d[2:]`, `d[4:]`) always has its 8 bytes;
    (2) the buffer `Header.Unmarshal` indexes (`data[0:]` … `data[12:]`) always decodes when it has its 16 bytes,
        and `io.ReadFull` hands over exactly the requested number;
    (3) a returned payload has `Length − 8 ≤ 65527` bytes: the `uint16` subtraction did not wrap. -/
theorem C37_no_panic_rtpdump :
    (∀ s hb rest, readFull 8 s = .ok hb rest → ∃ l0 l1 q0 q1 o0 o1 o2 o3, hb = [l0, l1, q0, q1, o0, o1, o2, o3]) ∧
    (∀ (s hb rest : Bs), readFull 16 s = .ok hb rest → ∃ hd, Header.unmarshal hb = some hd) ∧
    (∀ s p r, next s = .ok (p, r) → p.payload.length ≤ 65527) :=
  ⟨next_header_guard, fun _ hb _ h => unmarshal_guard hb (readFull_len _ _ _ _ h), next_alloc_guard⟩

/-- Every outcome of `NewReader` and `Next` is a value or one of the two reader errors. -/
theorem C37_rtpdump_errors (s : Bs) :
    (∀ e, newReader s = .error e → e = .malformed) ∧ (∀ e, next s = .error e → e = .eof ∨ e = .malformed) :=
  ⟨newReader_err s, next_err s⟩

/-- A returned packet consumed exactly its 8-byte record header and its payload. -/
theorem C37_progress_rtpdump (s : Bs) (p : Packet) (r : Bs) (h : next s = .ok (p, r)) :
    r.length + 8 + p.payload.length = s.length ∧ r.length < s.length := by
  have := next_consumes s p r h
  exact ⟨this, by omega⟩

/-- `NewReader` leaves at most `len − 16` bytes (the text line is never empty either, but 16 suffices). -/
theorem C37_progress_rtpdump_new (s : Bs) (h : Header) (rest : Bs) (hr : newReader s = .ok (h, rest)) :
    rest.length + 16 ≤ s.length :=
  newReader_rest s h rest hr

/-- The record loop (`Rtpdump.readAll`, total by well-founded recursion on the remaining length) ends with
    io.EOF or errMalformed and returns at most `len/8` packets whose payloads fit in the input. -/
theorem C37_terminates_rtpdump (s : Bs) :
    ((readAll s).2 = .eof ∨ (readAll s).2 = .malformed) ∧
    (readAll s).1.length * 8 + ((readAll s).1.map (·.payload.length)).sum ≤ s.length :=
  ⟨readAll_end s, readAll_count s⟩

/-- Whole file: `NewReader`, then `Next` until it fails — at most `(len − 16) / 8` packets. -/
theorem C37_terminates_rtpdump_file (s : Bs) (h : Header) (rest : Bs) (hr : newReader s = .ok (h, rest)) :
    ((readAll rest).2 = .eof ∨ (readAll rest).2 = .malformed) ∧
    16 + (readAll rest).1.length * 8 + ((readAll rest).1.map (·.payload.length)).sum ≤ s.length := by
  have h1 := newReader_rest s h rest hr
  have h2 := readAll_count rest
  exact ⟨readAll_end rest, by omega⟩

end RTPDUMP

/-! ## non-vacuity: the hypotheses are satisfiable, on well-formed and on hostile inputs -/

/-- a 32-byte IVF header (VP80, 640x480, 30/1, 1 frame) -/
def ivfHeader : Bs :=
  [0x44, 0x4B, 0x49, 0x46, 0, 0, 32, 0, 0x56, 0x50, 0x38, 0x30, 0x80, 0x02, 0xE0, 0x01,
   30, 0, 0, 0, 1, 0, 0, 0, 1, 0, 0, 0, 0, 0, 0, 0]

-- C37_no_panic_ivf_frame / C37_progress_ivf_new / C37_terminates_ivf: `NewWith` succeeds on `ivfHeader ++ anything`
example : (match Ivf.newReader (ivfHeader ++ [3, 0, 0, 0]) with
    | .ok (r, _, rest) => decide (rest = [3, 0, 0, 0] ∧ r = { den := 30, num := 1 }) | _ => false) = true := by decide
-- C37_progress_ivf: a 3-byte frame is returned, a hostile size field (0xFFFFFFFF) is an error, not a panic
example : Ivf.parseNextFrame { den := 30, num := 1 } [3, 0, 0, 0, 9, 0, 0, 0, 0, 0, 0, 0, 0xAA, 0xBB, 0xCC, 0x77] =
    .ok ([0xAA, 0xBB, 0xCC], { frameSize := 3, timestamp := 270 }, [0x77]) := by decide
example : Ivf.parseNextFrame { den := 30, num := 1 } [0xFF, 0xFF, 0xFF, 0xFF, 9, 0, 0, 0, 0, 0, 0, 0, 0xAA] =
    .err .incompleteFrameData := by decide
-- C37_ivf_file: `readFile s` is `.ok …` exactly when `newReader s` is (by definition), e.g. on the file above

/-- an Ogg page with one 1-byte segment (checksum not verified) -/
def oggPage : Bs :=
  [0x4F, 0x67, 0x67, 0x53, 0, 2, 0, 0, 0, 0, 0, 0, 0, 0, 1, 0, 0, 0, 0, 0, 0, 0, 0xDE, 0xAD, 0xBE, 0xEF, 1, 1, 0x42]

-- C37_progress_ogg_page: the page is returned with checksums off; a segment count of 255 on a short stream is an error
example : ∃ hdr, Ogg.parseNextPage false (oggPage ++ [9]) = .ok [0x42] hdr [9] := ⟨_, rfl⟩
example : Ogg.parseNextPage false (oggPage.take 26 ++ [255, 1, 0x42]) = .unexpectedEOF := by decide
-- C37_progress_ogg_new: `readOpusHeader` succeeds on a BOS page that carries a 19-byte OpusHead
example : ∃ h, Ogg.readOpusHeader false
    (oggPage.take 26 ++ [1, 19] ++ Ogg.opusHeadSig ++ [1, 2, 0, 15, 0x80, 0xBB, 0, 0, 0, 0, 0] ++ [7]) = (.ok h, [7]) :=
  ⟨_, rfl⟩
-- C37_opus_tags_loop_bounded: a comment header with one comment; a hostile comment count is refused
example : Ogg.parseOpusTags (Ogg.opusTagsSig ++ [1, 0, 0, 0, 0x70, 1, 0, 0, 0, 3, 0, 0, 0, 0x61, 0x3D, 0x62]) =
    .ok { vendor := [0x70], comments := [([0x61], [0x62])] } := by decide
example : Ogg.parseOpusTags (Ogg.opusTagsSig ++ [1, 0, 0, 0, 0x70, 0xFF, 0xFF, 0xFF, 0xFF, 3, 0, 0, 0, 0x61, 0x3D, 0x62]) =
    .badSignature := by decide

-- C37_progress_annexb: a unit is returned from a stream cut into one-byte reads with a zero-length read inside
example : ∃ n r', AnnexB.nextNAL (AnnexB.init .h265 false [.data [0], .data [0], .data [1], .data [0x40], .data [],
    .data [0x01]]) = (.nal n, r') ∧ n.data = [0x40] := ⟨_, _, rfl, rfl⟩

-- C37_progress_rtpdump / C37_progress_rtpdump_new: a record with a 2-byte payload; a file with a valid preamble
example : (match Rtpdump.next [0, 10, 0, 2, 0, 0, 0, 5, 0xAA, 0xBB, 0x99] with
    | .ok (p, rest) => decide (rest = [0x99] ∧ p.payload = [0xAA, 0xBB]) | _ => false) = true := by decide
example : (match Rtpdump.newReader (Rtpdump.preamble 1 2 3 4 5004 ++ List.replicate 16 0 ++ [1, 2, 3]) with
    | .ok (_, rest) => decide (rest = [1, 2, 3]) | _ => false) = true := by decide

end WebrtcVerif.C37
