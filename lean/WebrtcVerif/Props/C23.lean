import WebrtcVerif.Model.MediaPath
/-!
# C23 — Media written to a local track arrives intact on the negotiated stream   (PARTIAL: this repository's glue)

"Once two PeerConnections have negotiated a track and connected, an RTP packet written to the local track
is read on the remote TrackRemote for that m-section. It arrives with the same payload, the SSRC the SDP
announced and the negotiated payload type, and the remote track reports the negotiated codec, stream ID and
track ID."

Theorem about the composition sender-binding → (assumed identity transport) → receiver resolution. SRTP, ICE,
DTLS and the interceptors are NOT modelled; the correspondence run exercises them on real connections.
-/
set_option linter.unusedSimpArgs false

namespace WebrtcVerif.C23
open WebrtcVerif.StaticRtp WebrtcVerif.MediaPath

/-- If the negotiated list contains a codec matching the track's (so `Bind` succeeds) and payload types are
    unique in the negotiated list, then every packet written to the local track is read on the remote track
    created for the announced SSRC: same payload, sequence number, timestamp and marker; SSRC = the
    announced one; payload type = the negotiated payload type of the bound codec; and the remote track
    reports that codec and the sender's stream and track ids. -/
theorem C23_end_to_end_partial (s : Sender) (p : Packet) (t : Track) (c : Codec)
    (hb : s.bound = (t, some c)) (huniq : ∀ c' ∈ s.negotiated, c'.pt = c.pt → c' = c) (hmem : c ∈ s.negotiated) :
    ∃ d, wire (writeRTP t p).deliveries = [d] ∧
      ∃ rt, receive s.negotiated (receiverFor s.announced) d = some (rt, d.hdr, p.payload) ∧
        d.hdr.ssrc = s.announced.ssrc ∧ d.hdr.pt = c.pt ∧
        d.hdr.seq = p.hdr.seq ∧ d.hdr.ts = p.hdr.ts ∧ d.hdr.marker = p.hdr.marker ∧
        rt.codec = some c ∧ rt.streamID = s.track.streamID ∧ rt.trackID = s.track.trackID := by
  unfold Sender.bound StaticRtp.bind at hb
  split at hb
  · rename_i c0 hc0
    injection hb with ht hc
    injection hc with hc
    subst hc; subst ht
    have hfind : codecByPT s.negotiated c0.pt = some c0 := by
      unfold codecByPT
      have : ∃ x, s.negotiated.find? (fun x => x.pt == c0.pt) = some x := by
        rw [← Option.isSome_iff_exists, List.find?_isSome]
        exact ⟨c0, hmem, by simp⟩
      obtain ⟨x, hx⟩ := this
      have hxm := List.mem_of_find?_eq_some hx
      have hxp := List.find?_some hx
      rw [hx, huniq x hxm (by simpa using hxp)]
    refine ⟨_, rfl, ?_⟩
    by_cases hpad : (p.paddingSize != 0 && p.hdr.paddingSize == 0) = true <;>
      simp [writeRTP, writeLoop, writeOne, Mem.set, Mem.get, bindingOf, receive, receiverFor, Sender.announced,
        hfind, hpad]
  · cases hb

/-- Nothing is delivered on a track whose SSRC differs from the packet's (no cross-talk between streams). -/
theorem C23_no_crosstalk (neg : List Codec) (t : RemoteTrack) (d : Delivery) (h : d.hdr.ssrc ≠ t.ssrc) :
    receive neg t d = none := by
  simp [receive, h]

-- non-vacuity: a VP8 track against a negotiated list that maps VP8 to payload type 96
example :
    let vp8 : Codec := { mime := "video/VP8".toList, clockRate := 90000, channels := 0, fmtp := [], pt := 96 }
    let s : Sender := { track := { codec := { vp8 with pt := 0 }, streamID := ['s'], trackID := ['t'] }, ssrc := 1234,
                        negotiated := [vp8] }
    (s.bound).2 = some vp8 := by decide

end WebrtcVerif.C23
