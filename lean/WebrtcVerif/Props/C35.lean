import WebrtcVerif.Model.H26xWriter
import WebrtcVerif.Spec.H26xPacket
import WebrtcVerif.Proofs.H26xWriterLemmas
/-!
# C35 — H.264/H.265 writers emit the packetized NAL units once a keyframe arrives

"For any NAL sequence packetized by pion's H.264/H.265 payloaders (single NAL, aggregation and
fragmentation packets), the H264Writer/H265Writer output read back by the matching reader is exactly the
NAL units from the first keyframe onward, in order. A keyframe here means the first SPS or IDR for H.264,
and the first VPS/SPS/PPS/IDR for H.265."

Reading.  "Any NAL sequence packetized …" is `plan : List G264` / `List G265` (`Spec/H26xPacket.lean`): every
way of carrying a sequence of NAL units as single-NAL-unit packets, STAP-A/AP aggregates of consecutive
units and FU-A/FU fragments with arbitrary cut points — the payload formats of RFC 6184 / RFC 7798 that
pion's payloaders produce (the payloaders themselves are external; the correspondence run feeds their real
output through the judge's `decode…`, the inverse of `encode…`).  `write264 / write265` is the model of
`WriteRTP` applied to the payloads in order, `readBack` the model of h264reader/h265reader with SEI
inclusion on.  Units must be something Annex-B can carry (`wf`: non-empty, no emulated start code, no
trailing zero), as for C34.

State of the code (after `fix: h264writer recognises IDR units …`): four recorded findings remain
(known_findings.json): `h264-stap-prefix`, `h264-short-packet-not-keyframe`, `h265-fu-type-bits`,
`h265-ap-prefix`.  So for each codec the file has the full statement as a `def`, counterexample theorems,
the exact characterisation of what *is* written for every packetisation (no exclusions), and the property
itself under a decidable condition (`clean264` / `clean265`) that excludes exactly those findings.
-/
namespace WebrtcVerif.C35
open WebrtcVerif.Bytes WebrtcVerif.H26xWriter WebrtcVerif.H26xPacket

/-! ## the reader -/

/-- The matching reader returns exactly the framed units, in order, then end of stream — for any number
    of well-formed units of any length. -/
theorem C35_readback_roundtrip (nals : List Bs) (hwf : ∀ n ∈ nals, wf n = true) :
    readBack (annexB nals) = (nals, .eof) :=
  readBack_annexB nals hwf

example : wf [0x67, 0x42, 0x00, 0x00, 0x03, 0x01] = true := by decide

/-! ## H.264 -/

/-- the property, full strength -/
def C35_h264_Full : Prop :=
  ∀ plan : List G264, (∀ g ∈ plan, g.valid = true) → (∀ n ∈ nals264 plan, wf n = true) →
    readBack (write264 (encode264 plan)) = ((nals264 plan).dropWhile (fun n => !key264 n), .eof)

/-- Finding `h264-stap-prefix`: STAP-A[P, SPS] — the P slice aggregated before the SPS is written too. -/
theorem C35_h264_counterexample_stap_prefix : ¬ C35_h264_Full := by
  intro h
  have := h [.stapA 0x18 [[0x41, 0xaa], [0x67, 0x42, 0x80]]] (by decide) (by decide)
  revert this; decide

/-- Finding `h264-short-packet-not-keyframe`: a three-byte SPS, then a P slice — nothing is written. -/
theorem C35_h264_counterexample_short_packet : ¬ C35_h264_Full := by
  intro h
  have := h [.single [0x67, 0x42, 0x80], .single [0x41, 0x9a, 0x80]] (by decide) (by decide)
  revert this; decide

/-- …the same through FU-A: the start fragment of the SPS carries a single byte. -/
theorem C35_h264_counterexample_short_fragment : ¬ C35_h264_Full := by
  intro h
  have := h [.fuA 0x67 [[0x42], [0x80]], .single [0x41, 0x9a, 0x80]] (by decide) (by decide)
  revert this; decide

/-- What the H.264 writer writes, for **every** packetisation: the Annex-B framing of all units from the
    first group the gate latches on (`latches264`: the group carries an SPS/IDR and its first payload has
    the four bytes `isKeyFrame` reads). -/
theorem C35_h264_written_exact (plan : List G264) (hv : ∀ g ∈ plan, g.valid = true) :
    write264 (encode264 plan) = annexB (afterLatch lk264 G264.nals plan) :=
  write264_exact plan hv

/-- Nothing at all is written while no payload passes the key-frame test — for arbitrary payloads, not
    only well-formed packetisations. -/
theorem C35_h264_gate_closed (ps : List Bs) (hk : ∀ p ∈ ps, isKeyFrame264 p = false) :
    write264 ps = [] :=
  (run264_ignored ps hk).2

/-- The property for H.264 under the exclusion of the two recorded findings: bytes written … -/
theorem C35_h264_written_partial (plan : List G264) (hv : ∀ g ∈ plan, g.valid = true)
    (hc : clean264 plan = true) :
    write264 (encode264 plan) = annexB ((nals264 plan).dropWhile (fun n => !key264 n)) := by
  rw [write264_exact plan hv, afterLatch264_clean plan hc]

/-- … and read back by the matching reader: exactly the units from the first key frame on, in order. -/
theorem C35_h264_partial (plan : List G264) (hv : ∀ g ∈ plan, g.valid = true)
    (hwf : ∀ n ∈ nals264 plan, wf n = true) (hc : clean264 plan = true) :
    readBack (write264 (encode264 plan)) = ((nals264 plan).dropWhile (fun n => !key264 n), .eof) := by
  rw [C35_h264_written_partial plan hv hc]
  exact readBack_annexB _ (fun n hn => hwf n (dropWhile_subset _ _ n hn))

/-- [P, SEI, SPS+PPS in a STAP-A, fragmented IDR, P]: hypotheses satisfiable, and the answer is not trivial -/
example :
    let plan : List G264 := [.single [0x41, 0x9a, 0x02], .single [0x06, 0x05, 0x80],
      .stapA 0x78 [[0x67, 0x42, 0x00, 0x1f], [0x68, 0xce, 0x3c, 0x80]],
      .fuA 0x65 [[0x88, 0x80], [0x40, 0x00, 0x03], [0x7f]], .single [0x41, 0x9a, 0x04]]
    (∀ g ∈ plan, g.valid = true) ∧ (∀ n ∈ nals264 plan, wf n = true) ∧ clean264 plan = true ∧
    (nals264 plan).dropWhile (fun n => !key264 n) =
      [[0x67, 0x42, 0x00, 0x1f], [0x68, 0xce, 0x3c, 0x80], [0x65, 0x88, 0x80, 0x40, 0x00, 0x03, 0x7f],
       [0x41, 0x9a, 0x04]] := by decide

/-! ## H.265 -/

def C35_h265_Full : Prop :=
  ∀ plan : List G265, (∀ g ∈ plan, g.valid = true) → (∀ n ∈ nals265 plan, wf n = true) →
    readBack (write265 (encode265 plan)) = ((nals265 plan).dropWhile (fun n => !key265 n), .eof)

/-- Finding `h265-fu-type-bits`: a fragmented IDR_W_RADL, then TRAIL_R — nothing is written, because
    `isKeyFrame` takes `(fuHeader & 0x7E) >> 1` for the unit type. -/
theorem C35_h265_counterexample_fu_missed : ¬ C35_h265_Full := by
  intro h
  have := h [.fu 0x26 0x01 [[0xaa, 0xbb], [0xcc, 0xdd]], .single [0x02, 0x01, 0xee, 0xff]] (by decide) (by decide)
  revert this; decide

/-- Same finding, other direction: a fragmented prefix SEI (type 39) passes for IDR at its start fragment
    and is written although the first key frame (VPS) only follows. -/
theorem C35_h265_counterexample_fu_false_start : ¬ C35_h265_Full := by
  intro h
  have := h [.fu 0x4e 0x01 [[0xaa, 0xbb], [0xcc, 0xdd]], .single [0x40, 0x01, 0xaa, 0xbb]] (by decide) (by decide)
  revert this; decide

/-- Same finding: the end fragment of a fragmented TRAIL_R (type 1) passes for VPS; the TRAIL_R after it is
    written before the first key frame. -/
theorem C35_h265_counterexample_fu_false_end : ¬ C35_h265_Full := by
  intro h
  have := h [.fu 0x02 0x01 [[0xaa, 0xbb], [0xcc, 0xdd]], .single [0x02, 0x01, 0xee, 0xff],
    .single [0x40, 0x01, 0xaa, 0xbb]] (by decide) (by decide)
  revert this; decide

/-- Finding `h265-ap-prefix`: AP[TRAIL_R, VPS] — the TRAIL_R aggregated before the VPS is written too. -/
theorem C35_h265_counterexample_ap_prefix : ¬ C35_h265_Full := by
  intro h
  have := h [.ap 0x60 0x01 [[0x02, 0x01, 0xee, 0xff], [0x40, 0x01, 0xaa, 0xbb]]] (by decide) (by decide)
  revert this; decide

/-- What the H.265 writer writes, for **every** packetisation: the Annex-B framing of the units after the
    first group the gate latches on — `lk265` says per group whether the gate ignores it, latches on its
    first payload (the group is written whole) or latches on the end fragment of a fragmented type 0–5
    unit (nothing of that unit is written). -/
theorem C35_h265_written_exact (plan : List G265) (hv : ∀ g ∈ plan, g.valid = true) :
    write265 (encode265 plan) = annexB (afterLatch lk265 G265.nals plan) :=
  write265_exact plan hv

theorem C35_h265_gate_closed (ps : List Bs) (hk : ∀ p ∈ ps, isKeyFrame265 p = false) :
    write265 ps = [] :=
  (run265_ignored ps hk).2

theorem C35_h265_written_partial (plan : List G265) (hv : ∀ g ∈ plan, g.valid = true)
    (hc : clean265 plan = true) :
    write265 (encode265 plan) = annexB ((nals265 plan).dropWhile (fun n => !key265 n)) := by
  rw [write265_exact plan hv, afterLatch265_clean plan hc]

/-- The property for H.265 under the exclusion of the two recorded findings. -/
theorem C35_h265_partial (plan : List G265) (hv : ∀ g ∈ plan, g.valid = true)
    (hwf : ∀ n ∈ nals265 plan, wf n = true) (hc : clean265 plan = true) :
    readBack (write265 (encode265 plan)) = ((nals265 plan).dropWhile (fun n => !key265 n), .eof) := by
  rw [C35_h265_written_partial plan hv hc]
  exact readBack_annexB _ (fun n hn => hwf n (dropWhile_subset _ _ n hn))

/-- [TRAIL_R, fragmented RADL_N (type 6), AP[VPS, SPS, PPS], fragmented IDR_W_RADL, TRAIL_R] -/
example :
    let plan : List G265 := [.single [0x02, 0x01, 0xd0], .fu 0x0c 0x01 [[0x11], [], [0x22, 0x33]],
      .ap 0x60 0x01 [[0x40, 0x01, 0x0c], [0x42, 0x01, 0x01, 0x60], [0x44, 0x01, 0xc1]],
      .fu 0x26 0x01 [[0xaf, 0x00], [0x00, 0x03, 0x09]], .single [0x02, 0x02, 0xd4]]
    (∀ g ∈ plan, g.valid = true) ∧ (∀ n ∈ nals265 plan, wf n = true) ∧ clean265 plan = true ∧
    (nals265 plan).dropWhile (fun n => !key265 n) =
      [[0x40, 0x01, 0x0c], [0x42, 0x01, 0x01, 0x60], [0x44, 0x01, 0xc1],
       [0x26, 0x01, 0xaf, 0x00, 0x00, 0x03, 0x09], [0x02, 0x02, 0xd4]] := by decide

/-! ## the latch, for arbitrary payloads -/

/-- Once a key frame has been seen the H.264 writer never goes back to discarding: for any state and any
    payload bytes whatsoever. -/
theorem C35_h264_latch_monotone (s : St264) (p : Bs) (h : s.hasKeyFrame = true) :
    (writeRTP264 s p).1.hasKeyFrame = true := by
  unfold writeRTP264
  split
  · exact h
  · split
    · exact h
    · rfl

theorem C35_h265_latch_monotone (s : St265) (p : Bs) (h : s.hasKeyFrame = true) :
    (writeRTP265 s p).1.hasKeyFrame = true := by
  unfold writeRTP265
  split
  · exact h
  · split
    · exact h
    · rfl

/-- Before the latch, a payload that fails the key-frame test leaves the whole writer state (latch and
    depacketizer) untouched and writes nothing. -/
theorem C35_h264_discard_is_noop (s : St264) (p : Bs) (h : s.hasKeyFrame = false) (hk : isKeyFrame264 p = false) :
    writeRTP264 s p = (s, .skip) := by
  simp [writeRTP264, h, hk]

theorem C35_h265_discard_is_noop (s : St265) (p : Bs) (h : s.hasKeyFrame = false) (hk : isKeyFrame265 p = false) :
    writeRTP265 s p = (s, .skip) := by
  simp [writeRTP265, h, hk]

example : isKeyFrame264 [0x41, 0x9a, 0x02, 0x05] = false ∧ isKeyFrame265 [0x02, 0x01, 0xd0] = false := by decide

/-! ## the judge's domain

  The judge (`Drv/C35.lean`) recovers the packetisation from the observed payloads with `decode264` /
  `decode265` and evaluates the property on it.  These decoders invert `encode…` on every valid
  packetisation, so every input the theorems above speak about is recognised and judged against the same
  unit sequence. -/

theorem C35_judge_decodes_h264 (plan : List G264) (hv : ∀ g ∈ plan, g.valid = true) :
    decode264 (encode264 plan) = some plan :=
  decode264_encode plan hv

theorem C35_judge_decodes_h265 (plan : List G265) (hv : ∀ g ∈ plan, g.valid = true) :
    decode265 (encode265 plan) = some plan :=
  decode265_encode plan hv

end WebrtcVerif.C35
