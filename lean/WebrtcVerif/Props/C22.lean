import WebrtcVerif.Model.ConnState
/-!
# C22 — Connection state is the W3C aggregate of ICE and DTLS states

"The PeerConnection's connection state is always the W3C-specified aggregate of its closed flag, ICE
connection state and DTLS transport state; a change notification is issued only when it changes."
-/
namespace WebrtcVerif.C22
open WebrtcVerif.ConnState

/-- The code's switch computes the W3C aggregate on every named input: the quantifier is the finite
    table 2 × 7 × 5, enumerated completely by case analysis. -/
theorem C22_aggregate_is_w3c (c : Bool) (i : Ice) (d : Dtls) (hi : i.named = true) (hd : d.named = true) :
    w3c c i d = some (aggregate c i d) := by
  cases c <;> cases i <;> cases d <;> first | rfl | (exact absurd hi (by decide)) | (exact absurd hd (by decide))

/-- No named input falls through the W3C list: some clause always applies. -/
theorem C22_total (c : Bool) (i : Ice) (d : Dtls) (hi : i.named = true) (hd : d.named = true) :
    (w3c c i d).isSome = true := by
  rw [C22_aggregate_is_w3c c i d hi hd]; rfl

/-- The closed flag dominates. -/
theorem C22_closed_dominates (i : Ice) (d : Dtls) : aggregate true i d = .closed := rfl

private theorem noRepeat_append_ne (l : List Pc) (last c : Pc) (hl : l.getLast? = some last)
    (hne : last ≠ c) (h : noRepeat l = true) : noRepeat (l ++ [c]) = true := by
  induction l with
  | nil => simp at hl
  | cons a t ih =>
    cases t with
    | nil =>
      simp at hl; subst hl
      simp [noRepeat, hne]
    | cons b t' =>
      simp only [List.cons_append, noRepeat, Bool.and_eq_true] at h ⊢
      refine ⟨h.1, ?_⟩
      apply ih
      · simpa using hl
      · exact h.2

/-- Invariant of the notification log: neighbours differ, and its last element (if any) is the stored state. -/
def LogInv (s : St) : Prop :=
  noRepeat s.notified = true ∧ (s.notified = [] ∨ s.notified.getLast? = some s.state)

theorem update_preserves (s : St) (inp : Bool × Ice × Dtls) (h : LogInv s) : LogInv (update s inp) := by
  unfold update
  simp only
  split
  · exact h
  · rename_i hne
    refine ⟨?_, Or.inr (by simp)⟩
    rcases h.2 with hnil | hlast
    · simp [hnil, noRepeat]
    · exact noRepeat_append_ne _ _ _ hlast hne h.1

/-- A notification is issued only on change: for every sequence of updates starting from a state whose
    log is empty, the handler never sees the same value twice in a row, and the last value it saw is the
    stored state. -/
theorem C22_notify_only_on_change (s0 : Pc) (inps : List (Bool × Ice × Dtls)) :
    LogInv (run { state := s0 } inps) := by
  have : ∀ (s : St), LogInv s → LogInv (run s inps) := by
    induction inps with
    | nil => intro s h; exact h
    | cons x xs ih => intro s h; exact ih _ (update_preserves s x h)
  exact this _ ⟨rfl, Or.inl rfl⟩

/-- After any non-empty sequence the stored state is the aggregate of the most recent inputs. -/
theorem C22_state_is_latest_aggregate (s : St) (inps : List (Bool × Ice × Dtls)) (x : Bool × Ice × Dtls) :
    (run s (inps ++ [x])).state = aggregate x.1 x.2.1 x.2.2 := by
  simp only [run, List.foldl_append, List.foldl_cons, List.foldl_nil]
  unfold update
  simp only
  split
  · rename_i h; exact h
  · rfl

/-- First notified value differs from the initial state (so "only when it changes" also holds for the first call). -/
theorem C22_first_notification_differs (s0 : Pc) (x : Bool × Ice × Dtls) (c : Pc)
    (h : (update { state := s0 } x).notified = [c]) : c ≠ s0 := by
  unfold update at h
  simp only at h
  split at h
  · simp at h
  · rename_i hne
    simp at h; subst h; exact fun e => hne e.symm

-- non-vacuity: a concrete non-trivial run
example : (run { state := .new } [(false, .checking, .new), (false, .connected, .connecting),
    (false, .connected, .connected), (false, .connected, .connected), (true, .closed, .closed)]).notified
    = [.connecting, .connected, .closed] := by decide

/-! ## The call sites (live tier)

The theorems above are about `updateConnectionState` as a function of its arguments.  The ones below are about
the transition system `ConnState.step` of the places that call it (ICE state handler, `startTransports` after the
DTLS start, `close()`), for ALL finite sequences of such steps.  Each step is atomic: the window between
computing the aggregate and taking `pc.mu` inside `updateConnectionState`, and its race with `Close`, is C21's
model, not this one. -/

@[simp] theorem sync_closed (s : Sys) : s.sync.closed = s.closed := rfl
@[simp] theorem sync_ice (s : Sys) : s.sync.ice = s.ice := rfl
@[simp] theorem sync_dtls (s : Sys) : s.sync.dtls = s.dtls := rfl

/-- An update stores the aggregate of the values it was called with. -/
theorem sync_conn (s : Sys) : s.sync.conn = aggregate s.closed s.ice s.dtls := by
  unfold Sys.sync update
  simp only
  split
  · rename_i h; exact h
  · rfl

/-- … and tells the handler exactly when that differs from what was stored. -/
theorem sync_notes (s : Sys) :
    s.sync.notes = s.notes ++ (if aggregate s.closed s.ice s.dtls = s.conn then [] else [aggregate s.closed s.ice s.dtls]) := by
  unfold Sys.sync update
  simp only
  split
  · rename_i h; simp [h.symm]
  · rename_i h
    have : ¬ aggregate s.closed s.ice s.dtls = s.conn := fun e => h e.symm
    simp [this]

/-- Steps that end in a call of `updateConnectionState`. -/
def updates (s : Sys) : Act → Bool
  | .ice i => i != .unknown
  | .dtlsBegin => false
  | .close => !s.closed
  | _ => true

/-- **At every update** the stored state is the aggregate of the closed flag and the transport states as they
    are at that moment — from any state whatsoever, reachable or not. -/
theorem C22_sites_every_update_stores_aggregate (s : Sys) (a : Act) (h : updates s a = true) :
    (step s a).conn = aggregate (step s a).closed (step s a).ice (step s a).dtls := by
  cases a with
  | ice i =>
    have hi : i ≠ .unknown := by simpa [updates] using h
    simp [step, hi, sync_conn]
  | dtlsBegin => simp [updates] at h
  | dtlsConnected => simp [step, sync_conn]
  | dtlsStartFails => simp [step, sync_conn]
  | dtlsStartRefused => simp [step, sync_conn]
  | close =>
    have hc : s.closed = false := by simpa [updates] using h
    simp [step, hc, sync_conn]

example : updates Sys.init .dtlsStartFails = true := rfl

theorem sync_notes' (s : Sys) :
    s.sync.notes = s.notes ++ (if s.sync.conn = s.conn then [] else [s.sync.conn]) := by
  rw [sync_notes]
  simp only [sync_conn]

/-- The handler is told exactly the changes of the stored state, one step at a time. -/
theorem step_notes (s : Sys) (a : Act) :
    (step s a).notes = s.notes ++ (if (step s a).conn = s.conn then [] else [(step s a).conn]) := by
  cases a with
  | ice i =>
    by_cases hi : i = .unknown
    · simp [step, hi]
    · simp only [step, hi, if_false]; exact sync_notes' _
  | dtlsBegin => simp only [step]; split <;> simp
  | dtlsConnected => exact sync_notes' _
  | dtlsStartFails => exact sync_notes' _
  | dtlsStartRefused => exact sync_notes' _
  | close =>
    simp only [step]
    split
    · simp
    · exact sync_notes' _

/-- **The notification log is exactly the sequence of distinct successive values of the stored state**, for
    every sequence of call-site steps from every state: nothing is reported twice, nothing is skipped. -/
theorem C22_sites_log_is_changes (s : Sys) (as : List Act) :
    (exec s as).notes = s.notes ++ changes s.conn (history s as) := by
  induction as generalizing s with
  | nil => simp [exec, history, changes]
  | cons a as ih =>
    have := ih (step s a)
    simp only [exec, List.foldl_cons] at this ⊢
    rw [this, step_notes s a]
    simp only [history, changes]
    split <;> simp_all

/-- For a fresh PeerConnection: the handler has seen precisely the changes of `ConnectionState()`. -/
theorem C22_sites_log_is_changes_from_new (as : List Act) :
    (exec Sys.init as).notes = changes .new (history Sys.init as) := by
  simpa [Sys.init] using C22_sites_log_is_changes Sys.init as

/-- nothing follows `closed` in a log -/
def closedLast (l : List Pc) : Bool := (l.dropWhile (· != .closed)).length ≤ 1

/-- The invariant of the call sites. -/
structure SiteInv (s : Sys) : Prop where
  /-- the stored state is the aggregate of the current values, except that the un-notified `new → connecting`
      of the DTLS transport may not have been taken into account yet -/
  agg : s.conn = aggregate s.closed s.ice s.dtls ∨ (s.dtls = .connecting ∧ s.conn = aggregate s.closed s.ice .new)
  /-- the log, prefixed by the initial state, has no two equal neighbours and ends in the stored state -/
  norep : noRepeat (.new :: s.notes) = true
  last : (Pc.new :: s.notes).getLast? = some s.conn
  named : s.ice.named = true ∧ s.dtls.named = true
  /-- `closed` is reported only for a closed PeerConnection, and then it is the last thing reported -/
  noClosed : s.closed = false → Pc.closed ∉ s.notes
  closedLast : closedLast s.notes = true

private theorem aggregate_closed_iff (c : Bool) (i : Ice) (d : Dtls) : aggregate c i d = .closed ↔ c = true := by
  cases c <;> cases i <;> cases d <;> decide

private theorem dropWhile_not_mem (l : List Pc) (h : Pc.closed ∉ l) : l.dropWhile (· != .closed) = [] := by
  induction l with
  | nil => rfl
  | cons a t ih =>
    have ha : a ≠ .closed := fun e => h (by simp [e])
    have ht : Pc.closed ∉ t := fun e => h (by simp [e])
    rw [List.dropWhile_cons]; simp [ha, ih ht]

private theorem closedLast_append (l : List Pc) (c : Pc) (h : Pc.closed ∉ l) : closedLast (l ++ [c]) = true := by
  unfold closedLast
  induction l with
  | nil => by_cases hc : c = .closed <;> simp [List.dropWhile, hc]
  | cons a t ih =>
    have ha : a ≠ .closed := fun e => h (by simp [e])
    have ht : Pc.closed ∉ t := fun e => h (by simp [e])
    rw [List.cons_append, List.dropWhile_cons]; simpa [ha] using ih ht

private theorem norep_snoc (l : List Pc) (c : Pc) (last : Pc) (hl : (Pc.new :: l).getLast? = some last)
    (hne : last ≠ c) (h : noRepeat (.new :: l) = true) : noRepeat (.new :: (l ++ [c])) = true := by
  have := noRepeat_append_ne (.new :: l) last c hl hne h
  simpa using this

/-- An update from a state satisfying the invariant's log clauses re-establishes everything, provided `closed`
    was never reported while the flag is down. -/
private theorem sync_inv (s : Sys) (norep : noRepeat (.new :: s.notes) = true)
    (last : (Pc.new :: s.notes).getLast? = some s.conn) (named : s.ice.named = true ∧ s.dtls.named = true)
    (noClosed : s.closed = false → Pc.closed ∉ s.notes) (cl : closedLast s.notes = true)
    (hclosedconn : s.closed = true → Pc.closed ∈ s.notes → s.conn = .closed) :
    SiteInv s.sync := by
  by_cases hEq : aggregate s.closed s.ice s.dtls = s.conn
  · have hn : s.sync.notes = s.notes := by rw [sync_notes]; simp [hEq]
    have hc : s.sync.conn = s.conn := by rw [sync_conn]; exact hEq
    exact { agg := Or.inl (by rw [sync_conn]; rfl), norep := by rw [hn]; exact norep,
            last := by rw [hn, hc]; exact last, named := named,
            noClosed := by rw [hn]; exact noClosed, closedLast := by rw [hn]; exact cl }
  · have hn : s.sync.notes = s.notes ++ [aggregate s.closed s.ice s.dtls] := by rw [sync_notes]; simp [hEq]
    have hne : s.conn ≠ aggregate s.closed s.ice s.dtls := fun e => hEq e.symm
    refine { agg := Or.inl (by rw [sync_conn]; rfl), norep := ?_, last := ?_, named := named,
             noClosed := ?_, closedLast := ?_ }
    · rw [hn]; exact norep_snoc _ _ _ last hne norep
    · rw [hn, sync_conn, ← List.cons_append, List.getLast?_append]; simp
    · intro hc
      have hc' : s.closed = false := hc
      rw [hn]
      intro hmem
      rcases List.mem_append.mp hmem with h | h
      · exact noClosed hc' h
      · have : aggregate s.closed s.ice s.dtls = .closed := by
          have := List.mem_singleton.mp h
          exact this.symm
        rw [aggregate_closed_iff] at this
        rw [this] at hc'; cases hc'
    · rw [hn]
      by_cases hc : s.closed = true
      · -- the flag is up and the stored state differs from `closed`: `closed` was not reported before
        apply closedLast_append
        intro hmem
        have := hclosedconn hc hmem
        apply hne
        rw [this]; exact ((aggregate_closed_iff _ _ _).mpr hc).symm
      · have hc' : s.closed = false := by simpa using hc
        exact closedLast_append _ _ (noClosed hc')

theorem step_preserves (s : Sys) (a : Act) (h : SiteInv s) : SiteInv (step s a) := by
  have hcc : ∀ (i : Ice) (d : Dtls), s.closed = true → s.conn = .closed := by
    intro _ _ hc
    rcases h.agg with e | ⟨_, e⟩ <;> rw [e] <;> exact (aggregate_closed_iff _ _ _).mpr hc
  cases a with
  | ice i =>
    by_cases hi : i = .unknown
    · simpa [step, hi] using h
    · simp only [step, hi, if_false]
      apply sync_inv
      · exact h.norep
      · exact h.last
      · exact ⟨by cases i <;> first | rfl | exact absurd rfl hi, h.named.2⟩
      · exact h.noClosed
      · exact h.closedLast
      · exact fun hc _ => hcc .new .new hc
  | dtlsBegin =>
    simp only [step]
    split
    · rename_i hd
      refine { agg := Or.inr ⟨rfl, ?_⟩, norep := h.norep, last := h.last, named := ⟨h.named.1, rfl⟩,
               noClosed := h.noClosed, closedLast := h.closedLast }
      rcases h.agg with e | ⟨hd', _⟩
      · simpa [hd] using e
      · rw [hd] at hd'; cases hd'
    · exact h
  | dtlsConnected =>
    simp only [step]
    exact sync_inv _ h.norep h.last ⟨h.named.1, rfl⟩ h.noClosed h.closedLast (fun hc _ => hcc .new .new hc)
  | dtlsStartFails =>
    simp only [step]
    exact sync_inv _ h.norep h.last ⟨h.named.1, rfl⟩ h.noClosed h.closedLast (fun hc _ => hcc .new .new hc)
  | dtlsStartRefused =>
    simp only [step]
    exact sync_inv _ h.norep h.last h.named h.noClosed h.closedLast (fun hc _ => hcc .new .new hc)
  | close =>
    simp only [step]
    split
    · exact h
    · rename_i hc
      have hc' : s.closed = false := by simpa using hc
      apply sync_inv
      · exact h.norep
      · exact h.last
      · exact ⟨h.named.1, rfl⟩
      · intro e; cases e
      · exact h.closedLast
      · intro _ hmem; exact absurd hmem (h.noClosed hc')

/-- **Invariant of the call sites**, for all sequences of ICE state changes, DTLS starts (succeeding, failing,
    refused) and `Close` calls, by induction over `Reachable`. -/
theorem C22_sites_invariant (s : Sys) (h : Reachable s) : SiteInv s := by
  induction h with
  | init =>
    exact { agg := Or.inl (by decide), norep := by decide, last := by decide, named := by decide,
            noClosed := (by intro _ h; cases h), closedLast := by decide }
  | step a _ ih => exact step_preserves _ a ih

/-- `Reachable` is "after some finite sequence of steps from a fresh PeerConnection". -/
theorem C22_sites_reachable_iff (s : Sys) : Reachable s ↔ ∃ as, s = exec Sys.init as := by
  constructor
  · intro h
    induction h with
    | init => exact ⟨[], rfl⟩
    | step a _ ih =>
      obtain ⟨as, e⟩ := ih
      exact ⟨as ++ [a], by simp [exec, List.foldl_append, e]⟩
  · rintro ⟨as, e⟩
    subst e
    have : ∀ (s : Sys), Reachable s → Reachable (exec s as) := by
      induction as with
      | nil => intro s h; exact h
      | cons a as ih => intro s h; exact ih _ (Reachable.step a h)
    exact this _ Reachable.init

/-- **Whenever no update is outstanding, `ConnectionState()` is the aggregate of the CURRENT closed flag, ICE
    connection state and DTLS transport state** — whatever sequence of transport events and `Close` calls led
    there.  This is what the live tier observes on settled loopback pairs. -/
theorem C22_sites_settled_is_aggregate (s : Sys) (h : Reachable s) (hq : s.quiescent = true) :
    s.conn = aggregate s.closed s.ice s.dtls := by
  rcases (C22_sites_invariant s h).agg with e | ⟨hd, e⟩
  · exact e
  · rw [e, hd]
    have hq' : s.closed = true ∨ (s.ice ≠ .new ∧ s.ice ≠ .closed) := by
      simpa [Sys.quiescent, hd] using hq
    rcases hq' with hc | ⟨h1, h2⟩
    · rw [hc]; rfl
    · cases hs : s.closed <;> cases hi : s.ice <;> simp_all [aggregate]

/-- … hence the W3C value, stated with the independently written precedence list. -/
theorem C22_sites_settled_is_w3c (s : Sys) (h : Reachable s) (hq : s.quiescent = true) :
    w3c s.closed s.ice s.dtls = some s.conn := by
  have inv := C22_sites_invariant s h
  rw [C22_sites_settled_is_aggregate s h hq]
  exact C22_aggregate_is_w3c _ _ _ inv.named.1 inv.named.2

/-- The hypothesis `quiescent` is needed and excludes only the un-notified `new → connecting` of the DTLS
    transport while the stored ICE state is still `new`: `DTLSTransport.Start` changes the DTLS state without
    an update of its own (the PeerConnection registers no DTLS state handler).  The next update of any kind
    repairs it (`C22_sites_every_update_stores_aggregate` holds from every state). -/
theorem C22_sites_lag_without_quiescence :
    ∃ s, Reachable s ∧ s.quiescent = false ∧ s.conn ≠ aggregate s.closed s.ice s.dtls :=
  ⟨step Sys.init .dtlsBegin, Reachable.step _ Reachable.init, by decide, by decide⟩

/-- Once closed, always `closed`, and the handler hears nothing more. -/
theorem C22_sites_closed_is_final (s : Sys) (h : Reachable s) (hc : s.closed = true) (as : List Act) :
    (exec s as).conn = .closed ∧ (exec s as).notes = s.notes ∧ (exec s as).closed = true := by
  induction as generalizing s with
  | nil =>
    refine ⟨?_, rfl, hc⟩
    rcases (C22_sites_invariant s h).agg with e | ⟨_, e⟩ <;> simp [exec, e, hc, aggregate]
  | cons a as ih =>
    have hr : Reachable (step s a) := Reachable.step a h
    have hconn : s.conn = .closed := by
      rcases (C22_sites_invariant s h).agg with e | ⟨_, e⟩ <;> simp [e, hc, aggregate]
    have hcl : (step s a).closed = true := by
      cases a <;> simp [step, hc] <;> (try split) <;> simp [hc]
    have hconn' : (step s a).conn = .closed := by
      rcases (C22_sites_invariant _ hr).agg with e | ⟨_, e⟩ <;> simp [e, hcl, aggregate]
    have hn : (step s a).notes = s.notes := by
      rw [step_notes, hconn', hconn]; simp
    have := ih (step s a) hr hcl
    simp only [exec, List.foldl_cons] at this ⊢
    rw [← hn]; exact this

/-- **The live judge accepts every settled state the call sites can produce**: the verdict function used by
    `Drv.C22.judge` for `live` observations is `none` on every reachable quiescent state.  (So a rejection by the
    judge on the real system is a behaviour the model of the call sites does not have.) -/
theorem C22_sites_judge_accepts_settled (s : Sys) (h : Reachable s) (hq : s.quiescent = true) :
    liveVerdict s.closed s.ice s.dtls s.conn s.notes = none := by
  have inv := C22_sites_invariant s h
  have hw := C22_sites_settled_is_w3c s h hq
  have hcu : s.conn ≠ .unknown := by
    rw [C22_sites_settled_is_aggregate s h hq]
    cases s.closed <;> cases s.ice <;> cases s.dtls <;> decide
  have hcl : ¬ ((s.notes.dropWhile (· != .closed)).length > 1) := by
    have := inv.closedLast
    simp only [closedLast, decide_eq_true_eq] at this
    omega
  unfold liveVerdict
  rw [if_neg (by simp [hw])]
  rw [if_neg (by simpa using hcu)]
  rw [if_neg hcl]
  rw [if_neg (by simp [inv.norep])]
  have hl := inv.last
  cases hn : s.notes.getLast? with
  | none =>
    have : s.notes = [] := by simpa using hn
    simp [this] at hl
    simp [hl.symm]
  | some l =>
    have : (Pc.new :: s.notes).getLast? = some l := by
      rw [List.getLast?_cons]; simp [hn]
    rw [this] at hl
    simp at hl
    simp [hl]

-- non-vacuity: ICE connects, the DTLS handshake fails (the seeded C22-3 scenario), later Close
example : (exec Sys.init [.ice .checking, .ice .connected, .dtlsBegin, .dtlsStartFails, .close, .ice .closed]).notes
    = [.connecting, .failed, .closed] := by decide
example : (exec Sys.init [.ice .checking, .ice .connected, .dtlsBegin, .dtlsStartFails]).quiescent = true := by decide
example : Reachable (exec Sys.init [.ice .checking, .ice .connected, .dtlsBegin, .dtlsConnected]) :=
  (C22_sites_reachable_iff _).mpr ⟨_, rfl⟩
example : (exec Sys.init [.ice .checking, .ice .connected, .dtlsBegin, .dtlsConnected, .ice .disconnected, .ice .failed]).notes
    = [.connecting, .connected, .disconnected, .failed] := by decide
example : ∃ s, Reachable s ∧ s.closed = true := ⟨step Sys.init .close, Reachable.step _ Reachable.init, by decide⟩

/-! ## Overlapping updates: a recorded finding

With the snapshot made explicit (`Sys2`), "the settled state is the aggregate of the current transport states"
is FALSE for the unchanged code: an update whose arguments were evaluated earlier can take the lock later and
replace the newer value.  Observed on the real code by `C22 live staleice 0` (judge key
`not-w3c-aggregate-stalled-update`; known_findings.json). -/

/-- The property for arbitrary overlap of the call sites' updates: when every caller has finished and no
    DTLS start is in flight, `ConnectionState()` is the aggregate of the current values. -/
def C22_sites_Full : Prop :=
  ∀ as : List Act2, (exec2 {} as).pending = [] → (exec2 {} as).base.quiescent = true →
    (exec2 {} as).base.conn = aggregate (exec2 {} as).base.closed (exec2 {} as).base.ice (exec2 {} as).base.dtls

/-- Witness: ICE connects; the ICE handler evaluates `(connected, connecting)` and is delayed; the DTLS handshake
    completes and `startTransports` stores `connected`; the delayed caller then stores `connecting`.  Every caller
    has finished, ICE and DTLS are connected, the PeerConnection says `connecting` (and told the handler so). -/
def staleWitness : List Act2 :=
  [.begin (.ice .checking), .commit 0, .begin .dtlsBegin, .begin (.ice .connected),
   .begin .dtlsConnected, .commit 1, .commit 0]

theorem C22_sites_counterexample : ¬ C22_sites_Full := by
  intro h
  exact absurd (h staleWitness (by decide) (by decide)) (by decide)

example : (exec2 {} staleWitness).base.notes = [.connecting, .connected, .connecting] := by decide
example : ((exec2 {} staleWitness).base.ice, (exec2 {} staleWitness).base.dtls, (exec2 {} staleWitness).base.conn)
    = (.connected, .connected, .connecting) := by decide

private theorem step2_serial (s : Sys) (a : Act) :
    step2 (step2 { base := s, pending := [] } (.begin a)) (.commit 0) = { base := step s a, pending := [] } := by
  cases a with
  | ice i =>
    by_cases hi : i = .unknown
    · simp [step2, prepare, step, hi]
    · simp [step2, prepare, step, hi, Sys.sync]
  | dtlsBegin => by_cases hd : s.dtls = .new <;> simp [step2, prepare, step, hd]
  | dtlsConnected => simp [step2, prepare, step, Sys.sync]
  | dtlsStartFails => simp [step2, prepare, step, Sys.sync]
  | dtlsStartRefused => simp [step2, prepare, step, Sys.sync]
  | close =>
    by_cases hc : s.closed = true
    · simp [step2, prepare, step, hc]
    · simp [step2, prepare, step, hc, Sys.sync]

/-- Serialized runs of the snapshot system are exactly the runs of the atomic system. -/
theorem C22_sites_serialized_is_atomic (s : Sys) (as : List Act) :
    exec2 { base := s, pending := [] } (serialize as) = { base := exec s as, pending := [] } := by
  induction as generalizing s with
  | nil => rfl
  | cons a as ih =>
    simp only [serialize, exec2, List.foldl_cons, exec] at ih ⊢
    rw [step2_serial]
    exact ih (step s a)

/-- **Partial**: the full statement holds for every run in which the call sites' updates do not overlap
    (hypothesis: the run is `serialize as` — it excludes exactly the overlap the finding needs). -/
theorem C22_sites_serialized_partial (as : List Act)
    (hq : (exec2 {} (serialize as)).base.quiescent = true) :
    (exec2 {} (serialize as)).pending = [] ∧
    (exec2 {} (serialize as)).base.conn =
      aggregate (exec2 {} (serialize as)).base.closed (exec2 {} (serialize as)).base.ice (exec2 {} (serialize as)).base.dtls := by
  have e : exec2 {} (serialize as) = { base := exec Sys.init as, pending := [] } :=
    C22_sites_serialized_is_atomic Sys.init as
  rw [e] at hq ⊢
  exact ⟨rfl, C22_sites_settled_is_aggregate _ ((C22_sites_reachable_iff _).mpr ⟨as, rfl⟩) hq⟩

example : (exec2 {} (serialize [.ice .checking, .ice .connected, .dtlsBegin, .dtlsConnected])).base.quiescent = true := by
  decide

end WebrtcVerif.C22
