import WebrtcVerif.Model.ConnState
/-!
# C22 — Connection state is the W3C aggregate of ICE and DTLS states

"The PeerConnection's connection state is always the W3C-specified aggregate of its closed flag, ICE
connection state and DTLS transport state; a change notification is issued only when it changes."
-/
namespace WebrtcVerif.C22
open WebrtcVerif.ConnState

/-- The code's switch computes the W3C aggregate on every named input: the quantifier is the finite
    table 2 × 7 × 5, enumerated completely by case analysis. -/
theorem C22_aggregate_is_w3c (c : Bool) (i : Ice) (d : Dtls) (hi : i.named = true) (hd : d.named = true) :
    w3c c i d = some (aggregate c i d) := by
  cases c <;> cases i <;> cases d <;> first | rfl | (exact absurd hi (by decide)) | (exact absurd hd (by decide))

/-- No named input falls through the W3C list: some clause always applies. -/
theorem C22_total (c : Bool) (i : Ice) (d : Dtls) (hi : i.named = true) (hd : d.named = true) :
    (w3c c i d).isSome = true := by
  rw [C22_aggregate_is_w3c c i d hi hd]; rfl

/-- The closed flag dominates. -/
theorem C22_closed_dominates (i : Ice) (d : Dtls) : aggregate true i d = .closed := rfl

private theorem noRepeat_append_ne (l : List Pc) (last c : Pc) (hl : l.getLast? = some last)
    (hne : last ≠ c) (h : noRepeat l = true) : noRepeat (l ++ [c]) = true := by
  induction l with
  | nil => simp at hl
  | cons a t ih =>
    cases t with
    | nil =>
      simp at hl; subst hl
      simp [noRepeat, hne]
    | cons b t' =>
      simp only [List.cons_append, noRepeat, Bool.and_eq_true] at h ⊢
      refine ⟨h.1, ?_⟩
      apply ih
      · simpa using hl
      · exact h.2

/-- Invariant of the notification log: neighbours differ, and its last element (if any) is the stored state. -/
def LogInv (s : St) : Prop :=
  noRepeat s.notified = true ∧ (s.notified = [] ∨ s.notified.getLast? = some s.state)

theorem update_preserves (s : St) (inp : Bool × Ice × Dtls) (h : LogInv s) : LogInv (update s inp) := by
  unfold update
  simp only
  split
  · exact h
  · rename_i hne
    refine ⟨?_, Or.inr (by simp)⟩
    rcases h.2 with hnil | hlast
    · simp [hnil, noRepeat]
    · exact noRepeat_append_ne _ _ _ hlast hne h.1

/-- A notification is issued only on change: for every sequence of updates starting from a state whose
    log is empty, the handler never sees the same value twice in a row, and the last value it saw is the
    stored state. -/
theorem C22_notify_only_on_change (s0 : Pc) (inps : List (Bool × Ice × Dtls)) :
    LogInv (run { state := s0 } inps) := by
  have : ∀ (s : St), LogInv s → LogInv (run s inps) := by
    induction inps with
    | nil => intro s h; exact h
    | cons x xs ih => intro s h; exact ih _ (update_preserves s x h)
  exact this _ ⟨rfl, Or.inl rfl⟩

/-- After any non-empty sequence the stored state is the aggregate of the most recent inputs. -/
theorem C22_state_is_latest_aggregate (s : St) (inps : List (Bool × Ice × Dtls)) (x : Bool × Ice × Dtls) :
    (run s (inps ++ [x])).state = aggregate x.1 x.2.1 x.2.2 := by
  simp only [run, List.foldl_append, List.foldl_cons, List.foldl_nil]
  unfold update
  simp only
  split
  · rename_i h; exact h
  · rfl

/-- First notified value differs from the initial state (so "only when it changes" also holds for the first call). -/
theorem C22_first_notification_differs (s0 : Pc) (x : Bool × Ice × Dtls) (c : Pc)
    (h : (update { state := s0 } x).notified = [c]) : c ≠ s0 := by
  unfold update at h
  simp only at h
  split at h
  · simp at h
  · rename_i hne
    simp at h; subst h; exact fun e => hne e.symm

-- non-vacuity: a concrete non-trivial run
example : (run { state := .new } [(false, .checking, .new), (false, .connected, .connecting),
    (false, .connected, .connected), (false, .connected, .connected), (true, .closed, .closed)]).notified
    = [.connecting, .connected, .closed] := by decide

end WebrtcVerif.C22
