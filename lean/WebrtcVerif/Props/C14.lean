import WebrtcVerif.Model.Fingerprint
import WebrtcVerif.Proofs.FingerprintLemmas
/-!
# C14 — DTLS authenticates the peer against the signaled fingerprint

"The fingerprint a PeerConnection advertises equals the SHA-256 fingerprint of the certificate its DTLS
transport presents. Unless fingerprint verification was explicitly disabled, a peer whose certificate doesn't
match any fingerprint in the applied remote description never reaches the DTLS connected state, and no
data-channel message or media from it is delivered."

Quantifier: generated and user-supplied ECDSA/RSA certificates; remote descriptions whose fingerprint is
correct, altered in any hex digit, uses a different hash name, sits at session vs media level, or is absent.

What is proved here is about the model `WebrtcVerif.Fingerprint` of this repository's code.  The hash
functions are an arbitrary parameter `D : Algo → DER → digest` (SHA-2 is *not* modelled: every theorem holds
for every `D`), x509 parsing and the DTLS handshake are trusted (`RawCert`, `handshakeRest`): pion/dtls is
assumed to invoke the VerifyPeerCertificate callback on the certificate the peer presented and to fail the
handshake when the callback returns an error.  The end-to-end cases of the harness exercise that assumption.
-/
namespace WebrtcVerif.C14
open WebrtcVerif.Fingerprint

/-- A certificate (DER `raw`) matches a signaled fingerprint entry: the hash name is one of the six registered
    names (any ASCII case) and the value equals the digest rendering up to ASCII case. -/
def FpMatches (D : Digest) (raw : Der) (fp : DtlsFp) : Prop :=
  ∃ a, hashFromString fp.algorithm = some a ∧ fp.value.map asciiLower = render (D a raw)

/-! ## Clause 1 — advertised = SHA-256 fingerprint of the presented certificate -/

/-- invariant of `SetConfiguration`: the first configured certificate has the DER bytes of the first
    certificate of the DTLS transport -/
def HeadsAgree (pc : PC) : Prop :=
  ∃ c c', pc.dtlsCerts.head? = some c ∧ pc.cfgCerts.head? = some c' ∧ c'.raw = c.raw

theorem newPC_headsAgree (supplied : List Cert) (g g2 : Cert) : HeadsAgree (newPC supplied g g2) := by
  unfold newPC HeadsAgree
  cases supplied with
  | nil => exact ⟨g, g, by simp, by simp, rfl⟩
  | cons c cs => exact ⟨c, c, by simp, by simp, rfl⟩

theorem setConfiguration_headsAgree (pc pc' : PC) (certs : List Cert) (h : HeadsAgree pc)
    (e : setConfiguration pc certs = some pc') : HeadsAgree pc' := by
  unfold setConfiguration at e
  split at e
  · split at e
    · cases e
    · split at e
      · rename_i hall
        cases e
        obtain ⟨c, c', h1, h2, h3⟩ := h
        cases hcfg : pc.cfgCerts with
        | nil => simp [hcfg] at h2
        | cons x xs =>
          cases certs with
          | nil => simp [hcfg, allEquals] at hall
          | cons y ys =>
            simp only [hcfg, allEquals, Bool.and_eq_true, Cert.equals, beq_iff_eq] at hall
            simp only [hcfg, List.head?_cons, Option.some.injEq] at h2
            subst h2
            exact ⟨c, y, h1, by simp, by rw [← hall.1.2]; exact h3⟩
      · cases e
  · cases e; exact h

theorem setConfigurations_headsAgree : ∀ (cfgs : List (List Cert)) (pc : PC), HeadsAgree pc →
    HeadsAgree (setConfigurations pc cfgs)
  | [], _, h => h
  | c :: cs, pc, h => by
    unfold setConfigurations
    apply setConfigurations_headsAgree cs
    cases e : setConfiguration pc c with
    | none => exact h
    | some pc' => exact setConfiguration_headsAgree pc pc' c h e

/-- **Advertised = presented.**  For every way of creating the PeerConnection (certificates supplied or
    generated) and every later sequence of `SetConfiguration` calls, the fingerprint list the SDP generator
    asks for is exactly one entry, named `sha-256`, whose value is the rendering of the SHA-256 digest of the
    DER bytes of the certificate `prepareStart` hands to pion/dtls.  Holds for every digest function `D`. -/
theorem C14_advertised_is_presented (D : Digest) (supplied : List Cert) (g g2 : Cert) (cfgs : List (List Cert)) :
    ∃ c, presented (setConfigurations (newPC supplied g g2) cfgs) = some c ∧
      advertised D (setConfigurations (newPC supplied g g2) cfgs)
        = some [{ algorithm := Algo.sha256.name, value := render (D .sha256 c.raw) }] := by
  obtain ⟨c, c', h1, h2, h3⟩ := setConfigurations_headsAgree cfgs _ (newPC_headsAgree supplied g g2)
  refine ⟨c, h1, ?_⟩
  unfold advertised
  rw [h2]
  simp [getFingerprints, h3]

-- non-vacuity: a user-supplied pair of certificates, one accepted and one refused SetConfiguration
example : let pc := setConfigurations (newPC [⟨[1,2], 7⟩, ⟨[3], 8⟩] ⟨[9], 1⟩ ⟨[8], 2⟩) [[⟨[1,2], 7⟩, ⟨[3], 8⟩], [⟨[5], 7⟩]]
    presented pc = some ⟨[1,2], 7⟩ ∧ pc.cfgCerts.length = 2 := by decide

/-- The text written into the SDP (`strings.ToUpper` of the value) is a fingerprint the presented certificate
    matches: upper-casing does not break the case-insensitive comparison. -/
theorem C14_advertised_text_matches_presented (D : Digest) (c : Cert) :
    ∀ f ∈ getFingerprints D c, FpMatches D c.raw { algorithm := f.algorithm, value := toUpper f.value } := by
  intro f hf
  simp only [getFingerprints, List.map_cons, List.map_nil, List.take_succ_cons, List.take_zero,
    List.mem_cons, List.not_mem_nil, or_false] at hf
  subst hf
  exact ⟨.sha256, hash_sha256, map_lower_toUpper_hex _ (render_hex _)⟩

/-! ## `validateFingerPrint` -/

/-- The comparison in `validateFingerPrint` is equality up to ASCII case: Unicode case folding
    (`strings.EqualFold`) cannot create additional matches against a hex rendering. -/
theorem C14_match_is_ascii_caseless_equality (d : List UInt8) (v : Str) :
    equalFold (render d) v = true ↔ v.map asciiLower = render d := by
  rw [equalFold_render]; simp

/-- **Acceptance, exactly.**  `validateFingerPrint` accepts iff the list splits into a prefix of entries with
    known hash names that do not match, followed by an entry that matches. -/
theorem C14_accept_iff_match (D : Digest) (raw : Der) (fps : List DtlsFp) :
    validateFingerPrint D raw fps = .ok () ↔
      ∃ pre fp post, fps = pre ++ fp :: post ∧ FpMatches D raw fp ∧
        ∀ q ∈ pre, (hashFromString q.algorithm).isSome ∧ ¬ FpMatches D raw q := by
  induction fps with
  | nil => simp [validateFingerPrint]
  | cons f rest ih =>
    unfold validateFingerPrint
    cases hh : hashFromString f.algorithm with
    | none =>
      simp only
      constructor
      · intro h; cases h
      · rintro ⟨pre, fp, post, e, hm, hpre⟩
        cases pre with
        | nil =>
          simp only [List.nil_append, List.cons.injEq] at e
          obtain ⟨a, ha, _⟩ := hm
          rw [← e.1, hh] at ha; cases ha
        | cons p ps =>
          simp only [List.cons_append, List.cons.injEq] at e
          have := (hpre p (by simp)).1
          rw [← e.1, hh] at this; cases this
    | some a =>
      simp only
      by_cases hm : equalFold (render (D a raw)) f.value = true
      · rw [if_pos hm]
        constructor
        · intro _
          exact ⟨[], f, rest, rfl, ⟨a, hh, (C14_match_is_ascii_caseless_equality _ _).mp hm⟩, by simp⟩
        · intro _; rfl
      · rw [if_neg hm, ih]
        have hnot : ¬ FpMatches D raw f := by
          rintro ⟨a', ha', hv⟩
          rw [hh] at ha'; cases ha'
          exact hm ((C14_match_is_ascii_caseless_equality _ _).mpr hv)
        constructor
        · rintro ⟨pre, fp, post, e, hmm, hpre⟩
          refine ⟨f :: pre, fp, post, by simp [e], hmm, ?_⟩
          intro q hq
          simp only [List.mem_cons] at hq
          rcases hq with rfl | hq
          · exact ⟨by simp [hh], hnot⟩
          · exact hpre q hq
        · rintro ⟨pre, fp, post, e, hmm, hpre⟩
          cases pre with
          | nil =>
            simp only [List.nil_append, List.cons.injEq] at e
            rw [← e.1] at hmm; exact absurd hmm hnot
          | cons p ps =>
            simp only [List.cons_append, List.cons.injEq] at e
            exact ⟨ps, fp, post, e.2, hmm, fun q hq => hpre q (by simp [hq])⟩

/-- Soundness direction used by the property: an accepted certificate matches some signaled entry. -/
theorem C14_accept_implies_some_match (D : Digest) (raw : Der) (fps : List DtlsFp)
    (h : validateFingerPrint D raw fps = .ok ()) : ∃ fp ∈ fps, FpMatches D raw fp := by
  obtain ⟨pre, fp, post, e, hm, _⟩ := (C14_accept_iff_match D raw fps).mp h
  exact ⟨fp, by simp [e], hm⟩

/-- An unknown hash name aborts verification with an error — also when a later entry would match. -/
theorem C14_unknown_algo_rejects (D : Digest) (raw : Der) (pre post : List DtlsFp) (fp : DtlsFp)
    (hpre : ∀ q ∈ pre, (hashFromString q.algorithm).isSome ∧ ¬ FpMatches D raw q)
    (hfp : hashFromString fp.algorithm = none) :
    validateFingerPrint D raw (pre ++ fp :: post) = .error .invalidHash := by
  induction pre with
  | nil => simp [validateFingerPrint, hfp]
  | cons p ps ih =>
    have hp := hpre p (by simp)
    simp only [List.cons_append]
    unfold validateFingerPrint
    cases hh : hashFromString p.algorithm with
    | none => simp [hh] at hp
    | some a =>
      simp only
      have : ¬ equalFold (render (D a raw)) p.value = true := by
        intro hm
        exact hp.2 ⟨a, hh, (C14_match_is_ascii_caseless_equality _ _).mp hm⟩
      rw [if_neg this]
      exact ih (fun q hq => hpre q (by simp [hq]))

-- non-vacuity: a bogus name in front of a matching entry
example : validateFingerPrint (fun _ _ => [0xab]) [1]
    [⟨['x'], ['a','b']⟩, ⟨Algo.sha256.name, ['a','b']⟩] = .error .invalidHash := by rfl

/-- An empty fingerprint list matches nothing. -/
theorem C14_empty_list_rejects (D : Digest) (raw : Der) : validateFingerPrint D raw [] = .error .noMatch := rfl

/-- The callback, exactly: accepted iff a certificate was presented and (verification is disabled or the
    certificate parses and `validateFingerPrint` accepts it). -/
theorem C14_callback_accepts_iff (disabled : Bool) (D : Digest) (fps : List DtlsFp) (peer : RawCert) :
    verifyPeerCertificate disabled D fps peer = .ok () ↔
      (disabled = true ∧ peer ≠ .none) ∨
      (∃ raw, peer = .parsed raw ∧ validateFingerPrint D raw fps = .ok ()) := by
  cases peer with
  | none => simp [verifyPeerCertificate]
  | unparsable r => cases disabled <;> simp [verifyPeerCertificate]
  | parsed r =>
    cases disabled
    · simp [verifyPeerCertificate]
    · simp [verifyPeerCertificate]

/-! ## `extractFingerprint` -/

/-- **Precedence.**  The value `extractFingerprint` works with is: the first session-level `a=fingerprint`
    if it is non-empty; otherwise, when the first `a=group` attribute names a BUNDLE master, the first
    non-empty fingerprint among the sections carrying that mid; otherwise the first non-empty fingerprint of
    any section. -/
theorem C14_extract_precedence (d : Desc) : chosenFingerprint d = chosenSpec d := by
  unfold chosenFingerprint chosenSpec
  cases hs : attrValue d.attrs kFingerprint with
  | some v =>
    cases v with
    | cons c cs => simp
    | nil =>
      simp only [Option.getD_some, if_true]
      split
      · exact bundleScan_spec _ _
      · exact firstScan_spec _
  | none =>
    simp only [Option.getD_none, if_true]
    split
    · exact bundleScan_spec _ _
    · exact firstScan_spec _

/-- A non-empty session-level fingerprint decides alone (media-level values are not consulted). -/
theorem C14_session_level_wins (d : Desc) (c : Char) (cs : Str)
    (h : attrValue d.attrs kFingerprint = some (c :: cs)) (media' : List (List Attr)) :
    extractFingerprint { d with media := media' } = extractFingerprint d := by
  unfold extractFingerprint chosenFingerprint
  simp [h]

/-- Whatever is extracted is literally one of the `a=fingerprint` attributes of the description. -/
theorem C14_extracted_is_in_description (d : Desc) (v h : Str) (e : extractFingerprint d = .ok (v, h)) :
    (h ++ ' ' :: v) ∈ allFingerprintValues d := by
  unfold extractFingerprint at e
  simp only at e
  split at e
  · cases e
  · rename_i hne
    split at e
    · rename_i h' v' hsp
      cases e
      rw [← splitSpace_two hsp]
      exact chosen_mem d hne
    · cases e

/-- No `a=fingerprint` attribute anywhere ⇒ `ErrSessionDescriptionNoFingerprint`. -/
theorem C14_absent_is_error (d : Desc) (h : allFingerprintValues d = []) :
    extractFingerprint d = .error .noFingerprint := by
  unfold extractFingerprint
  simp only
  by_cases hne : chosenFingerprint d = []
  · rw [if_pos hne]
  · have := chosen_mem d hne
    rw [h] at this
    cases this

/-- A chosen value that is not exactly `<hash> <value>` (one space) ⇒ `ErrSessionDescriptionInvalidFingerprint`. -/
theorem C14_malformed_is_error (d : Desc) (hne : chosenFingerprint d ≠ [])
    (h : (splitSpace (chosenFingerprint d)).length ≠ 2) :
    extractFingerprint d = .error .invalidFingerprint := by
  unfold extractFingerprint
  simp only
  rw [if_neg hne]
  split
  · rename_i hsp; rw [hsp] at h; simp at h
  · rfl

/-! ## Clause 2 — a peer matching no signaled fingerprint never connects, nothing is delivered -/

theorem matchesValue_false_of {D : Digest} {raw : Der} {h v : Str}
    (hm : matchesValue D raw (h ++ ' ' :: v) = false) (hsp : splitSpace (h ++ ' ' :: v) = [h, v]) :
    ¬ FpMatches D raw { algorithm := h, value := v } := by
  rintro ⟨a, ha, hv⟩
  unfold matchesValue at hm
  rw [hsp] at hm
  simp only at ha hv
  simp only [ha, hv, beq_self_eq_true] at hm
  cases hm

/-- **The property.**  Verification not disabled; the peer presents any certificate (or none, or garbage);
    if that certificate matches no `a=fingerprint` attribute of the applied remote description — session or
    media level, any hash name, any case — then the DTLS transport never reaches `connected`, no DTLS
    connection object exists, and nothing the peer sends is delivered.  For every digest function `D`,
    every description `d`, whatever the rest of the handshake does. -/
theorem C14_mismatch_never_connected (D : Digest) (d : Desc) (peer : RawCert) (handshakeRest : Bool)
    (hno : ∀ raw, peer = .parsed raw → ∀ v ∈ allFingerprintValues d, matchesValue D raw v = false)
    {μ : Type} (sent : List μ) :
    (session false D d peer handshakeRest).dtls ≠ .connected ∧
    (session false D d peer handshakeRest).haveConn = false ∧
    delivered (session false D d peer handshakeRest) sent = [] := by
  have key : (session false D d peer handshakeRest).dtls ≠ .connected ∧
      (session false D d peer handshakeRest).haveConn = false := by
    unfold session
    cases e : extractFingerprint d with
    | error err => simp
    | ok ex =>
      obtain ⟨v, h⟩ := ex
      have hmem := C14_extracted_is_in_description d v h e
      have hsp : splitSpace (h ++ ' ' :: v) = [h, v] := by
        unfold extractFingerprint at e
        simp only at e
        split at e
        · cases e
        · split at e
          · rename_i h' v' hsp'
            cases e
            rw [← splitSpace_two hsp']; exact hsp'
          · cases e
      have hrej : ∃ err, verifyPeerCertificate false D (remoteFingerprints (v, h)) peer = .error err := by
        cases peer with
        | none => exact ⟨_, rfl⟩
        | unparsable r => exact ⟨_, rfl⟩
        | parsed raw =>
          have hnm := matchesValue_false_of (hno raw rfl _ hmem) hsp
          simp only [verifyPeerCertificate, remoteFingerprints, Bool.false_eq_true, if_false]
          rw [validate_singleton]
          cases ha : hashFromString h with
          | none => exact ⟨_, rfl⟩
          | some a =>
            simp only
            have : ¬ equalFold (render (D a raw)) v = true := fun hm =>
              hnm ⟨a, ha, (C14_match_is_ascii_caseless_equality _ _).mp hm⟩
            rw [if_neg this]
            exact ⟨_, rfl⟩
      obtain ⟨err, herr⟩ := hrej
      simp only [herr]
      simp
  refine ⟨key.1, key.2, ?_⟩
  unfold delivered
  rw [key.2]; rfl

-- non-vacuity: a media-level fingerprint of another certificate; the peer's certificate [2] hashes to 0xcd
example : (session false (fun _ r => r.map (· + 0xcb)) ⟨[], [[⟨kMid, ['0']⟩, ⟨kFingerprint, Algo.sha256.name ++ ' ' :: ['A','B']⟩]]⟩
    (.parsed [2]) true).dtls = .failed := by decide
example : (session false (fun _ r => r.map (· + 0xcb)) ⟨[], [[⟨kMid, ['0']⟩, ⟨kFingerprint, Algo.sha256.name ++ ' ' :: ['C','D']⟩]]⟩
    (.parsed [2]) true).dtls = .connected := by decide

/-- Converse (what the code does for an honest peer): extraction succeeded, the certificate matches the
    extracted entry and the rest of the handshake succeeds ⇒ connected. -/
theorem C14_match_connects (disabled : Bool) (D : Digest) (d : Desc) (raw : Der) (v h : Str)
    (e : extractFingerprint d = .ok (v, h)) (hm : FpMatches D raw { algorithm := h, value := v }) :
    (session disabled D d (.parsed raw) true).dtls = .connected := by
  obtain ⟨a, ha, hv⟩ := hm
  simp only at ha hv
  unfold session
  simp only [e, verifyPeerCertificate, remoteFingerprints]
  cases disabled
  · simp only [Bool.false_eq_true, if_false]
    rw [validate_singleton]
    simp only [ha]
    rw [if_pos ((C14_match_is_ascii_caseless_equality _ _).mpr hv)]
    simp
  · simp

/-- **Absent fingerprint.**  With no `a=fingerprint` attribute, SetRemoteDescription fails and DTLS is never
    started — whether or not verification is disabled. -/
theorem C14_absent_never_starts (disabled : Bool) (D : Digest) (d : Desc) (peer : RawCert) (hr : Bool)
    (h : allFingerprintValues d = []) :
    (session disabled D d peer hr).srdError = some .noFingerprint ∧
    (session disabled D d peer hr).dtls = .new ∧ (session disabled D d peer hr).haveConn = false := by
  unfold session
  rw [C14_absent_is_error d h]
  simp

example : allFingerprintValues ⟨[⟨kGroup, sBundle ++ [' ', '0']⟩], [[⟨kMid, ['0']⟩]]⟩ = [] := by decide

/-- **Altered hex digit.**  If the signaled value `v` matched the certificate under hash `a`, then replacing
    the character at any position `i` by any character that differs from it beyond ASCII case makes the
    callback reject the certificate (verification enabled).  All positions, all replacement characters, all
    digest functions. -/
theorem C14_single_hex_digit_change_rejects (D : Digest) (raw : Der) (name v : Str) (a : Algo)
    (hname : hashFromString name = some a)
    (hmatch : equalFold (render (D a raw)) v = true)
    (i : Nat) (hi : i < v.length) (ch : Char) (hch : asciiLower ch ≠ asciiLower v[i]) :
    verifyPeerCertificate false D [{ algorithm := name, value := v.set i ch }] (.parsed raw) = .error .noMatch := by
  simp only [verifyPeerCertificate, Bool.false_eq_true, if_false]
  rw [validate_singleton]
  simp only [hname]
  have h0 := (C14_match_is_ascii_caseless_equality _ _).mp hmatch
  have : ¬ equalFold (render (D a raw)) (v.set i ch) = true := by
    intro hm
    have h1 := (C14_match_is_ascii_caseless_equality _ _).mp hm
    rw [← h0, List.map_set] at h1
    have hlen : i < (v.map asciiLower).length := by simpa using hi
    have := congrArg (fun l => l[i]?) h1
    simp only [List.getElem?_set_self hlen, List.getElem?_map, List.getElem?_eq_getElem hi, Option.map_some] at this
    exact hch (Option.some.inj this)
  rw [if_neg this]

/-- … and therefore the session with such a description does not connect. -/
theorem C14_altered_digit_never_connected (D : Digest) (raw : Der) (h v : Str) (a : Algo)
    (hname : hashFromString h = some a) (hmatch : equalFold (render (D a raw)) v = true)
    (i : Nat) (hi : i < v.length) (ch : Char) (hch : asciiLower ch ≠ asciiLower v[i])
    (d' : Desc) (e : extractFingerprint d' = .ok (v.set i ch, h)) (hr : Bool) :
    (session false D d' (.parsed raw) hr).dtls = .failed := by
  unfold session
  simp only [e, remoteFingerprints]
  rw [C14_single_hex_digit_change_rejects D raw h v a hname hmatch i hi ch hch]

-- non-vacuity: digest ab:cd, signalled AB:CD matches; AB:CE (position 4) does not
example : verifyPeerCertificate false (fun _ _ => [0xab, 0xcd]) [⟨Algo.sha256.name, ['A','B',':','C','D']⟩] (.parsed [])
    = .ok () := by rfl
example : verifyPeerCertificate false (fun _ _ => [0xab, 0xcd]) [⟨Algo.sha256.name, (['A','B',':','C','D'] : Str).set 4 'E'⟩]
    (.parsed []) = .error .noMatch := by rfl

/-- **Other hash name.**  A value that is the rendering of one digest, signaled under the name of a hash
    whose digest has a different length, is rejected — no assumption about collisions is needed. -/
theorem C14_other_hash_name_rejects (D : Digest) (raw : Der) (name v : Str) (a a' : Algo)
    (hv : equalFold (render (D a raw)) v = true) (hname : hashFromString name = some a')
    (hlen : (D a raw).length ≠ (D a' raw).length) :
    verifyPeerCertificate false D [{ algorithm := name, value := v }] (.parsed raw) = .error .noMatch := by
  simp only [verifyPeerCertificate, Bool.false_eq_true, if_false]
  rw [validate_singleton]
  simp only [hname]
  have h0 := (C14_match_is_ascii_caseless_equality _ _).mp hv
  have : ¬ equalFold (render (D a' raw)) v = true := by
    intro hm
    have h1 := (C14_match_is_ascii_caseless_equality _ _).mp hm
    have := congrArg List.length (h0.symm.trans h1)
    rw [render_length, render_length] at this
    omega
  rw [if_neg this]

/-- In general a different (known) hash name is accepted only if the certificate's digest under *that*
    hash renders to the signaled value. -/
theorem C14_other_hash_name_iff (D : Digest) (raw : Der) (name v : Str) :
    verifyPeerCertificate false D [{ algorithm := name, value := v }] (.parsed raw) = .ok () ↔
      FpMatches D raw { algorithm := name, value := v } := by
  simp only [verifyPeerCertificate, Bool.false_eq_true, if_false]
  rw [validate_singleton]
  cases hn : hashFromString name with
  | none =>
    simp only
    constructor
    · intro h; cases h
    · rintro ⟨a, ha, _⟩; simp only at ha; rw [hn] at ha; cases ha
  | some a =>
    simp only
    constructor
    · intro h
      by_cases hm : equalFold (render (D a raw)) v = true
      · exact ⟨a, hn, (C14_match_is_ascii_caseless_equality _ _).mp hm⟩
      · rw [if_neg hm] at h; cases h
    · rintro ⟨a', ha', hv⟩
      simp only at ha' hv
      rw [hn] at ha'; cases ha'
      rw [if_pos ((C14_match_is_ascii_caseless_equality _ _).mpr hv)]

/-- The six registered names are recognised in any ASCII case, and nothing else is. -/
theorem C14_hash_names (s : Str) (a : Algo) :
    hashFromString s = some a ↔ s.map asciiLower = a.name := by
  unfold hashFromString
  simp only [Algo.all]
  constructor
  · intro h
    have := List.find?_some h
    exact (eq_of_beq this).symm
  · intro h
    rw [h]
    cases a <;> decide

/-- **The bypass.**  With `DisableCertificateFingerprintVerification(true)` any presented certificate is
    accepted, whatever the description says (this is the "unless" of the property); a peer presenting no
    certificate is still refused. -/
theorem C14_disabled_accepts_any_certificate (D : Digest) (fps : List DtlsFp) (peer : RawCert) :
    verifyPeerCertificate true D fps peer = .ok () ↔ peer ≠ .none := by
  cases peer <;> simp [verifyPeerCertificate]

/-! ## Completeness for descriptions written by this implementation (session-level placement) -/

/-- A local description with session-level fingerprints (the default) of a certificate is accepted by a
    verifying peer to whom that certificate is presented: extraction returns the advertised entry, and the
    presented certificate matches it. -/
theorem C14_own_description_accepted (D : Digest) (c : Cert) (sess : List Attr) (media : List (List Attr))
    (hs : attrValue sess kFingerprint = none) :
    (session false D (localDescription false (getFingerprints D c) sess media) (.parsed c.raw) true).dtls
      = .connected := by
  have hfp : getFingerprints D c = [{ algorithm := Algo.sha256.name, value := render (D .sha256 c.raw) }] := by
    simp [getFingerprints]
  have hup : ' ' ∉ toUpper (render (D .sha256 c.raw)) := by
    intro hmem
    simp only [toUpper, List.mem_map] at hmem
    obtain ⟨x, hx, hxe⟩ := hmem
    exact upper_hex_no_space x (render_hex _ x hx) hxe
  have hname : ' ' ∉ Algo.sha256.name := by decide
  have hex : extractFingerprint (localDescription false (getFingerprints D c) sess media)
      = .ok (toUpper (render (D .sha256 c.raw)), Algo.sha256.name) := by
    unfold extractFingerprint chosenFingerprint localDescription
    simp only [hfp, Bool.false_eq_true, if_false, List.map_cons, List.map_nil]
    rw [attrValue_append_none hs]
    simp only [attrValue, fingerprintAttr, if_true, Option.getD_some]
    have hne : Algo.sha256.name ++ ' ' :: toUpper (render (D Algo.sha256 c.raw)) ≠ [] := by
      simp [Algo.name]
    rw [if_neg hne, if_neg hne, splitSpace_pair _ _ hname hup]
  exact C14_match_connects false D _ c.raw _ _ hex
    ⟨.sha256, hash_sha256, map_lower_toUpper_hex _ (render_hex _)⟩

example : attrValue [⟨kGroup, sBundle ++ [' ', '0']⟩] kFingerprint = none := by decide

/-- The same with `SetSDPMediaLevelFingerprints(true)`: every m-section carries the fingerprint, so whichever
    section the BUNDLE master is (or, without BUNDLE, the first section) supplies it.  Hypotheses: the other
    attributes contain no fingerprint, and the section extraction looks at exists (a section with the BUNDLE
    master's mid, or any section when there is no BUNDLE group). -/
theorem C14_own_description_accepted_media_level (D : Digest) (c : Cert) (sess : List Attr)
    (media : List (List Attr))
    (hs : attrValue sess kFingerprint = none)
    (hm : ∀ m ∈ media, attrValue m kFingerprint = none)
    (hsec : if extractBundleID { attrs := sess, media := [] } ≠ []
            then ∃ m ∈ media, attrValue m kMid = some (extractBundleID { attrs := sess, media := [] })
            else media ≠ []) :
    (session false D (localDescription true (getFingerprints D c) sess media) (.parsed c.raw) true).dtls
      = .connected := by
  have hfp : getFingerprints D c = [{ algorithm := Algo.sha256.name, value := render (D .sha256 c.raw) }] := by
    simp [getFingerprints]
  have hup : ' ' ∉ toUpper (render (D .sha256 c.raw)) := by
    intro hmem
    simp only [toUpper, List.mem_map] at hmem
    obtain ⟨x, hx, hxe⟩ := hmem
    exact upper_hex_no_space x (render_hex _ x hx) hxe
  have hname : ' ' ∉ Algo.sha256.name := by decide
  -- the attribute value every section carries
  let val : Str := Algo.sha256.name ++ ' ' :: toUpper (render (D .sha256 c.raw))
  have hval : ∃ x xs, val = x :: xs := ⟨'s', _, rfl⟩
  let fa : Attr := { key := kFingerprint, value := val }
  have hdesc : localDescription true (getFingerprints D c) sess media
      = { attrs := sess, media := media.map (· ++ [fa]) } := by
    simp [localDescription, hfp, fingerprintAttr, fa, val]
  have hfpm : ∀ m ∈ media, attrValue (m ++ [fa]) kFingerprint = some val := by
    intro m hmem
    rw [attrValue_append_none (hm m hmem)]
    simp [attrValue, fa]
  have hmidm : ∀ m : List Attr, attrValue (m ++ [fa]) kMid = attrValue m kMid := by
    intro m
    apply attrValue_append_other
    intro b hb
    simp only [List.mem_cons, List.not_mem_nil, or_false] at hb
    subst hb
    show kFingerprint ≠ kMid
    decide
  have hhas : ∀ m ∈ media, hasFp (m ++ [fa]) = true := by
    intro m hmem
    obtain ⟨x, xs, hx⟩ := hval
    simp [hasFp, hfpm m hmem, hx]
  have hbid : extractBundleID { attrs := sess, media := media.map (· ++ [fa]) }
      = extractBundleID { attrs := sess, media := [] } := rfl
  -- the chosen value is `val`
  have hchosen : chosenFingerprint { attrs := sess, media := media.map (· ++ [fa]) } = val := by
    rw [C14_extract_precedence]
    unfold chosenSpec
    simp only [hs, hbid]
    split at hsec
    · rename_i hb
      rw [if_pos hb]
      obtain ⟨m0, hm0, hmid0⟩ := hsec
      -- some candidate exists, every candidate has the fingerprint
      have hall : ∀ x ∈ (media.map (· ++ [fa])).filter
          (fun m => attrValue m kMid = some (extractBundleID { attrs := sess, media := [] })),
          hasFp x = true ∧ attrValue x kFingerprint = some val := by
        intro x hx
        simp only [List.mem_filter, List.mem_map] at hx
        obtain ⟨⟨m, hmm, rfl⟩, _⟩ := hx
        exact ⟨hhas m hmm, hfpm m hmm⟩
      have hne : (media.map (· ++ [fa])).filter
          (fun m => attrValue m kMid = some (extractBundleID { attrs := sess, media := [] })) ≠ [] := by
        intro he
        have : (m0 ++ [fa]) ∈ (media.map (· ++ [fa])).filter
            (fun m => attrValue m kMid = some (extractBundleID { attrs := sess, media := [] })) := by
          simp only [List.mem_filter, List.mem_map]
          exact ⟨⟨m0, hm0, rfl⟩, by simp [hmidm, hmid0]⟩
        rw [he] at this; cases this
      cases hl : (media.map (· ++ [fa])).filter
          (fun m => attrValue m kMid = some (extractBundleID { attrs := sess, media := [] })) with
      | nil => exact absurd hl hne
      | cons x xs =>
        have hx := hall x (by rw [hl]; simp)
        simp only [List.find?_cons, hx.1, hx.2, Option.getD_some]
    · rename_i hb
      rw [if_neg hb]
      cases hmed : media with
      | nil => exact absurd hmed hsec
      | cons m ms =>
        have hm1 : m ∈ media := by rw [hmed]; simp
        simp only [List.map_cons, List.find?_cons, hhas m hm1, hfpm m hm1, Option.getD_some]
  have hex : extractFingerprint (localDescription true (getFingerprints D c) sess media)
      = .ok (toUpper (render (D .sha256 c.raw)), Algo.sha256.name) := by
    rw [hdesc]
    unfold extractFingerprint
    simp only [hchosen]
    have hne : val ≠ [] := by obtain ⟨x, xs, hx⟩ := hval; rw [hx]; simp
    rw [if_neg hne]
    show (match splitSpace (Algo.sha256.name ++ ' ' :: toUpper (render (D .sha256 c.raw))) with
      | [h, v] => Except.ok (v, h) | _ => Except.error ExtractErr.invalidFingerprint) = _
    rw [splitSpace_pair _ _ hname hup]
  exact C14_match_connects false D _ c.raw _ _ hex
    ⟨.sha256, hash_sha256, map_lower_toUpper_hex _ (render_hex _)⟩

-- non-vacuity: BUNDLE master 1 is the second section
example : (if extractBundleID { attrs := [⟨kGroup, sBundle ++ [' ', '1', ' ', '0']⟩], media := [] } ≠ []
    then ∃ m ∈ [[(⟨kMid, ['0']⟩ : Attr)], [⟨kMid, ['1']⟩]],
      attrValue m kMid = some (extractBundleID { attrs := [⟨kGroup, sBundle ++ [' ', '1', ' ', '0']⟩], media := [] })
    else True) := by decide

end WebrtcVerif.C14
