import WebrtcVerif.Model.DcState
import WebrtcVerif.Proofs.DcStateLemmas
/-!
# C20 — Data channel readyState only moves forward and events fire at most once

"A DataChannel's readyState only ever moves forward along connecting → open → closing → closed, possibly
skipping states. Once Close has been called and the transport is gone, it ends in closed. OnOpen and
OnClose handlers each run at most once per registration, and Send on a channel that isn't open returns an
error."  Quantifier: all bounded interleavings of channel open, local Close/GracefulClose, remote close,
read-loop termination and PeerConnection.Close.

The theorems quantify over `Reachable cfg nc np s`: every state reachable by ANY interleaving (no bound) of
the atomic sections of one `handleOpen` call, `nc` Close / GracefulClose callers (the kind is chosen when
the call begins), the read loop, `np` PeerConnection.Close callers, any number of `Send`s, the unobserved
handler goroutines, and the environment (remote close, remote abort, remote acknowledgement), for every
configuration `cfg` (detached or not, remote / negotiated or waiting for the ACK, handlers registered or
not).  There is one registration per handler: before the run (`cfg.openH` / `cfg.closeH`) or by an
`OnOpen(f)` / `OnClose(f)` call at any point of the run (actions `regOpen1/2`, `regClose1/2`).

The model is that of the code after the two repairs (see Model/DcState.lean); on the code before them the
first two clauses failed (closing after closed, open after closed / closing, closing for ever).
-/
namespace WebrtcVerif.C20
open WebrtcVerif.DcState

/-! ## clause 1 — readyState only moves forward -/

/-- One step never moves readyState backwards (in any state, reachable or not, for every action of every thread). -/
theorem C20_step_forward {cfg : Cfg} {s s' : St} {a : Action} (h : step cfg s a = some s') :
    s.rs.rank ≤ s'.rs.rank :=
  step_rank_le h

/-- Nor does any run of any length. -/
theorem C20_run_forward {cfg : Cfg} {s s' : St} (as : List Action) (h : runActions cfg s as = some s') :
    s.rs.rank ≤ s'.rs.rank :=
  run_rank_le as h

/-- The sequence of all values readyState has ever held starts with connecting, is STRICTLY increasing in
    connecting < open < closing < closed (so states may be skipped, none is revisited), and ends with the
    current value. -/
theorem C20_history_forward {cfg : Cfg} {nc np : Nat} {s : St} (h : Reachable cfg nc np s) :
    s.hist.head? = some .connecting ∧ s.hist.Pairwise RS.lt ∧ s.hist.getLast? = some s.rs := by
  have hi := histOK_of_reachable h
  exact ⟨hi.first, hi.sorted, hi.last⟩

/-- closed is final. -/
theorem C20_closed_is_final {cfg : Cfg} {s s' : St} (as : List Action) (hc : s.rs = .closed)
    (h : runActions cfg s as = some s') : s'.rs = .closed := by
  have := run_rank_le as h
  rw [hc] at this
  exact eq_closed_of_rank this

-- non-vacuity: the schedule that left the channel in `closing` for ever before the repair (Close reads
-- `open`; the remote closes; the read loop stores closed; Close stores closing): the store is refused.
example : (runActions {} (init 1 0)
    [.open1, .open2, .open3, .open4, .readEnter, .closeBegin 0 false, .closeTest 0, .remoteClose, .readFail,
     .readSet, .closeSet 0]).map (fun s => (s.rs, s.hist))
    = some (.closed, [.connecting, .open, .closed]) := by decide

-- … and the one that reopened a closed channel (PeerConnection.Close stores closed while handleOpen sits
-- between its unlock and setReadyState(open)).
example : (runActions {} (init 0 1) [.open1, .pcBegin 0, .pcSet 0, .open2]).map (fun s => (s.rs, s.hist))
    = some (.closed, [.connecting, .closed]) := by decide

-- all four states in order
example : (runActions {} (init 1 0)
    [.open1, .open2, .open3, .open4, .closeBegin 0 false, .closeTest 0, .closeSet 0, .readEnter, .remoteClose,
     .readFail, .readSet]).map (fun s => s.hist)
    = some [.connecting, .open, .closing, .closed] := by decide

/-! ## clause 2 — once Close has been called and the transport is gone, it ends in closed -/

/-- The core fact, without any assumption on Close: a channel that is not detached, whose `handleOpen` has
    returned and whose read loop (if one was started) has returned, is closed. -/
theorem C20_closed_when_read_loop_ended {cfg : Cfg} {nc np : Nat} {s : St} (h : Reachable cfg nc np s)
    (hd : cfg.detach = false) (ho : s.opener = .done) (hr : readerEnded s = true) : s.rs = .closed := by
  have hi := inv_of_reachable h
  cases hrd : s.reader with
  | none => exact hi.fin_none hd ho hrd
  | some r =>
    cases r with
    | done => exact hi.fin_done hrd
    | atWait => simp [readerEnded, hrd] at hr
    | inRead => simp [readerEnded, hrd] at hr
    | failed => simp [readerEnded, hrd] at hr

/-- PeerConnection.Close: once any caller has passed step 5 the channel is closed. -/
theorem C20_closed_after_pc_close {cfg : Cfg} {nc np : Nat} {s : St} (h : Reachable cfg nc np s)
    (hp : s.pcSetDone = true) : s.rs = .closed :=
  (inv_of_reachable h).pc_set hp

/-- The clause as stated: Close / GracefulClose has been called, the transport is gone, the channel had been
    given that transport (handleOpen returned) or its PeerConnection was closed, and the read loop has
    ended ⇒ closed.  (Detached channels have no read loop — the application owns the transport — and are
    excluded; see `C20_reader_progress` for "the read loop does end".) -/
theorem C20_closed_after_close_and_transport_gone {cfg : Cfg} {nc np : Nat} {s : St} (h : Reachable cfg nc np s)
    (hd : cfg.detach = false) (_hc : closeCalled s = true) (_ht : transportGone s = true)
    (ha : s.opener = .done ∨ s.pcSetDone = true) (hr : readerEnded s = true) : s.rs = .closed := by
  rcases ha with ho | hp
  · exact C20_closed_when_read_loop_ended h hd ho hr
  · exact C20_closed_after_pc_close h hp

/-- "ends": while the transport is gone and the read loop has not returned, the read loop can move
    (it is never stuck), and its last step stores closed. -/
theorem C20_reader_progress {cfg : Cfg} {s : St} (ht : transportGone s = true) (hr : readerEnded s = false) :
    (step cfg s .readEnter).isSome ∨ (step cfg s .readAck).isSome ∨ (step cfg s .readFail).isSome
      ∨ (step cfg s .readSet).isSome := by
  unfold transportGone at ht
  cases hrd : s.reader with
  | none => simp [readerEnded, hrd] at hr
  | some r =>
    cases r with
    | done => simp [readerEnded, hrd] at hr
    | atWait => left; simp [step, hrd]
    | failed => right; right; right; simp [step, hrd]
    | inRead =>
      cases hq : s.ackQueued with
      | true => right; left; by_cases hc : (s.ackArmed && !s.ackFired) = true <;> simp [step, hrd, hq, hc]
      | false => right; right; left; simp [step, hrd, hq, ht]

/-- handleOpen itself is never stuck either: each of its sections is enabled when it is its turn. -/
theorem C20_opener_progress {cfg : Cfg} {s : St} (h1 : s.opener ≠ .idle) (h2 : s.opener ≠ .done) :
    (step cfg s .openEarly).isSome ∨ (step cfg s .open2).isSome ∨ (step cfg s .open3).isSome
      ∨ (step cfg s .open4).isSome ∨ (step cfg s .open5).isSome := by
  cases ho : s.opener with
  | idle => exact absurd ho h1
  | done => exact absurd ho h2
  | early => left; simp [step, ho]
  | gap => right; left; simp [step, ho]
  | opened => right; right; left; simp only [step, ho]; split <;> simp
  | tail => right; right; right; left; simp only [step, ho]; split <;> (try split) <;> simp
  | late => right; right; right; right; simp [step, ho]

-- non-vacuity of the hypotheses: Close before handleOpen (the channel used to stay in closing for ever) …
example : (runActions {} (init 1 0)
    [.closeBegin 0 false, .closeTest 0, .closeSet 0, .open1, .openEarly, .remoteAbort]).map
      (fun s => (closeCalled s, transportGone s, s.opener, readerEnded s, s.rs))
    = some (true, true, .done, true, .closed) := by decide

-- … Close between handleOpen's first and last section (ditto) …
example : (runActions {} (init 1 0)
    [.open1, .closeBegin 0 false, .closeTest 0, .closeSet 0, .open2, .open3, .open4, .open5, .remoteClose]).map
      (fun s => ((closeCalled s, transportGone s, s.opener, readerEnded s), s.rs, s.hist))
    = some ((true, true, .done, true), .closed, [.connecting, .closing, .closed]) := by decide

-- … and the ordinary case: GracefulClose, the peer answers, the read loop ends, the closer wakes.
example : (runActions {} (init 1 0)
    [.open1, .open2, .open3, .open4, .closeBegin 0 true, .closeTest 0, .closeSet 0, .readEnter, .remoteClose,
     .readFail, .readSet, .closeWake 0]).map
      (fun s => ((closeCalled s, transportGone s, s.opener, readerEnded s), s.rs, s.closers))
    = some ((true, true, .done, true), .closed, [.done]) := by decide

/-- GracefulClose waits for the read loop: a caller that found a read loop returns only after it has ended. -/
theorem C20_graceful_close_waits {cfg : Cfg} {nc np : Nat} {s s' : St} (h : Reachable cfg nc np s) (c : Nat)
    (hw : step cfg s (.closeWake c) = some s') : s.reader = some .done := by
  have hi := inv_of_reachable h
  simp only [step] at hw
  split at hw
  · split at hw
    · exact hi.rla_reader (by assumption)
    · cases hw
  · cases hw

/-! ## clause 3 — OnOpen and OnClose run at most once per registration -/

/-- Each handler has run at most once (exactly: once iff its `sync.Once` is spent). -/
theorem C20_handlers_at_most_once {cfg : Cfg} {nc np : Nat} {s : St} (h : Reachable cfg nc np s) :
    s.openFired ≤ 1 ∧ s.closeFired ≤ 1 := by
  have hi := inv_of_reachable h
  constructor
  · rw [hi.once_open]; split <;> omega
  · rw [hi.once_close]; split <;> omega

/-- OnClose is only ever scheduled or run when readyState is closed (before the second repair a channel
    closed before handleOpen fired OnClose while reporting closing). -/
theorem C20_close_event_only_when_closed {cfg : Cfg} {nc np : Nat} {s : St} (h : Reachable cfg nc np s)
    (he : 0 < s.closePending ∨ 0 < s.closeFired) : s.rs = .closed :=
  (inv_of_reachable h).close_ev he

/-- OnOpen is only ever scheduled or run after readyState has left connecting. -/
theorem C20_open_event_only_after_open {cfg : Cfg} {nc np : Nat} {s : St} (h : Reachable cfg nc np s)
    (he : 0 < s.onOpenCalls ∨ 0 < s.openPending ∨ 0 < s.openFired) : s.rs ≠ .connecting := by
  have hi := inv_of_reachable h
  rcases he with he | he | he
  · exact hi.calls_rank he
  · exact hi.pend_rank he
  · exact hi.fired_rank he

/-- Once Close has been called, `onOpen()` schedules no further OnOpen call (it tests `isGracefulClosed`).
    The only other source is `OnOpen(f)` itself, which calls `f` at once when the channel still reports open
    (action `regOpen2`, excluded here: it does not look at the flag). -/
theorem C20_no_open_event_scheduled_after_close {cfg : Cfg} {s s' : St} {a : Action} (hg : s.graceful = true)
    (ha : a ≠ .regOpen2) (h : step cfg s a = some s') : s'.openPending ≤ s.openPending ∧ s'.graceful = true := by
  cases a <;> first | exact absurd rfl ha | (step_cases h <;> simp_all)

-- the hypotheses are satisfiable: Close() was called, then the acknowledgement arrives — no event
example : (runActions {} (init 1 0)
    [.open1, .open2, .open3, .open4, .closeBegin 0 false, .remoteAck, .readEnter, .readAck, .runOnOpen]).map
      (fun s => (s.graceful, s.openPending, s.openFired))
    = some (true, 0, 0) := by decide

-- non-vacuity: both handlers run; the events are fired from goroutines (`go once.Do`), in any order
example : (runActions { immediate := true } (init 0 0)
    [.open1, .open2, .open3, .fireOpen, .open4, .readEnter, .remoteClose, .readFail, .readSet, .fireClose]).map
      (fun s => (s.openFired, s.closeFired, s.rs))
    = some (1, 1, .closed) := by decide

-- waiting for the ACK: the handler is called from the read loop through two goroutines
example : (runActions {} (init 0 0)
    [.open1, .open2, .open3, .open4, .remoteAck, .readEnter, .readAck, .runOnOpen, .fireOpen]).map
      (fun s => (s.openFired, s.onOpenCalls, s.openPending))
    = some (1, 0, 0) := by decide

-- registration during the run: PeerConnection.Close has stored closed, OnClose(f) finds the channel closed and
-- calls f at once, later the read loop ends and calls onClose(): the Once lets f run only once
example : (runActions { closeH := false, immediate := true } (init 0 1)
    [.open1, .open2, .open3, .open4, .pcBegin 0, .pcSet 0, .regClose1, .regClose2, .fireClose, .pcStop 0, .readEnter,
     .readFail, .readSet, .fireClose]).map (fun s => (s.closeFired, s.closePending, s.closeOnce))
    = some (1, 0, true) := by decide

/-! ## clause 4 — Send on a channel that is not open returns an error -/

/-- In any state: the guard rejects unless readyState is open. -/
theorem C20_send_guard (s : St) (h : s.rs ≠ .open) : sendResult s = .rejected := by
  simp [sendResult, h]

/-- Every Send of every run: if the state its guard read was not open, it returned the error. -/
theorem C20_send_not_open_fails {cfg : Cfg} {nc np : Nat} {s : St} (h : Reachable cfg nc np s) :
    ∀ e ∈ s.sends, e.1 ≠ .open → e.2 = .rejected :=
  (inv_of_reachable h).sends_ok

/-- A Send that passes the guard finds the transport pointer set (no nil dereference of `d.dataChannel`). -/
theorem C20_open_has_transport {cfg : Cfg} {nc np : Nat} {s : St} (h : Reachable cfg nc np s)
    (ho : s.rs = .open) : s.dcSet = true :=
  (inv_of_reachable h).open_dc ho

-- non-vacuity: a rejected Send, then an accepted one, then one refused by the (locally closed) transport
example : (runActions {} (init 1 0)
    [.send, .open1, .open2, .send, .open3, .open4, .closeBegin 0 false, .closeTest 0, .readEnter, .remoteClose,
     .readFail, .send, .closeSet 0, .send]).map (fun s => s.sends)
    = some [(.connecting, .rejected), (.open, .ok), (.open, .werr), (.closing, .rejected)] := by decide

end WebrtcVerif.C20
