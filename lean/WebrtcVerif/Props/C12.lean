import WebrtcVerif.Model.OfferSdp
import WebrtcVerif.Proofs.OfferSdpLemmas
/-!
# C12 — A successful offer describes exactly the local transceivers and data channels

"Whenever CreateOffer succeeds under Unified Plan, each transceiver has exactly one m-section, carrying its
mid, its kind and its current direction. A sending track is announced with msid '<streamID> <trackID>' and
with the SSRCs its sender will use, including RTX/FEC SSRC groups when those are enabled. An application
section is present exactly when a data channel was created or AlwaysNegotiateDataChannels is set."

Quantifier: bounded histories of AddTrack / AddTransceiverFromKind / AddTransceiverFromTrack (all
directions, with and without RTX/FEC codecs, simulcast encodings), RemoveTrack, ReplaceTrack and
CreateDataChannel, each followed by CreateOffer.  The theorems below hold for histories of ANY length
(`Reachable`), with CreateOffer / SetLocalDescription(offer) / RTPTransceiver.Stop allowed anywhere in the
history, for every engine (incl. engines lacking a codec for a kind) — for a connection that has no remote
description (`Model/OfferSdp.lean`).
-/
namespace WebrtcVerif.C12
open WebrtcVerif.OfferSdp

/-- States of a PeerConnection that never saw a remote description: a fresh connection (any MediaEngine,
    any AlwaysNegotiateDataChannels) after any finite history of calls. -/
def Reachable (s : St) : Prop := ∃ e a ops, s = (runOps (init e a) ops).1

theorem reachable_inv {s : St} (h : Reachable s) : Inv s := by
  obtain ⟨e, a, ops, rfl⟩ := h
  exact inv_runOps ops _ (inv_init e a)

/-- engine / track used by the examples -/
def engAll' : Engine := { aCodecs := true, vCodecs := true, aRtx := false, vRtx := true, aFec := false, vFec := true }
def vTrack' (rid : Nat) : Track := { stream := .user 1, id := .user 2, kind := .video, rid }

/-! ## Clause 1 — one m-section per transceiver, with its mid, kind and direction -/

/-- the m-section `sec` is a full (not a bare rejected) section carrying the transceiver's mid, kind and
    current direction -/
def Describes (t : Transceiver) (sec : Section) : Prop :=
  sec.rejected = false ∧ sec.kind = t.kind ∧ t.mid.isSome = true ∧ sec.mid = t.mid ∧ sec.dirs = [t.dir]

/-- When `CreateOffer` succeeds, the RTP m-sections are, in order, one per transceiver, each carrying that
    transceiver's (now assigned) mid, its kind and its direction; different transceivers have different mids,
    the application section has yet another one; and the call changed nothing about the transceivers except
    assigning mids (so "current direction" is the direction before and after the call). -/
theorem C12_one_section_per_transceiver (s s' : St) (o : Offer) (hr : Reachable s)
    (h : createOffer s = (s', .ok o)) :
    All₂ Describes s'.trs o.media ∧
    (∀ t ∈ s'.trs, ∀ u ∈ s'.trs, t.mid = u.mid → t = u) ∧
    (∀ t ∈ s'.trs, o.app ≠ t.mid) ∧
    All₂ (fun t t' => t' = { t with mid := t'.mid }) s.trs s'.trs := by
  have hi := reachable_inv hr
  obtain ⟨rfl, hg, hc⟩ := createOffer_ok s s' o hi h
  obtain ⟨hsecs, _⟩ := generate_ok _ _ hg
  have hall := sectionsOf_all₂ _ _ _ hsecs
  have hnr := no_rejected s hi o hg hc
  have hsome := (normal_spec s hi).2.2.2
  refine ⟨?_, normal_inj s hi, ?_, normal_rel s⟩
  · refine All₂.imp_mem ?_ hall
    intro t ht sec hsec
    have hrej := hnr t ht sec hsec
    obtain ⟨h1, h2, h3, _⟩ := section_basic _ _ _ hsec hrej
    exact ⟨hrej, h2, hsome t ht, h1, h3⟩
  · intro t ht
    exact app_fresh _ _ hg t ht (hsome t ht)

/-- helper: in a list of sections paired with transceivers whose mids are set and strictly increasing, exactly
    one section carries a given transceiver's mid -/
private theorem one_of_mid : ∀ (lo : Int) (ts : List Transceiver) (secs : List Section),
    Sorted lo ts → (∀ t ∈ ts, t.mid.isSome = true) → All₂ (fun t sec => sec.mid = t.mid) ts secs →
    ∀ t ∈ ts, (secs.filter (fun sec => sec.mid == t.mid)).length = 1
  | _, [], _, _, _, _, t, ht => by simp at ht
  | _, x :: ts, [], _, _, h, _, _ => by simp [All₂] at h
  | lo, x :: ts, sec :: secs, hs, hsome, h, t, ht => by
    obtain ⟨h1, h2⟩ := h
    rcases hs with ⟨m, hm, _, hrest⟩ | hn
    · have htail : ∀ sec' ∈ secs, ∃ y : Int, sec'.mid = some y ∧ m < y := by
        intro sec' hmem
        obtain ⟨u, hu, hr⟩ := All₂.exists_left h2 sec' hmem
        have hus := hsome u (by simp [hu])
        cases hy : u.mid with
        | none => rw [hy] at hus; cases hus
        | some y => exact ⟨y, by rw [hr, hy], sorted_gt m ts hrest u hu y hy⟩
      simp only [List.mem_cons] at ht
      rcases ht with rfl | ht
      · have hnone : secs.filter (fun sec' => sec'.mid == some m) = [] := by
          apply List.filter_eq_nil_iff.2
          intro sec' hmem
          obtain ⟨y, hy, hlt⟩ := htail sec' hmem
          simp [hy]; omega
        simp [List.filter, h1, hm, hnone]
      · have hts := hsome t (by simp [ht])
        cases hy : t.mid with
        | none => rw [hy] at hts; cases hts
        | some y =>
          have hlt := sorted_gt m ts hrest t ht y hy
          have ih := one_of_mid m ts secs hrest (fun u hu => hsome u (by simp [hu])) h2 t ht
          rw [hy] at ih
          have : (sec.mid == some y) = false := by
            rw [h1, hm]; simp; omega
          simp [List.filter, this, ih]
    · have := hsome x (by simp)
      rw [hn x (by simp)] at this; cases this

/-- "Exactly one": for every transceiver, exactly one RTP m-section of the offer carries its mid, and the
    application section does not. -/
theorem C12_exactly_one_section (s s' : St) (o : Offer) (hr : Reachable s) (h : createOffer s = (s', .ok o)) :
    o.media.length = s'.trs.length ∧
    ∀ t ∈ s'.trs, (o.media.filter (fun sec => sec.mid == t.mid)).length = 1 ∧ o.app ≠ t.mid := by
  obtain ⟨h1, _, h3, _⟩ := C12_one_section_per_transceiver s s' o hr h
  have hi := reachable_inv hr
  obtain ⟨rfl, _, _⟩ := createOffer_ok s s' o hi h
  obtain ⟨hs, _, _, hsome⟩ := normal_spec s hi
  refine ⟨(All₂.length_eq h1).symm, fun t ht => ⟨?_, h3 t ht⟩⟩
  exact one_of_mid (-1) (normal s).trs o.media hs hsome (All₂.imp (fun _ _ hd => hd.2.2.2.1) h1) t ht

/-! ## Clause 2 — a sending track is announced with its msid and exactly the sender's SSRCs / groups -/

/-- What clause 2 demands of the m-section `sec` of transceiver `t` (`sd.params` is
    `RTPSender.GetParameters().Encodings`, `sd.track` is `RTPSender.Track()`):
    * a sender with a track: at least one `a=msid`, every `a=msid` and every per-source msid is
      `<streamID> <trackID>`; the announced sources are exactly the non-zero SSRCs of the encodings (primary,
      RTX, FEC); the `ssrc-group`s are exactly one `FID primary rtx` per encoding with an RTX SSRC and one
      `FEC-FR primary fec` per encoding with a FEC SSRC; and every encoding has a primary SSRC, an RTX SSRC
      iff the engine has an RTX codec for the kind, a FEC SSRC iff it has a FlexFEC codec for the kind;
    * no sender, or a sender whose track is nil: nothing is announced. -/
def Announces (e : Engine) (t : Transceiver) (sec : Section) : Prop :=
  match t.sender with
  | some sd =>
    match sd.track with
    | some tr =>
      sec.msids ≠ [] ∧ (∀ m ∈ sec.msids, m = (tr.stream, tr.id)) ∧
      (∀ src ∈ sec.sources, src.stream = tr.stream ∧ src.track = tr.id) ∧
      (∀ x, x ∈ sec.sources.map (·.ssrc) ↔ (x ≠ 0 ∧ ∃ p ∈ sd.params, x = p.ssrc ∨ x = p.rtx ∨ x = p.fec)) ∧
      (∀ g, g ∈ sec.groups ↔ ∃ p ∈ sd.params, (p.rtx ≠ 0 ∧ g = (Sem.fid, p.ssrc, p.rtx)) ∨
                                               (p.fec ≠ 0 ∧ g = (Sem.fecfr, p.ssrc, p.fec))) ∧
      (∀ p ∈ sd.params, p.ssrc ≠ 0 ∧ (p.rtx ≠ 0 ↔ e.rtx t.kind = true) ∧ (p.fec ≠ 0 ↔ e.fec t.kind = true))
    | none => sec.msids = [] ∧ sec.sources = [] ∧ sec.groups = []
  | none => sec.msids = [] ∧ sec.sources = [] ∧ sec.groups = []

private theorem mem_sources (tr : Track) (ps : List EncParams) (x : Nat) :
    x ∈ (ps.flatMap (encSources tr)).map (·.ssrc) ↔
      ∃ p ∈ ps, x = p.ssrc ∨ (p.rtx ≠ 0 ∧ x = p.rtx) ∨ (p.fec ≠ 0 ∧ x = p.fec) := by
  simp only [List.mem_map, List.mem_flatMap]
  constructor
  · rintro ⟨src, ⟨p, hp, hsrc⟩, rfl⟩
    refine ⟨p, hp, ?_⟩
    unfold encSources at hsrc
    simp only [List.mem_append, List.mem_cons, List.mem_nil_iff, or_false] at hsrc
    rcases hsrc with (rfl | h) | h
    · exact Or.inl rfl
    · split at h
      · simp at h; subst h; exact Or.inr (Or.inl ⟨‹_›, rfl⟩)
      · simp at h
    · split at h
      · simp at h; subst h; exact Or.inr (Or.inr ⟨‹_›, rfl⟩)
      · simp at h
  · rintro ⟨p, hp, h⟩
    rcases h with rfl | ⟨hr, rfl⟩ | ⟨hf, rfl⟩
    · exact ⟨{ ssrc := p.ssrc, stream := tr.stream, track := tr.id }, ⟨p, hp, by simp [encSources]⟩, rfl⟩
    · exact ⟨{ ssrc := p.rtx, stream := tr.stream, track := tr.id }, ⟨p, hp, by simp [encSources, hr]⟩, rfl⟩
    · exact ⟨{ ssrc := p.fec, stream := tr.stream, track := tr.id }, ⟨p, hp, by simp [encSources, hf]⟩, rfl⟩

private theorem mem_groups (ps : List EncParams) (g : Sem × Nat × Nat) :
    g ∈ ps.flatMap encGroups ↔ ∃ p ∈ ps, (p.rtx ≠ 0 ∧ g = (Sem.fid, p.ssrc, p.rtx)) ∨
                                           (p.fec ≠ 0 ∧ g = (Sem.fecfr, p.ssrc, p.fec)) := by
  simp only [List.mem_flatMap]
  constructor
  · rintro ⟨p, hp, hg⟩
    refine ⟨p, hp, ?_⟩
    unfold encGroups at hg
    simp only [List.mem_append] at hg
    rcases hg with h | h
    · split at h
      · simp at h; exact Or.inl ⟨‹_›, h⟩
      · simp at h
    · split at h
      · simp at h; exact Or.inr ⟨‹_›, h⟩
      · simp at h
  · rintro ⟨p, hp, h⟩
    refine ⟨p, hp, ?_⟩
    rcases h with ⟨hr, rfl⟩ | ⟨hf, rfl⟩
    · simp [encGroups, hr]
    · simp [encGroups, hf]

private theorem mem_source_msid (tr : Track) (ps : List EncParams) (src : Source)
    (h : src ∈ ps.flatMap (encSources tr)) : src.stream = tr.stream ∧ src.track = tr.id := by
  simp only [List.mem_flatMap] at h
  obtain ⟨p, _, hsrc⟩ := h
  unfold encSources at hsrc
  simp only [List.mem_append, List.mem_cons, List.mem_nil_iff, or_false] at hsrc
  rcases hsrc with (rfl | h) | h
  · exact ⟨rfl, rfl⟩
  · split at h
    · simp at h; subst h; exact ⟨rfl, rfl⟩
    · simp at h
  · split at h
    · simp at h; subst h; exact ⟨rfl, rfl⟩
    · simp at h

private theorem params_ok (e : Engine) (k : Kind) (sd : Sender) (h : SenderOk e k sd) :
    sd.params ≠ [] ∧
    ∀ p ∈ sd.params, p.ssrc ≠ 0 ∧ (p.rtx ≠ 0 ↔ e.rtx k = true) ∧ (p.fec ≠ 0 ↔ e.fec k = true) := by
  refine ⟨by simpa [Sender.params] using h.2.1, ?_⟩
  intro p hp
  simp only [Sender.params, List.mem_map] at hp
  obtain ⟨en, hen, rfl⟩ := hp
  exact h.2.2 en hen

/-- When `CreateOffer` succeeds, every transceiver's m-section announces exactly its sender's track:
    see `Announces`. -/
theorem C12_sender_announced (s s' : St) (o : Offer) (hr : Reachable s) (h : createOffer s = (s', .ok o)) :
    All₂ (Announces s.eng) s'.trs o.media := by
  have hi := reachable_inv hr
  obtain ⟨rfl, hg, hc⟩ := createOffer_ok s s' o hi h
  obtain ⟨hsecs, _⟩ := generate_ok _ _ hg
  have hall := sectionsOf_all₂ _ _ _ hsecs
  have hnr := no_rejected s hi o hg hc
  have hin := inv_normal s hi
  refine All₂.imp_mem ?_ hall
  intro t ht sec hsec
  have hrej := hnr t ht sec hsec
  have hs := section_sender _ _ _ hsec hrej
  unfold Announces
  cases hsd : t.sender with
  | none => simp only [hsd, Option.bind_none] at hs ⊢; exact ⟨hs.1, hs.2.1, hs.2.2.1⟩
  | some sd =>
    cases htr : sd.track with
    | none => simp only [hsd, Option.bind_some, htr] at hs ⊢; exact ⟨hs.1, hs.2.1, hs.2.2.1⟩
    | some tr =>
      simp only [hsd, Option.bind_some, htr] at hs ⊢
      obtain ⟨hm, hsrc, hgr, _, _⟩ := hs
      obtain ⟨hne, hp⟩ := params_ok _ _ _ (hin.senders t ht sd hsd)
      refine ⟨?_, ?_, ?_, ?_, ?_, hp⟩
      · rw [hm]; simpa using hne
      · intro m hmem; rw [hm] at hmem; simp only [List.mem_map] at hmem
        obtain ⟨_, _, rfl⟩ := hmem; rfl
      · intro src hmem; rw [hsrc] at hmem; exact mem_source_msid tr _ src hmem
      · intro x
        rw [hsrc, mem_sources]
        constructor
        · rintro ⟨p, hpm, hx⟩
          have := hp p hpm
          rcases hx with rfl | ⟨h1, rfl⟩ | ⟨h1, rfl⟩
          · exact ⟨this.1, p, hpm, Or.inl rfl⟩
          · exact ⟨h1, p, hpm, Or.inr (Or.inl rfl)⟩
          · exact ⟨h1, p, hpm, Or.inr (Or.inr rfl)⟩
        · rintro ⟨hx, p, hpm, h1⟩
          refine ⟨p, hpm, ?_⟩
          rcases h1 with rfl | rfl | rfl
          · exact Or.inl rfl
          · exact Or.inr (Or.inl ⟨hx, rfl⟩)
          · exact Or.inr (Or.inr ⟨hx, rfl⟩)
      · intro g; rw [hgr]; exact mem_groups _ g

/-- Corollary in the property's words: with an RTX (FlexFEC) codec registered for the kind, every encoding of
    an announced track has its `FID` (`FEC-FR`) group in the section; without one the section has no such group. -/
theorem C12_repair_groups_iff_enabled (s s' : St) (o : Offer) (hr : Reachable s)
    (h : createOffer s = (s', .ok o)) :
    All₂ (fun t sec => ∀ sd tr, t.sender = some sd → sd.track = some tr →
      (s.eng.rtx t.kind = true → ∀ p ∈ sd.params, (Sem.fid, p.ssrc, p.rtx) ∈ sec.groups ∧ p.rtx ≠ 0) ∧
      (s.eng.rtx t.kind = false → ∀ g ∈ sec.groups, g.1 ≠ Sem.fid) ∧
      (s.eng.fec t.kind = true → ∀ p ∈ sd.params, (Sem.fecfr, p.ssrc, p.fec) ∈ sec.groups ∧ p.fec ≠ 0) ∧
      (s.eng.fec t.kind = false → ∀ g ∈ sec.groups, g.1 ≠ Sem.fecfr)) s'.trs o.media := by
  refine All₂.imp ?_ (C12_sender_announced s s' o hr h)
  intro t sec ha sd tr hsd htr
  unfold Announces at ha
  simp only [hsd, htr] at ha
  obtain ⟨_, _, _, _, hg, hp⟩ := ha
  refine ⟨?_, ?_, ?_, ?_⟩
  · intro he p hpm
    have h1 := ((hp p hpm).2.1).2 he
    exact ⟨(hg _).2 ⟨p, hpm, Or.inl ⟨h1, rfl⟩⟩, h1⟩
  · intro he g hgm hfid
    obtain ⟨p, hpm, h1 | h1⟩ := (hg g).1 hgm
    · have := ((hp p hpm).2.1).1 h1.1
      rw [he] at this; cases this
    · rw [h1.2] at hfid; cases hfid
  · intro he p hpm
    have h1 := ((hp p hpm).2.2).2 he
    exact ⟨(hg _).2 ⟨p, hpm, Or.inr ⟨h1, rfl⟩⟩, h1⟩
  · intro he g hgm hfec
    obtain ⟨p, hpm, h1 | h1⟩ := (hg g).1 hgm
    · rw [h1.2] at hfec; cases hfec
    · have := ((hp p hpm).2.2).1 h1.1
      rw [he] at this; cases this

/-- Simulcast: a sender with more than one encoding lists the rids of `GetParameters().Encodings`, in order,
    as `a=rid:<rid> send` lines and in `a=simulcast:send …`; a single encoding has neither. -/
theorem C12_simulcast_rids (s s' : St) (o : Offer) (hr : Reachable s) (h : createOffer s = (s', .ok o)) :
    All₂ (fun t sec => ∀ sd tr, t.sender = some sd → sd.track = some tr →
      (sd.params.length > 1 → sec.rids = sd.params.map (·.rid) ∧ sec.simulcast = some (sd.params.map (·.rid))) ∧
      (sd.params.length ≤ 1 → sec.rids = [] ∧ sec.simulcast = none)) s'.trs o.media := by
  have hi := reachable_inv hr
  obtain ⟨rfl, hg, hc⟩ := createOffer_ok s s' o hi h
  obtain ⟨hsecs, _⟩ := generate_ok _ _ hg
  refine All₂.imp_mem ?_ (sectionsOf_all₂ _ _ _ hsecs)
  intro t ht sec hsec sd tr hsd htr
  have hs := section_sender _ _ _ hsec (no_rejected s hi o hg hc t ht sec hsec)
  simp only [hsd, Option.bind_some, htr] at hs
  obtain ⟨_, _, _, h4, h5⟩ := hs
  constructor
  · intro hl; simp only [hl, if_true] at h4 h5; exact ⟨h4, h5⟩
  · intro hl
    have : ¬ sd.params.length > 1 := by omega
    simp only [this, if_false] at h4 h5; exact ⟨h4, h5⟩

/-! ## Clause 3 — the application section -/

/-- On the state: the offer has an application section iff a data channel was requested or
    AlwaysNegotiateDataChannels is set (at most one such section by construction: `Offer.app` is an `Option`). -/
theorem C12_application_iff_state (s s' : St) (o : Offer) (hr : Reachable s) (h : createOffer s = (s', .ok o)) :
    o.app.isSome = true ↔ (s.always = true ∨ s.dcRequested ≠ 0) := by
  have hi := reachable_inv hr
  obtain ⟨rfl, hg, _⟩ := createOffer_ok s s' o hi h
  obtain ⟨_, happ⟩ := generate_ok _ _ hg
  rw [happ]
  have h1 : (normal s).always = s.always := rfl
  have h2 : (normal s).dcRequested = s.dcRequested := rfl
  rw [h1, h2]
  cases s.always <;> by_cases hd : s.dcRequested = 0 <;> simp [hd]

/-- On histories: after any history `ops` on a fresh connection, a successful offer has an application section
    iff AlwaysNegotiateDataChannels is set or some `CreateDataChannel` call of the history returned a channel
    (`dcCount` counts the calls whose result was `ok`). -/
theorem C12_application_iff (e : Engine) (a : Bool) (ops : List Op) (s' : St) (o : Offer)
    (h : createOffer (runOps (init e a) ops).1 = (s', .ok o)) :
    o.app.isSome = true ↔ (a = true ∨ 0 < dcCount ops (runOps (init e a) ops).2) := by
  have hf := runOps_frame ops (init e a)
  rw [C12_application_iff_state _ s' o ⟨e, a, ops, rfl⟩ h, hf.2.1, hf.2.2]
  simp only [init]
  constructor
  · rintro (h1 | h1)
    · exact Or.inl h1
    · exact Or.inr (by omega)
  · rintro (h1 | h1)
    · exact Or.inl h1
    · exact Or.inr (by omega)

/-! ## Re-offers -/

/-- A second `CreateOffer` right after a successful one reproduces the same description and leaves the state
    alone. -/
theorem C12_reoffer_same (s s' : St) (o : Offer) (hr : Reachable s) (h : createOffer s = (s', .ok o)) :
    createOffer s' = (s', .ok o) := by
  have hi := reachable_inv hr
  obtain ⟨rfl, hg, hc⟩ := createOffer_ok s s' o hi h
  have hn : normal { normal s with haveOffer := true, lastOfferMids := offerMids o } =
      { normal s with haveOffer := true, lastOfferMids := offerMids o } := by
    have : normal { normal s with haveOffer := true, lastOfferMids := offerMids o } =
        { normal (normal s) with haveOffer := true, lastOfferMids := offerMids o } := rfl
    rw [this, normal_normal s hi]
  unfold createOffer
  rw [offerLoop_succ 126 _, hn]
  have hg' : generate { normal s with haveOffer := true, lastOfferMids := offerMids o } = .ok o := hg
  rw [hg']
  have hc' : changed ({ normal s with haveOffer := true, lastOfferMids := offerMids o } : St).trs o = false := hc
  simp [hc']

/-- offer → `SetLocalDescription(offer)` → `CreateOffer` reproduces the same description. (The pending local
    description only raises `greaterMid`, i.e. the numbers that transceivers added LATER will get; whether a
    later re-offer before any answer keeps the application section's mid is C09's subject, not C12's.) -/
theorem C12_setLocal_same_description (s s' : St) (o : Offer) (hr : Reachable s)
    (h : createOffer s = (s', .ok o)) :
    (createOffer (step s' .setLocal).1).2 = .ok o := by
  have hre := C12_reoffer_same s s' o hr h
  have hi := reachable_inv hr
  obtain ⟨rfl, hg, hc⟩ := createOffer_ok s s' o hi h
  simp only [step]
  split
  · rw [hre]
  · split
    · rw [hre]
    · exact offer_again (normal s) _ o hg hc (normal_spec s hi).2.2.2 rfl rfl rfl rfl

/-- "The SSRCs its sender will use": no call changes the SSRCs of a sender that stays attached to its
    transceiver (`AddEncoding` appends a new triple, `ReplaceTrack`, `Stop`, `CreateOffer`, … keep the list), so
    the SSRCs and groups an offer announced remain those of `GetParameters()` afterwards. -/
theorem C12_ssrcs_kept (s : St) (op : Op) (hr : Reachable s) (i : Nat) (t t' : Transceiver) (sd sd' : Sender)
    (h : s.trs[i]? = some t) (h' : (step s op).1.trs[i]? = some t')
    (hs : t.sender = some sd) (hs' : t'.sender = some sd') : sd.ssrcs <+: sd'.ssrcs :=
  step_keeps s op (reachable_inv hr) i t t' sd sd' h h' hs hs'

-- non-vacuity: a second encoding is appended, the first keeps its SSRCs
example : ((step (runOps (init engAll' false) [.addTrack (vTrack' 5)]).1 (.addEncoding 0 (vTrack' 6))).1.trs.map
      (fun t => (t.sender.map Sender.ssrcs))) =
    [some [(4294967296, 4294967297, 4294967298), (4294967299, 4294967300, 4294967301)]] := by decide

/-! ## When does `CreateOffer` succeed? (the domain of the property) -/

/-- `CreateOffer` succeeds exactly when the MediaEngine has a codec for the kind of every transceiver.
    (Otherwise it fails with `ErrSenderWithNoCodecs`, or — for a sender-less transceiver — with
    `errExcessiveRetries`, because the rejected m-line carries its mid but no direction attribute and
    `hasLocalDescriptionChanged` never accepts the description.)  In particular the three clauses are not vacuous on any history that uses an engine
    with audio and video codecs and audio/video tracks only. -/
theorem C12_offer_succeeds_iff (s : St) (hr : Reachable s) :
    (∃ s' o, createOffer s = (s', .ok o)) ↔ ∀ t ∈ s.trs, s.eng.hasCodecs t.kind = true := by
  have hi := reachable_inv hr
  constructor
  · rintro ⟨s', o, h⟩ t ht
    obtain ⟨rfl, hg, hc⟩ := createOffer_ok s s' o hi h
    obtain ⟨hsecs, _⟩ := generate_ok _ _ hg
    have hall := sectionsOf_all₂ _ _ _ hsecs
    obtain ⟨t', ht', hrel⟩ := (normal_rel s).exists_right t ht
    obtain ⟨sec, _, hsec⟩ := hall.exists_right t' ht'
    have hb := section_basic _ _ _ hsec (no_rejected s hi o hg hc t' ht' sec hsec)
    rw [hrel] at hb
    exact hb.2.2.2
  · intro hall
    obtain ⟨o, hg, hc⟩ := offer_accepted s hi hall
    refine ⟨{ normal s with haveOffer := true, lastOfferMids := offerMids o }, o, ?_⟩
    unfold createOffer
    rw [offerLoop_succ 126 s, hg]
    simp [hc]

/-! ## Non-vacuity: concrete histories on which `CreateOffer` succeeds -/

/-- the offer of a successful `CreateOffer` -/
def offerOf (s : St) : Option Offer :=
  match (createOffer s).2 with
  | .ok o => some o
  | .error _ => none

theorem offerOf_isSome {s : St} (h : (offerOf s).isSome = true) : ∃ s' o, createOffer s = (s', .ok o) := by
  unfold offerOf at h
  cases hc : createOffer s with
  | mk s' r =>
    cases r with
    | ok o => exact ⟨s', o, rfl⟩
    | error e => simp [hc] at h

def engAll : Engine := engAll'

def vTrack (rid : Nat) : Track := vTrack' rid

/-- video simulcast track with RTX+FEC, an audio transceiver from kind, a recvonly one, a data channel -/
def demoOps : List Op :=
  [.addFromTrack (vTrack 5) (some .sendonly) 0, .addEncoding 0 (vTrack 6), .addKind .audio none 0,
   .addKind .video (some .recvonly) 77, .dataChannel false]

example : Reachable (runOps (init engAll false) demoOps).1 := ⟨_, _, _, rfl⟩

-- the hypotheses of the theorems are satisfiable …
example : ∃ s' o, createOffer (runOps (init engAll false) demoOps).1 = (s', .ok o) :=
  offerOf_isSome (by decide)

-- … on a non-trivial offer: three sections with mids 0,1,2, the application section with mid 3, two FID and
-- two FEC-FR groups and two rids for the simulcast video sender, nothing for the others
example : (offerOf (runOps (init engAll false) demoOps).1).map (fun o => (o.app, o.media.map (·.mid)))
    = some (some 3, [some 0, some 1, some 2]) := by decide
example : (offerOf (runOps (init engAll false) demoOps).1).map (fun o => o.media.map (·.dirs))
    = some [[.sendonly], [.sendrecv], [.recvonly]] := by decide
example : (offerOf (runOps (init engAll false) demoOps).1).map (fun o => o.media.map (·.groups.length))
    = some [4, 0, 0] := by decide
example : (offerOf (runOps (init engAll false) demoOps).1).map (fun o => o.media.map (·.rids))
    = some [[5, 6], [], []] := by decide
example : (offerOf (runOps (init engAll false) demoOps).1).map (fun o => o.media.map (·.msids.length))
    = some [2, 1, 0] := by decide

/-- `ReplaceTrack(nil)`: the sender stays, nothing is announced; AlwaysNegotiateDataChannels alone gives the
    application section -/
example : (offerOf (runOps (init engAll true) [.addTrack (vTrack 0), .replaceTrack 0 none]).1).map
      (fun o => (o.app, o.media.map (·.msids), o.media.map (·.dirs)))
    = some (some 1, [[]], [[.sendrecv]]) := by decide

/-- an engine without audio codecs: a recvonly audio transceiver makes `CreateOffer` fail after 128 attempts
    (the rejected m-line has its mid but no direction attribute, `hasLocalDescriptionChanged` never accepts it) — the property only
    speaks about successful offers -/
example : (offerOf (runOps (init { engAll with aCodecs := false } false) [.addKind .audio (some .recvonly) 0]).1)
    = none := by decide

end WebrtcVerif.C12
