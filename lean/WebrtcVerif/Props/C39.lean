import WebrtcVerif.Model.Config
import WebrtcVerif.Proofs.ConfigLemmas
/-!
# C39 — SetConfiguration never changes immutable settings

"SetConfiguration rejects any attempt to change the bundle policy, RTCP mux policy, peer identity or
certificates, or to change the candidate pool size once a local description exists. A rejected call
returns an InvalidModificationError and leaves GetConfiguration exactly as it was, and invalid ICE
servers are rejected without partial changes."

Quantifier: random initial configurations and random SetConfiguration arguments (each field
changed/unchanged/zero), before and after SetLocalDescription, and after Close.

Reading used here (and by the judge in `Drv/C39.lean`):
 * a field of the argument left at its zero value ("", no certificates, policy 0, pool size 0) is
   "not specified" — that is how the Go API expresses an absent dictionary member — so an *attempt to
   change* a setting is a non-zero value that differs from the current one;
 * "a rejected call returns an InvalidModificationError" is about the calls the first sentence
   rejects; on a closed connection every call is rejected with InvalidStateError (W3C step 2), which
   is accepted, and an invalid ICE server yields InvalidAccessError;
 * every theorem quantifies over the URL parser `p` (pion/stun `ParseURI` is an external library), so
   nothing depends on what a valid URL is.
All statements are for an arbitrary connection state `s` — in particular for every state reachable by
any history of SetConfiguration / SetLocalDescription / Close calls.
-/
namespace WebrtcVerif.C39
open WebrtcVerif.Config

/-! ## Specification vocabulary -/

/-- the argument tries to change an immutable setting of the connection -/
def Attempts (s : St) (a : Cfg) : Prop :=
  (a.peerIdentity ≠ "" ∧ a.peerIdentity ≠ s.cfg.peerIdentity) ∨
  (a.certs ≠ [] ∧ a.certs ≠ s.cfg.certs) ∨
  (a.bundlePolicy ≠ 0 ∧ a.bundlePolicy ≠ s.cfg.bundlePolicy) ∨
  (a.rtcpMuxPolicy ≠ 0 ∧ a.rtcpMuxPolicy ≠ s.cfg.rtcpMuxPolicy) ∨
  (s.hasLocal = true ∧ a.poolSize ≠ 0 ∧ a.poolSize ≠ s.cfg.poolSize)

instance (s : St) (a : Cfg) : Decidable (Attempts s a) := by unfold Attempts; infer_instance

/-- the credential fits the declared credential type (W3C set-the-configuration 11.3.3 / 11.3.4) -/
def CredFits (sv : IceServer) : Prop :=
  (sv.credType = 0 ∧ ∃ t, sv.cred = .str t) ∨ (sv.credType = 1 ∧ sv.cred = .oauth)

/-- a URL that makes its server invalid: it does not parse, or it is a TURN(S) URL and the server has
    no username, no credential, or a credential that does not fit its type -/
def UrlBad (p : String → Option Scheme) (sv : IceServer) (u : String) : Prop :=
  p u = none ∨
  ((p u = some .turn ∨ p u = some .turns) ∧ (sv.username = "" ∨ sv.cred = .nil ∨ ¬ CredFits sv))

/-- some ICE server of the list is invalid -/
def ServersInvalid (p : String → Option Scheme) (ss : List IceServer) : Prop :=
  ∃ sv ∈ ss, ∃ u ∈ sv.urls, UrlBad p sv u

/-- the settings the property calls immutable (the pool size is handled separately) -/
def immutables (c : Cfg) : String × List Cert × Nat × Nat :=
  (c.peerIdentity, c.certs, c.bundlePolicy, c.rtcpMuxPolicy)

/-! ## Bridging lemmas between the vocabulary above and the model's cascade -/

private theorem firstOffence_of_attempt (s : St) (a : Cfg) (h : Attempts s a) :
    ∃ e, firstOffence s.hasLocal s.cfg a = some e := by
  unfold firstOffence
  by_cases h1 : a.peerIdentity ≠ "" ∧ a.peerIdentity ≠ s.cfg.peerIdentity
  · exact ⟨_, by rw [if_pos h1]⟩
  by_cases h2 : CertsOffend s.cfg a
  · exact ⟨_, by rw [if_neg h1, if_pos h2]⟩
  by_cases h3 : a.bundlePolicy ≠ 0 ∧ a.bundlePolicy ≠ s.cfg.bundlePolicy
  · exact ⟨_, by rw [if_neg h1, if_neg h2, if_pos h3]⟩
  by_cases h4 : a.rtcpMuxPolicy ≠ 0 ∧ a.rtcpMuxPolicy ≠ s.cfg.rtcpMuxPolicy
  · exact ⟨_, by rw [if_neg h1, if_neg h2, if_neg h3, if_pos h4]⟩
  by_cases h5 : a.poolSize ≠ 0 ∧ s.cfg.poolSize ≠ a.poolSize ∧ s.hasLocal = true
  · exact ⟨_, by rw [if_neg h1, if_neg h2, if_neg h3, if_neg h4, if_pos h5]⟩
  exfalso
  rcases h with h | h | h | h | h
  · exact h1 h
  · exact h2 (certsOffend_of_changed _ _ h)
  · exact h3 h
  · exact h4 h
  · exact h5 ⟨h.2.1, fun e => h.2.2 e.symm, h.1⟩

private theorem checkUrl_ne_none_iff (p : String → Option Scheme) (sv : IceServer) (u : String) :
    sv.checkUrl p u ≠ none ↔ UrlBad p sv u := by
  unfold IceServer.checkUrl UrlBad CredFits
  cases hp : p u with
  | none => simp
  | some sch =>
    obtain ⟨urls, user, cred, ct⟩ := sv
    cases sch <;> simp only [reduceCtorEq, false_or, or_false, or_true, if_true, if_false, ne_eq,
      not_true_eq_false, false_and, true_and, Option.some.injEq]
    all_goals
      by_cases hu : user = "" <;> cases cred <;>
        (try (rcases ct with _ | _ | ct)) <;> simp_all

private theorem validateAll_ne_none_iff (p : String → Option Scheme) (ss : List IceServer) :
    validateAll p ss ≠ none ↔ ServersInvalid p ss := by
  unfold validateAll ServersInvalid IceServer.validate
  rw [findSome?_ne_none_iff]
  constructor
  · rintro ⟨sv, hm, h⟩
    rw [findSome?_ne_none_iff] at h
    obtain ⟨u, hu, h⟩ := h
    exact ⟨sv, hm, u, hu, (checkUrl_ne_none_iff p sv u).mp h⟩
  · rintro ⟨sv, hm, u, hu, h⟩
    exact ⟨sv, hm, (findSome?_ne_none_iff _ _).mpr ⟨u, hu, (checkUrl_ne_none_iff p sv u).mpr h⟩⟩

private theorem firstOffence_none_of_no_attempt (s : St) (a : Cfg) (hno : ¬ Attempts s a) (hz : ¬ CertsOffend s.cfg a) :
    firstOffence s.hasLocal s.cfg a = none := by
  unfold firstOffence
  unfold Attempts at hno
  have h1 : ¬ (a.peerIdentity ≠ "" ∧ a.peerIdentity ≠ s.cfg.peerIdentity) := fun x => hno (Or.inl x)
  have h3 : ¬ (a.bundlePolicy ≠ 0 ∧ a.bundlePolicy ≠ s.cfg.bundlePolicy) := fun x => hno (Or.inr (Or.inr (Or.inl x)))
  have h4 : ¬ (a.rtcpMuxPolicy ≠ 0 ∧ a.rtcpMuxPolicy ≠ s.cfg.rtcpMuxPolicy) :=
    fun x => hno (Or.inr (Or.inr (Or.inr (Or.inl x))))
  have h5 : ¬ (a.poolSize ≠ 0 ∧ s.cfg.poolSize ≠ a.poolSize ∧ s.hasLocal = true) :=
    fun x => hno (Or.inr (Or.inr (Or.inr (Or.inr ⟨x.2.2, x.1, fun e => x.2.1 e.symm⟩))))
  rw [if_neg h1, if_neg hz, if_neg h3, if_neg h4, if_neg h5]

private theorem not_certsOffend_of_no_attempt (s : St) (a : Cfg) (hno : ¬ Attempts s a) (hz : Cert.zero ∉ a.certs) :
    ¬ CertsOffend s.cfg a := by
  rintro ⟨hpos, hbad⟩
  have hne : a.certs ≠ [] := List.length_pos_iff.mp hpos
  have heq : a.certs = s.cfg.certs := by
    by_cases h : a.certs = s.cfg.certs
    · exact h
    · exact absurd (Or.inr (Or.inl ⟨hne, h⟩)) hno
  rcases hbad with hl | he
  · exact hl (by rw [heq])
  · rw [← heq, certsAllEqual_self a.certs hz] at he
    cases he

/-! ## The property -/

/-- **Clause 1** (first sentence + error class). On an open connection every attempt to change the peer
    identity, the certificates, the bundle policy, the RTCP mux policy — or the candidate pool size
    once a local description exists — is rejected with an InvalidModificationError, whatever else the
    argument contains (valid, invalid or no ICE servers, any transport policy). -/
theorem C39_rejects_immutable_change (p : String → Option Scheme) (s : St) (a : Cfg)
    (hopen : s.closed = false) (h : Attempts s a) :
    ∃ e, (setConfiguration p s a).2 = some e ∧ e.isInvalidModification = true := by
  obtain ⟨e, he⟩ := firstOffence_of_attempt s a h
  refine ⟨e, ?_, firstOffence_isMod _ _ _ _ he⟩
  rw [setConfiguration_eq, if_neg (by simp [hopen]), he]

-- non-vacuity: an answered connection, pool size 0 → 1 (all other immutable fields unspecified)
example : Attempts { cfg := { defaultCfg with certs := [.auto] }, currentLocal := true }
    { defaultCfg with bundlePolicy := 0, rtcpMuxPolicy := 0, poolSize := 1 } := by decide

/-- **Clause 2** (a rejected call leaves GetConfiguration exactly as it was). Whatever the reason for the
    rejection — closed connection, immutable setting, invalid server — the whole connection state,
    hence every field GetConfiguration returns, is what it was before the call. -/
theorem C39_rejected_leaves_config (p : String → Option Scheme) (s : St) (a : Cfg)
    (h : (setConfiguration p s a).2 ≠ none) : (setConfiguration p s a).1 = s := by
  rw [setConfiguration_eq] at h ⊢
  split
  · rfl
  · split
    · rfl
    · split
      · rfl
      · rename_i hc _ ho _ hv
        rw [if_neg hc, ho, hv] at h
        exact absurd rfl h

-- non-vacuity: a rejected call exists (peer identity change)
example : (setConfiguration (fun _ => some .stun) { cfg := defaultCfg } { defaultCfg with peerIdentity := "x" }).2 ≠ none := by
  decide

/-- **Clause 3** (invalid ICE servers are rejected without partial changes). If any server of the argument
    is invalid — whichever server, whichever of its URLs, whatever precedes or follows it, and whatever
    the other fields of the argument are — the call fails and the connection state is unchanged: in
    particular the transport policy and the AlwaysNegotiateDataChannels flag of the same argument are
    not applied. -/
theorem C39_invalid_server_no_partial_change (p : String → Option Scheme) (s : St) (a : Cfg)
    (h : ServersInvalid p a.servers) :
    (setConfiguration p s a).2 ≠ none ∧ (setConfiguration p s a).1 = s := by
  have hv := (validateAll_ne_none_iff p a.servers).mpr h
  have herr : (setConfiguration p s a).2 ≠ none := by
    rw [setConfiguration_eq]
    split
    · simp
    · split
      · simp
      · split
        · simp
        · rename_i hv'; exact absurd hv' hv
  exact ⟨herr, C39_rejected_leaves_config p s a herr⟩

-- non-vacuity: a TURN url without credentials behind a valid STUN url, in the second server
example : ServersInvalid (fun u => if u = "t" then some .turn else some .stun)
    [{ urls := ["s"], username := "", cred := .nil, credType := 0 },
     { urls := ["s", "t"], username := "", cred := .nil, credType := 0 }] :=
  ⟨_, List.mem_cons_of_mem _ List.mem_cons_self, "t", by simp, Or.inr ⟨Or.inl (by simp), Or.inl rfl⟩⟩

/-- The error of a call that is rejected only because of its servers is an InvalidAccessError. -/
theorem C39_invalid_server_error_class (p : String → Option Scheme) (s : St) (a : Cfg)
    (hopen : s.closed = false) (hno : ¬ Attempts s a) (hz : Cert.zero ∉ a.certs)
    (h : ServersInvalid p a.servers) :
    ∃ e, (setConfiguration p s a).2 = some e ∧ e.isInvalidAccess = true := by
  have hv := (validateAll_ne_none_iff p a.servers).mpr h
  have ho := firstOffence_none_of_no_attempt s a hno (not_certsOffend_of_no_attempt s a hno hz)
  cases hv' : validateAll p a.servers with
  | none => exact absurd hv' hv
  | some e =>
    refine ⟨e, ?_, validateAll_isAccess p _ e hv'⟩
    rw [setConfiguration_eq, if_neg (by simp [hopen]), ho]
    simp only [hv']

/-- **Title clause** (SetConfiguration never changes immutable settings). Whether the call succeeds or
    fails, on any state: peer identity, certificates, bundle policy and RTCP mux policy afterwards are
    what they were before, the candidate pool size too (it is never stored — with or without a local
    description), and so are the SDP semantics and the closed / local-description flags. -/
theorem C39_never_changes_immutables (p : String → Option Scheme) (s : St) (a : Cfg) :
    immutables (setConfiguration p s a).1.cfg = immutables s.cfg ∧
      (setConfiguration p s a).1.cfg.poolSize = s.cfg.poolSize ∧
      (setConfiguration p s a).1.cfg.sdpSemantics = s.cfg.sdpSemantics ∧
      (setConfiguration p s a).1.closed = s.closed ∧
      (setConfiguration p s a).1.pendingLocal = s.pendingLocal ∧
      (setConfiguration p s a).1.currentLocal = s.currentLocal := by
  rw [setConfiguration_eq]
  split
  · simp
  · split
    · simp
    · split
      · simp
      · simp [immutables, applied]

/-- **After Close.** Every call on a closed connection is rejected (InvalidStateError, W3C step 2) and
    changes nothing. -/
theorem C39_closed_rejects (p : String → Option Scheme) (s : St) (a : Cfg) (h : s.closed = true) :
    setConfiguration p s a = (s, some .invalidState) := by
  simp [setConfiguration, h]

/-- **Converse** (what is accepted, and what an accepted call does). On an open connection an argument
    that attempts no immutable change, contains no zero-valued certificate and has only valid servers
    is accepted, and the only settings that change are the three mutable ones: the transport policy is
    overwritten, AlwaysNegotiateDataChannels can only be switched on, the servers are replaced. -/
theorem C39_accepts_exactly (p : String → Option Scheme) (s : St) (a : Cfg)
    (hopen : s.closed = false) (hno : ¬ Attempts s a) (hz : Cert.zero ∉ a.certs)
    (hsrv : ¬ ServersInvalid p a.servers) :
    setConfiguration p s a = ({ s with cfg := applied s.cfg a }, none) := by
  have hv : validateAll p a.servers = none := by
    cases h : validateAll p a.servers with
    | none => rfl
    | some e => exact absurd ((validateAll_ne_none_iff p a.servers).mp (by simp [h])) hsrv
  have ho := firstOffence_none_of_no_attempt s a hno (not_certsOffend_of_no_attempt s a hno hz)
  rw [setConfiguration_eq, if_neg (by simp [hopen]), ho]
  simp only [hv]

-- non-vacuity: hypotheses of the converse are satisfiable with every immutable field repeated unchanged
example : ¬ Attempts { cfg := { defaultCfg with certs := [.pool 0, .pool 1], peerIdentity := "alice" }, pendingLocal := true }
    { defaultCfg with certs := [.pool 0, .pool 1], peerIdentity := "alice", transportPolicy := 1 } := by decide

/-- The one thing the converse's certificate hypothesis excludes: `Certificate.Equals` is not reflexive on
    the zero `Certificate{}`, so repeating an unchanged certificate list that contains one is rejected
    (a rejection the property permits). -/
theorem C39_zero_certificate_repeat_rejected (p : String → Option Scheme) :
    (setConfiguration p { cfg := { defaultCfg with certs := [.zero] } }
      { defaultCfg with certs := [.zero], bundlePolicy := 0, rtcpMuxPolicy := 0 }).2 = some .modCertificates := by
  simp [setConfiguration, setConfigurationCfg, andThen, stepPeerIdentity, stepCertificates, defaultCfg,
    certsAllEqual, Cert.equals]

/-- **Order of the checks** (the whole function in one cascade). The block-by-block model — with every
    intermediate assignment the Go code makes — equals: closed → InvalidStateError; else the first offending
    immutable setting in the order peer identity, certificates, bundle policy, RTCP mux policy, pool size →
    InvalidModificationError; else the first invalid server → its InvalidAccessError; else apply the transport
    policy, the AlwaysNegotiateDataChannels flag (only to true) and the servers.  In every rejecting branch the
    state is returned as it was. -/
theorem C39_normal_form (p : String → Option Scheme) (s : St) (a : Cfg) :
    setConfiguration p s a =
      if s.closed = true then (s, some .invalidState)
      else match firstOffence s.hasLocal s.cfg a with
        | some e => (s, some e)
        | none =>
          match validateAll p a.servers with
          | some e => (s, some e)
          | none => ({ s with cfg := applied s.cfg a }, none) :=
  setConfiguration_eq p s a

/-- Server validation reports the first invalid server: valid servers in front of it are skipped, whatever
    follows it is not looked at. -/
theorem C39_validation_reports_first_invalid (p : String → Option Scheme) (pre post : List IceServer) (sv : IceServer)
    (e : Err) (hpre : ¬ ServersInvalid p pre) (hsv : sv.validate p = some e) :
    validateAll p (pre ++ sv :: post) = some e := by
  have hnone : validateAll p pre = none := by
    cases h : validateAll p pre with
    | none => rfl
    | some e' => exact absurd ((validateAll_ne_none_iff p pre).mp (by simp [h])) hpre
  unfold validateAll at hnone ⊢
  rw [List.findSome?_append, hnone]
  simp [hsv]

-- non-vacuity
example : validateAll (fun u => if u = "bad" then none else some .stun)
    ([{ urls := ["ok"], username := "", cred := .nil, credType := 0 }] ++
      { urls := ["ok", "bad"], username := "", cred := .nil, credType := 0 } :: []) = some .accessUrl := by
  decide

/-! ## Histories -/

/-- No operation of a history — SetConfiguration with any argument built in any way, SetLocalDescription
    of an offer or an answer, Close, a caller scribbling over a GetConfiguration result — changes an
    immutable setting or the pool size. -/
theorem C39_step_keeps_immutables (p : String → Option Scheme) (s : St) (op : Op) :
    immutables (step p s op).1.cfg = immutables s.cfg ∧ (step p s op).1.cfg.poolSize = s.cfg.poolSize := by
  cases op with
  | set m a =>
    have := C39_never_changes_immutables p s a
    exact ⟨this.1, this.2.1⟩
  | slo => simp only [step]; (repeat' split) <;> simp
  | ans => simp only [step]; (repeat' split) <;> simp
  | close => simp [step]
  | scrib => simp [step]

/-- **History theorem.** Along every history, of any length, the immutable settings and the pool size
    that GetConfiguration reports after the last step are those the connection was created with. -/
theorem C39_history_immutables_constant (p : String → Option Scheme) (s : St) (ops : List Op) :
    immutables (finalSt p s ops).cfg = immutables s.cfg ∧ (finalSt p s ops).cfg.poolSize = s.cfg.poolSize := by
  unfold finalSt
  induction ops generalizing s with
  | nil => exact ⟨rfl, rfl⟩
  | cons op rest ih =>
    simp only [List.foldl_cons]
    have h1 := C39_step_keeps_immutables p s op
    have h2 := ih (step p s op).1
    exact ⟨h2.1.trans h1.1, h2.2.trans h1.2⟩

/-- … and the same for every intermediate observation the harness prints (`runOps` is what the driver runs). -/
theorem C39_history_every_observation (p : String → Option Scheme) (s : St) (ops : List Op) :
    ∀ r ∈ runOps p s ops, immutables r.2.cfg = immutables s.cfg ∧ r.2.cfg.poolSize = s.cfg.poolSize := by
  induction ops generalizing s with
  | nil => intro r hr; simp [runOps] at hr
  | cons op rest ih =>
    intro r hr
    have h1 := C39_step_keeps_immutables p s op
    unfold runOps at hr
    simp only at hr
    split at hr
    · simp only [List.mem_singleton] at hr
      subst hr; exact h1
    · simp only [List.mem_cons] at hr
      rcases hr with hr | hr
      · subst hr; exact h1
      · have h2 := ih (step p s op).1 r hr
        exact ⟨h2.1.trans h1.1, h2.2.trans h1.2⟩

/-- Once a local description exists it keeps existing (no operation modelled here removes it), and a closed
    connection stays closed: the "once a local description exists" and "after Close" regimes are absorbing. -/
theorem C39_regimes_absorbing (p : String → Option Scheme) (s : St) (op : Op) :
    (s.hasLocal = true → (step p s op).1.hasLocal = true) ∧ (s.closed = true → (step p s op).1.closed = true) := by
  cases op with
  | set m a =>
    have := C39_never_changes_immutables p s a
    simp only [step, St.hasLocal] at this ⊢
    rw [this.2.2.2.1, this.2.2.2.2.1, this.2.2.2.2.2]
    exact ⟨id, id⟩
  | slo => simp only [step, St.hasLocal]; (repeat' split) <;> simp_all
  | ans => simp only [step, St.hasLocal]; (repeat' split) <;> simp_all
  | close => simp [step, St.hasLocal]
  | scrib => simp [step]

/-- Rejection along histories: after any history that produced a local description, a pool-size change is
    rejected with InvalidModificationError — e.g. `[slo]`, `[ans]`, `[ans, slo, set …, slo]`. -/
theorem C39_pool_size_frozen_after_local_description (p : String → Option Scheme) (s : St) (ops : List Op) (a : Cfg)
    (hl : (finalSt p s ops).hasLocal = true) (hopen : (finalSt p s ops).closed = false)
    (hp : a.poolSize ≠ 0 ∧ a.poolSize ≠ s.cfg.poolSize) :
    ∃ e, (setConfiguration p (finalSt p s ops) a).2 = some e ∧ e.isInvalidModification = true := by
  apply C39_rejects_immutable_change p _ a hopen
  have := (C39_history_immutables_constant p s ops).2
  exact Or.inr (Or.inr (Or.inr (Or.inr ⟨hl, hp.1, by rw [this]; exact hp.2⟩)))

-- non-vacuity: a history with an answer, an accepted server update and a re-offer
example : (finalSt stunParseURI { cfg := { defaultCfg with certs := [.auto] } }
    [.ans, .set .getModifySet { defaultCfg with bundlePolicy := 0, rtcpMuxPolicy := 0, transportPolicy := 1 }, .slo]).hasLocal = true
    ∧ (finalSt stunParseURI { cfg := { defaultCfg with certs := [.auto] } }
    [.ans, .set .getModifySet { defaultCfg with bundlePolicy := 0, rtcpMuxPolicy := 0, transportPolicy := 1 }, .slo]).cfg.transportPolicy = 1 := by
  decide

/-! ## Slices: what the copies in GetConfiguration / SetConfiguration guarantee

The theorems above are about values.  `Config.Alias` models the `Certificates` slice itself.  With the code as
it is (`shared = false`) no program of a caller — reading configurations, building slices, writing into any
slice it holds, passing any of them to SetConfiguration, in any order and number — changes the connection's
certificates.  The `example`s after the theorem replay, on the variant with the pre-fix behaviour
(`shared = true`), the three programs that were observed to change them on the real code. -/
section Slices
open WebrtcVerif.Config.Alias

/-- the connection's backing array exists, holds at least `len` certificates, and no slice the caller holds
    points into it -/
def AliasInv (w : World) : Prop :=
  w.pcCerts.addr < w.heap.length ∧ w.pcCerts.len ≤ (hget w.heap w.pcCerts.addr).length ∧
  ∀ s ∈ w.held, s.addr < w.heap.length ∧ s.addr ≠ w.pcCerts.addr

theorem C39_alias_step_preserves (w : World) (a : Act) (h : AliasInv w) :
    AliasInv (act false w a).1 ∧ (act false w a).1.certs = w.certs := by
  obtain ⟨h1, h2, h3⟩ := h
  cases a with
  | get =>
    simp only [act, alloc, Bool.false_eq_true, if_false, World.certs, sread]
    refine ⟨⟨by simp; omega, ?_, ?_⟩, ?_⟩
    · rw [hget_append_lt _ _ _ h1]; exact h2
    · intro s hs
      simp only [List.mem_append, List.mem_singleton] at hs
      rcases hs with hs | hs
      · have := h3 s hs; exact ⟨by simp; omega, this.2⟩
      · subst hs; simp; omega
    · rw [hget_append_lt _ _ _ h1]
  | make l =>
    simp only [act, alloc, World.certs, sread]
    refine ⟨⟨by simp; omega, ?_, ?_⟩, ?_⟩
    · rw [hget_append_lt _ _ _ h1]; exact h2
    · intro s hs
      simp only [List.mem_append, List.mem_singleton] at hs
      rcases hs with hs | hs
      · have := h3 s hs; exact ⟨by simp; omega, this.2⟩
      · subst hs; simp; omega
    · rw [hget_append_lt _ _ _ h1]
  | write k i c =>
    simp only [act]
    cases hk : w.held[k]? with
    | none => exact ⟨⟨h1, h2, h3⟩, rfl⟩
    | some s =>
      have hm : s ∈ w.held := List.mem_of_getElem? hk
      have hs := h3 s hm
      by_cases hi : i < s.len
      · simp only [hi, if_true, World.certs, sread]
        refine ⟨⟨by rw [hmod_length]; exact h1, ?_, ?_⟩, ?_⟩
        · rw [hget_hmod_ne _ _ _ _ hs.2]; exact h2
        · intro s' hs'; rw [hmod_length]; exact h3 s' hs'
        · rw [hget_hmod_ne _ _ _ _ hs.2]
      · simp only [if_neg hi]; exact ⟨⟨h1, h2, h3⟩, trivial⟩
  | set k reached =>
    simp only [act]
    cases hk : w.held[k]? with
    | none => exact ⟨⟨h1, h2, h3⟩, rfl⟩
    | some s =>
      simp only
      cases reached with
      | false => exact ⟨⟨h1, h2, h3⟩, rfl⟩
      | true =>
        simp only [Bool.not_true, Bool.false_eq_true, if_false]
        by_cases hpos : (sread w.heap s).length > 0
        · rw [if_pos hpos]
          by_cases hlen : (sread w.heap s).length = w.pcCerts.len
          · rw [if_neg (by simp [hlen])]
            by_cases heq : certsAllEqual (sread w.heap w.pcCerts) (sread w.heap s) = true
            · rw [if_neg (by simp [heq])]
              simp only [alloc, World.certs]
              have hcur : (sread w.heap w.pcCerts).length = w.pcCerts.len := by
                simp only [sread, List.length_take]; omega
              have harg := certsAllEqual_eq _ _ (hlen.trans hcur.symm) heq
              refine ⟨⟨by simp, ?_, ?_⟩, ?_⟩
              · simp [hget_append_length]
              · intro s' hs'
                have := h3 s' hs'
                exact ⟨by simp; omega, by simp; omega⟩
              · simp only [sread, hget_append_length, List.take_length]
                exact harg
            · rw [if_pos (by simpa using heq)]; exact ⟨⟨h1, h2, h3⟩, rfl⟩
          · rw [if_pos hlen]; exact ⟨⟨h1, h2, h3⟩, rfl⟩
        · rw [if_neg hpos]; exact ⟨⟨h1, h2, h3⟩, rfl⟩

/-- **No caller program changes the certificates** (any well-formed starting point). -/
theorem C39_alias_certificates_unreachable (w : World) (h : AliasInv w) (as : List Act) :
    (runActs false w as).certs = w.certs ∧ AliasInv (runActs false w as) := by
  unfold runActs
  induction as generalizing w with
  | nil => exact ⟨rfl, h⟩
  | cons a rest ih =>
    simp only [List.foldl_cons]
    have h1 := C39_alias_step_preserves w a h
    have h2 := ih (act false w a).1 h1.1
    exact ⟨h2.1.trans h1.2, h2.2⟩

/-- … in particular from a new connection: whatever the caller does, GetConfiguration keeps reporting the
    certificates the connection was created with. -/
theorem C39_alias_new_connection (l : List Cert) (as : List Act) :
    (runActs false (World.init l) as).certs = l := by
  have hinv : AliasInv (World.init l) := ⟨by simp [World.init], by simp [World.init, hget], by simp [World.init]⟩
  rw [(C39_alias_certificates_unreachable _ hinv as).1]
  simp [World.init, World.certs, sread, hget]

-- non-vacuity / contrast: the same three programs on the pre-fix variant (observed on the real code before
-- the fix, see corpus/C39/aliasing.ops), and on the code as it is
-- 1. overwrite the result of GetConfiguration
example : (runActs true (World.init [.pool 1]) [.get, .write 0 0 (.pool 99)]).certs = [.pool 99] := by decide
example : (runActs false (World.init [.pool 1]) [.get, .write 0 0 (.pool 99)]).certs = [.pool 1] := by decide
-- 2. get-modify-set: accepted, and the certificate is replaced
example : (act true (runActs true (World.init [.auto]) [.get, .write 0 0 (.pool 2)]) (.set 0 true)).2 = false
    ∧ (runActs true (World.init [.auto]) [.get, .write 0 0 (.pool 2), .set 0 true]).certs = [.pool 2] := by decide
example : (act false (runActs false (World.init [.auto]) [.get, .write 0 0 (.pool 2)]) (.set 0 true)).2 = true
    ∧ (runActs false (World.init [.auto]) [.get, .write 0 0 (.pool 2), .set 0 true]).certs = [.auto] := by decide
-- 3. the argument slice stays installed: overwrite it after an accepted call
example : (runActs true (World.init [.pool 0]) [.make [.pool 0], .set 0 true, .write 0 0 (.pool 99)]).certs = [.pool 99] := by
  decide
example : (runActs false (World.init [.pool 0]) [.make [.pool 0], .set 0 true, .write 0 0 (.pool 99)]).certs = [.pool 0] := by
  decide

end Slices

/-! ## NewPeerConnection -/

/-- A configuration `NewPeerConnection` accepts leaves the connection with at least one certificate, none of
    them expired, a pool size of at most 1, only valid servers, and never a zero bundle / RTCP-mux policy
    unless… (there is no unless: the defaults fill the zero values). -/
theorem C39_init_establishes (p : String → Option Scheme) (a c : Cfg) (h : initConfiguration p a = .ok c) :
    c.certs ≠ [] ∧ c.certs.any Cert.isExpired = false ∧ c.poolSize ≤ 1 ∧ validateAll p c.servers = none ∧
    c.bundlePolicy ≠ 0 ∧ c.rtcpMuxPolicy ≠ 0 ∧ c.peerIdentity = a.peerIdentity := by
  unfold initConfiguration at h
  simp only [bind, Except.bind] at h
  by_cases hc : a.certs.length > 0
  · by_cases hx : a.certs.any Cert.isExpired = true
    · simp [hc, hx] at h
    · by_cases hp0 : a.poolSize = 0
      · by_cases hs : (sanitizeServers a.servers).length > 0
        · cases hv : validateAll p (sanitizeServers a.servers) with
          | some e => simp [hc, hx, hp0, hs, hv] at h
          | none =>
            simp [hc, hx, hp0, hs, hv] at h
            subst h
            have : a.certs ≠ [] := List.length_pos_iff.mp hc
            by_cases hb : a.bundlePolicy = 0 <;> by_cases hm : a.rtcpMuxPolicy = 0 <;>
              by_cases hi : a.peerIdentity = "" <;> simp_all [defaultCfg]
        · simp [hc, hx, hp0, hs] at h
          subst h
          have : a.certs ≠ [] := List.length_pos_iff.mp hc
          by_cases hb : a.bundlePolicy = 0 <;> by_cases hm : a.rtcpMuxPolicy = 0 <;>
            by_cases hi : a.peerIdentity = "" <;> simp_all [defaultCfg, validateAll]
      · by_cases hp1 : a.poolSize > 1
        · simp [hc, hx, hp0, hp1] at h
        · by_cases hs : (sanitizeServers a.servers).length > 0
          · cases hv : validateAll p (sanitizeServers a.servers) with
            | some e => simp [hc, hx, hp0, hp1, hs, hv] at h
            | none =>
              simp [hc, hx, hp0, hp1, hs, hv] at h
              subst h
              have : a.certs ≠ [] := List.length_pos_iff.mp hc
              by_cases hb : a.bundlePolicy = 0 <;> by_cases hm : a.rtcpMuxPolicy = 0 <;>
                by_cases hi : a.peerIdentity = "" <;> simp_all [defaultCfg] <;> omega
          · simp [hc, hx, hp0, hp1, hs] at h
            subst h
            have : a.certs ≠ [] := List.length_pos_iff.mp hc
            by_cases hb : a.bundlePolicy = 0 <;> by_cases hm : a.rtcpMuxPolicy = 0 <;>
              by_cases hi : a.peerIdentity = "" <;> simp_all [defaultCfg, validateAll] <;> omega
  · have hc0 : a.certs = [] := by
      cases hh : a.certs with
      | nil => rfl
      | cons x xs => simp [hh] at hc
    by_cases hp0 : a.poolSize = 0
    · by_cases hs : (sanitizeServers a.servers).length > 0
      · cases hv : validateAll p (sanitizeServers a.servers) with
        | some e => simp [hc0, hp0, hs, hv] at h
        | none =>
          simp [hc0, hp0, hs, hv] at h
          subst h
          by_cases hb : a.bundlePolicy = 0 <;> by_cases hm : a.rtcpMuxPolicy = 0 <;>
            by_cases hi : a.peerIdentity = "" <;> simp_all [defaultCfg, Cert.isExpired]
      · simp [hc0, hp0, hs] at h
        subst h
        by_cases hb : a.bundlePolicy = 0 <;> by_cases hm : a.rtcpMuxPolicy = 0 <;>
          by_cases hi : a.peerIdentity = "" <;> simp_all [defaultCfg, validateAll, Cert.isExpired]
    · by_cases hp1 : a.poolSize > 1
      · simp [hc0, hp0, hp1] at h
      · by_cases hs : (sanitizeServers a.servers).length > 0
        · cases hv : validateAll p (sanitizeServers a.servers) with
          | some e => simp [hc0, hp0, hp1, hs, hv] at h
          | none =>
            simp [hc0, hp0, hp1, hs, hv] at h
            subst h
            by_cases hb : a.bundlePolicy = 0 <;> by_cases hm : a.rtcpMuxPolicy = 0 <;>
              by_cases hi : a.peerIdentity = "" <;> simp_all [defaultCfg, Cert.isExpired] <;> omega
        · simp [hc0, hp0, hp1, hs] at h
          subst h
          by_cases hb : a.bundlePolicy = 0 <;> by_cases hm : a.rtcpMuxPolicy = 0 <;>
            by_cases hi : a.peerIdentity = "" <;> simp_all [defaultCfg, validateAll, Cert.isExpired] <;> omega

-- non-vacuity
example : ∃ c, initConfiguration stunParseURI { defaultCfg with poolSize := 1, certs := [.pool 0] } = .ok c := ⟨_, rfl⟩

end WebrtcVerif.C39
