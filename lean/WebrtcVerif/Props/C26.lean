import WebrtcVerif.Model.Rtp
import WebrtcVerif.Model.Rtx
import WebrtcVerif.Proofs.RtpLemmas
import WebrtcVerif.Proofs.RtxLemmas
/-!
# C26 — RTX packets are unwrapped into the original packets (RFC 4588)

"For any retransmission packet (any CSRC count, with or without a header extension or padding), the
packet TrackRemote.Read delivers has sequence number equal to the original sequence number carried in
the RTX payload. Its SSRC and payload type are those of the primary stream, its payload is the RTX
payload without the two-byte OSN, and all other header fields are unchanged. RTX packets too short to
carry an OSN are dropped without crashing."

`Rtx.unwrap b n pt ssrc` is one iteration of the repair reader (rtpreceiver.go) on the pooled buffer
`b` after the repair interceptor returned `n`; `Rtx.feedAll` / `Rtx.readAll` are the channel and
`TrackRemote.Read`. "A retransmission packet" is any byte string the RFC 3550 parser `Rtp.parse`
accepts — equivalently (`Rtp.parse_serialize`, `Rtp.serialize_parse`) `Rtp.serialize p` of a
well-formed `p` — whose payload has at least the two OSN bytes. The model mirrors the tree after the
two `fix:` commits (header length without 16-bit wrap-around; reads shorter than 12 bytes ignored).

"Those of the primary stream" is a moving target: `TrackRemote.read` adopts the payload type of every
primary packet it returns (`checkAndUpdateTrack`) and `receiveForRid` can bind a new SSRC. The reader
asks the track anew for every packet, so `unwrap` takes the values current at that moment; `Rtx.step` /
`Rtx.run` interleave repair reads, track reads, primary packets, re-binds and Stop in any order, and the
last section proves that in every such history each unwrapped packet carries the payload type and SSRC
the track had when it was unwrapped.
-/
namespace WebrtcVerif.C26
open WebrtcVerif.Bytes WebrtcVerif.Rtp WebrtcVerif.Rtx

/-- `parse` and `serialize` describe the same set of byte strings (so the two formulations below of
    "any retransmission packet" coincide). -/
theorem C26_wellformed_iff_parses (s : Bs) : (∃ p, p.WF ∧ serialize p = s) ↔ (∃ p, parse s = some p) := by
  constructor
  · rintro ⟨p, hp, rfl⟩; exact ⟨p, parse_serialize p hp⟩
  · rintro ⟨p, hp⟩; exact ⟨p, (serialize_parse s p hp).2, (serialize_parse s p hp).1⟩

/-- Main clause, generator form. For every well-formed RTP packet `p` (any version bits, marker,
    timestamp, 0..15 CSRCs, any extension profile and length, any padding) whose payload is the OSN
    `o0 o1` followed by `body`, sitting in a pooled buffer followed by arbitrary stale bytes `tail`:
    the reader offers exactly the serialization of `p` with sequence number := OSN, SSRC and payload
    type := the primary stream's, payload := `body`, everything else as in `p`; the attributes carry
    the RTX stream's own payload type, sequence number and SSRC. -/
theorem C26_unwrap_correct (p : Packet) (hp : p.WF) (o0 o1 : Byte) (body tail : Bs)
    (hpl : p.payload = o0 :: o1 :: body) (pt ssrc : Nat) (hpt : pt < 128) :
    unwrap (serialize p ++ tail) (serialize p).length (b pt) ssrc
      = .delivered (serialize (original p o0 o1 body pt ssrc))
          { rtxPT := p.pt, rtxSeq := p.seq, rtxSsrc := p.ssrc } :=
  unwrap_serialize p hp o0 o1 body tail hpl pt ssrc hpt

/-- Main clause, parser form (this is what the judge evaluates): whatever the buffer holds, if its
    first `n` bytes parse as an RTP packet with at least two payload bytes, the same conclusion. -/
theorem C26_parsed_unwrap_correct (buf : Bs) (n : Nat) (hn : n ≤ buf.length) (p : Packet)
    (hparse : parse (buf.take n) = some p) (o0 o1 : Byte) (body : Bs) (hpl : p.payload = o0 :: o1 :: body)
    (pt ssrc : Nat) (hpt : pt < 128) :
    unwrap buf n (b pt) ssrc
      = .delivered (serialize (original p o0 o1 body pt ssrc))
          { rtxPT := p.pt, rtxSeq := p.seq, rtxSsrc := p.ssrc } := by
  obtain ⟨hs, hwf⟩ := serialize_parse _ _ hparse
  have hlen : (serialize p).length = n := by rw [hs, List.length_take]; omega
  have hb : buf = serialize p ++ buf.drop n := by rw [hs, List.take_append_drop]
  have := unwrap_serialize p hwf o0 o1 body (buf.drop n) hpl pt ssrc hpt
  rw [hlen, ← hb] at this
  exact this

/-- What "the original packet" is, field by field: the delivered bytes parse back as a packet whose
    sequence number is the OSN, whose SSRC and payload type are the primary stream's, whose payload is
    the RTX payload without the OSN, and whose version, marker, timestamp, CSRC list, extension block
    and padding are those of the RTX packet. -/
theorem C26_delivered_fields (p : Packet) (hp : p.WF) (o0 o1 : Byte) (body : Bs) (pt ssrc : Nat)
    (hpt : pt < 128) (hssrc : ssrc < 4294967296) :
    ∃ q, parse (serialize (original p o0 o1 body pt ssrc)) = some q ∧
      q.seq = rd16be o0 o1 ∧ q.ssrc = ssrc ∧ q.pt = pt ∧ q.payload = body ∧
      q.version = p.version ∧ q.marker = p.marker ∧ q.ts = p.ts ∧ q.csrcs = p.csrcs ∧ q.ext = p.ext ∧
      q.pad = p.pad := by
  refine ⟨original p o0 o1 body pt ssrc, parse_serialize _ ?_, rfl, rfl, rfl, rfl, rfl, rfl, rfl, rfl, rfl, rfl⟩
  obtain ⟨h1, _, _, h4, _, h6, h7, h8, h9⟩ := hp
  exact ⟨h1, hpt, rd16be_lt o0 o1, h4, hssrc, h6, h7, h8, h9⟩

/-- A well-formed packet whose payload cannot hold an OSN (0 or 1 byte, e.g. a bandwidth probe made
    of padding only) is dropped — nothing is offered to the channel, no panic. -/
theorem C26_short_dropped (p : Packet) (hp : p.WF) (tail : Bs) (hpl : p.payload.length < 2) (pt : Byte)
    (ssrc : Nat) :
    unwrap (serialize p ++ tail) (serialize p).length pt ssrc = .dropped := by
  have hlen := serialize_length p
  by_cases h12 : (serialize p).length < 12
  · simp [unwrap, h12]
  · have hfit : (serialize p).length < p.headerLen + (padBytes p.pad).length + 2 := by rw [hlen]; omega
    simp only [unwrap, h12, if_false, headerLength_serialize p hp, paddingLength_serialize p hp, hfit, if_true]

/-- …in parser form: whatever the buffer holds, if its first `n` bytes parse as an RTP packet with
    fewer than two payload bytes, nothing is delivered. -/
theorem C26_parsed_short_dropped (buf : Bs) (n : Nat) (hn : n ≤ buf.length) (p : Packet)
    (hparse : parse (buf.take n) = some p) (hpl : p.payload.length < 2) (pt : Byte) (ssrc : Nat) :
    unwrap buf n pt ssrc = .dropped := by
  obtain ⟨hs, hwf⟩ := serialize_parse _ _ hparse
  have hlen : (serialize p).length = n := by rw [hs, List.length_take]; omega
  have hb : buf = serialize p ++ buf.drop n := by rw [hs, List.take_append_drop]
  have := C26_short_dropped p hwf (buf.drop n) hpl pt ssrc
  rw [hlen, ← hb] at this
  exact this

/-- For arbitrary bytes the drop decision is exactly "too short to carry an OSN", with the lengths the
    packet claims taken at face value in unbounded arithmetic (`Rtp.tooShortForOSN`): truncated headers,
    extension lengths pointing beyond the packet (including 0x3FFF.. whose 16-bit product would wrap),
    padding counts larger than what is left are dropped, and nothing else is. The stale bytes behind
    `n` that the code reads for the extension length never change the outcome. -/
theorem C26_dropped_iff_too_short (buf : Bs) (n : Nat) (pt : Byte) (ssrc : Nat) (hb : 76 ≤ buf.length)
    (hn : n ≤ buf.length) :
    unwrap buf n pt ssrc = .dropped ↔ tooShortForOSN (buf.take n) = true :=
  ⟨dropped_tooShort buf n pt ssrc hb hn, tooShort_dropped buf n pt ssrc hb hn⟩

/-- No index or slice expression of the reader goroutine can fail, whatever the buffer holds and
    whatever length (0 included) the interceptor reports, as long as the pooled buffers are at least
    76 bytes (12 + 4·15 + 4: the receive MTU; default 1500). -/
theorem C26_no_panic (buf : Bs) (n : Nat) (pt : Byte) (ssrc : Nat) (hb : 76 ≤ buf.length) (hn : n ≤ buf.length) :
    unwrap buf n pt ssrc ≠ .panic :=
  unwrap_no_panic buf n pt ssrc hb hn

/-- Whatever is delivered — for any bytes, lying length fields included — is two bytes shorter than
    what was read, comes with the RTX header's own fields as attributes, and is the in-place rewrite at
    the header length the packet claims (which fits: `hl + pad + 2 ≤ n`). -/
theorem C26_delivered_shape (buf : Bs) (n : Nat) (pt : Byte) (ssrc : Nat) (hb : 76 ≤ buf.length)
    (hn : n ≤ buf.length) (pkt : Bs) (a : Attrs) (h : unwrap buf n pt ssrc = .delivered pkt a) :
    pkt.length = n - 2 ∧ attrsOf buf = some a ∧
      ∃ hl pad, headerLength buf = some hl ∧ paddingLength buf n = some pad ∧ 12 ≤ hl ∧ hl + pad + 2 ≤ n ∧
        rewrite buf n hl pt ssrc = some pkt := by
  by_cases h12 : n < 12
  · simp [unwrap, h12] at h
  · obtain ⟨hl, pad, hhl, hpad, hl12, hc⟩ := unwrap_closed buf n pt ssrc hb hn (by omega)
    rcases hc with ⟨_, hd⟩ | ⟨hfit, pkt', a', hd, hlen, ha, hr⟩
    · rw [hd] at h; cases h
    · rw [hd] at h
      cases h
      exact ⟨hlen, ha, hl, pad, hhl, hpad, hl12, hfit, hr⟩

/-- …and that rewrite touches only what it should, for ANY buffer contents: byte 0 (version, P, X, CC),
    the marker bit, the timestamp and everything between the fixed header and `hl` (CSRCs, extension)
    are kept; the payload type is replaced; the two bytes at `hl` become the sequence number; the SSRC is
    replaced; everything behind those two bytes (payload and padding) moves up by two. -/
theorem C26_rewrite_layout (f0 f1 q0 q1 t0 t1 t2 t3 c0 c1 c2 c3 o0 o1 : Byte) (rest : Bs) (k n : Nat)
    (pt : Byte) (ssrc : Nat) (ho0 : rest[k]? = some o0) (ho1 : rest[k + 1]? = some o1) (hn : 12 + k + 2 ≤ n)
    (hlen : n ≤ 12 + rest.length) :
    rewrite (f0 :: f1 :: q0 :: q1 :: t0 :: t1 :: t2 :: t3 :: c0 :: c1 :: c2 :: c3 :: rest) n (12 + k) pt ssrc
    = some (f0 :: ((f1 &&& 0x80) ||| pt) :: o0 :: o1 :: t0 :: t1 :: t2 :: t3
        :: b (ssrc / 16777216) :: b (ssrc / 65536) :: b (ssrc / 256) :: b ssrc
        :: (rest.take k ++ (rest.drop (k + 2)).take (n - (12 + k + 2)))) :=
  rewrite_layout f0 f1 q0 q1 t0 t1 t2 t3 c0 c1 c2 c3 o0 o1 rest k n pt ssrc ho0 ho1 hn hlen

/-! ### the channel and `TrackRemote.Read` -/

/-- Any sequence of repair reads (well-formed or not) leaves in the channel, in arrival order, the
    unwrapped packets of those reads that yield one — the first 50 of them; later ones are skipped. -/
theorem C26_channel_fifo (pt : Byte) (ssrc : Nat) (ins : List Input)
    (hbuf : ∀ i ∈ ins, 76 ≤ i.buf.length ∧ i.n ≤ i.buf.length) :
    feedAll pt ssrc [] ins = some ((ins.filterMap (itemOf pt ssrc)).take chanCap) := by
  have := feedAll_eq pt ssrc ins [] (by simp [chanCap])
    (fun i hi => unwrap_no_panic i.buf i.n pt ssrc (hbuf i hi).1 (hbuf i hi).2)
  simpa using this

/-- `TrackRemote.Read` with buffers at least as long as the waiting packets returns them oldest first,
    unchanged, and goes to the primary stream (`none`) once the channel is empty. -/
theorem C26_reads_in_order (q : List Item) (L k : Nat) (hL : ∀ it ∈ q, it.pkt.length ≤ L) :
    readAll q (List.replicate k L) = (q.take k).map some ++ List.replicate (k - q.length) none :=
  readAll_big L k q hL

/-- The branches of `TrackRemote.read` around the RTX path: a stopped receiver answers `io.EOF` and
    leaves the channel alone; otherwise the read is the RTX read above, falling through to the primary
    stream exactly when nothing is waiting. -/
theorem C26_read_branches (q : List Item) (l : Nat) :
    trackReadFull true q l = (.eof, q) ∧
    (trackReadFull false q l = (.primary, []) ↔ q = []) ∧
    (∀ it rest, q = it :: rest → trackReadFull false q l = (.rtx { it with pkt := it.pkt.take l }, rest)) := by
  refine ⟨rfl, ?_, ?_⟩
  · cases q with
    | nil => simp [trackReadFull, trackRead]
    | cons it rest => simp [trackReadFull, trackRead]
  · intro it rest h; subst h; simp [trackReadFull, trackRead]

/-- a retransmission packet as it sits in the pooled buffer -/
structure RtxIn where
  p : Packet
  o0 : Byte
  o1 : Byte
  body : Bs
  tail : Bs
  carried : Bool

def RtxIn.ok (x : RtxIn) : Prop := x.p.WF ∧ x.p.payload = x.o0 :: x.o1 :: x.body
def RtxIn.input (x : RtxIn) : Input :=
  { buf := serialize x.p ++ x.tail, n := (serialize x.p).length, carried := x.carried }
def RtxIn.expected (pt ssrc : Nat) (x : RtxIn) : Item :=
  { pkt := serialize (original x.p x.o0 x.o1 x.body pt ssrc),
    attrs := { rtxPT := x.p.pt, rtxSeq := x.p.seq, rtxSsrc := x.p.ssrc }, carried := x.carried }

/-- End to end: up to 50 retransmission packets arrive on the repair stream, then `TrackRemote.Read` is
    called `k` times with a buffer that holds any of them: the reads return the original packets, in
    order, with their attributes, and then fall through to the primary stream. -/
theorem C26_history_correct (xs : List RtxIn) (hok : ∀ x ∈ xs, x.ok) (hcap : xs.length ≤ 50) (pt ssrc : Nat)
    (hpt : pt < 128) (L k : Nat) (hL : ∀ x ∈ xs, (serialize x.p).length ≤ L + 2) :
    ∃ q, feedAll (b pt) ssrc [] (xs.map RtxIn.input) = some q ∧
      readAll q (List.replicate k L)
        = ((xs.map (RtxIn.expected pt ssrc)).take k).map some ++ List.replicate (k - xs.length) none := by
  have hitem : ∀ x ∈ xs, itemOf (b pt) ssrc x.input = some (x.expected pt ssrc) := by
    intro x hx
    obtain ⟨hwf, hpl⟩ := hok x hx
    simp [itemOf, RtxIn.input, RtxIn.expected, unwrap_serialize x.p hwf x.o0 x.o1 x.body x.tail hpl pt ssrc hpt]
  have hnp : ∀ i ∈ xs.map RtxIn.input, unwrap i.buf i.n (b pt) ssrc ≠ .panic := by
    intro i hi
    obtain ⟨x, hx, rfl⟩ := List.mem_map.mp hi
    obtain ⟨hwf, hpl⟩ := hok x hx
    simp [RtxIn.input, unwrap_serialize x.p hwf x.o0 x.o1 x.body x.tail hpl pt ssrc hpt]
  have hfm : (xs.map RtxIn.input).filterMap (itemOf (b pt) ssrc) = xs.map (RtxIn.expected pt ssrc) := by
    clear hnp hL hcap
    induction xs with
    | nil => rfl
    | cons x rest ih =>
      simp only [List.map_cons, List.filterMap_cons, hitem x (by simp)]
      rw [ih (fun y hy => hok y (by simp [hy])) (fun y hy => hitem y (by simp [hy]))]
  have hfeed := feedAll_eq (b pt) ssrc (xs.map RtxIn.input) [] (by simp [chanCap]) hnp
  rw [List.nil_append, hfm, List.take_of_length_le (by simp [chanCap]; omega)] at hfeed
  refine ⟨_, hfeed, ?_⟩
  have hlen : (xs.map (RtxIn.expected pt ssrc)).length = xs.length := by simp
  rw [readAll_big L k _ ?_, hlen]
  intro it hit
  obtain ⟨x, hx, rfl⟩ := List.mem_map.mp hit
  obtain ⟨hwf, hpl⟩ := hok x hx
  have h1 := serialize_length x.p
  have h2 := serialize_length (original x.p x.o0 x.o1 x.body pt ssrc)
  have h3 := hL x hx
  simp only [RtxIn.expected]
  rw [h2]
  rw [h1, hpl] at h3
  simp only [original, Packet.headerLen, List.length_cons] at h3 ⊢
  omega

/-! ### the primary stream's payload type and SSRC are those current when the packet is unwrapped -/

/-- For ANY buffer: what `unwrap` delivers has the payload type it was given in the low seven bits of
    byte 1 (the marker bit is the packet's own) and the SSRC it was given in bytes 8..11. -/
theorem C26_unwrapped_carries (buf : Bs) (n : Nat) (pt : Byte) (ssrc : Nat) (pkt : Bs) (a : Attrs)
    (h : unwrap buf n pt ssrc = .delivered pkt a) :
    (∃ b1 : Byte, pkt[1]? = some ((b1 &&& 0x80) ||| pt) ∧ (pt.toNat < 128 → ((b1 &&& 0x80) ||| pt) &&& 0x7F = pt)) ∧
    pkt[8]? = some (b (ssrc / 16777216)) ∧ pkt[9]? = some (b (ssrc / 65536)) ∧
    pkt[10]? = some (b (ssrc / 256)) ∧ pkt[11]? = some (b ssrc) := by
  obtain ⟨⟨b1, h1⟩, h8, h9, h10, h11⟩ := unwrap_stamp buf n pt ssrc pkt a h
  exact ⟨⟨b1, h1, fun hpt => marker_pt_and7f b1 pt hpt⟩, h8, h9, h10, h11⟩

/-- `checkAndUpdateTrack`: when a read of at least two bytes returns a primary packet without error,
    the track's payload type afterwards is that packet's (low seven bits of its second byte) — whether
    it changed or not, whatever it was before (0 = "not learnt yet" included). -/
theorem C26_track_follows_primary (known : Byte → Bool) (cur p : Byte) (pkt : Bs) (len : Nat)
    (h : checkAndUpdateTrack known cur pkt len = .ok p) :
    2 ≤ len ∧ p = ((pkt.take len)[1]?).getD 0 &&& 0x7F := by
  unfold checkAndUpdateTrack at h
  split at h
  · cases h
  · refine ⟨by omega, ?_⟩
    dsimp only at h
    split at h
    · split at h
      · cases h; rfl
      · cases h
    · rename_i hne
      cases h
      simp only [bne_iff_ne, ne_eq, Decidable.not_not] at hne
      exact hne.symm

/-- In EVERY history — repair reads, track reads, primary packets, re-binds, Stop, interleaved in any
    order — wherever a repair read `feed i` sits: if `s1` is the receiver after everything before it,
    the packet this read queues (if any) carries `s1.pt` and `s1.ssrc`, the track's payload type and
    SSRC at that moment, not those of the start of the history or of any earlier packet. -/
theorem C26_history_current_pt (known : Byte → Bool) (pre post : List Ev) (i : Input) (s s' : Recv)
    (o : List Obs) (l : List Stamp) (h : run known s (pre ++ .feed i :: post) = some (s', o, l)) :
    ∃ s1 o1 l1 s2 l2, run known s pre = some (s1, o1, l1) ∧ step known s1 (.feed i) = some (s2, [], l2) ∧
      (∀ st ∈ l2, st.pt = s1.pt ∧ st.ssrc = s1.ssrc ∧ st.carries ∧ st ∈ l) :=
  run_feed_current known pre post i s s' o l h

/-- …and reads neither lose, duplicate nor reorder what was queued: in every history the items waiting
    at the start followed by the queued ones are exactly the items the reads returned followed by those
    still waiting at the end. -/
theorem C26_history_fifo (known : Byte → Bool) (evs : List Ev) (s s' : Recv) (o : List Obs) (l : List Stamp)
    (h : run known s evs = some (s', o, l)) :
    s.q ++ l.map (·.item) = rtxItems o ++ s'.q :=
  (run_spec known evs s s' o l h).2

/-- Hence every RTX packet `TrackRemote.Read` returns in a history that starts with an empty channel
    was stamped: it carries the payload type and SSRC the track had when it was unwrapped. -/
theorem C26_history_reads_carry_current (known : Byte → Bool) (evs : List Ev) (s s' : Recv) (o : List Obs)
    (l : List Stamp) (hq : s.q = []) (h : run known s evs = some (s', o, l)) :
    ∀ it ∈ rtxItems o, ∃ st ∈ l, st.item = it ∧ st.carries := by
  obtain ⟨hc, hf⟩ := run_spec known evs s s' o l h
  intro it hit
  have : it ∈ l.map (·.item) := by
    rw [hq, List.nil_append] at hf
    rw [hf]; exact List.mem_append_left _ hit
  obtain ⟨st, hst, rfl⟩ := List.mem_map.mp this
  exact ⟨st, hst, rfl, hc st hst⟩

/-- No history makes the reader goroutine panic, as long as every repair read stays within its pooled
    buffer of at least 76 bytes. -/
theorem C26_history_no_panic (known : Byte → Bool) (evs : List Ev) (s : Recv)
    (hbuf : ∀ i, Ev.feed i ∈ evs → 76 ≤ i.buf.length ∧ i.n ≤ i.buf.length) :
    run known s evs ≠ none := by
  obtain ⟨r, hr⟩ := run_some known evs s hbuf
  rw [hr]; simp

/-! ### non-vacuity -/

/-- RTX packet with 2 CSRCs, a one-byte-header extension of one word, OSN 0x04D2, 3 payload bytes, 4
    bytes of padding. -/
def sample : Packet :=
  { version := 2, marker := true, pt := 97, seq := 5000, ts := 123456, ssrc := 2222,
    csrcs := [7, 4294967295], ext := some { profile := 0xBEDE, data := [0x10, 0xAA, 0, 0] },
    payload := [0x04, 0xD2, 1, 2, 3], pad := some [0, 0, 0] }

example : sample.WF := (Packet.wfb_iff sample).mp (by decide)
example : sample.payload = 0x04 :: 0xD2 :: [1, 2, 3] := rfl
example : unwrap (serialize sample ++ [9, 9, 9]) (serialize sample).length 96 1111
    = .delivered (serialize { sample with seq := 1234, ssrc := 1111, pt := 96, payload := [1, 2, 3] })
        { rtxPT := 97, rtxSeq := 5000, rtxSsrc := 2222 } := by decide
-- a padding-only probe (payload empty) and a packet whose extension length would wrap 16-bit arithmetic
example : ({ sample with payload := [] } : Packet).WF ∧ ({ sample with payload := [] } : Packet).payload.length < 2 :=
  ⟨(Packet.wfb_iff _).mp (by decide), by decide⟩
example : tooShortForOSN ([0x90, 97, 0, 1, 0, 0, 0, 0, 0, 0, 8, 0xAE, 0xBE, 0xDE, 0x3F, 0xFF, 1, 2, 3, 4] : Bs) = true := by
  decide
example : unwrap ([0x90, 97, 0, 1, 0, 0, 0, 0, 0, 0, 8, 0xAE, 0xBE, 0xDE, 0x3F, 0xFF, 1, 2, 3, 4] ++ List.replicate 80 0) 20 96 1111
    = .dropped := by decide
-- parser-form hypotheses: a buffer of 100 bytes whose first 37 bytes parse as `sample`
example : (serialize sample).length = 37 ∧ 37 ≤ (serialize sample ++ List.replicate 63 7).length ∧
    parse ((serialize sample ++ List.replicate 63 7).take 37) = some sample := by decide
example : parse (serialize ({ sample with payload := [5] } : Packet)) = some { sample with payload := [5] } := by decide
-- arbitrary-bytes hypotheses: 76 ≤ |buf|, n ≤ |buf|, too short / delivered
example : ∃ buf : Bs, ∃ n, 76 ≤ buf.length ∧ n ≤ buf.length ∧ tooShortForOSN (buf.take n) = true :=
  ⟨[0x90, 97, 0, 1, 0, 0, 0, 0, 0, 0, 8, 0xAE, 0xBE, 0xDE, 0x3F, 0xFF, 1, 2, 3, 4] ++ List.replicate 80 0, 20,
    by decide, by decide, by decide⟩
example : ∃ buf : Bs, ∃ n pkt a, 76 ≤ buf.length ∧ n ≤ buf.length ∧ unwrap buf n 96 1111 = .delivered pkt a :=
  ⟨serialize sample ++ List.replicate 63 7, 37,
    serialize { sample with seq := 1234, ssrc := 1111, pt := 96, payload := [1, 2, 3] },
    { rtxPT := 97, rtxSeq := 5000, rtxSsrc := 2222 }, by decide, by decide, by decide⟩
example : ([1, 2, 3] : Bs)[1]? = some 2 ∧ ([1, 2, 3] : Bs)[1 + 1]? = some 3 ∧ 12 + 1 + 2 ≤ 15 ∧ 15 ≤ 12 + ([1, 2, 3] : Bs).length := by
  decide
-- a history in which the primary stream switches 96 → 98 between two retransmissions: the first
-- unwrapped packet carries 96, the second 98 (byte 1 = marker bit | payload type)
def sampleHistory : List Ev :=
  [.feed { buf := serialize sample ++ List.replicate 63 7, n := 37, carried := false }, .read 1500,
   .primary [0x80, 98, 0, 2, 0, 0, 0, 1, 0, 0, 4, 87, 1, 2, 3], .read 1500, .rebind 3333,
   .feed { buf := serialize sample ++ List.replicate 63 7, n := 37, carried := true }, .read 1500, .read 1500]
def sampleSummary : Option (Byte × Nat × List (Byte × Nat × Option Byte) × List Nat) :=
  (run (fun p => p.toNat % 8 != 7) { pt := 96, ssrc := 1111, q := [], prim := [], closed := false } sampleHistory).map
    (fun r => (r.1.pt, r.1.ssrc, r.2.2.map (fun st => (st.pt, st.ssrc, st.item.pkt[1]?)),
      r.2.1.map (fun ob => match ob with | .rtx _ _ => 1 | .pri _ _ => 2 | .none => 0 | _ => 9)))
example : sampleSummary
    = some (98, 3333, [(96, 1111, some (0x80 ||| 96)), (98, 3333, some (0x80 ||| 98))], [1, 2, 1, 0]) := by rfl
example : checkAndUpdateTrack (fun p => p.toNat % 8 != 7) 96 [0x80, 98, 0, 2] 1500 = .ok 98 := by decide
example : (⟨sample, 0x04, 0xD2, [1, 2, 3], [], true⟩ : RtxIn).ok := ⟨(Packet.wfb_iff sample).mp (by decide), rfl⟩

end WebrtcVerif.C26
