import WebrtcVerif.Model.Ops
import WebrtcVerif.Proofs.OpsLemmas
import WebrtcVerif.Proofs.OpsNegLemmas
import WebrtcVerif.Proofs.OpsTermLemmas
/-!
# C05 — Queued negotiation work runs serially, in order, exactly once

"Work the PeerConnection queues internally … runs one item at a time, in queue order, and each item
runs exactly once. Waiting for the queue returns only after everything queued before the wait has run.
After a graceful close, nothing queued later runs."

All theorems quantify over `Reachable m nc nd nn s`: every state reachable by ANY interleaving of the atomic
sections of any number of enqueuers (incl. items that enqueue further items — an `enqueue` action may
happen while a worker is `running`), `nd` Done callers, `nc` GracefulClose callers, `nn` API goroutines
inside `PeerConnection.onNegotiationNeeded`, raw flag setters and the workers, for each of the three
behaviours `m` of the worker's negotiation-needed callback (nothing / enqueue a check / what
`PeerConnection.onNegotiationNeeded` does: re-arm the flag when the queue is not empty, else enqueue the
check).  The end of `operations.start` is modelled step by step (`Load`, `Store(false)`, callback, and
inside the callback `IsEmpty()` and then the store / Enqueue), so other goroutines interleave between
any two of these steps.

"Negotiation-needed checks … each item runs exactly once" includes that a requested check is not lost:
`C05_neg_request_not_lost` and its corollaries; `C05_swapped_order_loses_request` shows that the clause
has teeth (calling the callback BEFORE clearing the flag violates it).
-/
namespace WebrtcVerif.C05
open WebrtcVerif.Ops

/-- One item at a time: at most one worker goroutine is alive, and exactly one iff `busyCh ≠ nil`. -/
theorem C05_single_worker {m : NegMode} {nc nd nn : Nat} {s : St} (h : Reachable m nc nd nn s) :
    liveWorkers s = (if s.busy.isSome then 1 else 0) := by
  exact (opsInv_of_reachable h).live

/-- In queue order, at most once: what was accepted is exactly what has started, then what a worker
    holds, then what is still queued — in acceptance order. -/
theorem C05_fifo {m : NegMode} {nc nd nn : Nat} {s : St} (h : Reachable m nc nd nn s) :
    s.accepted = s.executed ++ held s ++ s.queue := by
  exact (opsInv_of_reachable h).fifo

/-- No item starts twice. -/
theorem C05_at_most_once {m : NegMode} {nc nd nn : Nat} {s : St} (h : Reachable m nc nd nn s) : s.executed.Nodup := by
  have hi := opsInv_of_reachable h
  have hn := hi.nodup
  rw [hi.fifo, List.append_assoc] at hn
  exact (List.nodup_append.mp hn).1

/-- Exactly once: when no worker is left, every accepted item has run (nothing is stranded). -/
theorem C05_exactly_once {m : NegMode} {nc nd nn : Nat} {s : St} (h : Reachable m nc nd nn s) (hq : quiescent s) :
    s.executed = s.accepted := by
  exact (opsInv_of_reachable h).executed_eq_of_quiescent hq

/-- Nothing is stranded, stated as progress: while an accepted item has not started, some worker
    action is enabled. -/
theorem C05_no_strand {m : NegMode} {nc nd nn : Nat} {s : St} (h : Reachable m nc nd nn s)
    (hne : s.executed ≠ s.accepted) :
    ∃ w, ∃ a ∈ workerActions w, (step m s a).isSome = true := by
  exact (opsInv_of_reachable h).worker_enabled m hne

/-- `Done` returns only after everything that had been accepted when it was called has started (and,
    the worker being single, finished) — whether its waiter was queued or the queue was already closed. -/
theorem C05_done_after_predecessors {m : NegMode} {nc nd nn : Nat} {s : St} (h : Reachable m nc nd nn s) (d : Nat)
    (hd : s.doners[d]? = some .returned) (snap : List Item) (hs : s.doneSnap[d]? = some snap) :
    ∀ it ∈ snap, it ∈ s.executed := by
  exact (opsInv_of_reachable h).done.donerRet d snap hd hs

/-- The snapshot is what it says: when `Done` is called, the snapshot becomes the items accepted so far. -/
theorem C05_done_snapshot {m : NegMode} {nc nd nn : Nat} {s s' : St} (hr : Reachable m nc nd nn s) (d : Nat)
    (h : step m s (.doneBegin d) = some s') : s'.doneSnap[d]? = some s.accepted := by
  have hlen := (opsInv_of_reachable hr).snap_length
  simp only [step] at h
  split at h
  · rename_i hd
    have hdlt : d < s.doneSnap.length := by
      rw [hlen]
      rcases Nat.lt_or_ge d s.doners.length with h1 | h1
      · exact h1
      · rw [List.getElem?_eq_none h1] at hd; cases hd
    split at h
    · cases h
    · cases h
      have hsn := (tryEnqueue_frame s (.waiter d)).2.1
      simp [setAt, hsn, hdlt]
  · cases h

/-- After a graceful close nothing is accepted any more … -/
theorem C05_nothing_accepted_after_close {m : NegMode} {nc nd nn : Nat} {s s' : St} (h : Reachable m nc nd nn s)
    (hc : s.isClosed = true) (it : Item) (hs : step m s (.enqueue it) = some s') :
    s'.accepted = s.accepted ∧ s'.queue = s.queue ∧ s'.workers = s.workers := by
  have _ := h  -- (not needed: holds in every state, reachable or not)
  simp only [step] at hs
  split at hs
  · cases hs
  · cases hs
    rw [tryEnqueue_closed it hc]
    exact ⟨rfl, rfl, rfl⟩

/-- … and once the closing `GracefulClose` has returned, everything accepted before has run and no
    worker exists (so nothing runs later). -/
theorem C05_close_returns_after_drain {m : NegMode} {nc nd nn : Nat} {s : St} (h : Reachable m nc nd nn s) (c : Nat)
    (hc : s.closers[c]? = some .returned) :
    s.isClosed = true ∧ s.busy = none ∧ liveWorkers s = 0 ∧ s.executed = s.accepted := by
  have hi := opsInv_of_reachable h
  have hb := hi.closerRet c hc
  have hl : liveWorkers s = 0 := by
    have := hi.live
    rw [hb] at this
    exact this
  exact ⟨hi.closed c _ hc (by simp), hb, hl, hi.executed_eq_of_quiescent hl⟩

/-- The deferred block never closes a nil channel. -/
theorem C05_deferred_has_channel {m : NegMode} {nc nd nn : Nat} {s : St} (h : Reachable m nc nd nn s) (w : Nat)
    (hw : s.workers[w]? = some .defer_) : s.busy.isSome = true := by
  have hi := opsInv_of_reachable h
  have hpos := liveL_pos_of_getElem? hw rfl
  have hl := hi.live
  cases hb : s.busy with
  | none => rw [hb] at hl; simp at hl; omega
  | some g => rfl

-- non-vacuity: a concrete interleaving (the schedule that stranded an operation before the repair):
-- enqueue 1; worker pops and runs it; pops nil; enqueue 2 arrives; GracefulClose begins; the worker's
-- deferred block hands off; second worker runs 2; closer re-checks and returns.
example : (runActions .none (init 1 0 0)
    [.enqueue (.op 1), .pop 0, .exec 0, .pop 0, .enqueue (.op 2), .gcBegin 0, .afterLoop 0, .deferred 0,
     .gcWake 0, .gcRecheck 0, .pop 1, .exec 1, .pop 1, .afterLoop 1, .deferred 1, .gcWake 0, .gcRecheck 0]).map
      (fun s => (s.executed, s.closers, liveWorkers s))
    = some ([.op 1, .op 2], [.returned], 0) := by decide

/-! ### a requested negotiation-needed check is not lost

`owed s` = the last event of the ghost log `negLog` is a request (a call of onNegotiationNeeded by anyone —
its `IsEmpty()` test —, or a raw flag store), i.e. a request was raised after the last check operation
started to run.  A check that starts after the request evaluates the state the request was about, so
"owed" is exactly "requested and not yet served". -/

/-- The worker never calls the callback before it has cleared the flag, and it always calls it afterwards:
    in every reachable state, while a request is owed, the queue is closed, or the flag is still set, or a
    check is accepted and not yet started, or a worker is between `Store(false)` and the end of its
    callback, or an API goroutine is in the middle of onNegotiationNeeded.  (Any callback that honours
    requests: modes `enqueue` and `rearm`.) -/
theorem C05_neg_request_not_lost {m : NegMode} (hm : m ≠ .none) {nc nd nn : Nat} {s : St}
    (h : Reachable m nc nd nn s) : NegInv s :=
  negInv_of_reachable hm h

/-- At rest (no worker, nobody inside onNegotiationNeeded, queue open) an owed request is parked in the
    flag — it has not been dropped, the end of the next chain serves it. -/
theorem C05_neg_quiescent_parked {m : NegMode} (hm : m ≠ .none) {nc nd nn : Nat} {s : St}
    (h : Reachable m nc nd nn s) (hq : quiescent s) (hn : ∀ pc ∈ s.callers, pc.midCall = false)
    (hc : s.isClosed = false) (ho : owed s = true) : s.flag = true := by
  rcases (negInv_of_reachable hm h).quiescent (opsInv_of_reachable h) hq hn ho with h1 | h1
  · rw [hc] at h1; cases h1
  · exact h1

/-- At rest with the flag clear, every request has been followed by a check that ran. -/
theorem C05_neg_quiescent_served {m : NegMode} (hm : m ≠ .none) {nc nd nn : Nat} {s : St}
    (h : Reachable m nc nd nn s) (hq : quiescent s) (hn : ∀ pc ∈ s.callers, pc.midCall = false)
    (hc : s.isClosed = false) (hf : s.flag = false) : owed s = false := by
  cases ho : owed s with
  | false => rfl
  | true =>
    have := C05_neg_quiescent_parked hm h hq hn hc ho
    rw [hf] at this; cases this

/-- "Parked" means exactly "stored too late": a flag that is still set at rest was stored after every
    worker's flag test (`unseen`) — no end of chain has seen it and left it standing. -/
theorem C05_flag_at_rest_unseen {m : NegMode} {nc nd nn : Nat} {s : St} (h : Reachable m nc nd nn s)
    (hq : quiescent s) (hf : s.flag = true) : s.unseen = true := by
  rcases flagInv_of_reachable h hf with h1 | h1
  · exact h1
  · have := not_mem_of_liveL_zero hq _ h1
    cases this

/-- Progress for requests (no deadlock): while a request is owed and neither parked in the flag nor
    dropped by a close, an action of a worker or of a goroutine inside onNegotiationNeeded is enabled.
    What liveness is claimed: this (no deadlock), `C05_system_terminates` (the queue's own goroutines
    cannot run forever by themselves) and `C05_system_rest` (where they stop, everything is served).
    What is ASSUMED for "the check eventually runs": weak fairness for the worker goroutine and the API
    goroutines (an enabled step of theirs is eventually taken — Go's scheduler), operations return (an
    `exec` is followed by the next `pop`), and the environment eventually stops enqueueing / requesting. -/
theorem C05_neg_progress {m : NegMode} (hm : m ≠ .none) {nc nd nn : Nat} {s : St}
    (h : Reachable m nc nd nn s) (ho : owed s = true) (hc : s.isClosed = false) (hf : s.flag = false) :
    (∃ w, ∃ a ∈ workerActions w, (step m s a).isSome = true) ∨ (∃ n, (step m s (.negAct n)).isSome = true) := by
  have hi := opsInv_of_reachable h
  rcases negInv_of_reachable hm h ho with h1 | h1 | h1 | h1 | h1
  · rw [hc] at h1; cases h1
  · rw [hf] at h1; cases h1
  · obtain ⟨x, hx, _, hne⟩ := h1
    left
    apply hi.worker_enabled m
    intro he
    rw [he] at hne
    exact hne hx
  · obtain ⟨p, hp, hpm⟩ := h1
    obtain ⟨w, hw⟩ := List.getElem?_of_mem hp
    exact Or.inl ⟨w, hi.live_worker_enabled m hw (WPc.live_of_midCall hpm)⟩
  · obtain ⟨p, hp, hpm⟩ := h1
    obtain ⟨n, hn⟩ := List.getElem?_of_mem hp
    right
    refine ⟨n, ?_⟩
    cases p with
    | tested e => simp [step, hn]
    | idle => cases hpm
    | returned => cases hpm

/-- The worker's own re-arm is never parked: its callback stores the flag only while an item is queued
    behind it (nobody else pops), so its deferred block hands off and the successor's end of chain sees
    the flag. -/
theorem C05_worker_rearm_has_successor {m : NegMode} {nc nd nn : Nat} {s : St}
    (h : Reachable m nc nd nn s) (w : Nat) (hw : s.workers[w]? = some (.cb false)) : s.queue ≠ [] :=
  (termInv_of_reachable h).hasItem w _ hw rfl

/-- Termination of the queue side, for every callback mode: from any reachable state the queue's own
    goroutines (workers: pop, run, flag load, flag clear, callback; the deferred hand-off; the second half
    of onNegotiationNeeded calls — `sysAct`) can take only boundedly many steps by themselves.  In
    particular the worker's re-arm / hand-off / callback cycle of mode `rearm` cannot spin: every re-arm
    consumes a queued item, every check the callback queues consumes the flag. -/
theorem C05_system_terminates {m : NegMode} {nc nd nn : Nat} {s : St} (h : Reachable m nc nd nn s) :
    ∃ bound : Nat, ∀ (acts : List Action) (s' : St), (∀ a ∈ acts, sysAct a = true) →
      runActions m s acts = some s' → acts.length ≤ bound := by
  refine ⟨mu s, ?_⟩
  intro acts s' hall hr
  have := mu_run h acts hall hr
  omega

/-- Where the queue's own goroutines have nothing left to do, all work is done: no worker is left, every
    accepted item has run, nobody is inside onNegotiationNeeded, and (callback honouring requests, queue
    open, flag clear) no request is owed. -/
theorem C05_system_rest {m : NegMode} {nc nd nn : Nat} {s : St} (h : Reachable m nc nd nn s)
    (hrest : ∀ a, sysAct a = true → step m s a = none) :
    quiescent s ∧ s.executed = s.accepted ∧ (∀ pc ∈ s.callers, pc.midCall = false)
      ∧ (m ≠ .none → s.isClosed = false → s.flag = false → owed s = false) := by
  have hi := opsInv_of_reachable h
  have hq : quiescent s := by
    show liveL s.workers = 0
    rcases Nat.eq_zero_or_pos (liveL s.workers) with h0 | h0
    · exact h0
    · obtain ⟨w, pc, hw, hl⟩ := exists_live_of_liveL_pos h0
      obtain ⟨a, ha, hen⟩ := hi.live_worker_enabled m hw hl
      rw [hrest a (sysAct_of_workerActions ha)] at hen
      cases hen
  have hn : ∀ pc ∈ s.callers, pc.midCall = false := by
    intro pc hp
    cases pc with
    | tested e =>
      obtain ⟨n, hn⟩ := List.getElem?_of_mem hp
      have : (step m s (.negAct n)).isSome = true := by simp [step, hn]
      rw [hrest (.negAct n) rfl] at this
      cases this
    | idle => rfl
    | returned => rfl
  exact ⟨hq, hi.executed_eq_of_quiescent hq, hn,
    fun hm hc hf => C05_neg_quiescent_served hm h hq hn hc hf⟩

/-- The clause has teeth: with the last two steps of `start` swapped (callback first, `Store(false)`
    afterwards — `stepSw`) a request is lost.  Op 1 runs; the worker pops nil; op 2 is enqueued and the
    flag is set; the worker loads the flag, calls the callback, which finds the queue non-empty and
    re-arms the flag; the worker then clears it.  The run continues to rest: flag clear, queue open, both
    ops ran, no check ever ran although two requests were raised. -/
theorem C05_swapped_order_loses_request :
    ¬ (∀ (acts : List Action) (s : St), runActionsSw (init 0 0 0) acts = some s → NegInv s) := by
  intro hall
  have h := hall [.enqueue (.op 1), .pop 0, .exec 0, .pop 0, .enqueue (.op 2), .setFlag,
    .afterLoop 0, .cbBegin 0, .cbAct 0, .clearFlag 0] _ rfl
  revert h
  decide

-- the swapped run at rest: nothing left to do, flag clear, a request owed — the same schedule on the real
-- order ends with the check having run (next example)
example : (runActionsSw (init 0 0 0)
    [.enqueue (.op 1), .pop 0, .exec 0, .pop 0, .enqueue (.op 2), .setFlag,
     .afterLoop 0, .cbBegin 0, .cbAct 0, .clearFlag 0, .deferred 0,
     .pop 1, .exec 1, .pop 1, .afterLoop 1, .deferred 1]).map
      (fun s => (s.executed, liveWorkers s, s.flag, s.isClosed, owed s, decide (NegInv s)))
    = some ([.op 1, .op 2], 0, false, false, true, false) := by decide

-- non-vacuity of the request theorems (mode rearm): the same interleaving on the real order — the worker
-- re-arms, hands off, the successor's end of chain sees the flag, finds the queue empty and queues the
-- check, which runs.
example : (runActions .rearm (init 0 0 0)
    [.enqueue (.op 1), .pop 0, .exec 0, .pop 0, .enqueue (.op 2), .setFlag,
     .afterLoop 0, .clearFlag 0, .cbBegin 0, .cbAct 0, .deferred 0,
     .pop 1, .exec 1, .pop 1, .afterLoop 1, .clearFlag 1, .cbBegin 1, .cbAct 1, .deferred 1,
     .pop 2, .exec 2, .pop 2, .afterLoop 2, .deferred 2]).map
      (fun s => (s.executed, liveWorkers s, s.flag, owed s))
    = some ([.op 1, .op 2, .check 0], 0, false, false) := by decide

-- the "parked" case of `C05_neg_quiescent_parked` is real (an observation about the unchanged code, not
-- covered by the property text): an API goroutine finds the queue non-empty, the worker finishes and
-- exits, then the goroutine stores the flag — the request waits in the flag until some later chain ends.
example : (runActions .rearm (init 0 0 1)
    [.enqueue (.op 1), .negTest 0, .pop 0, .exec 0, .pop 0, .afterLoop 0, .deferred 0, .negAct 0]).map
      (fun s => (s.executed, liveWorkers s, s.flag, s.callers, owed s))
    = some ([.op 1], 0, true, [.returned], true) := by decide

-- hypotheses of `C05_neg_progress` / `C05_worker_rearm_has_successor` are satisfiable: a worker inside the
-- callback that found the queue busy, request owed, flag clear, queue open
example : (runActions .rearm (init 0 0 0)
    [.enqueue (.op 1), .pop 0, .exec 0, .pop 0, .enqueue (.op 2), .setFlag, .afterLoop 0, .clearFlag 0,
     .cbBegin 0]).map (fun s => (s.workers, owed s, s.flag, s.isClosed, s.queue))
    = some ([.cb false], true, false, false, [.op 2]) := by decide

-- hypothesis of `C05_system_rest` is satisfiable (the initial state is at rest)
example : ∀ a, sysAct a = true → step .rearm (init 1 1 0) a = none := by
  intro a ha
  cases a <;> simp [sysAct] at ha <;> simp [step, init]

end WebrtcVerif.C05
