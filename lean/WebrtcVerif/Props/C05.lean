import WebrtcVerif.Model.Ops
import WebrtcVerif.Proofs.OpsLemmas
/-!
# C05 — Queued negotiation work runs serially, in order, exactly once

"Work the PeerConnection queues internally … runs one item at a time, in queue order, and each item
runs exactly once. Waiting for the queue returns only after everything queued before the wait has run.
After a graceful close, nothing queued later runs."

All theorems quantify over `Reachable nc nd s`: every state reachable by ANY interleaving of the atomic
sections of any number of enqueuers (incl. items that enqueue further items — an `enqueue` action may
happen while a worker is `running`), `nd` Done callers, `nc` GracefulClose callers and the workers.
-/
namespace WebrtcVerif.C05
open WebrtcVerif.Ops

/-- One item at a time: at most one worker goroutine is alive, and exactly one iff `busyCh ≠ nil`. -/
theorem C05_single_worker {nc nd : Nat} {s : St} (h : Reachable nc nd s) :
    liveWorkers s = (if s.busy.isSome then 1 else 0) := by
  exact (opsInv_of_reachable h).live

/-- In queue order, at most once: what was accepted is exactly what has started, then what a worker
    holds, then what is still queued — in acceptance order. -/
theorem C05_fifo {nc nd : Nat} {s : St} (h : Reachable nc nd s) :
    s.accepted = s.executed ++ held s ++ s.queue := by
  exact (opsInv_of_reachable h).fifo

/-- No item starts twice. -/
theorem C05_at_most_once {nc nd : Nat} {s : St} (h : Reachable nc nd s) : s.executed.Nodup := by
  have hi := opsInv_of_reachable h
  have hn := hi.nodup
  rw [hi.fifo, List.append_assoc] at hn
  exact (List.nodup_append.mp hn).1

/-- Exactly once: when no worker is left, every accepted item has run (nothing is stranded). -/
theorem C05_exactly_once {nc nd : Nat} {s : St} (h : Reachable nc nd s) (hq : quiescent s) :
    s.executed = s.accepted := by
  exact (opsInv_of_reachable h).executed_eq_of_quiescent hq

/-- Nothing is stranded, stated as progress: while an accepted item has not started, some worker
    action is enabled. -/
theorem C05_no_strand {nc nd : Nat} {s : St} (h : Reachable nc nd s) (hne : s.executed ≠ s.accepted) :
    ∃ w, (step s (.pop w)).isSome ∨ (step s (.exec w)).isSome ∨ (step s (.afterLoop w)).isSome
      ∨ (step s (.deferred w)).isSome := by
  exact (opsInv_of_reachable h).worker_enabled hne

/-- `Done` returns only after everything that had been accepted when it was called has started (and,
    the worker being single, finished) — whether its waiter was queued or the queue was already closed. -/
theorem C05_done_after_predecessors {nc nd : Nat} {s : St} (h : Reachable nc nd s) (d : Nat)
    (hd : s.doners[d]? = some .returned) (snap : List Item) (hs : s.doneSnap[d]? = some snap) :
    ∀ it ∈ snap, it ∈ s.executed := by
  exact (opsInv_of_reachable h).done.donerRet d snap hd hs

/-- The snapshot is what it says: when `Done` is called, the snapshot becomes the items accepted so far. -/
theorem C05_done_snapshot {nc nd : Nat} {s s' : St} (hr : Reachable nc nd s) (d : Nat)
    (h : step s (.doneBegin d) = some s') : s'.doneSnap[d]? = some s.accepted := by
  have hlen := (opsInv_of_reachable hr).snap_length
  simp only [step] at h
  split at h
  · rename_i hd
    have hdlt : d < s.doneSnap.length := by
      rw [hlen]
      rcases Nat.lt_or_ge d s.doners.length with h1 | h1
      · exact h1
      · rw [List.getElem?_eq_none h1] at hd; cases hd
    split at h
    · cases h
    · cases h
      have hsn := (tryEnqueue_frame s (.waiter d)).2.1
      simp [setAt, hsn, hdlt]
  · cases h

/-- After a graceful close nothing is accepted any more … -/
theorem C05_nothing_accepted_after_close {nc nd : Nat} {s s' : St} (h : Reachable nc nd s)
    (hc : s.isClosed = true) (it : Item) (hs : step s (.enqueue it) = some s') :
    s'.accepted = s.accepted ∧ s'.queue = s.queue ∧ s'.workers = s.workers := by
  have _ := h  -- (not needed: holds in every state, reachable or not)
  simp only [step] at hs
  split at hs
  · cases hs
  · cases hs
    rw [tryEnqueue_closed it hc]
    exact ⟨rfl, rfl, rfl⟩

/-- … and once the closing `GracefulClose` has returned, everything accepted before has run and no
    worker exists (so nothing runs later). -/
theorem C05_close_returns_after_drain {nc nd : Nat} {s : St} (h : Reachable nc nd s) (c : Nat)
    (hc : s.closers[c]? = some .returned) :
    s.isClosed = true ∧ s.busy = none ∧ liveWorkers s = 0 ∧ s.executed = s.accepted := by
  have hi := opsInv_of_reachable h
  have hb := hi.closerRet c hc
  have hl : liveWorkers s = 0 := by
    have := hi.live
    rw [hb] at this
    exact this
  exact ⟨hi.closed c _ hc (by simp), hb, hl, hi.executed_eq_of_quiescent hl⟩

/-- The deferred block never closes a nil channel. -/
theorem C05_deferred_has_channel {nc nd : Nat} {s : St} (h : Reachable nc nd s) (w : Nat)
    (hw : s.workers[w]? = some .defer_) : s.busy.isSome = true := by
  have hi := opsInv_of_reachable h
  have hpos := liveL_pos_of_getElem? hw rfl
  have hl := hi.live
  cases hb : s.busy with
  | none => rw [hb] at hl; simp at hl; omega
  | some g => rfl

-- non-vacuity: a concrete interleaving (the schedule that stranded an operation before the repair):
-- enqueue 1; worker pops and runs it; pops nil; enqueue 2 arrives; GracefulClose begins; the worker's
-- deferred block hands off; second worker runs 2; closer re-checks and returns.
example : (runActions (init 1 0)
    [.enqueue (.op 1), .pop 0, .exec 0, .pop 0, .enqueue (.op 2), .gcBegin 0, .afterLoop 0, .deferred 0,
     .gcWake 0, .gcRecheck 0, .pop 1, .exec 1, .pop 1, .afterLoop 1, .deferred 1, .gcWake 0, .gcRecheck 0]).map
      (fun s => (s.executed, s.closers, liveWorkers s))
    = some ([.op 1, .op 2], [.returned], 0) := by decide

end WebrtcVerif.C05
