import WebrtcVerif.Model.Candidate
import WebrtcVerif.Proofs.CandidateLemmas
/-!
# C25 — ICE candidates round-trip through their signaling form

"For every ICE candidate pion can represent, its JSON form (ToJSON) is accepted by AddICECandidate and
parses back to a candidate with the same foundation, component, protocol, priority, address, port, type,
related address/port, TCP type and extensions. AddICECandidate drops, without error, any candidate whose
ufrag extension names no ufrag in the applied remote description."

`IceCand` is a candidate as pion/ice holds it, `IceCand.obs` the ten fields the property lists (what the
accessor methods return).  `WF` is the domain ("a candidate pion can represent" that the candidate-attribute
grammar can write down), `NoFinding` excludes exactly the three recorded findings.  pion/ice's
Marshal / UnmarshalCandidate / constructors / AddExtension are modelled (Model/Candidate.lean, part 2) and
their inverse property is *proved for that model* (`C25_marshal_unmarshal_inverse`) rather than assumed; the
correspondence run ties the model of the library to the real library.
-/
namespace WebrtcVerif.C25
open WebrtcVerif.Candidate

/-! ## concrete candidates used by the non-vacuity examples -/

def hostBase : IceCand :=
  { typ := .host, net := .udp4, address := chars!"1.2.3.4", port := 5000, component := 1,
    foundationOverride := chars!"1", priorityOverride := 2130706431, related := none, tcp := .unspecified,
    exts := [⟨chars!"generation", chars!"0"⟩, ⟨chars!"ufrag", chars!"abcd"⟩, ⟨chars!"network-cost", []⟩] }
def relayTcp : IceCand :=
  { typ := .relay, net := .tcp6, address := chars!"2001:db8::1", port := 443, component := 2,
    foundationOverride := [' '], priorityOverride := 5, related := some (chars!"::ffff:10.0.0.1", 9), tcp := .unspecified,
    exts := [⟨chars!"ufrag", chars!"nope"⟩] }
def descAbcd : Desc := { session := [], media := [[], [chars!"abcd"]] }

example : WF hostBase ∧ NoFinding hostBase := by decide
example : WF relayTcp ∧ NoFinding relayTcp := by decide

/-! ## the extension splitter -/

/-- `exportExtensions`' hand-written splitter inverts `setExtensions` on every extension list of any length
    whose names are non-empty and whose names and values contain no space (values may be empty). -/
theorem C25_extensions_roundtrip (exts : List Ext)
    (h : ∀ e ∈ exts, e.key ≠ [] ∧ ' ' ∉ e.key ∧ ' ' ∉ e.value) :
    exportCalls (setExtensions exts) = exts :=
  exportCalls_setExtensions exts h

example : (∀ e ∈ [Ext.mk (chars!"generation") (chars!"0"), ⟨chars!"network-cost", []⟩, ⟨chars!"ufrag", chars!"abcd"⟩],
    e.key ≠ [] ∧ ' ' ∉ e.key ∧ ' ' ∉ e.value) := by decide

/-- …and the `AddExtension` calls it makes rebuild the TCP type and the extension list on the new
    candidate, when no name repeats. -/
theorem C25_extensions_rebuilt (c base : IceCand) (h : WF c) (hnd : (c.exts.map (·.key)).Nodup)
    (hb : base.exts = []) (htcp : base.tcp = c.tcp ∨ base.tcp = .unspecified) :
    base.addAll (exportCalls (setExtensions c.extensions)) = .ok { base with tcp := c.tcp, exts := c.exts } := by
  rw [exportCalls_setExtensions c.extensions (extensions_ok c h)]
  exact addAll_extensions c base h hnd hb htcp

example : WF hostBase ∧ (hostBase.exts.map (·.key)).Nodup
    ∧ ({ hostBase with exts := [] } : IceCand).exts = [] := by decide

/-! ## field mapping of newICECandidateFromICE / ToICE -/

/-- `newICECandidateFromICE` copies the listed fields one for one (ports as uint16; a host candidate, which
    has no related address, gets "" and 0; TCP type as its name; extensions as the joined string). -/
theorem C25_fromICE_fields (c : IceCand) :
    (fromICE c).foundation = c.obs.foundation ∧ (fromICE c).component = c.obs.component
    ∧ (fromICE c).protocol = WProto.ofICE c.obs.proto ∧ (fromICE c).priority = c.obs.priority
    ∧ (fromICE c).address = c.obs.address ∧ (fromICE c).port = c.obs.port % 65536
    ∧ (fromICE c).typ = WType.ofICE c.obs.typ
    ∧ ((fromICE c).relatedAddress, (fromICE c).relatedPort)
        = (match c.obs.related with | some (a, p) => (a, p % 65536) | none => ([], 0))
    ∧ (fromICE c).tcpType = c.obs.tcp.str
    ∧ (fromICE c).extensions = setExtensions c.obs.extensions := by
  refine ⟨rfl, rfl, rfl, rfl, rfl, rfl, rfl, ?_, rfl, rfl⟩
  simp only [fromICE, IceCand.obs]
  cases c.related <;> rfl

/-- `ToICE ∘ newICECandidateFromICE` succeeds and preserves every listed field, for all four types
    (including a TCP type on a non-host candidate, which travels in the extension string). -/
theorem C25_fields_preserved (c : IceCand) (h : WF c) (hnd : (c.exts.map (·.key)).Nodup) :
    ∃ c', (fromICE c).toICE = .ok c' ∧ c'.obs = c.obs :=
  ⟨canon c, toICE_fromICE c h hnd, canon_obs c h⟩

/-- `ToICE` on a hand-built `webrtc.ICECandidate` literal (no extension string): every exported field is
    handed to the matching pion/ice constructor; `TCPType` is handed over only for `Typ == host` (the other
    three config structures have no such field), `RelatedAddress/Port` only for the other three. -/
theorem C25_literal_toICE (w : ICECandidate) (t : CandType) (p : Proto)
    (h1 : w.typ = WType.ofICE t) (h2 : w.protocol = WProto.ofICE p) (h3 : w.extensions = [])
    (hv : if t = .host ∧ isNameAddress w.address = true then True else (parseAddr w.address).isSome = true) :
    w.toICE = .ok
      { typ := t, net := canonNet t p w.address, address := w.address, port := w.port, component := w.component,
        foundationOverride := w.foundation, priorityOverride := w.priority,
        related := if t = .host then none else some (w.relatedAddress, w.relatedPort),
        tcp := if t = .host then newTCPType w.tcpType else .unspecified, relayPref := 3, exts := [] } := by
  cases t <;>
    simp only [ICECandidate.toICE, h1, h2, h3, WType.ofICE, wproto_str, exportCalls, exportCalls.go] <;>
    rw [newCandidate_canon _ _ _ _ _ _ _ _ _ _ _ hv] <;>
    simp [IceCand.addAll]

example : (if CandType.srflx = .host ∧ isNameAddress (chars!"1.2.3.4") = true then True
    else (parseAddr (chars!"1.2.3.4")).isSome = true) := by decide

/-! ## the signaling form -/

/-- `ToJSON().Candidate` is `candidate:` followed by pion/ice's Marshal of the same observable fields. -/
theorem C25_json_form (c : IceCand) (h : WF c) (hnd : (c.exts.map (·.key)).Nodup) :
    (fromICE c).toJSON = candidatePrefix ++ c.obs.marshal :=
  toJSON_fromICE c h hnd

/-- The inverse property of the (modelled) external library: UnmarshalCandidate ∘ Marshal returns the same
    observable fields.  It needs the last two `NoFinding` conjuncts: Marshal does not write a related address
    with port 0 or empty address, and UnmarshalCandidate keeps a TCP type only on host candidates. -/
theorem C25_marshal_unmarshal_inverse (c : IceCand) (h : WF c) (hn : NoFinding c) :
    ∃ c', unmarshal c.marshal = .ok c' ∧ c'.obs = c.obs :=
  ⟨canon c, unmarshal_marshal c h hn, canon_obs c h⟩

/-- The JSON form parses back (ice.UnmarshalCandidate) to a candidate with the same ten fields. -/
theorem C25_json_parses_back (c : IceCand) (h : WF c) (hn : NoFinding c) :
    ∃ p, unmarshal (stripPrefix candidatePrefix (fromICE c).toJSON) = .ok p ∧ p.obs = c.obs := by
  rw [toJSON_fromICE c h hn.1, stripPrefix_prefix]
  exact C25_marshal_unmarshal_inverse c h hn

/-! ## AddICECandidate -/

/-- what the property demands of one candidate: its JSON form parses back (ice.UnmarshalCandidate) to the
    same ten fields; and with an applied remote description that names the candidate's ufrag (or for a
    candidate without ufrag) AddICECandidate forwards the JSON form to the ICE transport, the transport's
    conversion succeeds, and the candidate handed to the agent has the same ten fields. -/
def RoundTrips (c : IceCand) : Prop :=
  (∃ p, unmarshal (stripPrefix candidatePrefix (fromICE c).toJSON) = .ok p ∧ p.obs = c.obs)
  ∧ ∀ pend cur d, remoteDescription pend cur = some d →
    (∀ u, c.getExtension ufragKey = some u → d.containsUfrag u = true) →
    ∃ w c', addICECandidate pend cur (fromICE c).toJSON = .forwarded (some w)
      ∧ transportAdd (some w) = .ok (some c') ∧ c'.obs = c.obs

/-- The property at full strength: every well-formed candidate round-trips. -/
def C25_Full : Prop := ∀ c : IceCand, WF c → RoundTrips c

/-- C25 for every well-formed candidate outside the three recorded findings. -/
theorem C25_json_roundtrip_partial (c : IceCand) (h : WF c) (hn : NoFinding c) : RoundTrips c := by
  refine ⟨C25_json_parses_back c h hn, ?_⟩
  intro pend cur d hd hu
  have hcw := canon_WF c h
  have hcn := canon_NoFinding c hn
  refine ⟨fromICE (canon c), canon (canon c), ?_, ?_, ?_⟩
  · unfold addICECandidate
    rw [hd]
    simp only
    rw [toJSON_fromICE c h hn.1, stripPrefix_prefix]
    have hne : c.marshal ≠ [] := by
      intro e
      have := unmarshal_marshal c h hn
      rw [e, unmarshal_nil] at this
      cases this
    simp only [hne, if_false, unmarshal_marshal c h hn, canon_getExtension]
    cases hg : c.getExtension ufragKey with
    | none => rfl
    | some u => simp [hu u hg]
  · unfold transportAdd
    simp only [toICE_fromICE (canon c) hcw hcn.1]
  · rw [canon_obs _ hcw, canon_obs c h]

/-- AddICECandidate drops — returns nil without touching the transport — any candidate string that parses
    and whose ufrag extension names no ufrag anywhere in the applied remote description. -/
theorem C25_unknown_ufrag_dropped (pend cur : Option Desc) (d : Desc) (hd : remoteDescription pend cur = some d)
    (s : Str) (cand : IceCand) (hp : unmarshal (stripPrefix candidatePrefix s) = .ok cand)
    (u : Str) (hu : cand.getExtension ufragKey = some u) (hnot : u ∉ d.allUfrags) :
    addICECandidate pend cur s = .dropped := by
  unfold addICECandidate
  rw [hd]
  simp only
  have hne : stripPrefix candidatePrefix s ≠ [] := by
    intro e; rw [e, unmarshal_nil] at hp; cases hp
  have hc : d.containsUfrag u = false := by
    cases hcu : d.containsUfrag u with
    | false => rfl
    | true => exact absurd (contains_mem_all d u hcu) hnot
  simp [hne, hp, hu, hc]

example : ∃ cand u, unmarshal (stripPrefix candidatePrefix (fromICE relayTcp).toJSON) = .ok cand
    ∧ cand.getExtension ufragKey = some u ∧ u ∉ descAbcd.allUfrags :=
  ⟨_, chars!"nope", rfl, rfl, by decide⟩

/-- …in particular the JSON form of a well-formed candidate whose ufrag is unknown. -/
theorem C25_json_unknown_ufrag_dropped (c : IceCand) (h : WF c) (hn : NoFinding c)
    (pend cur : Option Desc) (d : Desc) (hd : remoteDescription pend cur = some d)
    (u : Str) (hu : c.getExtension ufragKey = some u) (hnot : u ∉ d.allUfrags) :
    addICECandidate pend cur (fromICE c).toJSON = .dropped := by
  obtain ⟨p, hp, _⟩ := C25_json_parses_back c h hn
  have hp' : p = canon c := by
    rw [toJSON_fromICE c h hn.1, stripPrefix_prefix, unmarshal_marshal c h hn] at hp
    cases hp; rfl
  exact C25_unknown_ufrag_dropped pend cur d hd _ p hp u (by rw [hp', canon_getExtension]; exact hu) hnot

/-- A ufrag the code accepts is one the description names (the filter never accepts a foreign ufrag). -/
theorem C25_accepted_ufrag_is_named (d : Desc) (u : Str) (h : d.containsUfrag u = true) : u ∈ d.allUfrags :=
  contains_mem_all d u h

/-- Every outcome of AddICECandidate, case by case (the code's branches, in order). -/
theorem C25_add_outcomes (pend cur : Option Desc) (s : Str) :
    addICECandidate pend cur s =
      match remoteDescription pend cur with
      | none => .noRemoteDescription
      | some d =>
        if stripPrefix candidatePrefix s = [] then .forwarded none      -- end-of-candidates
        else match unmarshal (stripPrefix candidatePrefix s) with
          | .error .other => .parseError
          | .error _ => .dropped                                         -- unknown type / transport: discarded
          | .ok cand =>
            match cand.getExtension ufragKey with
            | some u => if d.containsUfrag u = true then .forwarded (some (fromICE cand)) else .dropped
            | none => .forwarded (some (fromICE cand)) := by
  unfold addICECandidate
  cases remoteDescription pend cur with
  | none => rfl
  | some d =>
    simp only
    split
    · rfl
    · cases hu : unmarshal (stripPrefix candidatePrefix s) with
      | error e => cases e <;> rfl
      | ok cand =>
        simp only
        cases cand.getExtension ufragKey with
        | none => rfl
        | some u => cases hc : d.containsUfrag u <;> simp [hc]

/-- A candidate is dropped only for one of the three reasons the code names: never because of anything
    else in a candidate that parses and whose ufrag (if any) the description names. -/
theorem C25_dropped_only_for_cause (pend cur : Option Desc) (s : Str)
    (h : addICECandidate pend cur s = .dropped) :
    unmarshal (stripPrefix candidatePrefix s) = .error .unknownTyp
    ∨ unmarshal (stripPrefix candidatePrefix s) = .error .networkType
    ∨ ∃ cand u d, unmarshal (stripPrefix candidatePrefix s) = .ok cand ∧ remoteDescription pend cur = some d
        ∧ cand.getExtension ufragKey = some u ∧ d.containsUfrag u = false := by
  rw [C25_add_outcomes] at h
  cases hd : remoteDescription pend cur with
  | none => simp [hd] at h
  | some d =>
    simp only [hd] at h
    split at h
    · cases h
    · cases hu : unmarshal (stripPrefix candidatePrefix s) with
      | error e =>
        cases e
        · exact Or.inl rfl
        · exact Or.inr (Or.inl rfl)
        · simp [hu] at h
      | ok cand =>
        simp only [hu] at h
        cases hg : cand.getExtension ufragKey with
        | none => simp [hg] at h
        | some u =>
          simp only [hg] at h
          cases hc : d.containsUfrag u with
          | true => simp [hc] at h
          | false => exact Or.inr (Or.inr ⟨cand, u, d, rfl, rfl, hg, hc⟩)

/-- Without an applied remote description nothing is forwarded. -/
theorem C25_no_remote_description (s : Str) : addICECandidate none none s = .noRemoteDescription := rfl

/-! ## non-vacuity and the recorded findings -/

-- the hypotheses of the theorems above are satisfiable, with and without a matching ufrag
example : ∀ u, hostBase.getExtension ufragKey = some u → descAbcd.containsUfrag u = true := by decide
example : (fromICE hostBase).toJSON
    = chars!"candidate:1 1 udp 2130706431 1.2.3.4 5000 typ host generation 0 ufrag abcd network-cost " := by decide
example : addICECandidate none (some descAbcd) (fromICE hostBase).toJSON = .forwarded (some (fromICE hostBase)) := by
  decide
example : relayTcp.getExtension ufragKey = some (chars!"nope") ∧ chars!"nope" ∉ descAbcd.allUfrags := by decide
example : addICECandidate (some descAbcd) none (fromICE relayTcp).toJSON = .dropped := by decide

/-- witness of `duplicate-extension-key-collapsed` (exportExtensions → AddExtension overwrites) -/
def dupWitness : IceCand := { hostBase with exts := [⟨chars!"foo", chars!"1"⟩, ⟨chars!"foo", chars!"2"⟩] }
/-- witness of `related-address-lost:zero-rport-or-empty-raddr` (pion/ice Marshal) -/
def relWitness : IceCand := { hostBase with typ := .srflx, related := some (chars!"0.0.0.0", 0), exts := [] }
/-- witness of `tcptype-lost:non-host` (pion/ice UnmarshalCandidate) -/
def tcpWitness : IceCand :=
  { hostBase with typ := .srflx, net := .tcp4, related := some (chars!"4.3.2.1", 8), tcp := .passive, exts := [] }

example : WF dupWitness ∧ WF relWitness ∧ WF tcpWitness := by decide

set_option maxRecDepth 100000 in
/-- The unchanged code violates the full statement: a repeated extension name is collapsed by
    `exportExtensions` (first position, last value), so the agent gets `foo 2` for `foo 1 foo 2`. -/
theorem C25_counterexample : ¬ C25_Full := by
  intro hfull
  obtain ⟨w, c', h1, h2, h3⟩ := (hfull dupWitness (by decide)).2 none (some descAbcd) descAbcd rfl (by decide)
  have e1 : addICECandidate none (some descAbcd) (fromICE dupWitness).toJSON
      = .forwarded (some (fromICE { dupWitness with exts := [⟨chars!"foo", chars!"2"⟩] })) := by decide
  rw [e1] at h1
  injection h1 with h1; injection h1 with h1
  subst h1
  have e2 : transportAdd (some (fromICE { dupWitness with exts := [⟨chars!"foo", chars!"2"⟩] }))
      = .ok (some { dupWitness with exts := [⟨chars!"foo", chars!"2"⟩] }) := by rfl
  rw [e2] at h2
  injection h2 with h2; injection h2 with h2
  subst h2
  revert h3
  decide

set_option maxRecDepth 100000 in
/-- Second, independent violation (in the external library): `raddr 0.0.0.0 rport 0` is not written by
    Marshal, so the candidate comes back with related address "":0. -/
theorem C25_counterexample_zero_rport : ¬ C25_Full := by
  intro hfull
  obtain ⟨w, c', h1, h2, h3⟩ := (hfull relWitness (by decide)).2 none (some descAbcd) descAbcd rfl (by decide)
  have e1 : addICECandidate none (some descAbcd) (fromICE relWitness).toJSON
      = .forwarded (some (fromICE { relWitness with related := some ([], 0) })) := by decide
  rw [e1] at h1
  injection h1 with h1; injection h1 with h1
  subst h1
  have e2 : transportAdd (some (fromICE { relWitness with related := some ([], 0) }))
      = .ok (some { relWitness with related := some ([], 0) }) := by rfl
  rw [e2] at h2
  injection h2 with h2; injection h2 with h2
  subst h2
  revert h3
  decide

set_option maxRecDepth 100000 in
/-- Third violation (external library): a TCP type on a server-reflexive candidate is written by Marshal
    but not kept by UnmarshalCandidate. -/
theorem C25_counterexample_nonhost_tcptype : ¬ C25_Full := by
  intro hfull
  obtain ⟨w, c', h1, h2, h3⟩ := (hfull tcpWitness (by decide)).2 none (some descAbcd) descAbcd rfl (by decide)
  have e1 : addICECandidate none (some descAbcd) (fromICE tcpWitness).toJSON
      = .forwarded (some (fromICE { tcpWitness with tcp := .unspecified })) := by decide
  rw [e1] at h1
  injection h1 with h1; injection h1 with h1
  subst h1
  have e2 : transportAdd (some (fromICE { tcpWitness with tcp := .unspecified }))
      = .ok (some { tcpWitness with tcp := .unspecified }) := by rfl
  rw [e2] at h2
  injection h2 with h2; injection h2 with h2
  subst h2
  revert h3
  decide

/-- `NoFinding` excludes nothing else: each witness violates exactly one of its three conjuncts. -/
theorem C25_findings_are_exactly_excluded :
    (¬ (dupWitness.exts.map (·.key)).Nodup ∧ RelWritten dupWitness.related ∧ (dupWitness.tcp ≠ .unspecified → dupWitness.typ = .host))
    ∧ ((relWitness.exts.map (·.key)).Nodup ∧ ¬ RelWritten relWitness.related ∧ (relWitness.tcp ≠ .unspecified → relWitness.typ = .host))
    ∧ ((tcpWitness.exts.map (·.key)).Nodup ∧ RelWritten tcpWitness.related ∧ ¬ (tcpWitness.tcp ≠ .unspecified → tcpWitness.typ = .host)) := by
  decide

end WebrtcVerif.C25
