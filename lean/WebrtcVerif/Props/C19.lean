import WebrtcVerif.Model.DcParams
/-!
# C19 — Data channels deliver messages exactly once, in order, intact   (PARTIAL: this repository's glue)

"Every message sent on an open data channel (ordered, reliable) is delivered exactly once, in order,
with identical bytes and the same text/binary flag … The remote channel reports the creator's label,
protocol, ordering and reliability parameters."

The theorems cover the code of this repository (parameter mapping in `open` / `acceptDataChannels`, the
`readLoop`, the `Send` guard) under the explicit assumption that the transport hands `readLoop` exactly
the sent messages in order — pion/sctp, pion/datachannel, DTLS and ICE are external and only exercised
by the correspondence run.
-/
namespace WebrtcVerif.C19
open WebrtcVerif.Bytes WebrtcVerif.DcParams

/-- The remote side reconstructs exactly the creator's ordering and reliability parameters. -/
theorem C19_params_roundtrip (p : Rel) (h : p.valid) : fromWire (toWire p).1 (toWire p).2 = p := by
  obtain ⟨ordered, mr, mp⟩ := p
  obtain ⟨hnb, hr, ht⟩ := h
  cases ordered <;> cases mr <;> cases mp <;> simp_all [toWire, fromWire] <;> omega

/-- Every message is delivered intact (same bytes, same flag), whatever its size and the current buffer
    length (≥ 1), as long as the configured maximum message size is non-zero (it always is: the setting
    engine substitutes the default for 0). -/
theorem C19_recv_intact (max : Nat) (hmax : 0 < max) (m : Msg) (buf : Nat) (hb : 0 < buf) :
    ∃ buf', recvOne max m (fuelFor m) buf = .delivered m buf' ∧ buf ≤ buf' := by
  have key : ∀ fuel buf, 0 < buf → m.data.length ≤ buf + fuel →
      ∃ buf', recvOne max m (fuel + 1) buf = .delivered m buf' ∧ buf ≤ buf' := by
    intro fuel
    induction fuel with
    | zero =>
      intro buf _ hl
      refine ⟨buf, ?_, Nat.le_refl _⟩
      simp [recvOne, show m.data.length ≤ buf by omega]
    | succ fuel ih =>
      intro buf hb hl
      by_cases hfit : m.data.length ≤ buf
      · exact ⟨buf, by simp [recvOne, hfit], Nat.le_refl _⟩
      · obtain ⟨buf', h1, h2⟩ := ih (buf + buf) (by omega) (by omega)
        refine ⟨buf', ?_, by omega⟩
        rw [recvOne]
        simp [hfit, hmax, h1]
  have := key (m.data.length + 1) buf hb (by omega)
  simpa [fuelFor] using this

/-- Exactly once, in order, intact: the read loop hands up exactly the transport's messages, in order,
    for every list of messages of any sizes. -/
theorem C19_readloop_is_identity (max : Nat) (hmax : 0 < max) (buf : Nat) (hb : 0 < buf) (wire : List Msg) :
    readLoop max buf wire = (wire, true) := by
  induction wire generalizing buf with
  | nil => simp [readLoop]
  | cons m rest ih =>
    obtain ⟨buf', h1, h2⟩ := C19_recv_intact max hmax m buf hb
    simp [readLoop, h1, ih buf' (by omega)]

/-- Only an open channel sends; a send on an open channel appends exactly that message. -/
theorem C19_send_guard (st : DcState) (wire : List Msg) (m : Msg) :
    (send st wire m).2 = true ↔ st = .open_ := by
  unfold send; split <;> simp_all

theorem C19_send_appends (wire : List Msg) (m : Msg) : send .open_ wire m = (wire ++ [m], true) := by
  simp [send]

-- non-vacuity
example : Rel.valid { ordered := false, maxRetransmits := some 3, maxPacketLifeTime := none } := by
  refine ⟨by simp, ?_, ?_⟩ <;> intro x h <;> simp at h <;> omega

end WebrtcVerif.C19
