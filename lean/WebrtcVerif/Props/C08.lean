import WebrtcVerif.Proofs.DirectionsLemmas
/-!
# C08 — Answer directions are legal responses to the offered directions

"In every answer pion creates, each m-section's direction is permitted by RFC 3264 §6.1 for the corresponding
offered direction. A sendonly offer gets recvonly or inactive, a recvonly offer gets sendonly or inactive, and
an inactive offer gets inactive. The answer never sends where the offer did not agree to receive, and never
receives where the offer did not agree to send."

Quantifier: histories of local transceiver direction/track changes and remote re-offers whose per-section
directions range over sendrecv / sendonly / recvonly / inactive (or no direction attribute at all, which
RFC 3264 §5.1 reads as sendrecv and, since `fix: treat a remote m-section without a direction attribute as
sendrecv`, so does the code), including
direction changes in renegotiation.  Here: ALL finite histories over `Directions.Op` — AddTrack, RemoveTrack,
AddTransceiverFromKind, RTPTransceiver.Stop, RTPTransceiver.SetSender (called directly),
SetRemoteDescription(offer) with arbitrary sections, CreateAnswer, SetLocalDescription(answer),
CreateOffer+SetLocalDescription, SetRemoteDescription(answer) with arbitrary sections — from a fresh
PeerConnection, in any order (calls the signaling state refuses are no-ops).

The model mirrors the code after two `fix:` commits; the code before them is `stepWith adjustOld noNarrow`:
* `fix: answer recvonly/inactive to a sendonly re-offer` completed the adjustment switch of
  SetRemoteDescription (`adjustOld` ↦ `adjust`); `C08_defect_before_fix`.
* `fix: narrow the transceiver direction to a legal answer in CreateAnswer` (`noNarrow` ↦ `narrow`): a sender
  attached with RTPTransceiver.SetSender between SetRemoteDescription and CreateAnswer escaped the switch;
  `C08_defect_direct_set_sender`.  `C08_create_answer_keeps_directions` proves the narrowing never changes a
  direction unless SetSender was called in that window.
-/
namespace WebrtcVerif.C08
open WebrtcVerif.Directions WebrtcVerif.Directions.Spec

/-! ### the RFC 3264 §6.1 table is the property's last sentence -/

/-- "The answer never sends where the offer did not agree to receive, and never receives where the offer did
    not agree to send" is exactly the table `legal`. -/
theorem C08_legal_iff_send_recv (o a : Dir) :
    legal o a = true ↔ (sends a = true → recvs o = true) ∧ (recvs a = true → sends o = true) := by
  cases o <;> cases a <;> decide

/-- the three sentences of the property, read off the table -/
theorem C08_table :
    (∀ a, legal .sendonly a = true ↔ a = .recvonly ∨ a = .inactive) ∧
    (∀ a, legal .recvonly a = true ↔ a = .sendonly ∨ a = .inactive) ∧
    (∀ a, legal .inactive a = true ↔ a = .inactive) ∧
    (∀ a, legal .sendrecv a = true) := by
  refine ⟨?_, ?_, ?_, ?_⟩ <;> intro a <;> cases a <;> decide

/-- `answerDirection` (rtptransceiver.go) maps every local direction to a legal answer and changes nothing that
    already is one. -/
theorem C08_answerDirection_legal (offered loc : Dir) :
    legal offered (narrow offered loc) = true ∧ (narrow offered loc = loc ↔ legal offered loc = true) :=
  ⟨narrow_legal offered loc, narrow_eq_self_iff offered loc⟩

/-! ### the statement -/

/-- Positional form, no hypothesis needed: the answer goes through the offer's m-sections in order and
    answers each one with a section that has its mid and a direction legal for the offered one (`legalOpt`:
    an offered section without direction attribute means sendrecv, every answer is legal). -/
inductive OneForOne : List Sec → List Sec → Prop
  | nil : OneForOne [] []
  | cons {s a : Sec} {off ans : List Sec} (ad : Dir) : a.mid = s.mid → a.dir = some ad →
      legalOpt s.dir ad = true → OneForOne off ans → OneForOne (s :: off) (a :: ans)

theorem legalOpt_eq (d : Option Dir) (a : Dir) : legalOpt d a = legal (effDir d) a := by
  cases d <;> rfl

/-- For the by-mid form (what the harness judges): a remote offer does not use the same mid for two
    m-sections (RFC 5888 / RFC 8843: mids identify m-sections). -/
def wfOp : Op → Bool
  | .remoteOffer secs => decide (Distinct secs)
  | _ => true

def WF (ops : List Op) : Prop := ∀ o ∈ ops, wfOp o = true

instance (ops : List Op) : Decidable (WF ops) := by unfold WF; infer_instance

/-- By-mid form: every section of the answer corresponds to a section of the offer (same mid), and its
    direction is a legal response to the direction of every offered section with that mid (exactly one, by
    `WF`). -/
def AnswerLegal (off ans : List Sec) : Prop :=
  ∀ a ∈ ans, (∃ o ∈ off, o.mid = a.mid) ∧
    ∀ o ∈ off, o.mid = a.mid → ∃ ad, a.dir = some ad ∧ legalOpt o.dir ad = true

/-- the property for a PeerConnection with adjustment switch `adj` and CreateAnswer narrowing `nar` -/
def FullFor (adj nar : Dir → Dir → Dir) : Prop :=
  ∀ ops, WF ops → ∀ p ∈ (runWith adj nar {} ops).log, AnswerLegal p.1 p.2

/-! ### positional form: induction over histories, the log only grows in CreateAnswer -/

theorem oneForOne_of_answersBy {f : Dir → Dir → Dir} (hf : ∀ d l, legal d (f d l) = true)
    {off ans : List Sec} (h : AnswersBy f off ans) : OneForOne off ans := by
  induction h with
  | nil => exact .nil
  | @cons s a off ans l hm hdir _ ih =>
    exact .cons (f (effDir s.dir) l) hm hdir (by rw [legalOpt_eq]; exact hf _ l) ih

theorem log_step {adj nar : Dir → Dir → Dir} (hn : ∀ d l, legal d (nar d l) = true) (s : Pc) (o : Op)
    (h : ∀ p ∈ s.log, OneForOne p.1 p.2) : ∀ p ∈ (stepWith adj nar s o).1.log, OneForOne p.1 p.2 := by
  cases o with
  | createAnswer =>
    simp only [stepWith]
    by_cases hs : s.sig = .haveRemoteOffer
    · rw [if_pos hs]
      cases hrd : s.remoteDesc with
      | none => exact h
      | some off =>
        simp only
        cases hm : (matchedLoop (some nar) (Work.ofList s.trs) off).1 with
        | none => exact h
        | some ans =>
          simp only
          intro p hp
          simp only [List.mem_append, List.mem_singleton] at hp
          rcases hp with hp | rfl
          · exact h p hp
          · exact oneForOne_of_answersBy hn (matchedLoop_answersBy nar off _ ans hm)
    · rw [if_neg hs]; exact h
  | addTrack k => exact h
  | removeTrack i =>
    simp only [stepWith]
    cases s.trs[i]? with
    | none => exact h
    | some t => dsimp only; split <;> exact h
  | addTransceiver k d => cases d <;> exact h
  | stop i =>
    simp only [stepWith]
    cases s.trs[i]? with
    | none => exact h
    | some t => exact h
  | remoteOffer secs => simp only [stepWith]; split <;> (try split) <;> exact h
  | setLocalAnswer =>
    simp only [stepWith]
    cases s.lastAnswer with
    | none => exact h
    | some ans => dsimp only; split <;> exact h
  | localOffer =>
    simp only [stepWith]
    split
    · split <;> exact h
    · exact h
  | remoteAnswer secs => simp only [stepWith]; split <;> (try split) <;> exact h
  | setSender i =>
    simp only [stepWith]
    cases s.trs[i]? with
    | none => exact h
    | some t => exact h

/-- **C08, positional form, no hypothesis**: for every history whatsoever, every answer CreateAnswer produces
    answers the offered m-sections that carry a direction one-for-one, in order, each with a direction
    RFC 3264 §6.1 permits. -/
theorem C08_Full_positional (ops : List Op) : ∀ p ∈ (run {} ops).log, OneForOne p.1 p.2 := by
  have : ∀ (ops : List Op) (s : Pc), (∀ p ∈ s.log, OneForOne p.1 p.2) →
      ∀ p ∈ (runWith adjust narrow s ops).log, OneForOne p.1 p.2 := by
    intro ops
    induction ops with
    | nil => intro s h; exact h
    | cons o ops ih => intro s h; exact ih _ (log_step narrow_legal s o h)
  exact this ops {} (by simp)

/-! ### by-mid form: the invariant -/

/-- Invariant of every reachable state: all answers created so far are legal, and while a remote offer is
    pending its sections have distinct mids and each one has a transceiver carrying
    its mid. -/
structure Good (s : Pc) : Prop where
  log : ∀ p ∈ s.log, AnswerLegal p.1 p.2
  window : s.sig = .haveRemoteOffer → ∃ off, s.pendRemote = some off ∧ Distinct off ∧ Carrier off s.trs

theorem good_init : Good {} := ⟨by simp, by simp⟩

private theorem good_mids {s : Pc} (hg : Good s) {ts' : List Tr}
    (h : ∀ x, x ∈ s.trs.map (·.mid) → x ∈ ts'.map (·.mid)) : Good { s with trs := ts' } :=
  ⟨hg.log, fun hs => by
    obtain ⟨off, h1, h2, h3⟩ := hg.window hs
    exact ⟨off, h1, h2, h3.mono h⟩⟩

private theorem distinct_mid_inj : ∀ {off : List Sec}, Distinct off → ∀ {o o' : Sec}, o ∈ off → o' ∈ off →
    o.mid = o'.mid → o = o'
  | [], _, _, _, h, _, _ => by cases h
  | s :: rest, hd, o, o', h, h', e => by
    unfold Distinct at hd
    simp only [List.map_cons, List.nodup_cons] at hd
    rcases List.mem_cons.mp h with h1 | h1
    · rcases List.mem_cons.mp h' with h2 | h2
      · rw [h1, h2]
      · exfalso; apply hd.1; rw [← h1, e]; exact List.mem_map_of_mem h2
    · rcases List.mem_cons.mp h' with h2 | h2
      · exfalso; apply hd.1; rw [← h2, ← e]; exact List.mem_map_of_mem h1
      · exact distinct_mid_inj (off := rest) hd.2 h1 h2 e

theorem answerLegal_of_answersBy {f : Dir → Dir → Dir} (hf : ∀ d l, legal d (f d l) = true)
    {off ans : List Sec} (hd : Distinct off) (h : AnswersBy f off ans) : AnswerLegal off ans := by
  intro a ha
  obtain ⟨sec, hsec, hmid, l, h2⟩ := h.mem a ha
  refine ⟨⟨sec, hsec, hmid⟩, ?_⟩
  intro o ho hom
  have : o = sec := distinct_mid_inj hd ho hsec (hom.trans hmid.symm)
  subst this
  exact ⟨f (effDir o.dir) l, h2, by rw [legalOpt_eq]; exact hf _ l⟩

theorem good_step {adj nar : Dir → Dir → Dir} (hadj : AdjOK adj) (hn : ∀ d l, legal d (nar d l) = true)
    (s : Pc) (o : Op) (hwf : wfOp o = true) (hg : Good s) : Good (stepWith adj nar s o).1 := by
  cases o with
  | addTrack k =>
    apply good_mids hg
    obtain ⟨extra, he⟩ := mids_addTrackTo k s.trs
    intro x hx; rw [he]; exact List.mem_append_left _ hx
  | removeTrack i =>
    simp only [stepWith]
    cases hi : s.trs[i]? with
    | none => exact hg
    | some t =>
      dsimp only
      split
      · apply good_mids hg
        rw [mids_modifyAt _ _ _ (fun u hu => by rw [hi] at hu; cases hu; exact detachTrack_mid t)]
        exact fun x hx => hx
      · exact hg
  | addTransceiver k d =>
    cases d with
    | sendrecv => exact good_mids hg (fun x hx => by simp only [List.map_append, List.mem_append]; exact Or.inl hx)
    | sendonly => exact good_mids hg (fun x hx => by simp only [List.map_append, List.mem_append]; exact Or.inl hx)
    | recvonly => exact good_mids hg (fun x hx => by simp only [List.map_append, List.mem_append]; exact Or.inl hx)
    | inactive => exact hg
  | stop i =>
    simp only [stepWith]
    cases hi : s.trs[i]? with
    | none => exact hg
    | some t =>
      apply good_mids hg
      rw [mids_modifyAt Tr.stop s.trs i (fun _ _ => rfl)]
      exact fun x hx => hx
  | setSender i =>
    simp only [stepWith]
    cases hi : s.trs[i]? with
    | none => exact hg
    | some t =>
      apply good_mids hg
      rw [mids_modifyAt Tr.attachTrack s.trs i (fun _ _ => rfl)]
      exact fun x hx => hx
  | remoteOffer secs =>
    simp only [stepWith]
    split
    · exact hg
    by_cases hs : s.sig = .stable
    · rw [if_pos hs]
      have hd : Distinct secs := by simpa [wfOp] using hwf
      exact ⟨hg.log, fun _ => ⟨secs, rfl, hd, (srd_ready hadj s.trs secs hd).carrier⟩⟩
    · rw [if_neg hs]; exact hg
  | createAnswer =>
    simp only [stepWith]
    by_cases hs : s.sig = .haveRemoteOffer
    · rw [if_pos hs]
      obtain ⟨off, h1, h2, h3⟩ := hg.window hs
      have hrd : s.remoteDesc = some off := by simp [Pc.remoteDesc, h1]
      rw [hrd]
      simp only
      have hmids : ∀ x, x ∈ s.trs.map (·.mid) →
          x ∈ (Work.toList (matchedLoop (some nar) (Work.ofList s.trs) off).2).map (·.mid) := by
        intro x hx; rw [matchedLoop_mids, toList_ofList]; exact hx
      cases hm : (matchedLoop (some nar) (Work.ofList s.trs) off).1 with
      | none => exact ⟨hg.log, fun _ => ⟨off, h1, h2, h3.mono hmids⟩⟩
      | some ans =>
        simp only
        refine ⟨?_, fun _ => ⟨off, h1, h2, h3.mono hmids⟩⟩
        intro p hp
        simp only [List.mem_append, List.mem_singleton] at hp
        rcases hp with hp | rfl
        · exact hg.log p hp
        · exact answerLegal_of_answersBy hn h2 (matchedLoop_answersBy nar off _ ans hm)
    · rw [if_neg hs]; exact hg
  | setLocalAnswer =>
    simp only [stepWith]
    cases s.lastAnswer with
    | none => exact hg
    | some ans =>
      dsimp only
      by_cases hs : s.sig = .haveRemoteOffer
      · rw [if_pos hs]; exact ⟨hg.log, by simp⟩
      · rw [if_neg hs]; exact hg
  | localOffer =>
    simp only [stepWith]
    by_cases hs : s.sig = .stable
    · rw [if_pos hs]
      split
      · exact ⟨hg.log, by simp [hs]⟩
      · exact ⟨hg.log, by simp⟩
    · rw [if_neg hs]; exact hg
  | remoteAnswer secs =>
    simp only [stepWith]
    split
    · exact hg
    by_cases hs : s.sig = .haveLocalOffer
    · rw [if_pos hs]; exact ⟨hg.log, by simp⟩
    · rw [if_neg hs]; exact hg

theorem good_run {adj nar : Dir → Dir → Dir} (hadj : AdjOK adj) (hn : ∀ d l, legal d (nar d l) = true) :
    ∀ (ops : List Op) (s : Pc), WF ops → Good s → Good (runWith adj nar s ops) := by
  intro ops
  induction ops with
  | nil => intro s _ hg; exact hg
  | cons o ops ih =>
    intro s hwf hg
    exact ih _ (fun o' ho' => hwf o' (List.mem_cons_of_mem _ ho'))
      (good_step hadj hn s o (hwf o (by simp)) hg)

/-! ### the theorems -/

/-- The by-mid property holds for every CreateAnswer narrowing that maps into the legal set. -/
theorem C08_full_for_any_legal_narrowing (adj nar : Dir → Dir → Dir) (hadj : AdjOK adj)
    (hn : ∀ d l, legal d (nar d l) = true) : FullFor adj nar :=
  fun ops hwf => (good_run hadj hn ops {} hwf good_init).log

/-- **C08**: for every history, every m-section of every answer CreateAnswer produces corresponds (same mid)
    to an offered m-section, and its direction is one RFC 3264 §6.1 permits for the
    offered direction. -/
theorem C08_Full (ops : List Op) (hwf : WF ops) : ∀ p ∈ (run {} ops).log, AnswerLegal p.1 p.2 :=
  C08_full_for_any_legal_narrowing adjust narrow adjust_ok narrow_legal ops hwf

/-- The last sentence of the property, literally: in every created answer no section sends unless the offered
    section receives, and none receives unless the offered section sends. -/
theorem C08_never_sends_unreceived (ops : List Op) (hwf : WF ops) (off ans : List Sec)
    (hp : (off, ans) ∈ (run {} ops).log) (a : Sec) (ha : a ∈ ans) :
    ∃ o ∈ off, o.mid = a.mid ∧ ∃ ad, a.dir = some ad ∧
      (sends ad = true → recvs (effDir o.dir) = true) ∧ (recvs ad = true → sends (effDir o.dir) = true) := by
  obtain ⟨⟨o, ho, hm⟩, hall⟩ := C08_Full ops hwf (off, ans) hp a ha
  obtain ⟨ad, h2, h3⟩ := hall o ho hm
  rw [legalOpt_eq] at h3
  exact ⟨o, ho, hm, ad, h2, (C08_legal_iff_send_recv _ ad).mp h3⟩

/-- what CreateAnswer does in a state with a pending offer `off` -/
private theorem createAnswer_eq (s : Pc) (off : List Sec) (hs : s.sig = .haveRemoteOffer)
    (hrd : s.remoteDesc = some off) :
    step s .createAnswer =
      match (matchedLoop (some narrow) (Work.ofList s.trs) off).1 with
      | none => ({ s with trs := (matchedLoop (some narrow) (Work.ofList s.trs) off).2.toList }, .err)
      | some ans =>
        ({ s with trs := (matchedLoop (some narrow) (Work.ofList s.trs) off).2.toList,
                  lastAnswer := some ans, log := s.log ++ [(off, ans)] }, .desc ans) := by
  simp only [step, stepWith]
  rw [if_pos hs, hrd]
  rfl

/-- The answer is not legal by being empty: whenever a remote offer is pending, CreateAnswer succeeds and
    answers every offered section. -/
theorem C08_answer_covers_offer (ops : List Op) (hwf : WF ops)
    (hs : (run {} ops).sig = .haveRemoteOffer) :
    ∃ off ans, (run {} ops).remoteDesc = some off ∧ (step (run {} ops) .createAnswer).2 = .desc ans ∧
      ∀ sec ∈ off, ∃ a ∈ ans, a.mid = sec.mid := by
  have hg : Good (run {} ops) := good_run adjust_ok narrow_legal ops {} hwf good_init
  generalize run {} ops = s at *
  obtain ⟨off, h1, h2, h3⟩ := hg.window hs
  have hrd : s.remoteDesc = some off := by simp [Pc.remoteDesc, h1]
  have hsome := matchedLoop_isSome (some narrow) off (Work.ofList s.trs) h2 (noTakenMid_ofList _ _)
    (by rw [toList_ofList]; exact h3)
  rw [createAnswer_eq s off hs hrd]
  cases hm : (matchedLoop (some narrow) (Work.ofList s.trs) off).1 with
  | none => rw [hm] at hsome; cases hsome
  | some ans =>
    exact ⟨off, ans, hrd, rfl, (matchedLoop_answersBy narrow off _ ans hm).covers⟩

/-- The direction pion then records as negotiated — `currentDirection`, set by SetLocalDescription(answer)
    through `setRTPTransceiverCurrentDirection` (a sender-less `sendonly` becomes `inactive`) — is a legal
    response to the offered direction as well, and the exchange ends in the stable state. -/
theorem C08_current_direction_legal (ops : List Op) (hwf : WF ops)
    (hs : (run {} ops).sig = .haveRemoteOffer) (off ans : List Sec)
    (hrd : (run {} ops).remoteDesc = some off)
    (hca : (step (run {} ops) .createAnswer).2 = .desc ans) :
    (step (step (run {} ops) .createAnswer).1 .setLocalAnswer).1.sig = .stable ∧
    ∀ a ∈ ans, ∃ t c,
      (step (step (run {} ops) .createAnswer).1 .setLocalAnswer).1.trs.find? (hasMid a.mid) = some t ∧
      t.cur = some c ∧ ∀ o ∈ off, o.mid = a.mid → legalOpt o.dir c = true := by
  have hg : Good (run {} ops) := good_run adjust_ok narrow_legal ops {} hwf good_init
  generalize run {} ops = s at *
  obtain ⟨off', h1, h2, _⟩ := hg.window hs
  have hrd' : s.remoteDesc = some off' := by simp [Pc.remoteDesc, h1]
  rw [hrd'] at hrd; cases hrd
  rw [createAnswer_eq s off hs hrd'] at hca ⊢
  cases hm : (matchedLoop (some narrow) (Work.ofList s.trs) off).1 with
  | none => rw [hm] at hca; cases hca
  | some ans' =>
    rw [hm] at hca
    simp only [Res.desc.injEq] at hca
    subst hca
    simp only [step, stepWith, hs, if_true, true_and]
    have hby := matchedLoop_answersBy narrow off _ ans' hm
    have hleg := answerLegal_of_answersBy narrow_legal h2 hby
    have hres := matchedLoop_result (some narrow) off (Work.ofList s.trs) ans' h2 (noTakenMid_ofList _ off) hm
    have hdist : Distinct ans' := by
      unfold Distinct at h2 ⊢
      rw [hby.mids]; exact h2
    have hcar : ∀ sec ∈ ans',
        ((Work.toList (matchedLoop (some narrow) (Work.ofList s.trs) off).2).find? (hasMid sec.mid)).isSome
          = true := by
      intro sec hsec
      obtain ⟨t, ht, _⟩ := hres sec hsec
      rw [ht]; rfl
    intro a ha
    obtain ⟨t0, g1, g2⟩ := curDirLoop_spec false _ ans' hdist hcar a ha
    obtain ⟨t, ht, hdir⟩ := hres a ha
    rw [g1] at ht; cases ht
    refine ⟨_, curDirOf false t0.dir t0.sender, g2, by simp [setCur, hdir], ?_⟩
    intro o ho hom
    obtain ⟨ad, e2, e3⟩ := (hleg a ha).2 o ho hom
    rw [hdir] at e2; cases e2
    rw [legalOpt_eq] at e3 ⊢
    exact curDirOf_answer_legal _ t0.dir t0.sender e3

/-- Right after SetRemoteDescription(offer), the transceiver of every offered section already holds a legal
    direction — the state the harness observes through `Direction()`. -/
theorem C08_direction_legal_after_remote_offer (ops : List Op) (secs : List Sec)
    (hd : Distinct secs) (hs : (run {} ops).sig = .stable) :
    Ready secs (step (run {} ops) (.remoteOffer secs)).1.trs := by
  simp only [step, stepWith]
  by_cases he : secs.isEmpty = true
  · rw [if_pos he]
    intro sec hsec
    simp only [List.isEmpty_iff] at he
    subst he; cases hsec
  · rw [if_neg he, if_pos hs]
    exact srd_ready adjust_ok _ secs hd

/-- the repaired switch, row by row: every local direction is mapped to a legal answer; `Stop()` handles the
    inactive row -/
theorem C08_switch_legal (d l : Dir) (h : d ≠ .inactive) : legal d (adjust d l) = true :=
  adjust_ok.1 d l h

/-! ### the second fix is conservative: without a direct SetSender in the window CreateAnswer changes nothing -/

/-- RTPTransceiver.SetSender is not called directly while a remote offer is pending -/
def setSenderOK (s : Pc) : Op → Bool
  | .setSender _ => s.sig != .haveRemoteOffer
  | _ => true

/-- the history never calls RTPTransceiver.SetSender directly while a remote offer is pending -/
def noSetSenderInWindow : Pc → List Op → Bool
  | _, [] => true
  | s, o :: rest => setSenderOK s o && noSetSenderInWindow (step s o).1 rest

/-- the stronger window invariant of such histories: every offered section is `Ready` -/
def GoodR (s : Pc) : Prop :=
  s.sig = .haveRemoteOffer → ∃ off, s.pendRemote = some off ∧ Distinct off ∧ Ready off s.trs

private theorem goodR_ext {s : Pc} (hg : GoodR s) {ts' : List Tr} (h : Ext s.trs ts') :
    GoodR { s with trs := ts' } := fun hs => by
  obtain ⟨off, h1, h2, h3⟩ := hg hs
  exact ⟨off, h1, h2, h.ready h3⟩

theorem goodR_step (s : Pc) (o : Op) (hwf : wfOp o = true)
    (hns : setSenderOK s o = true) (hg : GoodR s) : GoodR (step s o).1 := by
  cases o with
  | addTrack k => exact goodR_ext hg (addTrackTo_ext k s.trs)
  | removeTrack i =>
    simp only [step, stepWith]
    cases hi : s.trs[i]? with
    | none => exact hg
    | some t =>
      dsimp only
      by_cases hsd : t.sender = true
      · rw [if_pos hsd]
        apply goodR_ext hg
        apply modifyAt_ext
        intro u hu
        rw [hi] at hu; cases hu
        exact detachTrack_safe t
      · rw [if_neg hsd]; exact hg
  | addTransceiver k d =>
    cases d with
    | sendrecv => exact goodR_ext hg (Ext.append _ _ rfl)
    | sendonly => exact goodR_ext hg (Ext.append _ _ rfl)
    | recvonly => exact goodR_ext hg (Ext.append _ _ rfl)
    | inactive => exact hg
  | stop i =>
    simp only [step, stepWith]
    cases hi : s.trs[i]? with
    | none => exact hg
    | some t =>
      apply goodR_ext hg
      apply modifyAt_ext
      intro u _
      exact stop_safe u
  | setSender i =>
    have hne : s.sig ≠ .haveRemoteOffer := by simpa [setSenderOK] using hns
    simp only [step, stepWith]
    cases hi : s.trs[i]? with
    | none => exact hg
    | some t => exact fun hs => absurd hs hne
  | remoteOffer secs =>
    simp only [step, stepWith]
    split
    · exact hg
    by_cases hs : s.sig = .stable
    · rw [if_pos hs]
      have hd : Distinct secs := by simpa [wfOp] using hwf
      exact fun _ => ⟨secs, rfl, hd, srd_ready adjust_ok s.trs secs hd⟩
    · rw [if_neg hs]; exact hg
  | createAnswer =>
    by_cases hs : s.sig = .haveRemoteOffer
    · obtain ⟨off, h1, h2, h3⟩ := hg hs
      have hrd : s.remoteDesc = some off := by simp [Pc.remoteDesc, h1]
      have hkeep := matchedLoop_keeps narrow (fun d l h => (narrow_eq_self_iff d l).mpr h) off
        (Work.ofList s.trs) h2 (noTakenMid_ofList _ _) (by rw [toList_ofList]; exact h3)
      rw [toList_ofList] at hkeep
      rw [createAnswer_eq s off hs hrd]
      cases (matchedLoop (some narrow) (Work.ofList s.trs) off).1 with
      | none => exact fun _ => ⟨off, h1, h2, by simpa [hkeep] using h3⟩
      | some ans => exact fun _ => ⟨off, h1, h2, by simpa [hkeep] using h3⟩
    · simp only [step, stepWith]; rw [if_neg hs]; exact hg
  | setLocalAnswer =>
    simp only [step, stepWith]
    cases s.lastAnswer with
    | none => exact hg
    | some ans =>
      dsimp only
      by_cases hs : s.sig = .haveRemoteOffer
      · rw [if_pos hs]; intro h; simp at h
      · rw [if_neg hs]; exact hg
  | localOffer =>
    simp only [step, stepWith]
    by_cases hs : s.sig = .stable
    · rw [if_pos hs]
      split
      · intro h; simp [hs] at h
      · intro h; simp at h
    · rw [if_neg hs]; exact hg
  | remoteAnswer secs =>
    simp only [step, stepWith]
    split
    · exact hg
    by_cases hs : s.sig = .haveLocalOffer
    · rw [if_pos hs]; intro h; simp at h
    · rw [if_neg hs]; exact hg

theorem goodR_run : ∀ (ops : List Op) (s : Pc), WF ops → noSetSenderInWindow s ops = true → GoodR s →
    GoodR (run s ops) := by
  intro ops
  induction ops with
  | nil => intro s _ _ hg; exact hg
  | cons o ops ih =>
    intro s hwf hns hg
    simp only [noSetSenderInWindow, Bool.and_eq_true] at hns
    exact ih _ (fun o' ho' => hwf o' (List.mem_cons_of_mem _ ho')) hns.2
      (goodR_step s o (hwf o (by simp)) hns.1 hg)

/-- Unless RTPTransceiver.SetSender was called directly while the offer was pending, CreateAnswer leaves every
    transceiver as it is: the directions it writes are the ones SetRemoteDescription and the local
    operations had already made legal (`Ready`), the narrowing of the second fix is the identity. -/
theorem C08_create_answer_keeps_directions (ops : List Op) (hwf : WF ops)
    (hns : noSetSenderInWindow {} ops = true) :
    (step (run {} ops) .createAnswer).1.trs = (run {} ops).trs := by
  have hg : GoodR (run {} ops) := goodR_run ops {} hwf hns (by intro h; simp at h)
  generalize run {} ops = s at *
  by_cases hs : s.sig = .haveRemoteOffer
  · obtain ⟨off, h1, h2, h3⟩ := hg hs
    have hrd : s.remoteDesc = some off := by simp [Pc.remoteDesc, h1]
    have hkeep := matchedLoop_keeps narrow (fun d l h => (narrow_eq_self_iff d l).mpr h) off
      (Work.ofList s.trs) h2 (noTakenMid_ofList _ _) (by rw [toList_ofList]; exact h3)
    rw [toList_ofList] at hkeep
    rw [createAnswer_eq s off hs hrd]
    cases (matchedLoop (some narrow) (Work.ofList s.trs) off).1 with
    | none => exact hkeep
    | some ans => exact hkeep
  · simp only [step, stepWith]; rw [if_neg hs]

/-! ### the unchanged tree violated the property (repaired by the two `fix:` commits) -/

/-- negotiate sendrecv/sendrecv, then a `sendonly` re-offer -/
def witnessOld : List Op :=
  [.addTrack .audio,
   .remoteOffer [{ mid := 0, kind := .audio, dir := some .sendrecv }], .createAnswer, .setLocalAnswer,
   .remoteOffer [{ mid := 0, kind := .audio, dir := some .sendonly }], .createAnswer]

/-- Before the first fix the switch left a local `sendrecv` (and `sendonly`) untouched on a `sendonly`
    re-offer: the answer said `sendrecv`. -/
theorem C08_defect_before_fix : ¬ FullFor adjustOld noNarrow := by
  intro h
  have hw : WF witnessOld := by decide
  have hlog : ([{ mid := 0, kind := .audio, dir := some .sendonly }],
      [{ mid := 0, kind := .audio, dir := some .sendrecv }]) ∈
        (runWith adjustOld noNarrow {} witnessOld).log := by
    decide
  obtain ⟨_, hall⟩ := h witnessOld hw _ hlog _ (List.mem_singleton.mpr rfl)
  obtain ⟨ad, h2, h3⟩ := hall _ (List.mem_singleton.mpr rfl) rfl
  simp only [Option.some.injEq] at h2
  subst h2
  exact absurd h3 (by decide)

/-- a `sendonly` offer, then RTPTransceiver.SetSender on the new recvonly transceiver, then CreateAnswer -/
def witnessSetSender : List Op :=
  [.remoteOffer [{ mid := 0, kind := .audio, dir := some .sendonly }], .setSender 0, .createAnswer]

/-- With the first fix alone a sender attached directly inside the answer window still produced `sendrecv`
    for a `sendonly` offer. -/
theorem C08_defect_direct_set_sender : ¬ FullFor adjust noNarrow := by
  intro h
  have hw : WF witnessSetSender := by decide
  have hlog : ([{ mid := 0, kind := .audio, dir := some .sendonly }],
      [{ mid := 0, kind := .audio, dir := some .sendrecv }]) ∈
        (runWith adjust noNarrow {} witnessSetSender).log := by
    decide
  obtain ⟨_, hall⟩ := h witnessSetSender hw _ hlog _ (List.mem_singleton.mpr rfl)
  obtain ⟨ad, h2, h3⟩ := hall _ (List.mem_singleton.mpr rfl) rfl
  simp only [Option.some.injEq] at h2
  subst h2
  exact absurd h3 (by decide)

/-- the same histories on the repaired code answer `recvonly` -/
example : (run {} witnessOld).log.getLast? =
    some ([{ mid := 0, kind := .audio, dir := some .sendonly }],
          [{ mid := 0, kind := .audio, dir := some .recvonly }]) := by decide

example : (run {} witnessSetSender).log.getLast? =
    some ([{ mid := 0, kind := .audio, dir := some .sendonly }],
          [{ mid := 0, kind := .audio, dir := some .recvonly }]) := by decide

/-! ### non-vacuity -/

/-- a well-formed history with local changes inside the answer window and a direction change in
    renegotiation; three answers are created, the last two to re-offers -/
def sample : List Op :=
  [.addTrack .audio, .addTransceiver .video .recvonly,
   .remoteOffer [{ mid := 0, kind := .audio, dir := some .sendrecv },
                 { mid := 1, kind := .video, dir := some .recvonly }],
   .addTrack .video, .createAnswer, .setLocalAnswer,
   .remoteOffer [{ mid := 0, kind := .audio, dir := some .sendonly },
                 { mid := 1, kind := .video, dir := some .inactive }],
   .removeTrack 0, .createAnswer, .setLocalAnswer,
   .localOffer,
   .remoteAnswer [{ mid := 0, kind := .audio, dir := some .sendrecv },
                  { mid := 1, kind := .video, dir := some .inactive }],
   .remoteOffer [{ mid := 1, kind := .video, dir := none },
                 { mid := 0, kind := .audio, dir := some .recvonly }],
   .createAnswer]

example : WF sample := by decide

example : noSetSenderInWindow {} sample = true := by decide

example : (run {} sample).log.map (·.2) =
    [[{ mid := 0, kind := .audio, dir := some .sendrecv }, { mid := 1, kind := .video, dir := some .sendonly }],
     [{ mid := 0, kind := .audio, dir := some .recvonly }, { mid := 1, kind := .video, dir := some .inactive }],
     [{ mid := 1, kind := .video, dir := some .recvonly }, { mid := 0, kind := .audio, dir := some .inactive }]] := by
  decide

example : (run {} sample).sig = .haveRemoteOffer := by decide

example : AdjOK adjust := adjust_ok

end WebrtcVerif.C08
