import WebrtcVerif.Model.PcSections
import WebrtcVerif.Proofs.AnswerLemmas
import WebrtcVerif.Proofs.AnswerPcLemmas
/-!
# C16 — Answer codecs are a subset of the offered codecs, with the offered payload types

> For every m-section of an answer, each listed payload type appears in the corresponding offer section and
> maps to the same codec (mime type, clock rate, channels). The answer never introduces a codec or payload
> type the offerer didn't list.
>
> Quantifier: arbitrary remote offers (codec lists with remapped payload types, RTX, FEC, unsupported codecs)
> against arbitrary local MediaEngine configurations and codec preferences.

Model: `Model.Codec` (updateFromRemoteDescription: the negotiated list of a kind; `transceiverGetCodecs` =
RTPTransceiver.getCodecs), `Model.AnswerCodecs` (SetCodecPreferences, setCodecPreferencesFromRemoteDescription —
after the `fix:` that removes the matched codec), `Model.PcSections` (which transceiver answers which offer
section; the codec emission of addTransceiverSDP is `Model.SectionSdp.emitCodecs`).

Reading of the property.  `OfferedIn rs c`: the offer section's codecs `rs` contain a codec with `c`'s payload
type whose mime type equals `c`'s without regard to (ASCII) case and whose clock rate and channels equal `c`'s,
where 0 / absent stands for the codec's default (pion's ClockRateEqual / ChannelsEqual).  A section is exempt
when it is rejected (port 0: no common codec — it then lists the placeholder format 0 — or outside the offer's
BUNDLE group): RFC 3264 §6 says the format list of a rejected stream is ignored.  The theorems below do not use
the second exemption: they hold for every section that lists codecs.

The unchanged code violates C16 in four ways (known_findings.json; `C16_counterexample` and the `example`s at the
end): user preferences keep their own payload types; there is one negotiated list per kind, not per section;
setCodecPreferencesFromRemoteDescription can swap the payload types of offered codecs it considers equal; a
transceiver is paired with an offer section by mid alone.  What is proved for ALL inputs:
* a transceiver without preferences, with preferences that leave their payload types open (0), and one created
  by SetRemoteDescription answer with offered codecs whenever the negotiated list of their kind stems from the
  offer section (`C16_no_preferences`, `C16_preferences_partial`, `C16_new_transceiver_partial`);
* the negotiated list does stem from the offer section on a PeerConnection that had not negotiated before, for
  every description whose sections of one kind agree (`C16_negotiated_list_from_offer`);
* end to end (`C16_first_offer_partial`): on a fresh PeerConnection every codec-bearing section of the answer to
  any remote offer lists only codecs of the offer section with its mid, under decidable hypotheses on the offer
  that exclude exactly the recorded findings.
-/
namespace WebrtcVerif.C16
open WebrtcVerif.Codec WebrtcVerif.AnswerCodecs WebrtcVerif.SectionSdp WebrtcVerif.PcSections

/-! ## one transceiver -/

/-- A transceiver without codec preferences answers with codecs of the offer section, whenever the codec list
    of its kind stems from that section. -/
theorem C16_no_preferences (rs e : List CodecP) (hE : FromOffer rs e) : ∀ c ∈ getCodecs e [], OfferedIn rs c :=
  getCodecs_noPrefs_offered hE

/-- C16 for one transceiver at full strength: whatever its preferences. -/
def C16_Full : Prop :=
  ∀ (rs e prefs : List CodecP), FromOffer rs e → ∀ c ∈ getCodecs e prefs, OfferedIn rs c

def vp8 (pt : Nat) : CodecP := { mime := "video/VP8".toList, clock := 90000, pt }

/-- The unchanged code violates C16 (DESIGN §7 row 9): SetCodecPreferences([{VP8, PayloadType 55}]) while the
    offer — and therefore the negotiated list — maps VP8 to 120: the answer lists 55. -/
theorem C16_counterexample : ¬ C16_Full := by
  intro h
  have hE : FromOffer [vp8 120] [vp8 120] := fun x hx => ⟨x, hx, rfl, SameAttrs.refl x⟩
  rcases h [vp8 120] [vp8 120] [vp8 55] hE (vp8 55) (by decide) with ⟨r, hr, hpt, _⟩
  simp only [List.mem_singleton] at hr
  subst hr
  exact absurd hpt (by decide)

/-- With preferences: every answered codec is offered when each preference leaves its payload type open (0) or
    uses the payload type of a codec of the (negotiated) list that it matches — which excludes exactly
    `foreign-payload-type:user-preference` / `codec-differs:user-preference` — and when an fmtp-level match
    implies agreement on clock rate and channels (`ExactIsPartial`: the VP9 / H264 / AV1 matchers do not look at
    them). -/
theorem C16_preferences_partial (rs e prefs : List CodecP) (hE : FromOffer rs e) (hP : ∀ p ∈ prefs, PrefOk e p)
    (hX : ExactIsPartial prefs e) : ∀ c ∈ getCodecs e prefs, OfferedIn rs c :=
  getCodecs_prefs_offered hE hP hX

/-- A transceiver created by SetRemoteDescription for an offer section (setCodecPreferencesFromRemoteDescription)
    answers with codecs of that section — in whatever order Go walks its payload-type map — when no two
    offered codecs match at fmtp level while differing in clock rate or channels (which excludes exactly
    `codec-differs:swapped-within-section`). -/
theorem C16_new_transceiver_partial (order : PtMap → PtMap) (rs e : List CodecP) (hE : FromOffer rs e)
    (hX : ExactIsPartial rs rs) :
    ∀ c ∈ getCodecs e (setCodecPreferences e [] (remotePreferenceList order e rs)).1, OfferedIn rs c :=
  newTransceiver_offered order hE hX

/-! ## where the hypothesis `FromOffer` comes from -/

/-- On an engine that has not negotiated kind `k` yet, after a remote description that was applied without
    error and whose sections of kind `k` all list the codecs `rs` (one section, or several that agree), the codecs
    the engine hands out for `k` (getCodecsByKind) stem from `rs`: payload type, mime type, clock rate,
    channels and fmtp of each are those of an offered codec.  Sections of one kind that number differently are
    exactly `…:negotiated-list-per-kind`. -/
theorem C16_negotiated_list_from_offer (e0 : Engine) (secs : List Section) (s : Section) (rs : List CodecP)
    (h0 : e0.negCodecs (kindOf s.media) = []) (hs : s ∈ secs) (hk : kindOf s.media ≠ .other)
    (hok : (update e0 secs).2 = none)
    (hsame : ∀ s' ∈ secs, kindOf s'.media = kindOf s.media → s'.codecs = some rs) :
    FromOffer rs ((update e0 secs).1.codecsByKind (kindOf s.media)) := by
  rw [codecsByKind_of_flag (update_flag secs e0 s hs hk hok)]
  exact update_fromOffer e0 secs _ rs h0 hsame

/-! ## end to end: a fresh PeerConnection answers a remote offer -/

/-- the codec content of a section is that of the codec list `cs` -/
def ListsCodecs (sec : SdpSection) (cs : List CodecP) : Prop :=
  sec.formats = cs.map (·.pt) ∧ sec.rtpmaps = cs.map (fun c => (c.pt, encodingName c.mime, c.clock, c.channels))

/-- **C16 for the first answer of a PeerConnection.**  NewPeerConnection on any MediaEngine configuration, then
    SetRemoteDescription(offer) succeeds, then CreateAnswer succeeds: every section of the answer that lists
    codecs carries the mid of an offer section, and every payload type it lists is one that offer section
    lists for the same codec.  Hypotheses on the offer, all decidable, each excluding one recorded finding:
    mids are pairwise different (`section-kind-mismatch` needs a mid to be paired with a transceiver of another
    section); sections of one kind list the same codecs (`…:negotiated-list-per-kind`); no two offered codecs
    match at fmtp level while differing in clock rate or channels (`codec-differs:swapped-within-section`).
    No user preferences occur: the PeerConnection is fresh (`…:user-preference`). -/
theorem C16_first_offer_partial (multi : Bool) (codecs : List (Kind × CodecP)) (exts : List (Str × Kind × List XDir))
    (d : RDesc) (pc1 : Pc) (secs : List OutSection)
    (hsrd : setRemoteOffer (freshPc multi codecs exts) d = (pc1, .ok))
    (hans : (createAnswer pc1).2 = some secs)
    (hmid : d.secs.Pairwise (fun a b => a.mid ≠ b.mid))
    (hsame : ∀ a ∈ d.secs, ∀ b ∈ d.secs, kindOf a.media = kindOf b.media → a.codecs = b.codecs)
    (hX : ∀ s ∈ d.secs, ∀ rs, s.codecs = some rs → ExactIsPartial rs rs) :
    ∀ o ∈ secs, o.sec.rejected = false →
      ∃ s ∈ d.secs, s.mid = o.mid ∧ ∀ rs, s.codecs = some rs →
        ∃ cs, ListsCodecs o.sec cs ∧ ∀ c ∈ cs, OfferedIn rs c := by
  obtain ⟨hup, hrem, htrs⟩ := setRemoteOffer_fresh_ok hsrd
  -- the engine after the offer
  have hupd := updateX_eng d.secs (freshPc multi codecs exts).eng (freshPc multi codecs exts).xe
  rw [hup] at hupd
  simp only at hupd
  have he : (update (freshPc multi codecs exts).eng (d.secs.map RSection.toSection)).1 = pc1.eng :=
    (congrArg Prod.fst hupd).symm
  have hok : (update (freshPc multi codecs exts).eng (d.secs.map RSection.toSection)).2 = none :=
    (congrArg Prod.snd hupd).symm
  -- CreateAnswer
  intro o ho hrej
  unfold createAnswer at hans
  simp only at hans
  have hrem' : ({ pc1 with trs := prepareAnswer pc1.trs (answerPlan pc1).1 } : Pc).remote = some d := hrem
  rcases answerSections_paired hrem' hans o ho with ⟨s, hs, t', ht', hmidt, me, hsec, homid⟩
  refine ⟨s, hs, homid.symm, ?_⟩
  intro rs hrs
  -- the transceiver was created for the section with its mid, which is `s`
  rcases mem_prepareAnswer _ _ _ ht' with ⟨t, ht, hm1, hk1, hp1⟩
  rcases htrs t ht with ⟨s', hs', hfrom⟩
  have hss : s' = s := eq_of_pairwise_mid hmid hs' hs (by rw [← hfrom.1, ← hm1, hmidt])
  subst hss
  obtain ⟨_, hkind, hkne, hprefs⟩ := hfrom
  -- the section written for it
  unfold sectionFor at hsec
  simp only at hsec
  split at hsec
  · cases hsec
  · simp only [Option.some.injEq] at hsec
    rw [← hsec] at hrej ⊢
    unfold mediaSection at hrej ⊢
    split at hrej
    · simp [rejectedSection] at hrej
    · simp only [if_neg ‹_›]
      refine ⟨_, ⟨rfl, rfl⟩, ?_⟩
      -- its codecs are offered
      rw [hk1, hkind, hp1, hprefs, hrs]
      have hE : FromOffer rs (pc1.eng.codecsByKind (kindOf s'.media)) := by
        rw [← he]
        exact C16_negotiated_list_from_offer (freshPc multi codecs exts).eng (d.secs.map RSection.toSection)
          s'.toSection rs (freshPc_neg multi codecs exts _) (List.mem_map_of_mem hs') hkne hok
          (by
            intro sx hsx hkx
            rcases List.mem_map.mp hsx with ⟨b, hb, rfl⟩
            have := hsame b hb s' hs' hkx
            simp only [RSection.toSection] at this ⊢
            rw [this, hrs])
      simp only [setCodecPreferencesFromRemote]
      exact C16_new_transceiver_partial id rs _ hE (hX s' hs' rs hrs)

/-! ## non-vacuity, and the recorded findings in the model -/

def rtx (pt apt : Nat) : CodecP :=
  { mime := "video/rtx".toList, clock := 90000, fmtp := "apt=".toList ++ showNat apt, pt }
def vp9 (pt clock : Nat) (fmtp : String) : CodecP := { mime := "video/VP9".toList, clock, fmtp := fmtp.toList, pt }
def rsec (mid : String) (cs : List CodecP) : RSection :=
  { media := "video".toList, mid := mid.toList, dir := some .sendrecv, codecs := some cs, exts := [] }

/-- the hypotheses of `C16_no_preferences` / `C16_preferences_partial` / `C16_new_transceiver_partial` hold of
    an offer [VP8 120, rtx 121 apt=120]: the negotiated list is the offer, a preference with payload type 0 or
    120 is fine, and the answers are not empty -/
example : FromOffer [vp8 120, rtx 121 120] [vp8 120, rtx 121 120] ∧
    (∀ p ∈ [vp8 0, rtx 121 120], PrefOk [vp8 120, rtx 121 120] p) ∧
    ExactIsPartial [vp8 0, rtx 121 120] [vp8 120, rtx 121 120] ∧ ExactIsPartial [vp8 120, rtx 121 120] [vp8 120, rtx 121 120] ∧
    (getCodecs [vp8 120, rtx 121 120] [vp8 0, rtx 121 120]).map (·.pt) = [120, 121] ∧
    (getCodecs [vp8 120, rtx 121 120] (setCodecPreferences [vp8 120, rtx 121 120] []
      (remotePreferenceList id [vp8 120, rtx 121 120] [vp8 120, rtx 121 120])).1).map (·.pt) = [120, 121] := by
  refine ⟨fromOffer_self _, ?_, exactIsPartial_of_decide (by decide), exactIsPartial_of_decide (by decide), by decide, by decide⟩
  intro p hp
  simp only [List.mem_cons, List.mem_nil_iff, or_false] at hp
  rcases hp with rfl | rfl
  · exact Or.inl rfl
  · exact Or.inr ⟨rtx 121 120, by simp, rfl, Or.inr (by decide)⟩

/-- the hypotheses of `C16_negotiated_list_from_offer` hold of a fresh engine with VP8 = 96 and an offer of two
    video sections that agree; the negotiated list then is [VP8 120] -/
example :
    let e0 : Engine := { video := [vp8 96] }
    let secs : List Section := [(rsec "0" [vp8 120]).toSection, (rsec "1" [vp8 120]).toSection]
    e0.negCodecs .video = [] ∧ (update e0 secs).2 = none ∧
      (∀ s' ∈ secs, kindOf s'.media = .video → s'.codecs = some [vp8 120]) ∧
      (update e0 secs).1.codecsByKind .video = [vp8 120] := by
  refine ⟨rfl, by decide, by decide, by decide⟩

/-- a PeerConnection with VP8 = 96 and rtx = 97 answering an offer that maps them to 120 / 121: the hypotheses of
    `C16_first_offer_partial` hold and the answer lists 120 and 121 -/
def demoOffer : RDesc := { bundle := ["0".toList], secs := [rsec "0" [vp8 120, rtx 121 120]] }
def demoPc : Pc := (setRemoteOffer (freshPc true [(.video, vp8 96), (.video, rtx 97 96)] []) demoOffer).1

example : (setRemoteOffer (freshPc true [(.video, vp8 96), (.video, rtx 97 96)] []) demoOffer).2 matches .ok := by rfl
example : (createAnswer demoPc).2.map (fun l => l.map (fun o => (o.mid, o.portZero, o.sec.formats))) =
    some [("0".toList, false, [120, 121])] := by rfl
example : demoOffer.secs.Pairwise (fun a b => a.mid ≠ b.mid) ∧
    (∀ a ∈ demoOffer.secs, ∀ b ∈ demoOffer.secs, kindOf a.media = kindOf b.media → a.codecs = b.codecs) ∧
    (∀ s ∈ demoOffer.secs, ∀ rs, s.codecs = some rs → ExactIsPartial rs rs) := by
  refine ⟨by decide, by decide, ?_⟩
  intro s hs rs hrs
  simp only [demoOffer, List.mem_singleton] at hs
  subst hs
  cases hrs
  exact exactIsPartial_of_decide (by decide)

/-- `…:negotiated-list-per-kind` in the model: two video sections number VP8 as 96 and as 120; both are answered
    with 96 -/
example : (createAnswer (setRemoteOffer (freshPc true [(.video, vp8 100)] [])
      { bundle := ["0".toList, "1".toList], secs := [rsec "0" [vp8 96], rsec "1" [vp8 120]] }).1).2.map
      (fun l => l.map (fun o => (o.mid, o.sec.formats))) = some [("0".toList, [96]), ("1".toList, [96])] := by rfl

/-- `codec-differs:swapped-within-section` in the model: VP9 offered as 35 (90000 Hz) and 10 (8000 Hz); the answer
    lists 10 at 90000 Hz and 35 at 8000 Hz -/
example : (createAnswer (setRemoteOffer (freshPc true [(.video, vp9 98 90000 "profile-id=0")] [])
      { bundle := ["0".toList], secs := [rsec "0" [vp9 35 90000 "profile-id=0", vp9 10 8000 ""]] }).1).2.map
      (fun l => l.map (fun o => o.sec.rtpmaps.map (fun r => (r.1, r.2.2.1)))) = some [[(10, 90000), (35, 8000)]] := by rfl

/-- and the hypothesis `ExactIsPartial` of `C16_first_offer_partial` fails for that offer -/
example : ¬ ExactIsPartial [vp9 35 90000 "profile-id=0", vp9 10 8000 ""] [vp9 35 90000 "profile-id=0", vp9 10 8000 ""] := by
  intro h
  have := h (vp9 35 90000 "profile-id=0") (by simp) (vp9 10 8000 "") (by simp) (by decide)
  revert this; decide

end WebrtcVerif.C16
