import WebrtcVerif.Model.Signaling
import WebrtcVerif.Proofs.SignalingLemmas
/-!
# C02 — Rollback cancels an in-progress offer/answer exchange

"SetLocalDescription with type rollback succeeds from have-local-offer or have-local-pranswer, and
SetRemoteDescription with type rollback succeeds from have-remote-offer or have-remote-pranswer; rollback
from stable is rejected. A successful rollback returns the connection to stable. It discards the pending
descriptions and leaves the current descriptions as they were in the last stable state."

The model mirrors the code after `fix: rollback returns to stable instead of being rejected in every state`
(before it, `checkNextSignalingState` had no successful rollback case: DESIGN §7 row 1).  A rollback
description is arbitrary: any SDP text (none, the pending text, unrelated, unparsable) and any flags.
-/
namespace WebrtcVerif.C02
open WebrtcVerif.Signaling

/-- The rollback rows of `checkNextSignalingState`, all 7 × 7 × 3 tuples: accepted exactly for
    (have-local-offer | have-local-pranswer, SetLocal) and (have-remote-offer | have-remote-pranswer,
    SetRemote) towards stable; from stable the error is "can't rollback from stable state". -/
theorem C02_table_rollback (cur next : Sig) (op : Op) :
    ((checkNext cur next op .rollback).2 = none ↔
      next = .stable ∧
      ((op = .setLocal ∧ (cur = .haveLocalOffer ∨ cur = .haveLocalPranswer)) ∨
       (op = .setRemote ∧ (cur = .haveRemoteOffer ∨ cur = .haveRemotePranswer)))) ∧
    (cur = .stable → checkNext cur next op .rollback = (.stable, some .cannotRollback)) := by
  cases cur <;> cases next <;> cases op <;> simp [checkNext]

/-- SetLocalDescription(rollback) succeeds from have-local-offer and have-local-pranswer, whatever the
    description carries. -/
theorem C02_local_rollback_succeeds (s : Neg) (d : Desc) (hc : s.isClosed = false)
    (hs : s.sig = .haveLocalOffer ∨ s.sig = .haveLocalPranswer) (hd : d.ty = .rollback) :
    (setLocal s d).err = none := by
  rcases hs with hs | hs <;>
    simp [setLocal, setDescription, commit, checkNext, hc, hd, hs]

/-- SetRemoteDescription(rollback) succeeds from have-remote-offer and have-remote-pranswer. -/
theorem C02_remote_rollback_succeeds (s : Neg) (d : Desc) (hc : s.isClosed = false)
    (hs : s.sig = .haveRemoteOffer ∨ s.sig = .haveRemotePranswer) (hd : d.ty = .rollback) :
    (setRemote s d).err = none := by
  rcases hs with hs | hs <;>
    simp [setRemote, setDescription, commit, checkNext, hc, hd, hs]

/-- Rollback from stable is rejected on both sides, and changes nothing. -/
theorem C02_rollback_from_stable_rejected (s : Neg) (d : Desc) (hc : s.isClosed = false)
    (hs : s.sig = .stable) (hd : d.ty = .rollback) :
    setLocal s d = fail s .norollback ∧ setRemote s d = fail s .norollback := by
  simp [setLocal, setRemote, setDescription, commit, checkNext, hc, hd, hs, Err.ofT]

/-- A successful rollback (either call): the state is stable, both pending descriptions are gone, the
    current descriptions and everything else are untouched, one event announces `stable`. -/
theorem C02_rollback_result (s : Neg) (d : Desc) (hd : d.ty = .rollback) :
    ((setLocal s d).err = none →
      (setLocal s d).st = { s with sig := .stable, pendL := none, pendR := none } ∧
      (setLocal s d).events = [.stable]) ∧
    ((setRemote s d).err = none →
      (setRemote s d).st = { s with sig := .stable, pendL := none, pendR := none } ∧
      (setRemote s d).events = [.stable]) := by
  constructor
  · intro h
    have e : setLocal s d = setDescription s d .setLocal := by
      unfold setLocal; split
      · simp [setLocal, *, fail] at h
      · simp
    rw [e] at h ⊢
    obtain ⟨_, _, _, _, _, hst, hev⟩ := setDescription_ok s d .setLocal h
    rw [hst, hev]; simp [book, proposed, hd]
  · intro h
    have e : setRemote s d = setDescription s d .setRemote := by
      unfold setRemote; split
      · simp [setRemote, *, fail] at h
      · simp
    rw [e] at h ⊢
    obtain ⟨_, _, _, _, _, hst, hev⟩ := setDescription_ok s d .setRemote h
    rw [hst, hev]; simp [book, proposed, hd]

/-- The SDP text and the flags of a rollback description are ignored: "with and without SDP text". -/
theorem C02_rollback_ignores_text (s : Neg) (d₁ d₂ : Desc) (h₁ : d₁.ty = .rollback) (h₂ : d₂.ty = .rollback) :
    setLocal s d₁ = setLocal s d₂ ∧ setRemote s d₁ = setRemote s d₂ := by
  simp [setLocal, setRemote, setDescription, h₁, h₂]

/-- "… leaves the current descriptions as they were in the last stable state": from a stable state `s₀`, after
    any history that never returns to stable (offers, provisional answers, failed calls, createOffer/Answer …),
    an accepted rollback yields exactly `s₀`'s current descriptions, no pending ones, and `stable`. -/
theorem C02_rollback_restores_last_stable (s₀ : Neg) (acts : List Action) (d : Desc) (side : Side)
    (hi : Inv s₀)
    (hns : ∀ k, 1 ≤ k → k ≤ acts.length → (run s₀ (acts.take k)).sig ≠ .stable)
    (hd : d.ty = .rollback)
    (hok : (match side with | .loc => setLocal (run s₀ acts) d | .rem => setRemote (run s₀ acts) d).err = none) :
    let r := match side with | .loc => setLocal (run s₀ acts) d | .rem => setRemote (run s₀ acts) d
    r.st.sig = .stable ∧ r.st.pendL = none ∧ r.st.pendR = none ∧
      r.st.curL = s₀.curL ∧ r.st.curR = s₀.curR := by
  have hk := run_keeps (fun t => t.curL = s₀.curL ∧ t.curR = s₀.curR)
    (fun t t' _ hp m hne => by
      obtain ⟨h1, h2⟩ := moves_current t t' m hne
      exact ⟨h1.trans hp.1, h2.trans hp.2⟩) s₀ acts hi ⟨rfl, rfl⟩ hns
  cases side with
  | loc =>
    simp only at hok ⊢
    obtain ⟨hst, _⟩ := (C02_rollback_result (run s₀ acts) d hd).1 hok
    rw [hst]; exact ⟨rfl, rfl, rfl, hk.1, hk.2⟩
  | rem =>
    simp only at hok ⊢
    obtain ⟨hst, _⟩ := (C02_rollback_result (run s₀ acts) d hd).2 hok
    rw [hst]; exact ⟨rfl, rfl, rfl, hk.1, hk.2⟩

/-- Every non-stable state of a live connection can be left by a rollback on the side the property names:
    so after any history, a connection that is negotiating can always get back to stable. -/
theorem C02_rollback_always_available (acts : List Action) (d : Desc) (hd : d.ty = .rollback)
    (hn : (run Neg.init acts).sig.negotiating = true) :
    (setLocal (run Neg.init acts) d).err = none ∨ (setRemote (run Neg.init acts) d).err = none := by
  have hi := run_inv Neg.init acts Inv_init
  generalize run Neg.init acts = t at hi hn ⊢
  have hc : t.isClosed = false := by
    cases hcl : t.isClosed with
    | false => rfl
    | true => have := hi.1.1 hcl; simp [this, Sig.negotiating] at hn
  cases hs : t.sig <;> simp [hs, Sig.negotiating] at hn
  · exact Or.inl (C02_local_rollback_succeeds t d hc (Or.inl hs) hd)
  · exact Or.inr (C02_remote_rollback_succeeds t d hc (Or.inl hs) hd)
  · exact Or.inl (C02_local_rollback_succeeds t d hc (Or.inr hs) hd)
  · exact Or.inr (C02_remote_rollback_succeeds t d hc (Or.inr hs) hd)

-- non-vacuity: a renegotiation (current descriptions o1/a2) that is rolled back from have-remote-pranswer
example :
    let o1 : Desc := { ty := .offer, txt := .made 1 0 }
    let a2 : Desc := { ty := .answer, txt := .made 2 0 }
    let s₀ := run Neg.init [.createOffer 1, .setLocal o1, .setRemote a2, .createOffer 3]
    let acts : List Action := [.setLocal { ty := .offer, txt := .empty }, .createOffer 5,
      .setRemote { ty := .pranswer, txt := .made 4 0 }, .setLocal { ty := .rollback, txt := .empty }]
    s₀.sig = .stable ∧ (run s₀ acts).sig = .haveRemotePranswer ∧
    (∀ k, 1 ≤ k → k ≤ acts.length → (run s₀ (acts.take k)).sig ≠ .stable) ∧
    (setRemote (run s₀ acts) { ty := .rollback, txt := .garbage }).st.curL = some o1 ∧
    (setRemote (run s₀ acts) { ty := .rollback, txt := .garbage }).st.curR = some a2 ∧
    (setRemote (run s₀ acts) { ty := .rollback, txt := .garbage }).st.pendL = none := by
  refine ⟨by decide, by decide, ?_, by decide, by decide, by decide⟩
  intro k h1 h2
  have : k = 1 ∨ k = 2 ∨ k = 3 ∨ k = 4 := by simp at h2; omega
  rcases this with rfl | rfl | rfl | rfl <;> decide

example : (setLocal { sig := .haveLocalPranswer } { ty := .rollback, txt := .empty }).err = none := by decide
example : (setRemote { sig := .haveLocalOffer } { ty := .rollback, txt := .empty }).err = some .transition := by decide

end WebrtcVerif.C02
