import WebrtcVerif.Model.AnnexB
import WebrtcVerif.Proofs.AnnexBLemmas
/-!
# C34 — Annex-B readers return exactly the framed NAL units

"For any sequence of H.264 or H.265 NAL units (no emulated start codes, no trailing zero byte) framed with
3- or 4-byte start codes, the reader returns exactly those NAL units in order, whatever chunk sizes the
stream delivers. With SEI inclusion off, SEI units are skipped wherever they occur, and the parsed header
fields match the unit's header bytes."

The model (`Model/AnnexB.lean`) mirrors h264reader.go / h265reader.go after
`fix: h264reader/h265reader skip an SEI unit at the end of the stream`; before that commit the last clause
was false for a stream whose last unit is SEI (DESIGN §7 row 19), which is why there is no
`C34_counterexample` here any more — the witness lives on as `C34_trailing_sei_skipped` and in corpus/C34.
-/
namespace WebrtcVerif.C34
open WebrtcVerif.Bytes WebrtcVerif.AnnexB

/-! ### the vocabulary of the property -/

/-- a NAL unit as the property admits it: non-empty, no trailing zero byte, no emulated start code -/
def WF (n : Bs) : Prop := n ≠ [] ∧ n.getLast? ≠ some 0 ∧ ¬ [0, 0, 1] <:+: n

/-- SEI according to the standards' header layout: H.264 `nal_unit_type` = low 5 bits = 6;
    H.265 `nal_unit_type` = bits 1..6 of the first byte ∈ {39 (prefix SEI), 40 (suffix SEI)} -/
def isSEI : Codec → Bs → Bool
  | _, [] => false
  | .h264, f :: _ => decide (f.toNat % 32 = 6)
  | .h265, f :: _ => decide (f.toNat / 2 % 64 = 39 ∨ f.toNat / 2 % 64 = 40)

/-- the units the reader has to return: all of them, minus SEI units when SEI inclusion is off -/
def kept (c : Codec) (includeSEI : Bool) (units : List (Bool × Bs)) : List Bs :=
  (units.map (·.2)).filter (fun n => includeSEI || !isSEI c n)

/-- a stream that delivers the given chunks, one per `Read`, then io.EOF -/
def stream (chunks : List Bs) : List Ev := chunks.map .data

/-- header fields as arithmetic on the header bytes (H.264: F | NRI | Type in one byte;
    H.265: F | Type(6) | LayerId(6) | TID(3) in two bytes) -/
def HeaderMatches (c : Codec) (n : NAL) : Prop :=
  match c, n.data with
  | .h264, f :: _ =>
    n.forbidden = decide (128 ≤ f.toNat) ∧ n.refIdc.toNat = f.toNat / 32 % 4 ∧ n.unitType.toNat = f.toNat % 32
  | .h265, f :: s :: _ =>
    n.forbidden = decide (128 ≤ f.toNat) ∧ n.unitType.toNat = f.toNat / 2 % 64 ∧
      n.layerId.toNat = f.toNat % 2 * 32 + s.toNat / 8 ∧ n.tid.toNat = s.toNat % 8
  | .h265, [_] => n = newNal n.data     -- a one-byte unit has no complete H.265 header: fields stay at their defaults
  | _, [] => False                      -- an empty unit is never returned

/-! ### decidable form of `WF` (used for the non-vacuity examples; the judge has its own copy) -/

def hasStartCode : Bs → Bool
  | [] => false
  | a :: rest => List.isPrefixOf [0, 0, 1] (a :: rest) || hasStartCode rest

def wfb (n : Bs) : Bool := !n.isEmpty && n.getLast? != some 0 && !hasStartCode n

theorem hasStartCode_iff (n : Bs) : hasStartCode n = true ↔ [0, 0, 1] <:+: n := by
  induction n with
  | nil => simp [hasStartCode]
  | cons a t ih =>
    rw [hasStartCode, Bool.or_eq_true, ih, List.infix_cons_iff, List.isPrefixOf_iff_prefix]

theorem WF_iff_wfb (n : Bs) : WF n ↔ wfb n = true := by
  unfold WF wfb
  rw [Bool.and_eq_true, Bool.and_eq_true]
  constructor
  · rintro ⟨h1, h2, h3⟩
    refine ⟨⟨by simpa using h1, by simpa using h2⟩, ?_⟩
    cases hs : hasStartCode n
    · rfl
    · exact absurd ((hasStartCode_iff n).mp hs) h3
  · rintro ⟨⟨h1, h2⟩, h3⟩
    refine ⟨by simpa using h1, by simpa using h2, ?_⟩
    intro hi
    rw [(hasStartCode_iff n).mpr hi] at h3
    cases h3

instance (n : Bs) : Decidable (WF n) := decidable_of_iff _ (WF_iff_wfb n).symm

/-! ### bridges between the property's vocabulary and the model's -/

private theorem skip_eq_isSEI (c : Codec) (sei : Bool) (d : Bs) (h : d ≠ []) :
    (!skip c sei d) = (sei || !isSEI c d) := by
  cases d with
  | nil => exact absurd rfl h
  | cons f t =>
    cases c
    · rw [skip_h264]; cases sei <;> simp [isSEI]
    · rw [skip_h265]; cases sei <;> simp [isSEI]

private theorem kept_eq (c : Codec) (sei : Bool) (units : List (Bool × Bs)) (hne : ∀ u ∈ units, u.2 ≠ []) :
    (units.map (·.2)).filter (fun d => !skip c sei d) = kept c sei units := by
  unfold kept
  apply List.filter_congr
  intro d hd
  obtain ⟨u, hu, rfl⟩ := List.mem_map.mp hd
  exact skip_eq_isSEI c sei _ (hne u hu)

private theorem clean_stream (chunks : List Bs) (hne : ∀ ch ∈ chunks, ch ≠ []) : clean (stream chunks) = true := by
  induction chunks with
  | nil => rfl
  | cons ch rest ih =>
    cases ch with
    | nil => exact absurd rfl (hne [] (by simp))
    | cons x t =>
      simp only [stream, List.map_cons, clean]
      exact ih (fun c hc => hne c (by simp [hc]))

private theorem flat_stream (chunks : List Bs) : flat (stream chunks) = chunks.flatten := by
  induction chunks with
  | nil => rfl
  | cons ch rest ih => simp only [stream, List.map_cons, flat, List.flatten_cons] at ih ⊢; rw [ih]

private theorem headerMatches_nalOf (c : Codec) (d : Bs) (h : d ≠ []) : HeaderMatches c (nalOf c d) := by
  unfold HeaderMatches
  rw [nalOf_data]
  match c, d, h with
  | .h264, f :: t, _ => exact nalOf_h264 f t
  | .h265, [f], _ => simp [nalOf, parseHeader, newNal]
  | .h265, f :: s :: t, _ => exact nalOf_h265 f s t

/-! ### the theorems -/

/-- **Round trip, any chunking.**  Any sequence of well-formed units, each behind a 3- or 4-byte start code,
    delivered in any non-empty chunks, is returned exactly (data, order, count) — minus the SEI units when SEI
    inclusion is off, wherever they are (first, middle, last, all of them) — and then the reader reports
    io.EOF.  Unit count, unit lengths and chunk sizes are unbounded. -/
theorem C34_roundtrip (c : Codec) (includeSEI : Bool) (units : List (Bool × Bs)) (chunks : List Bs)
    (hwf : ∀ u ∈ units, WF u.2) (hne : ∀ ch ∈ chunks, ch ≠ []) (hcat : chunks.flatten = frame units) :
    (readAll (init c includeSEI (stream chunks))).1.map (·.data) = kept c includeSEI units ∧
    (readAll (init c includeSEI (stream chunks))).2 = .err .eof := by
  have hflatten : (init c includeSEI (stream chunks)).flatten =
      { codec := c, includeSEI := includeSEI, src := [], readBuffer := frame units, nalRev := [], zeros := 0,
        prefixParsed := false } := by
    simp [Reader.flatten, init, flat_stream, hcat]
  rw [readAll_clean _ (by simpa [init] using clean_stream chunks hne), hflatten,
    readAll_frame c includeSEI units (fun u hu => ⟨(hwf u hu).1, (hwf u hu).2.2, (hwf u hu).2.1⟩)]
  refine ⟨?_, rfl⟩
  simp only [List.map_map]
  rw [← kept_eq c includeSEI units (fun u hu => (hwf u hu).1)]
  have : ((fun n : NAL => n.data) ∘ nalOf c) = id := by funext d; simp [nalOf_data]
  rw [this, List.map_id]

/-- With SEI inclusion on, every unit is returned. -/
theorem C34_roundtrip_include_sei (c : Codec) (units : List (Bool × Bs)) (chunks : List Bs)
    (hwf : ∀ u ∈ units, WF u.2) (hne : ∀ ch ∈ chunks, ch ≠ []) (hcat : chunks.flatten = frame units) :
    (readAll (init c true (stream chunks))).1.map (·.data) = units.map (·.2) := by
  rw [(C34_roundtrip c true units chunks hwf hne hcat).1]
  simp [kept]

/-- **Chunking never matters** — for arbitrary bytes, not only well-formed streams: two ways of cutting the
    same byte string into non-empty chunks give the same units, header fields and final error. -/
theorem C34_chunking_invariant (c : Codec) (includeSEI : Bool) (chunks₁ chunks₂ : List Bs)
    (h₁ : ∀ ch ∈ chunks₁, ch ≠ []) (h₂ : ∀ ch ∈ chunks₂, ch ≠ []) (hcat : chunks₁.flatten = chunks₂.flatten) :
    readAll (init c includeSEI (stream chunks₁)) = readAll (init c includeSEI (stream chunks₂)) := by
  rw [readAll_clean (init c includeSEI (stream chunks₁)) (by simpa [init] using clean_stream chunks₁ h₁),
    readAll_clean (init c includeSEI (stream chunks₂)) (by simpa [init] using clean_stream chunks₂ h₂)]
  simp [Reader.flatten, init, flat_stream, hcat]

/-- **Header fields.**  Every unit the reader ever returns — from any reader state, on any stream (arbitrary
    bytes, zero-length reads, read errors) — is non-empty and carries the header fields of its own first
    byte(s). -/
theorem C34_header_fields (r : Reader) : ∀ n ∈ (readAll r).1, HeaderMatches r.codec n := by
  intro n hn
  obtain ⟨h1, h2, _⟩ := readAll_all r n hn
  rw [h2]
  exact headerMatches_nalOf r.codec n.data h1

/-- **SEI units are skipped wherever they occur.**  With SEI inclusion off no returned unit is an SEI unit —
    from any reader state, on any stream; in particular the unit left in the buffer at the end of the stream
    (the case the unchanged code got wrong). -/
theorem C34_sei_never_returned (r : Reader) (hoff : r.includeSEI = false) :
    ∀ n ∈ (readAll r).1, isSEI r.codec n.data = false := by
  intro n hn
  obtain ⟨h1, _, h3⟩ := readAll_all r n hn
  have := skip_eq_isSEI r.codec r.includeSEI n.data h1
  rw [h3, hoff] at this
  simpa using this.symm

/-- The former finding, now a consequence: a stream whose last (or only) units are SEI ends with io.EOF
    after the last non-SEI unit. -/
theorem C34_trailing_sei_skipped (c : Codec) (units seis : List (Bool × Bs)) (chunks : List Bs)
    (hwf : ∀ u ∈ units ++ seis, WF u.2) (hsei : ∀ u ∈ seis, isSEI c u.2 = true)
    (hne : ∀ ch ∈ chunks, ch ≠ []) (hcat : chunks.flatten = frame (units ++ seis)) :
    (readAll (init c false (stream chunks))).1.map (·.data) = kept c false units := by
  rw [(C34_roundtrip c false (units ++ seis) chunks hwf hne hcat).1]
  simp only [kept, List.map_append, List.filter_append, Bool.false_or]
  have : (seis.map (·.2)).filter (fun n => !isSEI c n) = [] := by
    rw [List.filter_eq_nil_iff]
    intro n hn
    obtain ⟨u, hu, rfl⟩ := List.mem_map.mp hn
    simp [hsei u hu]
  rw [this, List.append_nil]

/-- **Prefix check.**  A stream (any non-empty chunking) whose first four bytes are neither `00 00 01 xx` nor
    `00 00 00 01` is rejected by the first `NextNAL` with "data is not a H26x bitstream"; a stream shorter than
    four bytes yields io.EOF. -/
theorem C34_not_a_stream_rejected (c : Codec) (includeSEI : Bool) (chunks : List Bs) (a b' c' d : Byte) (rest : Bs)
    (hne : ∀ ch ∈ chunks, ch ≠ []) (hcat : chunks.flatten = a :: b' :: c' :: d :: rest)
    (h3 : ¬ (a = 0 ∧ b' = 0 ∧ c' = 1)) (h4 : ¬ (a = 0 ∧ b' = 0 ∧ c' = 0 ∧ d = 1)) :
    (nextNAL (init c includeSEI (stream chunks))).1 = .err .notStream := by
  obtain ⟨r', h1, _, _⟩ := nextNAL_clean (init c includeSEI (stream chunks))
    (by simpa [init] using clean_stream chunks hne)
  rw [h1]
  simp [Reader.flatten, init, flat_stream, hcat, nextNAL, AnnexB.read, fill, startsWithPrefix, h3, h4]

theorem C34_short_stream_eof (c : Codec) (includeSEI : Bool) (chunks : List Bs)
    (hne : ∀ ch ∈ chunks, ch ≠ []) (hlen : chunks.flatten.length < 4) :
    (nextNAL (init c includeSEI (stream chunks))).1 = .err .eof := by
  obtain ⟨r', h1, _, _⟩ := nextNAL_clean (init c includeSEI (stream chunks))
    (by simpa [init] using clean_stream chunks hne)
  have hf : (init c includeSEI (stream chunks)).flatten =
      { codec := c, includeSEI := includeSEI, src := [], readBuffer := chunks.flatten, nalRev := [], zeros := 0,
        prefixParsed := false } := by
    simp [Reader.flatten, init, flat_stream]
  rw [h1, hf]
  generalize chunks.flatten = bs at hlen
  have : ¬ 4 ≤ bs.length := by omega
  simp [nextNAL, AnnexB.read, fill, this]
/-- The sequence of `NextNAL` calls never indexes out of range (the model's `.panic` outcome), on any stream.
    (Termination of that sequence is `AnnexB.nextNAL_progress`: `readAll` is defined by recursion on it.) -/
theorem C34_no_panic (r : Reader) : (readAll r).2 ≠ .panic := readAll_no_panic r

/-! ### non-vacuity: the hypotheses are satisfiable, and each one is needed -/

-- H.264: IDR, SEI (last!), framed with a 3- and a 4-byte start code, delivered in chunks of 1, 5 and 5 bytes
example : ∃ (units : List (Bool × Bs)) (chunks : List Bs), (∀ u ∈ units, WF u.2) ∧ (∀ ch ∈ chunks, ch ≠ []) ∧ chunks.flatten = frame units ∧
    units ≠ [] ∧ kept .h264 false units ≠ units.map (·.2) :=
  ⟨[(false, [0x65, 0x00, 0x01, 0xAA]), (true, [0x06, 0xBB])],
   [[0], [0, 1, 0x65, 0x00, 0x01], [0xAA, 0, 0, 0, 1], [0x06, 0xBB]], by decide, by decide, by decide, by decide, by decide⟩

example : WF [0x4E, 0x01, 0x00, 0x00, 0x02] := by decide       -- H.265 prefix SEI with two zero bytes inside
example : isSEI .h265 [0x4E, 0x01] = true ∧ isSEI .h265 [0x50, 0x01] = true ∧ isSEI .h264 [0x06] = true := by decide
example : HeaderMatches .h264 (nalOf .h264 [0xAB]) := headerMatches_nalOf _ _ (by decide)

-- "no trailing zero byte" is needed: `65 00` before a 3-byte start code is read as `65` before a 4-byte one
example : (nextNAL (init .h264 true (stream [[0, 0, 1, 0x65, 0x00, 0, 0, 1, 0x41]]))).1 = .nal (nalOf .h264 [0x65]) := by
  decide
-- "no emulated start code" is needed: `65 00 00 01 41` is cut in two
example : (nextNAL (init .h264 true (stream [[0, 0, 1, 0x65, 0, 0, 1, 0x41]]))).1 = .nal (nalOf .h264 [0x65]) := by
  decide
-- "chunk sizes" means non-empty chunks: a `(0, nil)` read in the middle of a unit ends the unit early
example : (nextNAL (init .h264 true [.data [0, 0, 1, 0x65], .data [], .data [0xAA]])).1 = .nal (nalOf .h264 [0x65]) := by
  decide

-- C34_trailing_sei_skipped: an IDR followed by two SEI units that end the stream (H.264), one chunk per byte pair
example : ∃ (units seis : List (Bool × Bs)) (chunks : List Bs), (∀ u ∈ units ++ seis, WF u.2) ∧
    (∀ u ∈ seis, isSEI .h264 u.2 = true) ∧ (∀ ch ∈ chunks, ch ≠ []) ∧ chunks.flatten = frame (units ++ seis) ∧
    units ≠ [] ∧ seis ≠ [] :=
  ⟨[(true, [0x65, 0x88])], [(false, [0x06, 0x05]), (true, [0x26, 0x01])],
   [[0, 0], [0, 1], [0x65, 0x88], [0, 0], [1, 0x06], [0x05, 0], [0, 0], [1, 0x26], [0x01]],
   by decide, by decide, by decide, by decide, by decide, by decide⟩
-- C34_chunking_invariant: the same bytes cut in two different ways
example : ∃ (c₁ c₂ : List Bs), (∀ ch ∈ c₁, ch ≠ []) ∧ (∀ ch ∈ c₂, ch ≠ []) ∧ c₁.flatten = c₂.flatten ∧ c₁ ≠ c₂ :=
  ⟨[[0, 0, 1], [0x65]], [[0], [0, 1, 0x65]], by decide, by decide, by decide, by decide⟩
-- C34_sei_never_returned / C34_header_fields / C34_no_panic hold for every reader; one with inclusion off:
example : (init .h265 false [.data [0, 0, 1, 0x4E], .data [], .fail [1] false]).includeSEI = false := rfl

-- the prefix theorems apply, e.g., to `ff ff | ff ff` (rejected) and to `00 00 | 01` (three bytes: io.EOF)
example : (nextNAL (init .h265 false (stream [[0xFF, 0xFF], [0xFF, 0xFF]]))).1 = .err .notStream :=
  C34_not_a_stream_rejected .h265 false _ 0xFF 0xFF 0xFF 0xFF [] (by decide) rfl (by decide) (by decide)
example : (nextNAL (init .h264 false (stream [[0, 0], [1]]))).1 = .err .eof :=
  C34_short_stream_eof .h264 false _ (by decide) (by decide)
-- a stream that hands over its last bytes together with io.EOF loses them (only noted: io.Reader allows
-- this, the property's "chunk sizes" do not cover it)
example : (nextNAL (init .h264 true [.data [0, 0, 1, 0x65], .fail [0xAA] true])).1 = .nal (nalOf .h264 [0x65]) := by
  decide

end WebrtcVerif.C34
