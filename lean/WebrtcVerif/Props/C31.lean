import WebrtcVerif.Model.SampleBuilder
import WebrtcVerif.Proofs.SampleBuilderLemmas
import WebrtcVerif.Proofs.SampleBuilderHistory
import WebrtcVerif.Proofs.SampleBuilderOnce
/-!
# C31 — SampleBuilder emits only well-formed samples, in order, each once

"Whatever order packets are pushed in, including loss, duplicates and wrap-around, each sample a
SampleBuilder emits is the concatenated depacketized payload of a contiguous run of pushed packets that share
one RTP timestamp and start at a partition head. Samples come out in sequence-number order and no packet
contributes to two samples. For a loss-free stream reordered within maxLate, every complete frame is emitted
after Flush."

The model (`Model/SampleBuilder.lean`) mirrors samplebuilder.go after three `fix:` commits (see
known_findings.json).  `d : Depack` is an arbitrary depacketizer; `adv i k` is `i + k` on the `uint16` ring.

Part 1 (per step, every state): what `buildSample` — the only place a sample is created — produces.
Part 2 (every state): the model's fuelled loops never run out of fuel and never meet a nil slot.
Part 3 (every history): every sample any Pop returns is well-formed (first sentence of the property).
Part 4 (every history): order / each-once / completeness — violated by the code in recorded ways
        (known_findings.json); full statements as `def … : Prop`, machine-checked counterexamples, and what
        does hold.
-/
namespace WebrtcVerif.C31
open WebrtcVerif.SampleBuilder

/-! ## Part 1 — each sample is a contiguous same-timestamp run that starts at a partition head -/

/-- The packets of a built sample are exactly the buffer slots `h, h+1, …, h+k−1` (`h` = the read position
    `active.head`, after the re-seed when it was empty), `1 ≤ k < 65536`: a contiguous run of what was pushed. -/
theorem C31_run_contiguous {d : Depack} {s s' : State} {purging : Bool} {sm : Sample}
    (h : buildSample d s purging = (s', some sm)) :
    0 < sm.pkts.length ∧ sm.pkts.length < 65536 ∧
    ∀ j (hj : j < sm.pkts.length), s.buffer.get (adv (readHead s) j) = some sm.pkts[j] := by
  obtain ⟨k, hk0, hk1, hlen, hget, _⟩ := buildSample_run h
  exact ⟨by omega, by omega, hget⟩

/-- …and where every buffered packet sits in the slot of its own sequence number (an invariant of
    Push/Pop/Flush, `C31_slots_invariant`), the sequence numbers are consecutive on the ring. -/
theorem C31_run_consecutive_seq {d : Depack} {s s' : State} {purging : Bool} {sm : Sample}
    (h : buildSample d s purging = (s', some sm))
    (hslot : ∀ i p, s.buffer.get i = some p → p.seq = i) :
    ∀ j (hj : j < sm.pkts.length), sm.pkts[j].seq = adv (readHead s) j := by
  intro j hj
  exact hslot _ _ ((C31_run_contiguous h).2.2 j hj)

/-- All packets of the sample carry the sample's `PacketTimestamp` (the scan loop's invariant).
    Hypothesis `ActiveOk`: the active range is still non-empty after its tail was moved to `filled.tail`;
    it can only fail when a packet sits in slot `filled.tail`, i.e. outside the filled range. -/
theorem C31_run_same_ts {d : Depack} {s s' : State} {purging : Bool} {sm : Sample}
    (h : buildSample d s purging = (s', some sm)) (hA : ActiveOk s) :
    ∀ p ∈ sm.pkts, p.ts = sm.ts := by
  obtain ⟨_, _, _, _, _, _, _, hts, _⟩ := buildSample_run h
  exact hts hA

/-- A sample is emitted only if its first packet is a partition head. -/
theorem C31_starts_at_head {d : Depack} {s s' : State} {purging : Bool} {sm : Sample}
    (h : buildSample d s purging = (s', some sm)) :
    ∃ hp tl, sm.pkts = hp :: tl ∧ d.isHead hp.payload = true := by
  obtain ⟨_, _, _, _, _, hh, _⟩ := buildSample_run h
  exact hh

/-- The sample data is the concatenation, in sequence order, of the depacketized payloads of exactly
    those packets (and every one of them depacketized without error). -/
theorem C31_data_is_concat {d : Depack} {s s' : State} {purging : Bool} {sm : Sample}
    (h : buildSample d s purging = (s', some sm)) :
    ∃ parts, unmarshalAll d sm.pkts = some parts ∧ sm.data = parts.flatten := by
  obtain ⟨_, _, _, _, _, _, hd, _⟩ := buildSample_run h
  exact hd

/-- Outside a purge (`Pop`), a sample is only built when the packet after the run has arrived. -/
theorem C31_pop_waits_for_next {d : Depack} {s s' : State} {sm : Sample}
    (h : buildSample d s false = (s', some sm)) :
    ∃ q, s.buffer.get (adv (readHead s) sm.pkts.length) = some q := by
  obtain ⟨k, _, _, hlen, _, _, _, _, _, hw⟩ := buildSample_run h
  rcases hw with hw | hw
  · cases hw
  · rw [hlen]; exact hw

/-- The consumed slots are released at once and the read position moves to the end of the run: when
    `filled.head` stands at the read position and the run lies inside `filled` (always so in the purge
    loop, which calls `buildSample` only with `active.head == filled.head`), then afterwards every consumed
    slot is nil, `filled.head` and `active.head` are both `h + k`, and the release handler was called for
    exactly the sample's packets, in order. -/
theorem C31_consumed_released {d : Depack} {s s' : State} {purging : Bool} {sm : Sample}
    (h : buildSample d s purging = (s', some sm))
    (hal : s.filled.head = readHead s) (hin : sm.pkts.length ≤ dist s.filled.head s.filled.tail) :
    (∀ j, j < sm.pkts.length → s'.buffer.get (adv (readHead s) j) = none) ∧
    s'.filled.head = adv (readHead s) sm.pkts.length ∧
    s'.active.head = adv (readHead s) sm.pkts.length ∧
    s'.released = (sm.pkts.map (·.id)).reverse ++ s.released := by
  obtain ⟨hs', hrel⟩ := buildSample_released h hal hin
  obtain ⟨hk0, hk1, _⟩ := C31_run_contiguous h
  refine ⟨?_, ?_, ?_, hrel⟩
  · intro j hj
    rw [hs', releaseN_get]
    simp only [afterEmit, extend_filled, reseed_filled, hal]
    rw [dist_adv _ j (by omega), if_pos hj]
  · rw [hs', releaseN_head]
    simp only [afterEmit, extend_filled, reseed_filled, hal]
  · rw [hs', (releaseN_same _ _).active]
    rfl

/-- The read position always ends at the end of the run, released or not. -/
theorem C31_read_position_advances {d : Depack} {s s' : State} {purging : Bool} {sm : Sample}
    (h : buildSample d s purging = (s', some sm)) :
    s'.active.head = adv (readHead s) sm.pkts.length := by
  obtain ⟨k, _, _, hlen, _, _, _, _, hemit, _⟩ := buildSample_run h
  obtain ⟨_, _, _, _, _, _, _, _, _, _, hs'⟩ := emit_some hemit
  obtain ⟨_, hp⟩ := finishPurge_progress (afterEmit (extend (reseed s)) (adv (readHead s) k) sm)
    { head := (extend (reseed s)).active.head, tail := adv (readHead s) k }
  rw [hs', hlen]
  unfold finishPurge purgeConsumed
  obtain ⟨k1, _, e1⟩ := purgeLoc_eq_releaseN (ringFuel + 1) (afterEmit (extend (reseed s)) (adv (readHead s) k) sm)
    { head := (extend (reseed s)).active.head, tail := adv (readHead s) k } true (ringFuel_gt _)
  rw [e1]
  obtain ⟨k2, _, e2⟩ := purgeLoc_eq_releaseN (ringFuel + 1)
    (releaseN k1 (afterEmit (extend (reseed s)) (adv (readHead s) k) sm))
    (releaseN k1 (afterEmit (extend (reseed s)) (adv (readHead s) k) sm)).active false (ringFuel_gt _)
  rw [e2, (releaseN_same _ _).active, (releaseN_same _ _).active]
  rfl

/-! ## Part 2 — the model's loops: fuel suffices, no nil slot is dereferenced -/

/-- `Push`, `Pop` and `Flush` never exhaust the fuel of the release / purge loops and never reach the point
    where the Go code would dereference a nil buffer slot — from any state whatsoever. -/
theorem C31_fuel_suffices_and_no_nil_deref (d : Depack) (s : State) (p : Packet) :
    ((push d s p).outOfFuel = s.outOfFuel ∧ (push d s p).nilDeref = s.nilDeref) ∧
    ((pop d s).1.outOfFuel = s.outOfFuel ∧ (pop d s).1.nilDeref = s.nilDeref) ∧
    ((flush d s).outOfFuel = s.outOfFuel ∧ (flush d s).nilDeref = s.nilDeref) :=
  ⟨⟨(push_flags d s p).outOfFuel, (push_flags d s p).nilDeref⟩,
   ⟨(pop_flags d s).outOfFuel, (pop_flags d s).nilDeref⟩,
   ⟨(flush_flags d s).outOfFuel, (flush_flags d s).nilDeref⟩⟩

/-- The read-only loops give the same answer for every fuel above the distance they have to walk (which is
    below `ringFuel = 65536`): slot search of `tooOld`, the slot reader, the after-timestamp scan, and — on a
    non-empty active range — the run detection. -/
theorem C31_scan_loops_fuel_independent (d : Depack) (s : State) (n : Nat) (hn : ringFuel ≤ n) :
    (∀ i stop, findUp n s.buffer i stop = findUp ringFuel s.buffer i stop) ∧
    (∀ i stop, findDown n s.buffer i stop = findDown ringFuel s.buffer i stop) ∧
    (∀ i stop, slots s.buffer n i stop = slots s.buffer ringFuel i stop) ∧
    (∀ i dflt, afterScan s n i dflt = afterScan s ringFuel i dflt) ∧
    (s.active.head ≠ s.active.tail → ∀ hts i, scan d s hts n i = scan d s hts ringFuel i) := by
  have hr : ringFuel = 65536 := by unfold ringFuel; rfl
  refine ⟨?_, ?_, ?_, ?_, ?_⟩
  · intro i stop; have := dist_lt i stop
    exact findUp_fuel _ _ _ _ _ (by omega) (by omega)
  · intro i stop; have := dist_lt stop i
    exact findDown_fuel _ _ _ _ _ (by omega) (by omega)
  · intro i stop; have := dist_lt i stop
    exact slots_fuel _ _ _ _ _ (by omega) (by omega)
  · intro i dflt; have := s.active.tail.toNat_lt
    exact afterScan_fuel _ _ _ _ _ (by omega) (by omega)
  · intro hact hts i; have := dist_lt i s.active.tail
    exact scan_fuel d s hts hact _ _ _ (by omega) (by omega)

/-! ## Part 3 — histories: every emitted sample is well-formed -/

/-- the packets a history pushes -/
def pushesOf (ops : List Op) : List Packet :=
  ops.filterMap (fun o => match o with | .push p => some p | _ => none)

theorem mem_pushesOf {ops : List Op} {p : Packet} (h : Op.push p ∈ ops) : p ∈ pushesOf ops := by
  unfold pushesOf
  exact List.mem_filterMap.mpr ⟨Op.push p, h, rfl⟩

/-- **First sentence of the property, for every history.**  Start from a fresh builder (any `maxLate`, any
    max-time-delay, any depacketizer), apply any sequence of Push / Pop / Flush — any order of sequence
    numbers, loss, duplicates, wrap-around.  Every sample a Pop returns is `WF`:
    its packets are packets this history pushed (`pushed`), at least one and with consecutive sequence numbers
    on the `uint16` ring (`consecutive`), all with the sample's timestamp (`sameTs`), the first one a
    partition head (`head`), and the data is the concatenation of their depacketized payloads (`data`).
    Hypothesis (decidable, a ghost monitor of the model that the driver reports as `RINGFULL`): no Push ever
    filled the last free slot of the 65 536-slot ring. -/
theorem C31_history_samples_wellformed (d : Depack) (maxLate : UInt16) (maxLateTs : UInt32) (ops : List Op)
    (hring : (run d (State.new maxLate maxLateTs) ops).1.ringFull = false) :
    ∀ sm ∈ (run d (State.new maxLate maxLateTs) ops).2, WF (· ∈ pushesOf ops) d sm :=
  run_wf (· ∈ pushesOf ops) d ops _ (new_inv _ d maxLate maxLateTs) (fun _ hp => mem_pushesOf hp) hring

/-- The invariant behind it, preserved by every operation from every state that satisfies it: each buffered
    packet was pushed and sits in the slot of its own sequence number, no packet lies outside the filled
    range, every sample waiting in `preparedSamples` is well-formed. -/
theorem C31_slots_invariant (P : Packet → Prop) (d : Depack) (s : State) (hi : Inv P d s) :
    (∀ p, P p → (push d s p).ringFull = false → Inv P d (push d s p)) ∧
    Inv P d (pop d s).1 ∧ (∀ sm, (pop d s).2 = some sm → WF P d sm) ∧
    Inv P d (flush d s) :=
  ⟨fun p hp hr => push_inv s p hi hp hr, (pop_inv s hi).1, (pop_inv s hi).2, flush_inv s hi⟩

/-! ## Part 4 — order, each-once, completeness -/

/-- offset of `x` above `base`; sequence numbers of a history that all lie within half a ring of `base`
    are linearly ordered by it -/
def InWindow (base : UInt16) (ops : List Op) : Prop := ∀ p ∈ pushesOf ops, dist base p.seq < 32768

instance (base : UInt16) (ops : List Op) : Decidable (InWindow base ops) := by
  unfold InWindow; exact inferInstance

def firstSeq (sm : Sample) : UInt16 := (sm.pkts.head?.map (·.seq)).getD 0
def lastSeq (sm : Sample) : UInt16 := (sm.pkts.getLast?.map (·.seq)).getD 0

/-- "Samples come out in sequence-number order": each sample starts after the end of every sample returned
    before it. -/
def C31_emission_order_Full : Prop :=
  ∀ (d : Depack) (maxLate : UInt16) (ops : List Op) (base : UInt16), InWindow base ops →
    ((run d (State.new maxLate) ops).2).Pairwise (fun a b => dist base (lastSeq a) < dist base (firstSeq b))

/-- "No packet contributes to two samples" (a duplicate is the same packet: same sequence number). -/
def C31_no_packet_twice_Full : Prop :=
  ∀ (d : Depack) (maxLate : UInt16) (ops : List Op) (base : UInt16), InWindow base ops →
    (((run d (State.new maxLate) ops).2).flatMap (fun sm => sm.pkts.map (·.seq))).Nodup

/-- a loss-free delivery of the consecutive sequence numbers `base, base+1, …`, each once, in which no
    packet arrives after one that is `maxLate` or more ahead of it -/
def LossFreeWithin (maxLate : Nat) (base : UInt16) (seqs : List UInt16) : Prop :=
  seqs.Nodup ∧ seqs.length < 32768 ∧ (∀ k, k < seqs.length → adv base k ∈ seqs) ∧
  seqs.Pairwise (fun a b => dist base a < dist base b + maxLate)

instance (maxLate : Nat) (base : UInt16) (seqs : List UInt16) : Decidable (LossFreeWithin maxLate base seqs) := by
  unfold LossFreeWithin; exact inferInstance

/-- "For a loss-free stream reordered within maxLate, every complete frame is emitted after Flush" — stated
    for the simplest streams only (one-packet frames: the Opus depacketizer, non-empty payloads), Pops
    interleaved at will, a final Flush and as many Pops as there were packets. -/
def C31_lossless_complete_Full : Prop :=
  ∀ (maxLate : UInt16) (ops : List Op) (base : UInt16),
    (∀ o ∈ ops, o matches .push _ | .pop) → (∀ p ∈ pushesOf ops, p.payload ≠ []) →
    LossFreeWithin maxLate.toNat base ((pushesOf ops).map (·.seq)) →
    ∀ p ∈ pushesOf ops,
      ∃ sm ∈ (run Depack.opus (State.new maxLate) (ops ++ .flush :: List.replicate (pushesOf ops).length .pop)).2,
        p ∈ sm.pkts

/-! ### the recorded findings, as theorems about the model -/

private def pk (id : Nat) (seq : UInt16) (ts : UInt32) : Packet :=
  { id, seq, ts, marker := false, payload := [0xaa] }

/-- finding `late-packet-emitted-behind-frontier`: 3 arrives after 4 and 5 were flushed out -/
private def lateOps : List Op :=
  [.push (pk 0 1 10), .push (pk 1 2 20), .push (pk 2 4 40), .push (pk 3 5 50), .flush, .pop, .pop, .pop, .pop,
   .push (pk 4 3 30), .flush, .pop]

theorem C31_emission_order_counterexample : ¬ C31_emission_order_Full := by
  intro h
  have := h Depack.opus 5 lateOps 1 (by decide +kernel)
  revert this
  decide +kernel

/-- same finding, duplicate: 5 is pushed again after the builder was drained and comes out a second time -/
private def dupOps : List Op :=
  [.push (pk 0 5 100), .push (pk 1 6 200), .flush, .pop, .pop, .push (pk 2 5 100), .flush, .pop]

theorem C31_no_packet_twice_counterexample : ¬ C31_no_packet_twice_Full := by
  intro h
  have := h Depack.opus 5 dupOps 5 (by decide +kernel)
  revert this
  decide +kernel

/-- finding `complete-frame-not-emitted:arrived-behind-read-position`: loss-free, 12 arrives two places
    late (maxLate 5) after a Pop anchored the read position at 13; it is released on arrival -/
private def behindOps : List Op :=
  [.push (pk 0 13 100), .pop, .push (pk 1 14 200), .pop, .push (pk 2 12 50), .pop,
   .push (pk 3 15 300), .pop]

theorem C31_lossless_complete_counterexample : ¬ C31_lossless_complete_Full := by
  intro h
  have := h 5 behindOps 12 (by decide +kernel) (by decide +kernel) (by decide +kernel)
    (pk 2 12 50) (by decide +kernel)
  revert this
  decide +kernel

/-- What does hold for "in order", per step: `buildSample` reads at the read position, and a successful build
    leaves the read position at the end of its run.  So as long as the active range does not run empty (which
    is when it is re-seeded from `filled.head` — the recorded finding), the next sample's slots
    (`C31_run_contiguous`) begin exactly where this one's ended or later (the purge loop only ever moves
    `active.head` upwards: `head++`, `head = consume.tail`). -/
theorem C31_emission_order_partial {d : Depack} {s s' : State} {purging : Bool} {sm : Sample}
    (h : buildSample d s purging = (s', some sm)) (hne : s'.active.head ≠ s'.active.tail) :
    readHead s' = adv (readHead s) sm.pkts.length := by
  have := C31_read_position_advances h
  unfold readHead reseed at *
  rw [if_neg hne]
  exact this

/-- What does hold for "each once", per step: a consumed packet leaves the buffer in the same step (so it
    can enter a later sample only by being pushed again) — in every state where each packet sits in its own
    slot and `filled.head` stands at the read position with the run inside `filled`. -/
theorem C31_consumed_packet_leaves_buffer {d : Depack} {s s' : State} {purging : Bool} {sm : Sample}
    (h : buildSample d s purging = (s', some sm))
    (hslot : ∀ i p, s.buffer.get i = some p → p.seq = i)
    (hal : s.filled.head = readHead s) (hin : sm.pkts.length ≤ dist s.filled.head s.filled.tail) :
    ∀ q ∈ sm.pkts, ∀ i, s'.buffer.get i ≠ some q := by
  intro q hq i hget
  obtain ⟨j, hj, rfl⟩ := List.getElem_of_mem hq
  obtain ⟨hnil, _, _, _⟩ := C31_consumed_released h hal hin
  obtain ⟨_, hprog, _⟩ := buildSample_progress d s purging
  rw [h] at hprog
  -- the packet can only be in the slot of its own sequence number, which is `readHead + j`
  have hs' : s.buffer.get i = some sm.pkts[j] := hprog.sub hget
  have hi : i = adv (readHead s) j := by
    rw [← (hslot i _ hs')]
    exact C31_run_consecutive_seq h hslot j hj
  rw [hi, hnil j hj] at hget
  cases hget

/-- **"No packet contributes to two samples", by packet identity, for every history** — the window version.
    Start from a fresh builder, apply any Push / Pop / Flush history in which the k-th Push carries id k
    (`IdsFrom 0`: ids are the identities of the pushed packet objects; a duplicate is a different push).
    If no Push ever made the filled range span half the ring or more (ghost monitor `wide`) nor filled the
    ring (`ringFull`), then no packet id occurs in two of the samples `buildSample` ever created, nor twice in
    one (`built` is the ghost log of all of them), and every sample a Pop returned is one of those.
    Re-emission of a *duplicate* (same sequence number, new push) is the recorded finding, see
    `C31_no_packet_twice_counterexample`. -/
theorem C31_no_packet_twice_partial (d : Depack) (maxLate : UInt16) (maxLateTs : UInt32) (ops : List Op)
    (hids : IdsFrom 0 ops)
    (hring : (run d (State.new maxLate maxLateTs) ops).1.ringFull = false)
    (hwide : (run d (State.new maxLate maxLateTs) ops).1.wide = false) :
    (((run d (State.new maxLate maxLateTs) ops).1.built.flatMap (·.pkts)).map (·.id)).Nodup ∧
    ∀ sm ∈ (run d (State.new maxLate maxLateTs) ops).2, sm ∈ (run d (State.new maxLate maxLateTs) ops).1.built := by
  obtain ⟨m, ho⟩ := run_once d ops _ 0 (new_once d maxLate maxLateTs) hids hring hwide
  refine ⟨ho.nodup, (run_built d ops _ ?_).2⟩
  intro i sm h
  simp [State.new] at h

-- non-vacuity: a state in which `buildSample` returns a sample and all the hypotheses above hold
private def exState : State := SampleBuilder.insert (State.new 5) (pk 0 7 1)
example : (buildSample Depack.opus exState true).2.isSome = true ∧ ActiveOk exState ∧
    exState.filled.head = readHead exState ∧
    ((buildSample Depack.opus exState true).2.map (·.pkts.length)).getD 0 ≤
      dist exState.filled.head exState.filled.tail := by decide +kernel
example : ∀ i p, exState.buffer.get i = some p → p.seq = i := by
  intro i p h
  have hb : ∀ (x : State), x.buffer = (State.new 5).buffer.set 7 (some (pk 0 7 1)) → x.buffer.get i = some p →
      p.seq = i := by
    intro x hx hg
    rw [hx, Buf.get_set] at hg
    split at hg
    · rename_i e; cases hg; exact e.symm
    · simp [State.new] at hg
  unfold exState SampleBuilder.insert at h
  simp only at h
  split at h <;> exact hb _ rfl h
example : (run Depack.opus (State.new 5) lateOps).1.ringFull = false ∧
    (run Depack.opus (State.new 5) lateOps).1.wide = false ∧ IdsFrom 0 lateOps ∧ InWindow 1 lateOps := by
  refine ⟨by decide +kernel, by decide +kernel, ?_, by decide +kernel⟩
  simp [lateOps, IdsFrom, pk]
example : LossFreeWithin 5 12 ((pushesOf behindOps).map (·.seq)) := by decide +kernel

end WebrtcVerif.C31
