import WebrtcVerif.Model.RemoteInput
import WebrtcVerif.Proofs.RemoteInputLemmas
/-!
# C30 — No remote input can crash the process   (PARTIAL by construction)

"No session description text passed to SetRemoteDescription can make the process panic, whether or not
CreateAnswer and SetLocalDescription follow, and under any SDPSemantics. The same holds for any candidate
string passed to AddICECandidate and any RTP/RTCP packet a connected peer sends. Invalid input results in
an error or is ignored, including in work the connection does in the background after the call returns."

What is proved here, and what is not.  The whole-process statement ("any text, any later background
work") is not a theorem about an executable model of this size.  The theorems below are panic-freedom,
for ALL parsed inputs, of the helpers of this repository that index into remote-controlled data
(`Model/RemoteInput.lean`; every Go index / slice / dereference is an explicit `.panic` outcome there):
`trackDetailsFromSDP` (ssrc / ssrc-group / msid / rid parsing), `getRids`, `trackDetailsToRTPReceiveParameters`,
`descriptionIsPlanB`, `extractBundleID`, `extractFingerprint`, `selectCandidateMediaSection`,
`extractICEDetails`, `codecsFromMediaDescription`, the Plan-B tail of `startRTPReceivers`,
`handleUndeclaredSSRC`, `checkAndUpdateTrack`, `handleIncomingSSRC` up to its first use of the transports
(declared-SSRC test, single-section shortcut, payload-type fallback) and its mid / rid / rsid probing loop
over the transceivers,
`ICECandidate.exportExtensions`, `RTPReceiver.Read`, and the
`pc.RemoteDescription().parsed` dereference of `SetRemoteDescription`.  Parsing (pion/sdp, pion/ice,
pion/rtp) is external: candidate and codec lookups enter as arbitrary oracles.  Everything else — the text
parsers, the transports, interceptors, goroutines started later — is SEARCHED by the mutation harness
(harness/cmd/wvh/c30*.go), not proved.

Findings repaired: 9a29e20 — `RTPReceiver.readRTP` dereferenced the nil reader of a configured but never bound
track (second SSRC in a section of an answer; `C30_receiverReadRTP_before_fix_panics`); cd3b386 — `RTPReceiver.Read` / `SetReadDeadline` dereferenced the unbound streams of
`tracks[0]` of a rid-based receiver (`C30_receiverRead_before_fix_panics`); 9d23192: the Plan-B warning of `startRTPReceivers` formatted
`incomingTrack.ssrcs[0]`; a rid-based track has no SSRC (`C30_planB_warning_before_fix_panics`).
-/
namespace WebrtcVerif.C30
open WebrtcVerif.RemoteInput

/-- Shorthand: the Go computation does not panic. -/
abbrev NoPanic {α : Type} (r : Res α) : Prop := r.ok = true

/-! ## strings.Split never returns an empty slice — the fact every `split[0]` rests on -/
theorem C30_split_nonempty (s : Str) (sep : Nat) : 0 < (split s sep).length := split_pos s sep

/-! ## sdp.go -/

theorem C30_no_panic_getRids (m : Media) : NoPanic (getRids m) := getRids_ok m

/-- `trackDetailsFromSDP` does not panic on any parsed description: `split[0]`, `split[1]`/`split[2]` under
    their length tests, `split[1][len("msid:"):]` under `HasPrefix`, and `tracksInMediaSection[i].ssrcs[0]`
    because every element of the per-section list was appended with exactly one SSRC. -/
theorem C30_no_panic_trackDetailsFromSDP (s : Session) : NoPanic (trackDetailsFromSDP s) := by
  obtain ⟨ts, e, _⟩ := tdMedias_spec s.medias
  unfold NoPanic trackDetailsFromSDP
  rw [e]; rfl

/-- Shape of the result: each track has an SSRC, or it is the rid-based entry, which has **no** SSRC
    (this is why an unguarded `ssrcs[0]` on a returned track is wrong). -/
theorem C30_trackDetails_shape (s : Session) (ts : List TrackDetails) (h : trackDetailsFromSDP s = .val ts) :
    ∀ t ∈ ts, t.ssrcs ≠ [] ∨ (t.ssrcs = [] ∧ t.rids ≠ []) := by
  obtain ⟨ts', e, sh⟩ := tdMedias_spec s.medias
  unfold trackDetailsFromSDP at h
  rw [e] at h
  cases h
  exact sh

def sessRid : Session :=
  { attrs := [], medias := [{ media := kVideo, formats := [], attrs :=
      [⟨kMid, kVideo⟩, ⟨kMsid, [115, 32, 116]⟩, ⟨kRid, [113, 32, 115, 101, 110, 100]⟩] }] }

/-- non-vacuity: a description with `a=msid:s t` and `a=rid:q send` yields the SSRC-less track -/
example : trackDetailsFromSDP sessRid =
    .val [{ mid := kVideo, kind := 2, streamID := [115], id := [116], ssrcs := [], rtx := none, fec := none,
            rids := [[113]] }] := by decide

theorem C30_no_panic_receiveEncodings (t : TrackDetails) : NoPanic (receiveEncodings t) := receiveEncodings_ok t

theorem C30_no_panic_descriptionIsPlanB (d : Option Session) : NoPanic (descriptionIsPlanB d) := by
  cases d with
  | none => rfl
  | some s =>
    obtain ⟨ts, e, _⟩ := tdMedias_spec s.medias
    simp [NoPanic, descriptionIsPlanB, trackDetailsFromSDP, e]

theorem C30_no_panic_extractBundleID (s : Session) : NoPanic (extractBundleID s) := by
  unfold NoPanic extractBundleID
  simp only
  split
  · rfl
  · split
    · rfl
    · rename_i h
      exact idx_ok _ _ (by omega)

theorem C30_no_panic_extractFingerprint (s : Session) : NoPanic (extractFingerprint s) := by
  unfold NoPanic extractFingerprint
  apply Res.ok_bind
  · split
    · apply Res.ok_bind _ _ (C30_no_panic_extractBundleID s)
      intro b _; split <;> rfl
    · rfl
  · intro fp _
    split
    · rfl
    · simp only
      split
      · rfl
      · rename_i h2
        have : (split fp cSpace).length = 2 := by simpa using h2
        rw [idx_eq_val _ 1 (by omega), idx_eq_val _ 0 (by omega)]
        rfl

theorem C30_no_panic_selectCandidateMediaSection (s : Session) : NoPanic (selectCandidateMediaSection s) := by
  unfold NoPanic selectCandidateMediaSection
  apply Res.ok_bind _ _ (C30_no_panic_extractBundleID s)
  intro b _; rfl

/-- for every behaviour of the external candidate parsers -/
theorem C30_no_panic_extractICEDetails (oracle : CandOracle) (s : Session) : NoPanic (extractICEDetails oracle s) := by
  unfold NoPanic extractICEDetails
  simp only
  apply Res.ok_bind _ _ (C30_no_panic_selectCandidateMediaSection s)
  intro sel _
  split
  · split
    · rfl
    · (repeat' split) <;> rfl
  · (repeat' split) <;> rfl

/-- for every behaviour of pion/sdp's `GetCodecForPayloadType` -/
theorem C30_no_panic_codecsFromMediaDescription (oracle : CodecOracle) (m : Media) :
    NoPanic (codecsFromMediaDescription oracle m) := codecsLoop_ok oracle m.media m.formats

/-! ## peerconnection.go -/

/-- The Plan-B tail of `startRTPReceivers` (as repaired) does not panic, whichever tracks are unhandled and
    whichever `AddTransceiverFromKind` calls fail. -/
theorem C30_no_panic_startRTPReceivers (handled addFails : TrackDetails → Bool) (planB : Bool) (s : Session) :
    NoPanic (startRTPReceivers warnNew handled addFails planB s) := by
  unfold NoPanic startRTPReceivers
  apply Res.ok_bind _ _ (C30_no_panic_trackDetailsFromSDP s)
  intro inc _
  split
  · rfl
  · simp only
    split
    · exact planBLoop_ok _ _
    · rfl

/-- The code before commit 9d23192 (`Warnf(…, incomingTrack.ssrcs[0], err)`) panics: Plan-B semantics, the
    rid-based description above, the track unhandled, `AddTransceiverFromKind` failing (closed connection). -/
theorem C30_planB_warning_before_fix_panics :
    startRTPReceivers warnOld (fun _ => false) (fun _ => true) true sessRid = .panic := by decide

/-- … and that is the only way the old warning could fail: it is safe exactly on tracks with an SSRC. -/
theorem C30_planB_warning_before_fix_iff (t : TrackDetails) : NoPanic (warnOld t) ↔ t.ssrcs ≠ [] := by
  unfold NoPanic warnOld planBWarnArgsOld
  cases h : t.ssrcs with
  | nil => simp [idx]
  | cons a l => simp [idx]

theorem C30_no_panic_handleUndeclaredSSRC (m : Media) : NoPanic (handleUndeclaredSSRC m) := by
  unfold NoPanic handleUndeclaredSSRC
  apply Res.ok_bind _ _ (undeclaredScan_ok _ _ _ _ _)
  intro ⟨sid, id, r, s⟩ _
  simp only
  split <;> (try split) <;> rfl

/-- `checkAndUpdateTrack`: `b[1]` is behind `len(b) < 2`, `params.Codecs[0]` behind the one-element result. -/
theorem C30_no_panic_checkAndUpdateTrack (known : Nat → Bool) (curPT : Nat) (haveCodecs : Bool) (b : List Nat) :
    NoPanic (checkAndUpdateTrack known curPT haveCodecs b) := by
  unfold NoPanic checkAndUpdateTrack
  split
  · rfl
  · rename_i h
    rw [idx_eq_val _ 1 (by omega)]
    simp only [Res.bind_val]
    split
    · cases hk : known (b[1] % 128) <;> simp [rtpParametersByPayloadType, hk, idx]
    · rfl

theorem C30_no_panic_handleIncomingSSRCPrefix (known : Nat → Bool) (s : Session) (rule : Bool)
    (undeclared : Media → Bool) (pkt : List Nat) :
    NoPanic (handleIncomingSSRCPrefix known s rule undeclared pkt) := by
  unfold NoPanic handleIncomingSSRCPrefix
  apply Res.ok_bind
  · split
    · rename_i h
      simp only [Bool.and_eq_true, beq_iff_eq] at h
      rw [idx_eq_val _ 0 (by omega)]; rfl
    · rfl
  · intro sc _
    split
    · rfl
    · split
      · rfl
      · rename_i h
        rw [idx_eq_val _ 1 (by omega)]
        simp only [Res.bind_val]
        cases hk : known (pkt[1] % 128) <;> simp [rtpParametersByPayloadType, hk, idx]

/-! ## the undeclared-SSRC path: handleIncomingSSRC → handleUndeclaredSSRC (background goroutine) -/

/-- `handleIncomingSSRC` up to its first use of the transports does not panic, for every parsed remote
    description (any number of sections, any a=msid / a=ssrc / a=rid values), either description type,
    either `handleUndeclaredSSRCWithoutAnswer` setting, any MediaEngine answers (payload type known or not,
    mid / rid extension negotiated or not, `AddTransceiverFromKind` succeeding or not), any SSRC and any
    peeked packet: `MediaDescriptions[0]` is behind `len == 1`, `b[1]` behind `i < 4`, `params.Codecs[0]`
    behind the one-element result, and both `handleUndeclaredSSRC` call sites (single-section shortcut and
    the payload-type fallback for peers without the mid extension) read `split[0]`, `split[1]` of a=msid
    only under `len(split) == 2`. -/
theorem C30_no_panic_handleIncomingSSRCHead (s : Session) (isAnswer withoutAnswer midOK ridOK : Bool)
    (known addOK : Nat → Bool) (ssrc : Nat) (pkt : Option (List Nat)) :
    NoPanic (handleIncomingSSRCHead s isAnswer withoutAnswer midOK ridOK known addOK ssrc pkt) :=
  handleIncomingSSRCHead_ok s isAnswer withoutAnswer midOK ridOK known addOK ssrc pkt

def sessOneTokenMsid : Session :=
  { attrs := [], medias := [{ media := kVideo, formats := [[57, 54]], attrs := [⟨kMid, [48]⟩, ⟨kMsid, [115]⟩] }] }

/-- non-vacuity: a single section, no a=ssrc / a=rid, `a=msid:s` (one token, legal per RFC 8830): the
    undeclared SSRC is resolved against the section with empty stream and track ids -/
example : handleIncomingSSRCHead sessOneTokenMsid false false true true (fun _ => true) (fun _ => true) 4242 none
    = .val (.added 2 [] []) := by decide

/-- … and with two tokens the ids are taken from the line -/
example : handleUndeclaredSSRC { media := kAudio, formats := [], attrs := [⟨kMsid, [115, 32, 116]⟩] }
    = .val (.add 1 [115] [116]) := by decide

/-! ## handleIncomingSSRC after streamsForSSRC: the mid / rid / rsid probing loop over the transceivers -/

/-- The probing loop does not panic for any list of transceivers — with or without receiver (a send-only
    transceiver from AddTransceiverFromTrack has none), receivers open or closed, any RIDs — and any
    sequence of packet ids (mid / rid / rsid present, empty, unknown; padding-only packets): the method
    calls on `receiver` are behind `t.Mid() != mid || receiver == nil`. -/
theorem C30_no_panic_probe (trs : List ProbeTr) (first : PktIds) (rest : List PktIds) :
    NoPanic (probe trs first rest) := probe_ok trs first rest

/-- Without `receiver == nil` in the guard, a packet naming the mid of a receiver-less transceiver is a nil
    dereference (in the background probe goroutine). -/
theorem C30_probe_without_nil_guard_panics :
    probeTransceiversNoNilGuard [48] [113] [] [{ mid := [48], receiver := none }] 0 = .panic := by decide

/-- non-vacuity: mid "0" names a send-only transceiver (no receiver) and a receive-only one whose receiver
    has a track for rid "q": the first is skipped, the second takes the stream -/
example : probe [{ mid := [48], receiver := none }, { mid := [48], receiver := some (false, [[113]]) }]
    { mid := [48], rid := [113], rsid := [], paddingOnly := false } [] = .val (.rid 1) := by decide

/-- … and with no matching transceiver the probe fails after its eleven rounds -/
example : probe [{ mid := [49], receiver := some (false, [[113]]) }]
    { mid := [48], rid := [113], rsid := [], paddingOnly := false } [] = .val .failed := by decide

/-! ## `pc.RemoteDescription().parsed` in SetRemoteDescription -/

/-- After a successful `setDescription(sd, setRemote)` the connection has a remote description, from any
    prior state: offers and provisional answers become pending, an answer becomes current.  A rollback — the
    only assignment that clears the pending description, and one `checkNextSignalingState` does accept in
    have-remote-offer / have-remote-pranswer — never gets here: `SetRemoteDescription` returns right after
    `setDescription` for it, before the dereference (`SdpType` of `Model/RemoteInput.lean` has no rollback). -/
theorem C30_remoteDescription_after_setRemote {δ : Type} (st st' : Descs δ) (sd : δ) (t : SdpType)
    (h : setRemote st sd t = some st') : (remoteDescription st').isSome = true := by
  cases t with
  | offer =>
    simp only [setRemote, Option.map_eq_some_iff] at h
    obtain ⟨n, _, rfl⟩ := h; rfl
  | pranswer =>
    simp only [setRemote, Option.map_eq_some_iff] at h
    obtain ⟨n, _, rfl⟩ := h; rfl
  | answer =>
    simp only [setRemote, Option.map_eq_some_iff] at h
    obtain ⟨n, _, rfl⟩ := h; rfl

theorem C30_no_panic_srdRemoteDeref {δ : Type} (st : Descs δ) (sd : δ) (t : SdpType) :
    NoPanic (srdRemoteDeref st sd t) := by
  unfold NoPanic srdRemoteDeref
  split
  · rfl
  · rename_i st' h
    have := C30_remoteDescription_after_setRemote st st' sd t h
    cases hr : remoteDescription st' with
    | none => rw [hr] at this; simp at this
    | some d => rfl

/-- non-vacuity: a remote offer in `stable` is accepted -/
example : (setRemote (δ := Nat) ⟨.stable, none, none, none, none⟩ 7 .offer).isSome = true := by decide

/-- `AddICECandidate`, `CreateAnswer`, `handleIncomingSSRC` test for nil before they dereference -/
theorem C30_no_panic_guardedRemoteDeref {δ : Type} (st : Descs δ) : NoPanic (guardedRemoteDeref st) := by
  unfold NoPanic guardedRemoteDeref
  split <;> rfl

/-! ## icecandidate.go -/

/-- `ICECandidate.exportExtensions` (run by `ToICE` for every remote candidate that is added): the slices
    `extensions[start:i]` and `extensions[start:]` stay in range for every extension string, whatever
    `AddExtension` answers (`start ≤ i` is the loop invariant). -/
theorem C30_no_panic_exportExtensions (e : Str) (addFails : Str → Str → Bool) :
    NoPanic (exportExtensions e addFails) := exportExtensions_ok e addFails

/-- non-vacuity: "g 0 u a" yields (g,0),(u,a); a trailing key gets an empty value -/
example : exportExtensions [103, 32, 48, 32, 117, 32, 97] (fun _ _ => false)
    = .val (some [([103], [48]), ([117], [97])]) := by decide
example : exportExtensions [103, 32, 48, 32, 117] (fun _ _ => false)
    = .val (some [([103], [48]), ([117], [])]) := by decide

/-! ## rtpreceiver.go -/

/-- `RTPReceiver.Read` (as repaired by cd3b386; `SetReadDeadline` has the same guard) does not panic for
    any set of tracks, bound or not. -/
theorem C30_no_panic_receiverRead (tracks : List (Option Nat)) : NoPanic (receiverRead tracks) := by
  unfold NoPanic receiverRead
  split
  · rename_i h
    rw [idx_eq_val _ 0 h]
    simp only [Res.bind_val]
    split <;> rfl
  · rfl

/-- Before the fix a simulcast receiver whose first rid has not arrived yet crashed the caller of `Read`. -/
theorem C30_receiverRead_before_fix_panics : receiverReadOld [none, some 1] = .panic := by decide

/-- … and the repaired code reads from the first track exactly when the old code did not panic. -/
theorem C30_receiverRead_agrees_with_old (tracks : List (Option Nat)) (h : receiverReadOld tracks ≠ .panic) :
    receiverRead tracks = receiverReadOld tracks := by
  cases tracks with
  | nil => simp [receiverReadOld, idx] at h
  | cons t rest =>
    cases t with
    | none => simp [receiverReadOld, idx, deref] at h
    | some r => rfl

example : receiverReadOld [some 3, none] ≠ .panic := by decide

/-- `RTPReceiver.readRTP` (as repaired by 9a29e20) does not panic for any set of tracks, bound or not, and any
    reader. -/
theorem C30_no_panic_receiverReadRTP (tracks : List (Option Nat)) (i : Nat) : NoPanic (receiverReadRTP tracks i) := by
  unfold NoPanic receiverReadRTP
  split <;> rfl

/-- Before the fix the second, never bound track of a started receiver crashed the goroutine peeking it. -/
theorem C30_receiverReadRTP_before_fix_panics : receiverReadRTPOld [some 0, none] 1 = .panic := by decide

end WebrtcVerif.C30
