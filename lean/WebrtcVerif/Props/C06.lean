import WebrtcVerif.Proofs.JsepHistory
/-!
# C06 — Generated descriptions have unique mids and a correct BUNDLE group

"Every offer or answer that CreateOffer/CreateAnswer returns parses as SDP and gives each m-section a mid
that no other m-section shares. The BUNDLE group lists exactly the mids of the accepted (non-zero-port)
m-sections, each once. Each accepted m-section has ICE credentials, exactly one direction attribute, a
setup attribute, and a DTLS fingerprint at session or media level."

`SpecC06` (Proofs/JsepLemmas) is this sentence on an abstract description (`bundle` is stated as equality
of lists, which is "exactly those mids, each once" given `unique`).  The theorems are about `Model.Jsep`,
which mirrors the repaired code (fix commits 62545c3 data mid, 1e29db3 mid on rejected sections, ce37316
numbering above every mid in use, a3a3c09 / f46bced sections without direction / of unknown media type).
"Parses as SDP" is pion/sdp's business and is checked on the real text by the harness.

What the hypotheses mean:
  * `PeerInv st` — the mids the transceivers hold are pairwise distinct and the counter is ≥ -1.  True
    initially, preserved by every operation (Proofs/JsepLemmas `*_inv`), so it disappears in `C06_history`.
  * `DescOK r` — a remote description has pairwise distinct mids: the property's quantifier ("arbitrary
    distinct mids"); descriptions created by the other modelled peer have it by C06 itself.
  * `NoWrap st` — excludes exactly the recorded finding `mid-collision:int64-wrap` (`C06_counterexample_wrap`).
  * `NoGlare st.trs r` — excludes exactly the recorded finding `remote-reuses-unapplied-local-mid`
    (`C06_counterexample_glare`).
  * offers are proved for Unified Plan and for the fallback semantics when no Plan-B mid is detected;
    answers for every semantics.  Plan-B offers are searched only (differential run + judge).
-/
namespace WebrtcVerif.C06
open WebrtcVerif.Jsep

/-- Every answer CreateAnswer returns satisfies C06 — for every state, every SDPSemantics, every remote
    offer whose mids are pairwise distinct. -/
theorem C06_answer (st : St) (d : Desc) (h : (createAnswer st).2 = .ok d)
    (hr : ∀ r, st.remoteDesc = some r → DescOK r) : SpecC06 d :=
  answer_spec st d h hr

/-- Every offer CreateOffer returns without a current remote description satisfies C06. -/
theorem C06_first_offer (st : St) (d : Desc) (h : (createOffer st).2 = .ok d) (hsem : st.cfg.sem ≠ .planB)
    (hcur : st.curRemote = none) (inv : PeerInv st) (hw : NoWrap st) : SpecC06 d :=
  first_offer_spec st d h hsem hcur inv hw

/-- Every offer CreateOffer returns on top of a remote description satisfies C06. -/
theorem C06_reoffer (st : St) (d : Desc) (r : Desc) (h : (createOffer st).2 = .ok d) (hsem : st.cfg.sem ≠ .planB)
    (hcur : st.curRemote.isSome = true) (hrd : st.remoteDesc = some r)
    (hpb : (st.cfg.sem != .unified && possiblyPlanB r) = false)
    (hr : DescOK r) (inv : PeerInv st) (hw : NoWrap st) (hg : NoGlare st.trs r) : SpecC06 d :=
  reoffer_spec st d r h hsem hcur hrd hpb hr inv hw hg

/-- A freshly added application section never takes a mid another section of the description uses
    (DESIGN §7 row 4, fixed by 62545c3): for every list of sections. -/
theorem C06_data_mid_fresh (ms : List MSec) : dataMid ms ∉ ms.map MSec.id := dataMid_fresh ms

/-- The numbering loop of CreateOffer gives every transceiver a mid and keeps all mids pairwise distinct. -/
theorem C06_numbering (st : St) (hsem : st.cfg.sem ≠ .planB) (inv : PeerInv st) (hw : NoWrap st) :
    MidsDistinct (offerState st).trs ∧ ∀ t ∈ (offerState st).trs, t.mid.isSome = true :=
  ⟨(offerState_inv hsem inv hw).1.distinct, (offerState_inv hsem inv hw).2.1⟩

/-- The m-section loop of SetRemoteDescription keeps the transceivers' mids pairwise distinct, for every
    remote description with pairwise distinct mids. -/
theorem C06_inv_setRemote (st : St) (d : Desc) (inv : PeerInv st) (hd : DescOK d) : PeerInv (setRemote st d).1 :=
  setRemote_inv st d inv hd

/-- **C06 for whole histories.** Two peers (any configurations), any sequence of AddTrack,
    AddTransceiverFromKind, CreateDataChannel, RemoveTrack, Stop, CreateOffer, CreateAnswer,
    SetLocalDescription, SetRemoteDescription of the other peer's descriptions and of synthetic offers with
    pairwise distinct mids, in any order (including wrong signaling states): every description any
    CreateOffer / CreateAnswer of the history returns satisfies C06, as long as each CreateOffer is
    `Admissible` (no Plan-B offer, no counter overflow, no mid collision with an unapplied local offer). -/
theorem C06_history (ca cb : Cfg) (ops : List Op) (ha : AdmissibleAll { a := { cfg := ca }, b := { cfg := cb } } ops) :
    ∀ r ∈ runOps { a := { cfg := ca }, b := { cfg := cb } } ops, ∀ d, r.1 = .desc d → SpecC06 d :=
  history_spec ops _ (initial_inv ca cb) ha

/-! ### The same statement without the side conditions is false on this code: the recorded findings -/

/-- C06 for all histories whose synthetic offers have distinct mids, with no further side condition. -/
def Op.inQuantifier : Op → Bool
  | .setRemoteSyn _ d => decide (DescOK d) && d.secs.all (·.mid.isSome)
  | _ => true

def C06_Full : Prop :=
  ∀ (ca cb : Cfg) (ops : List Op), ops.all Op.inQuantifier = true →
    ∀ r ∈ runOps { a := { cfg := ca }, b := { cfg := cb } } ops, ∀ d, r.1 = .desc d → SpecC06 d

def synSec (media : String) (mid : Mid) (dirs : List Dir := [.sendrecv]) (codecOK : Bool := true) : Sec :=
  { media := media, mid := some mid, port0 := false, dirs := dirs, ufrag := true, pwd := true, setup := some .actpass,
    fp := false, codecOK := codecOK }

def synOffer (secs : List Sec) : Desc :=
  { typ := .offer, bundle := some (secs.filterMap (·.mid)), sessFp := true, secs := secs }

def descsOf (l : List (Res × List Tr)) : List Desc :=
  l.filterMap fun r => match r.1 with | .desc d => some d | _ => none

/-- witness of `mid-collision:int64-wrap` (corpus/C06/findings.ops, first line) -/
def wrapOps : List Op :=
  [.setRemoteSyn .a (synOffer [synSec "audio" (.num 9223372036854775807)]), .createAnswer .a, .setLocal .a false,
   .addTransceiver .a .video .sendrecv, .createOffer .a, .addTransceiver .a .video .sendrecv, .createOffer .a]

/-- witness of `remote-reuses-unapplied-local-mid` (corpus/C06/findings.ops, second line) -/
def glareOps : List Op :=
  [.addTransceiver .a .audio .sendrecv, .createOffer .a,
   .setRemoteSyn .a (synOffer [synSec "application" (.num 0) []]), .createAnswer .a, .setLocal .a false, .createOffer .a]

theorem descsOf_mem {l : List (Res × List Tr)} {d : Desc} (h : d ∈ descsOf l) : ∃ r ∈ l, r.1 = .desc d := by
  unfold descsOf at h
  obtain ⟨r, hr, hd⟩ := List.mem_filterMap.1 h
  refine ⟨r, hr, ?_⟩
  split at hd
  · rename_i d' hd'; simp only [Option.some.injEq] at hd; subst hd; exact hd'
  · cases hd

private theorem refute (ops : List Op)
    (hq : ops.all Op.inQuantifier = true)
    (hw : (descsOf (runOps {} ops)).any (fun d => !decide (DescOK d)) = true) : ¬ C06_Full := by
  intro full
  obtain ⟨d, hd, hbad⟩ := List.any_eq_true.1 hw
  obtain ⟨r, hr, hrd⟩ := descsOf_mem hd
  have := (full {} {} ops hq r hr d hrd).unique
  simp only [Bool.not_eq_true', decide_eq_false_iff_not] at hbad
  exact hbad this

/-- On the unchanged code a remote mid of MaxInt64 makes the counter wrap and two transceivers share a mid. -/
theorem C06_counterexample_wrap : ¬ C06_Full :=
  refute wrapOps (by decide +kernel) (by decide +kernel)

/-- A mid numbered by an unapplied CreateOffer and re-used by the remote offer for its application section
    appears twice in the next offer. -/
theorem C06_counterexample_glare : ¬ C06_Full :=
  refute glareOps (by decide +kernel) (by decide +kernel)

/-- the side conditions exclude exactly these: each witness breaks `Admissible` at its last CreateOffer -/
theorem C06_wrap_not_admissible : ¬ AdmissibleAll {} wrapOps := by
  intro h
  have := h.2.2.2.2.2.2.1.2.1
  revert this
  decide +kernel

/-! ### non-vacuity: the hypotheses hold on ordinary histories and the conclusions are about real descriptions -/

/-- a complete exchange between two peers plus a synthetic sparse-mid round -/
def sampleOps : List Op :=
  [.addTrack .a .audio, .createDC .a, .createOffer .a, .setLocal .a false, .setRemote .b, .createAnswer .b,
   .setLocal .b false, .setRemote .a, .addTransceiver .b .video .recvonly, .createOffer .b]

example : (descsOf (runOps {} sampleOps)).map (fun d => d.secs.filterMap (·.mid)) =
    [[.num 0, .num 1], [.num 0, .num 1], [.num 0, .num 1, .num 2]] := by decide +kernel

example : (descsOf (runOps {} sampleOps)).all (fun d => decide (DescOK d)) = true := by decide +kernel

/-- after the remote offer [audio "1"] and its answer, CreateDataChannel + CreateOffer (the DESIGN §7 row 4
    witness) now yields mids "1" and "2" -/
example : (descsOf (runOps {} [.setRemoteSyn .a (synOffer [synSec "audio" (.num 1)]), .createAnswer .a,
      .setLocal .a false, .createDC .a, .createOffer .a])).map (fun d => (d.secs.filterMap (·.mid), d.bundle)) =
    [([.num 1], some [.num 1]), ([.num 1, .num 2], some [.num 1, .num 2])] := by decide +kernel

end WebrtcVerif.C06
