import WebrtcVerif.Proofs.JsepRounds
/-!
# C07 — An answer mirrors the offer's m-sections one-for-one

"Whenever CreateAnswer succeeds, the answer has the same number of m-sections as the applied remote offer,
in the same order. Each has the same media type and mid as its offer section. Offered sections the
answerer can't or won't use are rejected in place (port 0), not dropped."

`SpecC07 offer answer`: the lists of mids are equal (same number, same order, same mid — so nothing is
dropped or added) and, position by position, the answer's media name answers the offered one
(`MediaAnswers`: the identical text, or the canonical lower-case name of the case-insensitively same kind).

The model mirrors the repaired code (a3a3c09: no direction attribute = sendrecv; f46bced: unknown media
types rejected in place; 1e29db3: rejected sections keep their mid).

`NoGlare st.trs offer` excludes exactly the recorded finding `remote-reuses-unapplied-local-mid`
(`C07_counterexample`): a transceiver that already holds one of the offer's mids — because an unapplied
CreateOffer numbered it — is bound to that section whatever its kind.
-/
namespace WebrtcVerif.C07
open WebrtcVerif.Jsep

structure SpecC07 (offer answer : Desc) : Prop where
  mids : answer.secs.map (·.mid) = offer.secs.map (·.mid)
  media : Forall2 MediaAnswers (offer.secs.map (·.media)) (answer.secs.map (·.media))

/-- Same number of m-sections, same order, same mids — for every state, every SDPSemantics and every remote
    offer, with no hypothesis at all. -/
theorem C07_mids (st : St) (a : Desc) (h : (createAnswer st).2 = .ok a) :
    ∃ offer, st.remoteDesc = some offer ∧ a.secs.map (·.mid) = offer.secs.map (·.mid) ∧
      a.secs.length = offer.secs.length ∧ a.typ = .answer :=
  answer_mids st a h

/-- Every offered section that has a mid is answered by a section with that mid: nothing is dropped. -/
theorem C07_nothing_dropped (st : St) (a : Desc) (h : (createAnswer st).2 = .ok a) :
    ∀ offer, st.remoteDesc = some offer → ∀ s ∈ offer.secs, ∃ s' ∈ a.secs, s'.mid = s.mid := by
  intro offer hoff s hs
  obtain ⟨offer', h1, h2, _⟩ := C07_mids st a h
  rw [hoff] at h1
  simp only [Option.some.injEq] at h1
  subst h1
  have : s.mid ∈ a.secs.map (·.mid) := by rw [h2]; exact List.mem_map.2 ⟨s, hs, rfl⟩
  obtain ⟨s', hs', e⟩ := List.mem_map.1 this
  exact ⟨s', hs', e⟩

/-- **C07 under Unified Plan**: the answer mirrors the applied offer section by section, media type included,
    for every offer (any mix of audio, video, application and other media types, with or without direction
    attributes, with supported or unsupported codecs). -/
theorem C07_answer (st : St) (offer a : Desc) (h : (createAnswer st).2 = .ok a) (hsem : st.cfg.sem = .unified)
    (hoff : st.remoteDesc = some offer) (hd : MidsDistinct st.trs) (hg : NoGlare st.trs offer) :
    SpecC07 offer a := by
  obtain ⟨r, hrd, _, hgen, _⟩ := createAnswer_ok h
  rw [hoff] at hrd
  simp only [Option.some.injEq] at hrd
  subst hrd
  obtain ⟨offer', h1, h2, _⟩ := C07_mids st a h
  rw [hoff] at h1
  simp only [Option.some.injEq] at h1
  subst h1
  refine ⟨h2, ?_⟩
  unfold generateMatched at hgen
  simp only [hsem, bne_self_eq_false, Bool.false_and] at hgen
  split at hgen
  · cases hgen
  · rename_i ms left app hml
    simp only [Bool.false_eq_true, if_false] at hgen
    unfold populate at hgen
    split at hgen
    · cases hgen
    · rename_i ss b hs
      simp only [Except.ok.injEq] at hgen
      subst hgen
      obtain ⟨_, hm, _⟩ := populateSecs_spec hs
      simp only
      rw [hm]
      exact (matchLoop_unified .unified _ (by decide) _ _ _ _ _ hml hd).2.2 hg

/-- A PeerConnection whose transceivers have no mid yet (nothing negotiated, no CreateOffer called) answers
    every offer section by section: `NoGlare` is vacuous there. -/
theorem C07_fresh_answerer (st : St) (offer a : Desc) (h : (createAnswer st).2 = .ok a) (hsem : st.cfg.sem = .unified)
    (hoff : st.remoteDesc = some offer) (hd : MidsDistinct st.trs)
    (hfresh : ∀ t ∈ st.trs, ∀ s ∈ offer.secs, s.mid.isSome = true → t.mid = s.mid → kindOf s.media = some t.kind) :
    SpecC07 offer a :=
  C07_answer st offer a h hsem hoff hd (fun s hs t ht => hfresh t ht s hs)

/-- **Offer in, answer out.**  A Unified-Plan PeerConnection in the stable state is handed any offer with
    pairwise distinct mids; no transceiver holds one of those mids with another kind beforehand (in
    particular: none of its transceivers has a mid yet).  If SetRemoteDescription and CreateAnswer succeed,
    the answer mirrors the offer section by section. -/
theorem C07_offer_then_answer (st : St) (offer a : Desc) (hsem : st.cfg.sem = .unified) (inv : PeerInv st)
    (hd : DescOK offer) (ht : offer.typ = .offer) (hs : st.sig = .stable) (hg : NoGlare st.trs offer)
    (hok : (setRemote st offer).2 = .ok ()) (ha : (createAnswer (setRemote st offer).1).2 = .ok a) :
    SpecC07 offer a := by
  obtain ⟨trs, na, nv, e⟩ := setRemote_offer_ok ht hs hok
  have hg' := setRemote_noGlare st offer hd ht hg
  have inv' := setRemote_inv st offer inv hd
  refine C07_answer _ offer a ha ?_ ?_ inv'.distinct hg'
  · rw [e]; exact hsem
  · rw [e]; rfl

/-! ### the recorded finding -/

def C07_Full : Prop :=
  ∀ (st : St) (offer a : Desc), (createAnswer st).2 = .ok a → st.cfg.sem = .unified → st.remoteDesc = some offer →
    MidsDistinct st.trs → DescOK offer → SpecC07 offer a

/-- the state after `AddTransceiverFromKind(audio); CreateOffer (never applied); SetRemoteDescription(offer
    with a video section "0")` (corpus/C07/findings.ops) -/
def glareOffer : Desc :=
  { typ := .offer, bundle := some [.num 0], sessFp := true,
    secs := [{ media := "video", mid := some (.num 0), port0 := false, dirs := [.sendrecv], ufrag := true, pwd := true,
               setup := some .actpass, fp := false, codecOK := true }] }

def glareState : St :=
  ((step ((step ((step {} (.addTransceiver .a .audio .sendrecv)).1) (.createOffer .a)).1) (.setRemoteSyn .a glareOffer)).1).a

theorem C07_counterexample : ¬ C07_Full := by
  intro full
  have hans : ∃ a, (createAnswer glareState).2 = .ok a ∧ a.secs.map (·.media) = ["audio"] := by
    have hok : (match (createAnswer glareState).2 with | .ok _ => true | .error _ => false) = true := by
      decide +kernel
    cases h : (createAnswer glareState).2 with
    | error e => rw [h] at hok; cases hok
    | ok a =>
      refine ⟨a, rfl, ?_⟩
      have : (match (createAnswer glareState).2 with | .ok a => a.secs.map (·.media) | .error _ => []) = ["audio"] := by
        decide +kernel
      rw [h] at this; exact this
  obtain ⟨a, ha, hmedia⟩ := hans
  have spec := full glareState glareOffer a ha (by decide +kernel) (by decide +kernel) (by decide +kernel) (by decide +kernel)
  have hm := spec.media
  rw [hmedia] at hm
  have : glareOffer.secs.map (·.media) = ["video"] := rfl
  rw [this] at hm
  cases hm with
  | cons h _ =>
    rcases h with h | ⟨k, hk, hn⟩
    · revert h; decide
    · have : kindOf "video" = some .video := by decide +kernel
      rw [this] at hk
      simp only [Option.some.injEq] at hk
      subst hk
      revert hn; decide

/-- the hypothesis is decidable and fails exactly there -/
theorem C07_glare_excluded : ¬ NoGlare glareState.trs glareOffer := by
  intro h
  have := h _ (List.mem_cons_self) (glareState.trs.head!) (by decide +kernel) (by decide +kernel) (by decide +kernel)
  revert this
  decide +kernel

/-! ### non-vacuity -/

/-- an offer with an audio section without direction attribute, a text section, an application section and a
    video section with unknown codecs, to a PeerConnection with one audio track -/
def mixedOffer : Desc :=
  { typ := .offer, bundle := some [.other "a", .num 7, .other "d", .num 2], sessFp := true,
    secs := [
      { media := "audio", mid := some (.other "a"), port0 := false, dirs := [], ufrag := true, pwd := true,
        setup := some .actpass, fp := false, codecOK := true },
      { media := "text", mid := some (.num 7), port0 := false, dirs := [.sendrecv], ufrag := true, pwd := true,
        setup := some .actpass, fp := false, codecOK := false },
      { media := "application", mid := some (.other "d"), port0 := false, dirs := [], ufrag := true, pwd := true,
        setup := some .actpass, fp := false, codecOK := false },
      { media := "video", mid := some (.num 2), port0 := false, dirs := [.sendonly], ufrag := true, pwd := true,
        setup := some .actpass, fp := false, codecOK := false }] }

def mixedState : St := ((step ((step {} (.addTrack .a .audio)).1) (.setRemoteSyn .a mixedOffer)).1).a

example : (match (createAnswer mixedState).2 with
    | .ok a => a.secs.map (fun s => (s.media, s.mid, s.port0))
    | .error _ => []) =
    [("audio", some (.other "a"), false), ("text", some (.num 7), true), ("application", some (.other "d"), false),
     ("video", some (.num 2), true)] := by decide +kernel

example : mixedState.cfg.sem = .unified ∧ mixedState.remoteDesc = some mixedOffer := by decide +kernel

end WebrtcVerif.C07
