import WebrtcVerif.Model.Roles
/-!
# C13 — Peers always take complementary ICE and DTLS roles

"For every combination of ICE-lite on each side, the answerer's configured DTLS role, and the offer's
a=setup value, the answer's a=setup is active or passive (never actpass). The two endpoints then take
opposite DTLS roles consistent with the exchanged a=setup values, and exactly one of them is the ICE
controlling agent, chosen per RFC 8445 §6.1.1."

Quantifier: ICE-lite ∈ {off,on} for each peer × answering DTLS role ∈ {unset, client, server} × offer
setup ∈ {actpass, active, passive, absent} — the type `Row` (48 inhabitants, `C13_matrix_complete`).
The theorems are proved by case analysis over every constructor of that type; most of them are also
proved for arbitrary offers (any number of media sections, any list of a=setup attributes per section),
of which the matrix rows are instances.

The model is the tree after `fix: CreateAnswer answers the complement of an explicit a=setup in the
offer`; `C13_defect_before_fix` records on which rows the code before that commit broke the property.
-/
namespace WebrtcVerif.C13
open WebrtcVerif.Roles

/-! ## The quantifier -/

/-- The matrix is enumerated completely by `Row.all`. -/
theorem C13_matrix_complete : (∀ r : Row, r ∈ Row.all) ∧ Row.all.length = 48 ∧ Row.all.Nodup := by
  refine ⟨?_, by decide, by decide⟩
  intro ⟨o, a, c, s⟩
  cases o <;> cases a <;> cases c <;> cases s <;> decide

/-- The values `SetAnsweringDTLSRole` can leave in a SettingEngine. -/
def Configurable (d : DtlsRole) : Prop := d = .unknown ∨ d = .client ∨ d = .server

instance (d : DtlsRole) : Decidable (Configurable d) := by unfold Configurable; infer_instance

/-- Whatever sequence of `SetAnsweringDTLSRole` calls is made (refused values included), the stored
    answering role is unset, client or server — the three values of the property's quantifier. -/
theorem C13_setter_only_client_server (calls : List DtlsRole) : Configurable (configure calls) := by
  have h : ∀ (cur : DtlsRole), Configurable cur →
      Configurable (calls.foldl (fun cur r => (setAnsweringDTLSRole cur r).1) cur) := by
    induction calls with
    | nil => intro cur hc; exact hc
    | cons r rs ih =>
      intro cur hc
      apply ih
      cases r <;> simp [setAnsweringDTLSRole, Configurable] <;> exact hc
  exact h _ (Or.inl rfl)

/-- every row's answering role is one the setter can produce, and every such value is a row's -/
theorem C13_rows_cover_configurable (d : DtlsRole) : Configurable d ↔ ∃ a : Answering, a.role = d := by
  constructor
  · rintro (rfl | rfl | rfl)
    · exact ⟨.unset, rfl⟩
    · exact ⟨.client, rfl⟩
    · exact ⟨.server, rfl⟩
  · rintro ⟨a, rfl⟩
    cases a <;> simp [Configurable, Answering.role]

/-! ## `dtlsRoleFromSDP` -/

/-- The nested loops return the role of the first media-level `a=setup` attribute of the description,
    whatever follows it, and `auto` when there is none. -/
theorem C13_remote_role_is_first_setup (s : Sections) :
    dtlsRoleFromSections s = (match s.flatten.head? with
      | some v => roleOfSetupVal v
      | none => .auto) := by
  induction s with
  | nil => rfl
  | cons sec rest ih =>
    cases sec with
    | nil => simpa [dtlsRoleFromSections] using ih
    | cons v vs => simp [dtlsRoleFromSections]

private theorem role_replicate_nil (k : Nat) : dtlsRoleFromSections (List.replicate k []) = .auto := by
  induction k with
  | zero => rfl
  | succ n ih => simpa [List.replicate, dtlsRoleFromSections] using ih

private theorem role_replicate_cons (k : Nat) (v : SetupVal) (vs : Section) :
    dtlsRoleFromSections (List.replicate (k + 1) (v :: vs)) = roleOfSetupVal v := by
  simp [List.replicate, dtlsRoleFromSections]

/-- With at least one media section, what the code reads from a row's offer is the row's value. -/
theorem C13_row_offer_read (r : Row) (k : Nat) (hk : 0 < k) :
    dtlsRoleFromSections (r.offerSections k) = (match r.offer with
      | .active => .client
      | .passive => .server
      | _ => .auto) := by
  obtain ⟨n, rfl⟩ : ∃ n, k = n + 1 := ⟨k - 1, by omega⟩
  rcases r with ⟨o, a, c, s⟩
  cases s
  · exact role_replicate_cons n _ _
  · exact role_replicate_cons n _ _
  · exact role_replicate_cons n _ _
  · exact role_replicate_nil (n + 1)

example : dtlsRoleFromSections ((⟨true, false, .unset, .passive⟩ : Row).offerSections 3) = .server := by decide

/-! ## Clause 1 — the answer's a=setup is active or passive -/

/-- For every offer (any sections, any setup attributes, or none), every configurable answering role and
    every ICE-lite combination, `CreateAnswer` writes `active` or `passive` — never `actpass`, `holdconn`
    or the zero value. -/
theorem C13_answer_never_actpass (answering : DtlsRole) (h : Configurable answering)
    (offer : Option Sections) (remoteLite localLite : Bool) :
    answerConnectionRole answering offer remoteLite localLite = .active ∨
    answerConnectionRole answering offer remoteLite localLite = .passive := by
  unfold answerConnectionRole
  generalize dtlsRoleFromSDP offer = rr
  rcases h with rfl | rfl | rfl <;> cases rr <;> cases remoteLite <;> cases localLite <;>
    simp [connectionRoleFromDtlsRole, defaultDtlsRoleAnswer]

example : Configurable .unknown ∧ answerConnectionRole .unknown (some [[.actpass]]) true false = .passive := by
  decide

/-! ## Clause 2 — DTLS roles are consistent with the exchanged a=setup values and opposite -/

/-- `DTLSTransport.role()` always answers client or server (all inputs, raw values included). -/
theorem C13_role_definite (remote answering : DtlsRole) (ice : IceRole) :
    dtlsTransportRole remote answering ice = .client ∨ dtlsTransportRole remote answering ice = .server := by
  cases remote <;> cases answering <;> cases ice <;> simp [dtlsTransportRole, defaultDtlsRoleAnswer]

/-- The answerer's DTLS role is the one its own answer announces (active ⇒ client, passive ⇒ server):
    for every offer, every configurable answering role, every ICE-lite combination. -/
theorem C13_answerer_role_matches_its_setup (offererLite answererLite : Bool) (answering : DtlsRole)
    (h : Configurable answering) (offer : Sections) :
    Spec.roleOfSetup (answerer offererLite answererLite answering offer).setup
      = some (answerer offererLite answererLite answering offer).side.dtls := by
  simp only [answerer, setRemoteDescription, startTransports, answerConnectionRole, dtlsRoleFromSDP]
  generalize dtlsRoleFromSections offer = rr
  rcases h with rfl | rfl | rfl <;> cases rr <;> cases offererLite <;> cases answererLite <;> rfl

example : (answerer true false .unknown [[.passive]]).setup = .active ∧
    (answerer true false .unknown [[.passive]]).side.dtls = .client := by decide

/-- An explicit role in the offer (its first a=setup attribute) is answered by its complement, whatever
    is configured. -/
theorem C13_answer_complements_explicit_offer (offererLite answererLite : Bool) (answering : DtlsRole)
    (offer : Sections) :
    (offer.flatten.head? = some .active →
      (answerer offererLite answererLite answering offer).setup = .passive) ∧
    (offer.flatten.head? = some .passive →
      (answerer offererLite answererLite answering offer).setup = .active) := by
  simp only [answerer, answerConnectionRole, dtlsRoleFromSDP, C13_remote_role_is_first_setup]
  constructor <;> intro h <;> rw [h] <;> rfl

example : ([[], [.active, .passive]] : Sections).flatten.head? = some .active := rfl

/-- A pion offerer (whatever its own ICE-lite and SettingEngine values) that receives the answer takes the
    DTLS role opposite to the answerer's. `k` is the number of media sections of the answer. -/
theorem C13_pion_offerer_takes_opposite (offererLite answererLite : Bool) (aCfg : DtlsRole)
    (h : Configurable aCfg) (oCfg : DtlsRole) (offer : Sections) (k : Nat) (hk : 0 < k) :
    let ans := answerer offererLite answererLite aCfg offer
    Spec.opposite (offerer offererLite ans.lite oCfg (uniformSections ans.setup k)).2.dtls ans.side.dtls
      = true := by
  obtain ⟨n, rfl⟩ : ∃ n, k = n + 1 := ⟨k - 1, by omega⟩
  simp only [offerer, answerer, setRemoteDescription, startTransports, answerConnectionRole, dtlsRoleFromSDP,
    uniformSections, role_replicate_cons]
  generalize dtlsRoleFromSections offer = rr
  rcases h with rfl | rfl | rfl <;> cases rr <;> cases offererLite <;> cases answererLite <;> cases oCfg <;> rfl

example : Spec.opposite (offerer false false .server (uniformSections .active 2)).2.dtls
    (answerer false false .client [[.actpass], [.actpass]]).side.dtls = true := by decide

/-- A pion offerer facing any answer (a foreign answerer's included): an explicit role in the answer
    (its first a=setup attribute) is complemented, whatever the offerer's own settings and ICE role. -/
theorem C13_offerer_complements_explicit_answer (offererLite answerLite : Bool) (oCfg : DtlsRole)
    (answer : Sections) :
    (answer.flatten.head? = some .active → (offerer offererLite answerLite oCfg answer).2.dtls = .server) ∧
    (answer.flatten.head? = some .passive → (offerer offererLite answerLite oCfg answer).2.dtls = .client) := by
  simp only [offerer, setRemoteDescription, startTransports, dtlsRoleFromSDP, C13_remote_role_is_first_setup]
  constructor <;> intro h <;> rw [h] <;> rfl

example : ([[.passive], [.active]] : Sections).flatten.head? = some .passive := rfl

/-- `CreateOffer` always offers actpass (RFC 5763 §5: the offerer MUST use setup:actpass). -/
theorem C13_offer_is_actpass : offerConnectionRole = .actpass := rfl

/-- The answerer's result does not depend on how many media sections repeat the row's value. -/
theorem C13_row_independent_of_section_count (r : Row) (k : Nat) (hk : 0 < k) : r.answered k = r.answered 1 := by
  simp only [Row.answered, answerer, setRemoteDescription, answerConnectionRole, dtlsRoleFromSDP,
    C13_row_offer_read r k hk, C13_row_offer_read r 1 (by omega)]

/-- An offerer that follows RFC 4145 / RFC 5763 (it takes the role it announced, or — having offered
    actpass or nothing — the complement of the answer) ends up opposite to the answerer, on every row. -/
theorem C13_rfc_offerer_takes_opposite (r : Row) (k : Nat) (hk : 0 < k) :
    ∃ d, rfcOffererRole r.offer (r.answered k).setup = some d ∧
      Spec.opposite d (r.answered k).side.dtls = true := by
  rw [C13_row_independent_of_section_count r k hk]
  rcases r with ⟨o, a, c, s⟩
  cases o <;> cases a <;> cases c <;> cases s <;> decide

example : rfcOffererRole .active ((⟨false, false, .client, .active⟩ : Row).answered 1).setup = some .client ∧
    ((⟨false, false, .client, .active⟩ : Row).answered 1).side.dtls = .server := by decide

/-! ## Clause 3 — exactly one ICE controlling agent, chosen per RFC 8445 §6.1.1 -/

/-- For every ICE-lite combination (and whatever else is configured or exchanged) the answerer's and the
    offerer's `SetRemoteDescription` pick the roles RFC 8445 §6.1.1 prescribes (`Spec.controlling`), hence
    exactly one side controls. The offerer sees the answerer's a=ice-lite flag as written by `populateSDP`. -/
theorem C13_exactly_one_controlling (offererLite answererLite : Bool) (aCfg oCfg : DtlsRole)
    (offer answer : Sections) :
    let a := answerer offererLite answererLite aCfg offer
    let o := (offerer offererLite a.lite oCfg answer).2
    (a.side.ice = .controlling ↔ Spec.controlling offererLite answererLite = .answerer) ∧
    (o.ice = .controlling ↔ Spec.controlling offererLite answererLite = .offerer) ∧
    ((a.side.ice = .controlling ∧ o.ice = .controlled) ∨ (a.side.ice = .controlled ∧ o.ice = .controlling)) := by
  cases offererLite <;> cases answererLite <;>
    simp [answerer, offerer, setRemoteDescription, startTransports, iceRole, Spec.controlling]

/-- What `startTransports` receives is what the transports end up with: the ICE role argument is the
    ICETransport's role and the DTLS role is `role()` of the offer's (answer's) first a=setup. -/
theorem C13_started_is_observed (offererLite answererLite : Bool) (aCfg : DtlsRole) (offer : Sections) :
    let a := answerer offererLite answererLite aCfg offer
    a.side.ice = a.started.ice ∧ a.started.remoteDtls = dtlsRoleFromSections offer ∧
    a.side.dtls = dtlsTransportRole a.started.remoteDtls aCfg a.started.ice := by
  simp [answerer, setRemoteDescription, startTransports, dtlsRoleFromSDP]

/-- Without an explicit offer role and without configuration the DTLS role follows the ICE role
    (controlling ⇒ server, controlled ⇒ client), as the doc comment of `DTLSRoleAuto` says. -/
theorem C13_auto_follows_ice (offererLite answererLite : Bool) (offer : Sections)
    (h : dtlsRoleFromSections offer = .auto) :
    let a := answerer offererLite answererLite .unknown offer
    (a.side.dtls = .server ↔ a.side.ice = .controlling) := by
  cases offererLite <;> cases answererLite <;>
    simp [answerer, setRemoteDescription, startTransports, dtlsRoleFromSDP, h, dtlsTransportRole, iceRole,
      defaultDtlsRoleAnswer]

example : dtlsRoleFromSections [[.actpass], []] = .auto := rfl

/-! ## The property on the matrix, literally -/

/-- The property's three sentences for one row, `k` media sections in the offer, and a pion offerer with
    SettingEngine value `oCfg` receiving the answer (for the rows whose offer a pion offerer can produce
    the offerer side is the real `offerer`; for all rows the RFC-conforming offerer is used as well). -/
def RowHolds (r : Row) (k : Nat) (oCfg : DtlsRole) : Prop :=
  let a := r.answered k
  let o := (offerer r.offererLite a.lite oCfg (uniformSections a.setup k)).2
  -- the answer's a=setup is active or passive
  (a.setup = .active ∨ a.setup = .passive) ∧
  -- consistent with the exchanged values: the answerer does what it announced, and never repeats an explicit offer
  Spec.roleOfSetup a.setup = some a.side.dtls ∧
  (r.offer = .active → a.setup = .passive) ∧ (r.offer = .passive → a.setup = .active) ∧
  -- opposite DTLS roles
  (∃ d, rfcOffererRole r.offer a.setup = some d ∧ Spec.opposite d a.side.dtls = true) ∧
  Spec.opposite o.dtls a.side.dtls = true ∧
  -- exactly one ICE controlling agent, the one RFC 8445 §6.1.1 names
  (a.side.ice = .controlling ↔ Spec.controlling r.offererLite r.answererLite = .answerer) ∧
  (o.ice = .controlling ↔ Spec.controlling r.offererLite r.answererLite = .offerer) ∧
  ((a.side.ice = .controlling ∧ o.ice = .controlled) ∨ (a.side.ice = .controlled ∧ o.ice = .controlling))

/-- C13 on the whole matrix: every row, every positive number of media sections, every offerer-side
    SettingEngine value. Proved by case analysis over all 48 rows. -/
theorem C13_complementary_roles (r : Row) (k : Nat) (hk : 0 < k) (oCfg : DtlsRole) : RowHolds r k oCfg := by
  obtain ⟨n, rfl⟩ : ∃ n, k = n + 1 := ⟨k - 1, by omega⟩
  unfold RowHolds
  rw [C13_row_independent_of_section_count r (n + 1) hk]
  simp only [offerer, setRemoteDescription, startTransports, dtlsRoleFromSDP, uniformSections,
    role_replicate_cons]
  rcases r with ⟨o, a, c, s⟩
  cases o <;> cases a <;> cases c <;> cases s <;> cases oCfg <;> decide

example : RowHolds ⟨true, false, .server, .passive⟩ 3 .client := C13_complementary_roles _ 3 (by omega) _

/-! ## The defect repaired by the `fix:` commit -/

/-- The rows on which `CreateAnswer` as it was before the fix announced a role the transport does not
    take (`a=setup` says client and `role()` says server or the reverse): exactly the nine rows
    (offer active, role client), (offer passive, role server), (offer passive, unset, remote lite, local full). -/
theorem C13_defect_before_fix :
    Row.all.filter (fun r =>
      Spec.roleOfSetup (answerConnectionRoleBeforeFix r.answering.role (some (r.offerSections 1))
        r.offererLite r.answererLite) != some (r.answered 1).side.dtls)
    = [⟨false, false, .client, .active⟩, ⟨false, false, .server, .passive⟩,
       ⟨false, true, .client, .active⟩, ⟨false, true, .server, .passive⟩,
       ⟨true, false, .unset, .passive⟩, ⟨true, false, .client, .active⟩, ⟨true, false, .server, .passive⟩,
       ⟨true, true, .client, .active⟩, ⟨true, true, .server, .passive⟩] := by
  decide

end WebrtcVerif.C13
