import WebrtcVerif.Model.Gather
import WebrtcVerif.Proofs.GatherLemmas
import WebrtcVerif.Proofs.GatherSimLemmas
/-!
# C24 — Each local ICE candidate is reported once, then exactly one end-of-gathering

"OnICECandidate reports every gathered local candidate exactly once, then reports the nil
end-of-gathering marker exactly once, and reports no candidate after it. This holds with or without a
candidate pool, and however SetLocalDescription interleaves with the gathering callbacks."

All theorems quantify over `Reachable ps nf s`: every state reachable by ANY interleaving of the atomic
sections (`Gather.Action`) of the agent's callback thread — delivering any number of distinct candidates
and then nil — with `nf` calls of `flushCandidates` (one per `SetLocalDescription`), which may overlap
each other, for ANY initial pool size `ps` (0 and 1 are the instances the property names) and any `nf`.
`s.emitted` is the sequence of handler (OnICECandidate) invocations of the current gathering; `s.gathered`
the candidates the agent has delivered.  The model is `Model/Gather.lean`, which mirrors icegatherer.go
after the `fix:` commit that repaired the three findings of DESIGN §7 rows 14–16 (second flush re-emits
nil; double nil when the flush runs between `setState(complete)` and the pool test; pooled candidates
after nil).  The one assumption about pion/ice: the agent invokes its candidate callback serially.
-/
namespace WebrtcVerif.C24
open WebrtcVerif.Gather

/-- No candidate is reported twice. -/
theorem C24_candidate_at_most_once {ps nf : Nat} {s : St} (h : Reachable ps nf s) (c : Cand) :
    timesReported s c ≤ 1 := by
  have hi := inv_of_reachable h
  have h1 := hi.counts c
  have h2 := hi.count_le_one c
  unfold timesReported
  omega

/-- Only gathered candidates are reported. -/
theorem C24_only_gathered_reported {ps nf : Nat} {s : St} (h : Reachable ps nf s) (c : Cand)
    (hc : some c ∈ s.emitted) : c ∈ s.gathered := by
  have hi := inv_of_reachable h
  have h1 := hi.counts c
  have h2 : 0 < s.emitted.count (some c) := List.count_pos_iff.mpr hc
  exact List.count_pos_iff.mp (by omega)

/-- The end-of-gathering marker is reported at most once. -/
theorem C24_nil_at_most_once {ps nf : Nat} {s : St} (h : Reachable ps nf s) : timesNil s ≤ 1 := by
  have h1 := (inv_of_reachable h).tokens
  have h2 : (if s.signaled = true then 1 else 0) ≤ 1 := by split <;> omega
  unfold timesNil
  omega

/-- Nothing is reported after the marker. -/
theorem C24_nothing_after_nil {ps nf : Nat} {s : St} (h : Reachable ps nf s) (pre post : List (Option Cand))
    (he : s.emitted = pre ++ none :: post) : post = [] := by
  have hl := (inv_of_reachable h).nilLast
  cases post with
  | nil => rfl
  | cons p ps' =>
    exfalso
    rw [he, List.dropLast_append_cons, List.dropLast_cons_cons] at hl
    exact hl none (by simp) rfl

/-- "…then reports nil": when the marker is reported, gathering is complete and every gathered candidate
    has been reported — exactly once. -/
theorem C24_nil_after_every_candidate {ps nf : Nat} {s : St} (h : Reachable ps nf s)
    (hn : none ∈ s.emitted) :
    s.gstate = .complete ∧ ∀ c ∈ s.gathered, timesReported s c = 1 := by
  have hi := inv_of_reachable h
  have hsg := hi.signaled_of_nil (List.count_pos_iff.mpr hn)
  obtain ⟨hp, hpool, hf⟩ := hi.afterClaim hsg
  refine ⟨hi.complete.mpr hp, hi.reported_of_settled ?_ hpool hf⟩
  cases ha : s.agent <;> simp_all [APc.pastNil, heldA]

/-- Every gathered candidate exactly once: whenever no callback and no flush is in mid-flight and
    nothing is pooled, each delivered candidate has been reported exactly once (also while gathering is
    still running). -/
theorem C24_candidates_exactly_once {ps nf : Nat} {s : St} (h : Reachable ps nf s)
    (ha : heldA s.agent = []) (hf : s.flushers.all FPc.atRest = true) (hp : poolActive s = false) :
    ∀ c ∈ s.gathered, timesReported s c = 1 := by
  have hi := inv_of_reachable h
  have hE : numEmitting s.flushers = 0 :=
    countP_eq_zero_of_all hf (by intro x hx; cases x <;> simp_all [FPc.atRest, FPc.isEmitting])
  exact hi.reported_of_settled ha (pool_empty_of_inactive hi hp) (heldFL_eq_nil_of_numEmitting_zero hE)

/-- Exactly once, at rest: when the agent's nil callback has returned, no flush is under way and nothing
    is pooled, every gathered candidate has been reported exactly once and the marker exactly once. -/
theorem C24_exactly_once_at_rest {ps nf : Nat} {s : St} (h : Reachable ps nf s) (hr : atRest s = true) :
    (∀ c ∈ s.gathered, timesReported s c = 1) ∧ timesNil s = 1 := by
  have hi := inv_of_reachable h
  simp only [atRest, Bool.and_eq_true, decide_eq_true_eq, Bool.not_eq_true'] at hr
  obtain ⟨⟨hag, hall⟩, hpa⟩ := hr
  have hE : numEmitting s.flushers = 0 :=
    countP_eq_zero_of_all hall (by intro x hx; cases x <;> simp_all [FPc.atRest, FPc.isEmitting])
  have hN : numNilEmit s.flushers = 0 :=
    countP_eq_zero_of_all hall (by intro x hx; cases x <;> simp_all [FPc.atRest, FPc.isNilEmit])
  refine ⟨C24_candidates_exactly_once h (by rw [hag]; rfl) hall hpa, ?_⟩
  have hsg : s.signaled = true := by
    cases hsg : s.signaled with
    | true => rfl
    | false =>
      rcases hi.pending hag hsg with hp | hp
      · rw [hpa] at hp; cases hp
      · rw [hi.inflight, hE] at hp; omega
  have ht := hi.tokens
  rw [hsg, hag, hN] at ht
  simpa [timesNil] using ht

/-- The marker is never lost: if the agent is through, nothing is pooled and the marker has not been
    reported yet, some flush that will report it can take a step. -/
theorem C24_no_strand {ps nf : Nat} {s : St} (h : Reachable ps nf s) (hd : s.agent = .done)
    (hp : poolActive s = false) (hn : timesNil s = 0) :
    ∃ f, (step s (.flushEmit f)).isSome ∨ (step s (.flushEnd f)).isSome ∨ (step s (.flushNil f)).isSome := by
  have hi := inv_of_reachable h
  cases hsg : s.signaled with
  | false =>
    rcases hi.pending hd hsg with hp' | hp'
    · rw [hp] at hp'; cases hp'
    · rw [hi.inflight] at hp'
      obtain ⟨f, x, hf, hx⟩ := exists_of_countP_pos hp'
      refine ⟨f, ?_⟩
      cases x with
      | emitting rest =>
        cases rest with
        | nil => right; left; simp only [step, hf]; split <;> rfl
        | cons c rest => left; simp [step, hf]
      | idle => simp [FPc.isEmitting] at hx
      | nilEmit => simp [FPc.isEmitting] at hx
      | done => simp [FPc.isEmitting] at hx
  | true =>
    have ht := hi.tokens
    unfold timesNil at hn
    rw [hsg, hd, hn] at ht
    have hpos : 0 < List.countP FPc.isNilEmit s.flushers := by
      simp [numNilEmit] at ht; omega
    obtain ⟨f, x, hf, hx⟩ := exists_of_countP_pos hpos
    refine ⟨f, ?_⟩
    cases x with
    | nilEmit => right; right; simp [step, hf]
    | idle => simp [FPc.isNilEmit] at hx
    | emitting r => simp [FPc.isNilEmit] at hx
    | done => simp [FPc.isNilEmit] at hx

/-- With a candidate pool: while candidates are pooled (before the first `SetLocalDescription`) nothing
    is reported — in particular not the marker. -/
theorem C24_pooled_until_flush {ps nf : Nat} {s : St} (h : Reachable ps nf s) (hp : poolActive s = true) :
    s.emitted = [] :=
  ((inv_of_reachable h).pooled hp).1

/-- Without a candidate pool nothing is ever pooled: every candidate is handed over by the callback itself. -/
theorem C24_pool_size_zero_never_pools {nf : Nat} {s : St} (h : Reachable 0 nf s) : s.pool.getD [] = [] := by
  have hz : ∀ {s : St}, Reachable 0 nf s → s.poolSize = 0 := by
    intro s h
    induction h with
    | init => rfl
    | step a _ hs ih =>
      rename_i s1 s2
      cases a <;> simp only [step] at hs <;> (repeat' split at hs) <;> first | cases hs | skip
      all_goals first | exact ih | rfl | omega
  exact (inv_of_reachable h).poolEmpty (hz h)

/-- The property, at full strength, as one statement about every reachable state of every interleaving. -/
def C24_Full : Prop :=
  ∀ (ps nf : Nat) (s : St), Reachable ps nf s →
    (∀ c, timesReported s c ≤ 1) ∧
    (∀ c, some c ∈ s.emitted → c ∈ s.gathered) ∧
    timesNil s ≤ 1 ∧
    (∀ pre post, s.emitted = pre ++ none :: post →
      post = [] ∧ s.gstate = .complete ∧ ∀ c ∈ s.gathered, timesReported s c = 1) ∧
    (atRest s = true → (∀ c ∈ s.gathered, timesReported s c = 1) ∧ timesNil s = 1)

theorem C24_full : C24_Full := by
  intro ps nf s h
  refine ⟨C24_candidate_at_most_once h, C24_only_gathered_reported h, C24_nil_at_most_once h, ?_,
    C24_exactly_once_at_rest h⟩
  intro pre post he
  have hn : none ∈ s.emitted := by rw [he]; simp
  exact ⟨C24_nothing_after_nil h pre post he, C24_nil_after_every_candidate h hn⟩

/-- Trace validation rests on this: whatever program and schedule an op line carries, the simulator of
    `Drv/C24.lean` (whose output the correspondence run compares with the real code's trace) ends in a
    state of the transition system above — so every theorem here applies to every trace that was matched. -/
theorem C24_simulated_runs_are_reachable (p : Drv.C24.Prog) :
    Reachable p.pool (Drv.C24.initThreads p).2 (Drv.C24.simulate p).1.core :=
  Drv.C24.simulate_reachable p

/-! ### non-vacuity: concrete interleavings (the three schedules that failed before the repair) -/

-- pool 1: c1 pooled; nil callback stores `complete`; the flush runs completely inside the gap
-- (formerly: nil twice); afterwards a second flush (formerly: nil a third time)
example : (runActions (init 1 2)
    [.candBegin 1, .candTest, .nilBegin, .flushBegin 0, .flushEmit 0, .flushEnd 0, .flushNil 0, .nilTest,
     .flushBegin 1, .flushEnd 1]).map (fun s => (s.emitted, atRest s))
    = some ([some 1, none], true) := by decide

-- pool 1: the flush has taken c1 but not yet reported it when the nil callback runs (formerly: nil, then c1)
example : (runActions (init 1 1)
    [.candBegin 1, .candTest, .flushBegin 0, .nilBegin, .nilTest, .flushEmit 0, .flushEnd 0, .flushNil 0]).map
      (fun s => (s.emitted, atRest s))
    = some ([some 1, none], true) := by decide

-- pool 0: candidates go out directly, two overlapping flushes, then a restart with a second gathering
example : (runActions (init 0 2)
    [.flushBegin 0, .candBegin 1, .candTest, .flushBegin 1, .candEmit, .flushEnd 0, .nilBegin, .flushEnd 1,
     .flushNil 1, .nilTest, .regather, .candBegin 7, .candTest, .candEmit, .nilBegin, .nilTest, .nilEmit]).map
      (fun s => (s.emitted, s.gathered, s.rounds, atRest s))
    = some ([some 7, none], [7], 1, true) := by decide

-- the hypotheses of the theorems are satisfiable: reachable states at rest / with an active pool / stranded-looking
example : ∃ s, Reachable 1 1 s ∧ atRest s = true ∧ s.gathered = [1] :=
  ⟨_, reachable_run Reachable.init
    [.candBegin 1, .candTest, .flushBegin 0, .nilBegin, .nilTest, .flushEmit 0, .flushEnd 0, .flushNil 0] rfl,
    by decide, by decide⟩

example : ∃ s, Reachable 1 1 s ∧ poolActive s = true ∧ s.gathered = [1, 2] :=
  ⟨_, reachable_run Reachable.init [.candBegin 1, .candTest, .candBegin 2, .candTest] rfl, by decide, by decide⟩

example : ∃ s, Reachable 1 1 s ∧ s.agent = .done ∧ poolActive s = false ∧ timesNil s = 0 :=
  ⟨_, reachable_run Reachable.init [.candBegin 1, .candTest, .flushBegin 0, .nilBegin, .nilTest] rfl,
    by decide, by decide, by decide⟩

example : ∃ s, Reachable 0 1 s ∧ none ∈ s.emitted ∧ s.gathered = [3] :=
  ⟨_, reachable_run Reachable.init [.candBegin 3, .candTest, .candEmit, .nilBegin, .nilTest, .nilEmit] rfl,
    by decide, by decide⟩

/-! ### the code before the repair violated the property (model `Gather.Legacy`, the unchanged
    icegatherer.go; each run below was also reproduced on the real unrepaired code under the scheduler) -/
open WebrtcVerif.Gather.Legacy


/-- DESIGN §7 row 14 (second-flush-nil), sequential: gathering completes, a flush, then a second flush -/
theorem C24_legacy_second_flush_nil :
    (lrun (linit 0 2) [.candBegin 1, .candTest, .candEmit, .nilBegin, .nilTest, .nilEmit,
      .flushBegin 0, .flushEmit 0, .flushEnd 0, .flushNil 0, .flushBegin 1, .flushEmit 1, .flushEnd 1, .flushNil 1]).map
      (·.emitted) = some [some 1, none, none, none] := by decide

/-- row 15 (double-nil-race): the flush runs between `setState(complete)` and the callback's pool test -/
theorem C24_legacy_double_nil_race :
    (lrun (linit 1 1) [.candBegin 1, .candTest, .nilBegin,
      .flushBegin 0, .flushEmit 0, .flushEmit 0, .flushEnd 0, .flushNil 0, .nilTest, .nilEmit]).map (·.emitted)
    = some [some 1, none, none] := by decide

/-- row 16 (candidate-after-nil): the flush has taken the pool and read `gathering` when the nil callback runs -/
theorem C24_legacy_candidate_after_nil :
    (lrun (linit 1 1) [.candBegin 1, .candTest, .flushBegin 0, .flushEmit 0,
      .nilBegin, .nilTest, .nilEmit, .flushEmit 0, .flushEnd 0]).map (·.emitted)
    = some [none, some 1] := by decide

end WebrtcVerif.C24
