import WebrtcVerif.Proofs.JsepRounds
/-!
# C09 — Mids and m-section order are stable across renegotiations

"Once a transceiver has a mid, it never changes. In every later offer or answer that includes the
transceiver, its m-section keeps the same mid and the same position. New transceivers are appended after
existing sections and never reuse a mid that appeared in an earlier local or remote description."

Clause 1 is `C09_mid_immutable*`: for every operation and every history of the two-peer world (any order,
any signaling state, synthetic offers included) the transceiver list only grows and a transceiver keeps its
kind and, once set, its mid (`Ext`, index by index: `C09_mid_immutable_index`).

Clauses 2 and 3 are statements about sequences of descriptions.  Per call: a description generated on top
of a remote description starts with that description's mids in its order (`C09_offer_extends_remote`,
`C09_answer_lists_offer_mids`, every SDPSemantics) and the mids CreateOffer hands out are carried by no
transceiver and by none of the four descriptions the peer holds (`C09_numbered_mids_are_new`), a new
application section's mid by no section of the description (`C09_data_mid_is_new`).  For renegotiation
histories — rounds of additions / removals / stops on either peer followed by a complete offer/answer
exchange, offerer chosen freely each round — `C09_renegotiation_chain` proves that the descriptions form a
prefix chain: each one lists the mids of every earlier one at the same positions and appends its new
sections; with clause 1 this is "its m-section keeps the same mid and the same position".

The model mirrors the repaired code (fix commits 62545c3, ce37316).  Not covered by the chain theorem, and
recorded as findings where the code deviates: a second CreateOffer while the first offer is unanswered
(`reoffer-before-answer`), a remote that re-uses a mid numbered by an unapplied local offer
(`remote-reuses-unapplied-local-mid`), counter overflow (`mid-collision:int64-wrap`, hypothesis `NoWrap` of
`C09_numbered_mids_are_new`).  Plan-B descriptions order sections by kind and are outside C09.
-/
namespace WebrtcVerif.C09
open WebrtcVerif.Jsep

/-- Clause 1, one operation: whatever the operation, whichever peer, in whatever state. -/
theorem C09_mid_immutable (w : World) (op : Op) (p : Peer) : Ext (w.get p).trs ((step w op).1.get p).trs :=
  step_ext w op p

/-- Clause 1, whole histories. -/
theorem C09_mid_immutable_history (ops : List Op) (w : World) (p : Peer) :
    Ext (w.get p).trs ((finalWorld w ops).get p).trs :=
  finalWorld_ext ops w p

/-- … spelled out: the i-th transceiver stays the i-th, keeps its kind, and a mid it has is the mid it keeps. -/
theorem C09_mid_immutable_index (ops : List Op) (w : World) (p : Peer) (i : Nat) (t : Tr)
    (h : (w.get p).trs[i]? = some t) :
    ∃ t', ((finalWorld w ops).get p).trs[i]? = some t' ∧ t'.kind = t.kind ∧ ∀ m, t.mid = some m → t'.mid = some m :=
  (finalWorld_ext ops w p).get i t h

/-- SetMid semantics of the numbering loop: a transceiver that has a mid is skipped. -/
theorem C09_numbering_keeps_set_mids (st : St) : Ext st.trs (offerState st).trs := offerState_ext st

/-- Clause 2, offers: an offer generated on top of a remote description lists that description's mids first,
    in its order — every state, every SDPSemantics. -/
theorem C09_offer_extends_remote (st : St) (d r : Desc) (h : (createOffer st).2 = .ok d)
    (hcur : st.curRemote.isSome = true) (hrd : st.remoteDesc = some r) :
    (r.secs.map (·.mid)).IsPrefix (d.secs.map (·.mid)) :=
  offer_extends_remote st d r h hcur hrd

/-- Clause 2, answers: exactly the offer's mids in the offer's order. -/
theorem C09_answer_lists_offer_mids (st : St) (a : Desc) (h : (createAnswer st).2 = .ok a) :
    ∃ offer, st.remoteDesc = some offer ∧ a.secs.map (·.mid) = offer.secs.map (·.mid) := by
  obtain ⟨o, h1, h2, _⟩ := answer_mids st a h
  exact ⟨o, h1, h2⟩

/-- Clause 3: the mids the numbering loop hands out were held by no transceiver and appear in none of the
    descriptions the peer holds (current or pending, local or remote). -/
theorem C09_numbered_mids_are_new (st : St) (hsem : st.cfg.sem ≠ .planB) (inv : PeerInv st) (hw : NoWrap st) :
    ∀ t' ∈ (offerState st).trs, t' ∈ st.trs ∨
      ∃ k : Nat, t'.mid = some (.num k) ∧ (∀ t ∈ st.trs, t.mid ≠ some (.num k)) ∧
        ∀ x, (st.curRemote = some x ∨ st.pendRemote = some x ∨ st.curLocal = some x ∨ st.pendLocal = some x) →
          ∀ s ∈ x.secs, s.mid ≠ some (.num k) :=
  numbered_mids_fresh st hsem inv hw

/-- Clause 3 for the application section (DESIGN §7 row 4). -/
theorem C09_data_mid_is_new (ms : List MSec) : dataMid ms ∉ ms.map MSec.id := dataMid_fresh ms

/-- One negotiation round (all six calls succeed) from a synchronised world: the offer extends what was
    negotiated, the answer mirrors the offer, the world is synchronised again on the offer's mids. -/
theorem C09_round (w w' : World) (p : Peer) (O A : Desc) (hs : Synced w) (h : exchange w p = some (w', O, A)) :
    (w.negotiated).IsPrefix (O.secs.map (·.mid)) ∧ A.secs.map (·.mid) = O.secs.map (·.mid) ∧
      Synced w' ∧ w'.negotiated = O.secs.map (·.mid) := by
  obtain ⟨h1, h2, _, _, h5, h6⟩ := exchange_spec hs h
  exact ⟨h1, h2, h5, h6⟩

/-- `exchange` is nothing but the interpreter run on CreateOffer, SetLocalDescription, SetRemoteDescription,
    CreateAnswer, SetLocalDescription, SetRemoteDescription. -/
theorem C09_round_is_history (w w' : World) (p : Peer) (O A : Desc) (h : exchange w p = some (w', O, A)) :
    finalWorld w (exchangeOps p) = w' :=
  (exchange_is_run h).1

/-- **Clauses 2 and 3 for renegotiation histories.**  Two peers with any configurations; any number of
    rounds; in each round any additions / removals / stops of transceivers, tracks and data channels on either
    peer, then a complete exchange offered by either peer.  The descriptions, in the order they were created
    (offer, answer, offer, answer, …), form a prefix chain. -/
theorem C09_renegotiation_chain (ca cb : Cfg) (rounds : List (List Op × Peer)) (w' : World) (ds : List Desc)
    (hl : ∀ r ∈ rounds, r.1.all Op.isLocal = true)
    (h : runRounds { a := { cfg := ca }, b := { cfg := cb } } rounds = some (w', ds)) :
    PrefixChain [] ds :=
  (rounds_chain rounds _ w' ds (initial_synced ca cb) hl h).1

/-- … so a mid that a description carries at position i is carried at position i by every later one: sections
    keep mid and position, new sections are appended. -/
theorem C09_position_stable (ca cb : Cfg) (rounds : List (List Op × Peer)) (w' : World)
    (ds1 : List Desc) (d : Desc) (ds2 : List Desc)
    (hl : ∀ r ∈ rounds, r.1.all Op.isLocal = true)
    (h : runRounds { a := { cfg := ca }, b := { cfg := cb } } rounds = some (w', ds1 ++ d :: ds2))
    (d' : Desc) (hd' : d' ∈ ds2) (i : Nat) (m : Option Mid) (hi : (d.secs.map (·.mid))[i]? = some m) :
    (d'.secs.map (·.mid))[i]? = some m :=
  prefix_idx (PrefixChain.later ds1 d ds2 _ (C09_renegotiation_chain ca cb rounds w' _ hl h) d' hd') i m hi

/-! ### the recorded findings -/

/-- Clause 2/3 for every CreateOffer of every history (not only complete rounds): a created offer starts with
    the mids of every description the peer has applied.  False on this code: see the counterexample. -/
def C09_Full : Prop :=
  ∀ (st : St) (d l : Desc), (createOffer st).2 = .ok d → st.cfg.sem ≠ .planB → PeerInv st → NoWrap st →
    st.pendLocal = some l → (l.secs.map (·.mid)).IsPrefix (d.secs.map (·.mid))

def synSec (media : String) (mid : Mid) : Sec :=
  { media := media, mid := some mid, port0 := false, dirs := [.sendrecv], ufrag := true, pwd := true,
    setup := some .actpass, fp := false, codecOK := true }

/-- corpus/C09/findings.ops `reoffer-before-answer`: remote offer [audio "1"], answer, CreateDataChannel,
    CreateOffer, SetLocalDescription (offer [1, 2] pending), AddTransceiver(video) -/
def reofferState : St :=
  (finalWorld {} [
    .setRemoteSyn .a { typ := .offer, bundle := some [.num 1], sessFp := true, secs := [synSec "audio" (.num 1)] },
    .createAnswer .a, .setLocal .a false, .createDC .a, .createOffer .a, .setLocal .a false,
    .addTransceiver .a .video .sendrecv]).a

theorem C09_counterexample : ¬ C09_Full := by
  intro full
  have hl : reofferState.pendLocal.map (fun l => l.secs.map (·.mid)) = some [some (.num 1), some (.num 2)] := by
    decide +kernel
  have hd : (match (createOffer reofferState).2 with | .ok d => d.secs.map (·.mid) | .error _ => []) =
      [some (.num 1), some (.num 3), some (.num 2)] := by decide +kernel
  cases hp : reofferState.pendLocal with
  | none => rw [hp] at hl; cases hl
  | some l =>
    rw [hp] at hl
    simp only [Option.map_some, Option.some.injEq] at hl
    cases hc : (createOffer reofferState).2 with
    | error e => rw [hc] at hd; cases hd
    | ok d =>
      rw [hc] at hd
      simp only at hd
      have := full reofferState d l hc (by decide +kernel) ⟨by decide +kernel, by decide +kernel⟩ (by decide +kernel) hp
      rw [hl, hd] at this
      revert this
      decide

/-! ### non-vacuity -/

/-- three rounds: a offers audio + data; b adds video and offers; a stops a transceiver, adds audio, offers -/
def sampleRounds : List (List Op × Peer) :=
  [([.addTrack .a .audio, .createDC .a], .a),
   ([.addTransceiver .b .video .sendrecv], .b),
   ([.stop .a 0, .addTrack .a .audio, .removeTrack .b 1], .a)]

example : (runRounds {} sampleRounds).map (fun r => r.2.map fun d => d.secs.filterMap (·.mid)) =
    some [[.num 0, .num 1], [.num 0, .num 1], [.num 0, .num 1, .num 2], [.num 0, .num 1, .num 2],
          [.num 0, .num 1, .num 2, .num 3], [.num 0, .num 1, .num 2, .num 3]] := by decide +kernel

example : ∀ r ∈ sampleRounds, r.1.all Op.isLocal = true := by decide

end WebrtcVerif.C09
