import WebrtcVerif.Model.DcId
import WebrtcVerif.Proofs.DcIdLemmas
/-!
# C18 — Data channel stream ids are unique and follow the DTLS-role parity rule

"Every stream id a PeerConnection assigns to a data channel is even when the local DTLS role is client
and odd when it is server (RFC 8832). No assigned id is 65535 or equal to the id of another channel on
the same connection. Once a channel's id is set, it never changes."

Quantifier: bounded histories and concurrent interleavings of CreateDataChannel (with and without
explicit ids, before and after SCTP is connected), remote-created channels and channel closes, for both
DTLS roles.

Reading.  "Assigned" ids are the ids the PeerConnection generates (`Origin.auto`: CreateDataChannel
without `ID`); ids chosen by the application (`explicit`) or by the peer (`remote`) are registered but
not assigned, and the application may choose an id that is already in use.  "Equal to the id of another
channel" is therefore stated as: at the moment of assignment the id differs from the id of every channel
that has one, whatever its origin (`C18_fresh`, `C18_distinct_from_earlier`), and two assigned ids never
coincide (`C18_pairwise_distinct`).

The theorems quantify over *every* list of atomic sections (`List Action`) from the initial state —
any number of concurrent CreateDataChannel / open / Start / accept / close calls, interleaved at lock
granularity, including lists no real scheduler can produce — and sequential histories of API calls are
the special case `opsTrace` (`C18_histories_are_traces`).
-/
namespace WebrtcVerif.C18
open WebrtcVerif.DcId

/-! ### the generator: uint16 loop, parity, range, exhaustion -/

/-- The loop of `generateAndSetDataChannelID` always exits for `maxVal = 65535`: `maxVal-1 = 65534`
    and `id += 2` never wraps below that bound. -/
theorem C18_generate_terminates (role : Role) (u : Used) : generate role u ≠ .diverged := by
  intro h
  have := generate_spec role u
  rw [h] at this
  exact this

/-- A generated id is even exactly for the client role, is below 65534 (hence neither 65535 nor 65534),
    is not in `dataChannelIDsUsed`, and is the smallest such id of its parity. -/
theorem C18_generate_sound (role : Role) (u : Used) (g : UInt16) (h : generate role u = .found g) :
    (g.toNat % 2 = 0 ↔ role = roleClient) ∧ g.toNat < 65534 ∧ g ≠ 65535 ∧ isUsed u g = false ∧
      ∀ j : UInt16, j.toNat < g.toNat → j.toNat % 2 = g.toNat % 2 → isUsed u j = true := by
  obtain ⟨⟨h1, h2⟩, h3, h4⟩ := generate_found h
  refine ⟨h2, h1, ?_, h3, h4⟩
  intro h65
  rw [h65] at h1
  exact absurd h1 (by decide)

/-- server role: odd -/
theorem C18_generate_server_odd (u : Used) (g : UInt16) (h : generate roleServer u = .found g) :
    g.toNat % 2 = 1 := by
  have := (C18_generate_sound roleServer u g h).1
  have hne : roleServer ≠ roleClient := by decide
  have : ¬ g.toNat % 2 = 0 := fun h0 => hne (this.mp h0)
  omega

/-- `ErrMaxDataChannelID` is returned exactly when all 32767 ids of the role's parity below 65534 are
    in use (client: 0,2,…,65532; otherwise 1,3,…,65533). -/
theorem C18_exhaustion (role : Role) (u : Used) :
    generate role u = .exhausted ↔
      ∀ n : Nat, n < 32767 → isUsed u (UInt16.ofNat (startNat role + 2 * n)) = true := by
  have hlt : startNat role < 2 := by unfold startNat; split <;> omega
  have hspec := generate_spec role u
  constructor
  · intro h n hn
    rw [h] at hspec
    have h1 : (UInt16.ofNat (startNat role + 2 * n)).toNat = startNat role + 2 * n := by
      rw [UInt16.toNat_ofNat']; omega
    exact hspec _ (by rw [h1]; omega) (by rw [h1]; omega)
  · intro h
    cases hg : generate role u with
    | exhausted => rfl
    | diverged => rw [hg] at hspec; exact absurd hspec id
    | found r =>
      rw [hg] at hspec
      obtain ⟨h1, h2, h3, _⟩ := hspec
      have := h ((r.toNat - startNat role) / 2) (by omega)
      have h4 : startNat role + 2 * ((r.toNat - startNat role) / 2) = r.toNat := by omega
      rw [h4] at this
      have h5 : UInt16.ofNat r.toNat = r := by simp
      rw [h5, h3] at this
      cases this

/-- The uint16 wrap is part of the model: with the bound 65535 (a missing `-1`, or `maxVal = 0`) and all
    even ids in use the client loop wraps from 65534 to 0 and never exits. -/
theorem C18_wrap_is_modelled (u : Used) (hu : ∀ j : UInt16, j.toNat % 2 = 0 → isUsed u j = true)
    (fuel : Nat) : genLoop u 65535 fuel (startId roleClient) = .diverged := by
  exact genLoop_diverges u hu fuel _ (by decide)

/-! ### all interleavings of the atomic sections -/

/-- Parity rule: in every reachable state every id assigned by the PeerConnection — stored in `d.id`
    or generated and about to be stored — is even iff the local DTLS role is client. -/
theorem C18_parity (u0 : Used) (as : List Action) (k : Nat) (c : Chan) (g : UInt16)
    (hc : (run (initWith u0) as).chans[k]? = some c) (ho : c.origin = .auto) (hg : c.held = some g) :
    (g.toNat % 2 = 0 ↔ (run (initWith u0) as).role = roleClient) := by
  exact ((inv_run (initWith u0) as (inv_initWith u0)).good k c g hc ho hg).2.2

/-- …in particular odd when the role is server. -/
theorem C18_parity_server (u0 : Used) (as : List Action) (k : Nat) (c : Chan) (g : UInt16)
    (hc : (run (initWith u0) as).chans[k]? = some c) (ho : c.origin = .auto) (hg : c.id = some g)
    (hr : (run (initWith u0) as).role = roleServer) : g.toNat % 2 = 1 := by
  have hheld : c.held = some g := by simp [Chan.held, hg]
  have := C18_parity u0 as k c g hc ho hheld
  rw [hr] at this
  have hne : roleServer ≠ roleClient := by decide
  have : ¬ g.toNat % 2 = 0 := fun h0 => hne (this.mp h0)
  omega

/-- No assigned id is 65535 (nor 65534). -/
theorem C18_never_65535 (u0 : Used) (as : List Action) (k : Nat) (c : Chan) (g : UInt16)
    (hc : (run (initWith u0) as).chans[k]? = some c) (ho : c.origin = .auto) (hg : c.held = some g) :
    g ≠ 65535 ∧ g.toNat < 65534 := by
  have h1 := ((inv_run (initWith u0) as (inv_initWith u0)).good k c g hc ho hg).2.1
  refine ⟨?_, h1⟩
  intro h65
  rw [h65] at h1
  exact absurd h1 (by decide)

/-- Two channels never hold the same assigned id. -/
theorem C18_pairwise_distinct (u0 : Used) (as : List Action) (i j : Nat) (ci cj : Chan) (a b : UInt16) (hij : i ≠ j)
    (hci : (run (initWith u0) as).chans[i]? = some ci) (hcj : (run (initWith u0) as).chans[j]? = some cj)
    (hoi : ci.origin = .auto) (hoj : cj.origin = .auto) (ha : ci.held = some a) (hb : cj.held = some b) :
    a ≠ b := by
  exact (inv_run (initWith u0) as (inv_initWith u0)).distinct i j ci cj a b hij hci hcj hoi hoj ha hb

/-- Every id a channel has — assigned, explicit or remote — is registered in `dataChannelIDsUsed`. -/
theorem C18_ids_registered (u0 : Used) (as : List Action) (k : Nat) (c : Chan) (i : UInt16)
    (hc : (run (initWith u0) as).chans[k]? = some c) (hi : c.held = some i) :
    isUsed (run (initWith u0) as).used i = true := by
  exact (inv_run (initWith u0) as (inv_initWith u0)).heldUsed k c i hc hi

/-- Freshness at the moment of assignment: when the generator runs for channel `k` in a reachable state
    and returns `g`, no channel of the connection (explicit, remote or assigned; stored or about to be
    stored) has `g`; afterwards `g` is registered and channel `k` holds it. -/
theorem C18_fresh (u0 : Used) (as : List Action) (k : Nat) (c : Chan) (g : UInt16)
    (hc : (run (initWith u0) as).chans[k]? = some c) (hp : c.pc = .wantGen)
    (hg : generate (run (initWith u0) as).role (run (initWith u0) as).used = .found g) :
    (∀ (j : Nat) (cj : Chan) (i : UInt16), (run (initWith u0) as).chans[j]? = some cj → cj.held = some i → i ≠ g) ∧
    isUsed (step (run (initWith u0) as) (.openGen k)).used g = true ∧
    ∃ c', (step (run (initWith u0) as) (.openGen k)).chans[k]? = some c' ∧ c'.held = some g ∧ c'.id = none := by
  have hinv := inv_run (initWith u0) as (inv_initWith u0)
  obtain ⟨_, hfresh, _⟩ := generate_found hg
  have hid := (hinv.pcBusy k c hc (by simp [hp])).1
  refine ⟨?_, ?_, ?_⟩
  · intro j cj i hcj hi hig
    have := hinv.heldUsed j cj i hcj hi
    rw [hig, hfresh] at this
    cases this
  · simp only [step, hc, hp, if_true, hg]
    exact isUsed_insert_self _ _
  · simp only [step, hc, hp, if_true, hg]
    refine ⟨{ c with pc := .got g }, ?_, ?_, hid⟩
    · rw [getElem?_updAt]; simp [hc]
    · simp [Chan.held, hid]

/-- Once a channel's id is set it never changes: no atomic section, in any reachable state, alters a
    stored id (the unconditional `d.id = dcID` of `open` only runs while `d.id == nil`). -/
theorem C18_id_immutable (u0 : Used) (as : List Action) (a : Action) (k : Nat) (c : Chan) (i : UInt16)
    (hc : (run (initWith u0) as).chans[k]? = some c) (hi : c.id = some i) :
    ∃ c', (step (run (initWith u0) as) a).chans[k]? = some c' ∧ c'.id = some i ∧ c'.origin = c.origin := by
  obtain ⟨c', h1, h2, h3, _⟩ := step_keeps (run (initWith u0) as) a (inv_run (initWith u0) as (inv_initWith u0)) hc
  exact ⟨c', h1, h3 i hi, h2⟩

/-- …nor does any continuation of the execution. -/
theorem C18_id_immutable_run (u0 : Used) (as more : List Action) (k : Nat) (c : Chan) (i : UInt16)
    (hc : (run (initWith u0) as).chans[k]? = some c) (hi : c.id = some i) :
    ∃ c', (run (initWith u0) (as ++ more)).chans[k]? = some c' ∧ c'.id = some i ∧ c'.origin = c.origin := by
  obtain ⟨c', h1, h2, h3, _⟩ := run_keeps (run (initWith u0) as) more (inv_run (initWith u0) as (inv_initWith u0)) hc
  refine ⟨c', ?_, h3 i hi, h2⟩
  simpa [run, List.foldl_append] using h1

/-- An assigned id differs from the id of every channel that had one before the assignment — explicit,
    remote or assigned: if the generator returns `g` for channel `k` after `pre`, then after any
    continuation `post` channel `k` still holds `g`, every channel `j` that held `b` still holds `b`,
    and `g ≠ b`. -/
theorem C18_distinct_from_earlier (u0 : Used) (pre post : List Action) (k j : Nat) (c cj : Chan) (b g : UInt16)
    (hc : (run (initWith u0) pre).chans[k]? = some c) (hp : c.pc = .wantGen)
    (hg : generate (run (initWith u0) pre).role (run (initWith u0) pre).used = .found g)
    (hcj : (run (initWith u0) pre).chans[j]? = some cj) (hb : cj.held = some b) :
    g ≠ b ∧ ∃ c' cj', (run (initWith u0) (pre ++ .openGen k :: post)).chans[k]? = some c' ∧ c'.held = some g ∧
      (run (initWith u0) (pre ++ .openGen k :: post)).chans[j]? = some cj' ∧ cj'.held = some b := by
  have hinv := inv_run (initWith u0) pre (inv_initWith u0)
  have hrun : run (initWith u0) (pre ++ .openGen k :: post) = run (step (run (initWith u0) pre) (.openGen k)) post := by
    simp [run, List.foldl_append]
  have hinv1 := inv_step _ (.openGen k) hinv
  obtain ⟨cj1, hj1, _, _, hj4⟩ := step_keeps (run (initWith u0) pre) (.openGen k) hinv hcj
  obtain ⟨cj2, hj5, _, _, hj8⟩ := run_keeps _ post hinv1 hj1
  obtain ⟨hfresh, _, c1, hc1, hheld1, _⟩ := C18_fresh u0 pre k c g hc hp hg
  obtain ⟨c2, hc2, _, _, hk4⟩ := run_keeps _ post hinv1 hc1
  refine ⟨fun hgb => hfresh j cj b hcj hb hgb.symm, c2, cj2, ?_, hk4 g hheld1, ?_, hj8 b (hj4 b hb)⟩
  · rw [hrun]; exact hc2
  · rw [hrun]; exact hj5

/-- `d.id = dcID`: the store writes exactly the generated id. -/
theorem C18_store_writes_generated (u0 : Used) (as : List Action) (k : Nat) (c : Chan) (g : UInt16)
    (hc : (run (initWith u0) as).chans[k]? = some c) (hp : c.pc = .got g) :
    ∃ c', (step (run (initWith u0) as) (.openStore k)).chans[k]? = some c' ∧ c'.id = some g := by
  refine ⟨storeChan c, ?_, ?_⟩
  · simp only [step]; rw [getElem?_updAt]; simp [hc]
  · simp [storeChan, hp]

/-- An explicit id is the channel's id from the registration on, whatever happens afterwards (and it is
    registered): CreateDataChannel never replaces an id chosen by the application. -/
theorem C18_explicit_keeps_requested (u0 : Used) (as more : List Action) (i : UInt16) :
    ∃ c', (run (initWith u0) (as ++ .create (some i) :: more)).chans[(run (initWith u0) as).chans.length]? = some c' ∧
      c'.id = some i ∧ c'.origin = .explicit := by
  have hrun : run (initWith u0) (as ++ .create (some i) :: more)
      = run (step (run (initWith u0) as) (.create (some i))) more := by simp [run, List.foldl_append]
  have hinv := inv_step _ (.create (some i)) (inv_run (initWith u0) as (inv_initWith u0))
  have hc : (step (run (initWith u0) as) (.create (some i))).chans[(run (initWith u0) as).chans.length]?
      = some { origin := .explicit, id := some i, tset := false } := by
    simp [step]
  obtain ⟨c', h1, h2, h3, _⟩ := run_keeps _ more hinv hc
  exact ⟨c', by rw [hrun]; exact h1, h3 i rfl, h2⟩

/-- CreateDataChannel without id on a connected transport with nothing else running returns at once with
    the generator's answer for the current id set: the smallest unused id of the role's parity below 65534,
    which it registers — or, when there is none, the channel stays registered without id and with
    `d.sctpTransport` set (the call returns ErrMaxDataChannelID). -/
theorem C18_create_connected (s : St) (ha : s.assoc = true) :
    applyOp s (.create none) =
      match generate s.role s.used with
      | .found g => { s with used := s.used.insert g,
                             chans := s.chans ++ [{ origin := .auto, id := some g, tset := true }] }
      | _ => { s with chans := s.chans ++ [{ origin := .auto, id := none, tset := true }] } :=
  applyOp_create_auto_connected s ha

/-- A channel whose `open` failed in the generator never gets an id afterwards: `d.sctpTransport` stays
    set, so every later `open` returns at the "already open" test. -/
theorem C18_failed_open_is_final (s : St) (as : List Action) (k : Nat) (c : Chan)
    (hc : s.chans[k]? = some c) (hd : c.tset = true ∧ c.pc = .idle ∧ c.id = none) :
    ∃ c', (run s as).chans[k]? = some c' ∧ c'.id = none := by
  obtain ⟨c', h1, h2⟩ := run_dead s as hc hd
  exact ⟨c', h1, h2.2.2⟩

/-! ### sequential histories of API calls are traces of atomic sections -/

theorem C18_histories_are_traces (u0 : Used) (ops : List Op) : runOps (initWith u0) ops = run (initWith u0) (opsTrace (initWith u0) ops) :=
  runOps_eq_run (initWith u0) ops

/-- The property for every sequential history (any length, any mix of CreateDataChannel with/without id,
    connect with either role, remote channels, closes): assigned ids obey the parity rule, are below
    65534, are pairwise distinct, and are registered. -/
theorem C18_history (u0 : Used) (ops : List Op) (i j : Nat) (ci cj : Chan) (a b : UInt16)
    (hci : (runOps (initWith u0) ops).chans[i]? = some ci) (hcj : (runOps (initWith u0) ops).chans[j]? = some cj)
    (hoi : ci.origin = .auto) (ha : ci.id = some a) (hb : cj.id = some b) :
    (a.toNat % 2 = 0 ↔ (runOps (initWith u0) ops).role = roleClient) ∧ a ≠ 65535 ∧
      isUsed (runOps (initWith u0) ops).used a = true ∧ (i ≠ j → cj.origin = .auto → a ≠ b) := by
  rw [C18_histories_are_traces u0] at hci hcj ⊢
  have ha' : ci.held = some a := by simp [Chan.held, ha]
  have hb' : cj.held = some b := by simp [Chan.held, hb]
  exact ⟨C18_parity u0 _ i ci a hci hoi ha', (C18_never_65535 u0 _ i ci a hci hoi ha').1,
    C18_ids_registered u0 _ i ci a hci ha',
    fun hij hoj => C18_pairwise_distinct u0 _ i j ci cj a b hij hci hcj hoi hoj ha' hb'⟩

/-- A history never changes an id that is set: extending the history keeps it. -/
theorem C18_history_id_immutable (u0 : Used) (ops more : List Op) (k : Nat) (c : Chan) (i : UInt16)
    (hc : (runOps (initWith u0) ops).chans[k]? = some c) (hi : c.id = some i) :
    ∃ c', (runOps (initWith u0) (ops ++ more)).chans[k]? = some c' ∧ c'.id = some i := by
  have hsplit : runOps (initWith u0) (ops ++ more) = runOps (runOps (initWith u0) ops) more := by
    simp [runOps, List.foldl_append]
  rw [hsplit, runOps_eq_run (runOps (initWith u0) ops) more]
  have hinv : Inv (runOps (initWith u0) ops) := by rw [C18_histories_are_traces u0]; exact inv_run (initWith u0) _ (inv_initWith u0)
  obtain ⟨c', h1, _, h3, _⟩ := run_keeps (runOps (initWith u0) ops) (opsTrace (runOps (initWith u0) ops) more) hinv hc
  exact ⟨c', h1, h3 i hi⟩

/-! ### non-vacuity: concrete histories -/

-- the hypotheses of C18_fresh / C18_distinct_from_earlier are satisfiable: explicit 0 and remote 2 are
-- registered, the client generator returns 4 for the pending channel
example :
    let s := run init [.create none, .create (some 0), .start roleClient, .remote 2, .openBegin 0]
    (∃ c, s.chans[0]? = some c ∧ c.pc = .wantGen) ∧ generate s.role s.used = .found 4 := by
  decide

-- a history with both kinds of channels, before and after connect, server role: ids 1, 5 assigned around
-- the explicit 3; the channel closed before connect never gets an id
example :
    ((runOps init [.create none, .create (some 3), .create none, .close 2, .connect roleServer,
        .create none, .remote 0, .create none]).chans.map (·.id))
      = [some 1, some 3, none, some 5, some 0, some 7] := by
  decide

-- client role, explicit and remote ids of the client's parity are skipped
example :
    ((runOps init [.create (some 0), .connect roleClient, .remote 2, .create none, .create (some 6),
        .create none, .create none]).chans.map (·.id))
      = [some 0, some 2, some 4, some 6, some 8, some 10] := by
  decide

-- exhaustion is reachable: all client ids registered through one progression
private theorem client_full : generate roleClient [⟨0, 65532, 2⟩] = .exhausted := by
  rw [C18_exhaustion]
  intro n hn
  have h1 : (UInt16.ofNat (startNat roleClient + 2 * n)).toNat = 2 * n := by
    rw [UInt16.toNat_ofNat']; simp [startNat]; omega
  generalize UInt16.ofNat (startNat roleClient + 2 * n) = v at h1
  have hlo : ((0 : UInt16) ≤ v) := by rw [UInt16.le_iff_toNat_le]; simp
  have hhi : (v ≤ (65532 : UInt16)) := by
    rw [UInt16.le_iff_toNat_le, h1]
    have : (65532 : UInt16).toNat = 65532 := by decide
    rw [this]; omega
  have h0 : (0 : UInt16).toNat = 0 := by decide
  have h2 : ((2 : UInt16) = 0) = False := by decide
  have h3 : (2 : UInt16).toNat = 2 := by decide
  simp [isUsed, Rng.has, hlo, hhi, h1, h0, h2, h3]

-- a reachable state satisfying the hypothesis of C18_failed_open_is_final: every client id is taken
-- (pre-filled set); the channel created after connect fails in the generator and is left without id
example :
    let s := run (initWith [⟨0, 65532, 2⟩]) [.start roleClient]
    ∃ c, (applyOp s (.create none)).chans[0]? = some c ∧ c.tset = true ∧ c.pc = .idle ∧ c.id = none := by
  intro s
  have hg : generate s.role s.used = .exhausted := client_full
  rw [C18_create_connected s rfl, hg]
  exact ⟨_, rfl, rfl, rfl, rfl⟩

-- and the hypothesis of C18_wrap_is_modelled is satisfiable
example : ∀ j : UInt16, j.toNat % 2 = 0 → isUsed [⟨0, 65534, 2⟩] j = true := by
  intro j hj
  have hlo : ((0 : UInt16) ≤ j) := by rw [UInt16.le_iff_toNat_le]; simp
  have hhi : (j ≤ (65534 : UInt16)) := by
    rw [UInt16.le_iff_toNat_le]
    have : (65534 : UInt16).toNat = 65534 := by decide
    have := j.toNat_lt
    omega
  have h0 : (0 : UInt16).toNat = 0 := by decide
  have h2 : ((2 : UInt16) = 0) = False := by decide
  have h3 : (2 : UInt16).toNat = 2 := by decide
  simp [isUsed, Rng.has, hhi, hj]

end WebrtcVerif.C18
