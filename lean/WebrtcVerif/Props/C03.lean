import WebrtcVerif.Model.Signaling
import WebrtcVerif.Proofs.SignalingLemmas
/-!
# C03 — A rejected SetLocal/SetRemoteDescription leaves negotiation state unchanged

"If SetLocalDescription or SetRemoteDescription returns an error, the signaling state and the four
pending/current descriptions are exactly what they were before the call, and no signaling-state-change event
is emitted. This holds whatever the error: an invalid transition, unparsable SDP, a description that doesn't
match the last created offer or answer, or a semantically invalid description such as a media section without
a mid."

The model mirrors the code after `fix: SetRemoteDescription validates the description before applying it`
(mid presence, ICE credentials / candidates and fingerprint are now checked before `setDescription`; DESIGN §7
row 2).  What the repair could not move in front of the commit point is still there, and still violates the
statement: errors of steps that run after `setDescription` and have side effects of their own —
  * `.engine`      `mediaEngine.updateFromRemoteDescription` (witnessed on the real code: a payload type or rtx
                   `apt` that is not a number; recorded finding `state-changed-on-error:codec`),
  * `.remotePost`  transceiver.Stop / NewRTPReceiver / SetMid / ICE restart, credentials, AddRemoteCandidate /
                   startRTPSenders in SetRemoteDescription,
  * `.localPost`   startRTPSenders / iceGatherer.Gather in SetLocalDescription
(the last two are modelled as oracle flags of the call; no input that triggers them through the public API
with a working ICE agent was found).  Hence: full statement as a `def`, a counterexample, and the theorem for
every other error.
-/
namespace WebrtcVerif.C03
open WebrtcVerif.Signaling

/-- "the call changed nothing": same negotiation state (signaling state, the four descriptions — and the rest
    of the record), no event -/
def Untouched (s : Neg) (r : Res) : Prop := r.st = s ∧ r.events = []

/-- The property at full strength, for every state and every description. -/
def C03_Full : Prop :=
  ∀ (s : Neg) (d : Desc),
    ((setLocal s d).err ≠ none → Untouched s (setLocal s d)) ∧
    ((setRemote s d).err ≠ none → Untouched s (setRemote s d))

/-- It does not hold: a remote offer the media engine rejects returns an error, yet the state is
    have-remote-offer, the offer is the pending remote description and an event was emitted. -/
theorem C03_counterexample : ¬ C03_Full := by
  intro h
  have := (h Neg.init { ty := .offer, txt := .made 1 13, f := { engineOk := false } }).2 (by decide)
  exact absurd this.1 (by decide)

/-- **Every error other than the post-commit ones leaves everything untouched** — closed connection, invalid
    SDPType, empty text for a type that has no "last created" description, unparsable SDP, text differing
    from the last created offer/answer, invalid transition, rollback from stable, media section without mid,
    missing ICE ufrag / pwd, unparsable candidates, missing or malformed fingerprint: whatever the state and
    the description.  (`Err.postCommit e` is true exactly for `.engine`, `.remotePost`, `.localPost`.) -/
theorem C03_rejected_call_changes_nothing (s : Neg) (d : Desc) (e : Err) (hp : Err.postCommit e = false) :
    ((setLocal s d).err = some e → Untouched s (setLocal s d)) ∧
    ((setRemote s d).err = some e → Untouched s (setRemote s d)) := by
  constructor
  · intro h
    rcases setLocal_outcome s d with ⟨_, hst, hev⟩ | ⟨_, _, _, _, _, _, _, hn | ⟨hl, _⟩⟩
    · exact ⟨hst, hev⟩
    · rw [h] at hn; cases hn
    · rw [h] at hl; cases hl; simp [Err.postCommit] at hp
  · intro h
    rcases setRemote_outcome s d with ⟨_, hst, hev⟩ | ⟨_, _, _, hn | ⟨_, ⟨hl, _⟩ | ⟨hl, _⟩⟩⟩
    · exact ⟨hst, hev⟩
    · rw [h] at hn; cases hn
    · rw [h] at hl; cases hl; simp [Err.postCommit] at hp
    · rw [h] at hl; cases hl; simp [Err.postCommit] at hp

/-- The statement under the hypothesis that excludes exactly the recorded finding: when the steps after the
    commit point do not fail (the three oracle flags), *any* error leaves everything untouched. -/
theorem C03_holds_without_postcommit_failures_partial (s : Neg) (d : Desc)
    (h1 : d.f.engineOk = true) (h2 : d.f.remotePostOk = true) (h3 : d.f.localPostOk = true) :
    ((setLocal s d).err ≠ none → Untouched s (setLocal s d)) ∧
    ((setRemote s d).err ≠ none → Untouched s (setRemote s d)) := by
  constructor
  · intro h
    rcases setLocal_outcome s d with ⟨_, hst, hev⟩ | ⟨_, _, _, _, _, _, _, hn | ⟨_, hl, _⟩⟩
    · exact ⟨hst, hev⟩
    · exact absurd hn h
    · simp [h3] at hl
  · intro h
    rcases setRemote_outcome s d with ⟨_, hst, hev⟩ | ⟨_, _, _, hn | ⟨_, ⟨_, hl⟩ | ⟨_, hl⟩⟩⟩
    · exact ⟨hst, hev⟩
    · exact absurd hn h
    · simp [h1] at hl
    · simp [h2] at hl

/-- Which check rejects what, in SetRemoteDescription (the validations the repair moved): each of these
    defects of the description is reported with its own error, before anything is applied. -/
theorem C03_remote_validation_errors (s : Neg) (d : Desc) (hc : s.isClosed = false) (hr : d.ty ≠ .rollback) :
    (d.f.parses = false → (setRemote s d).err = some .parse) ∧
    (d.f.parses = true → d.ty ≠ .answer → d.f.midOk = false → (setRemote s d).err = some .nomid) ∧
    (d.f.parses = true → d.f.midOk = true → d.f.candOk = false → (setRemote s d).err = some .cand) ∧
    (d.f.parses = true → d.f.midOk = true → d.f.candOk = true → d.f.ufragOk = false →
        (setRemote s d).err = some .noufrag) ∧
    (d.f.parses = true → d.f.midOk = true → d.f.candOk = true → d.f.ufragOk = true → d.f.pwdOk = false →
        (setRemote s d).err = some .nopwd) ∧
    (d.f.parses = true → d.f.midOk = true → d.f.candOk = true → d.f.ufragOk = true → d.f.pwdOk = true →
        s.curR = none → d.f.fpPresent = false → (setRemote s d).err = some .nofp) ∧
    (d.f.parses = true → d.f.midOk = true → d.f.candOk = true → d.f.ufragOk = true → d.f.pwdOk = true →
        s.curR = none → d.f.fpPresent = true → d.f.fpWellFormed = false → (setRemote s d).err = some .badfp) := by
  refine ⟨?_, ?_, ?_, ?_, ?_, ?_, ?_⟩ <;> intros <;>
    simp_all [setRemote, remotePreCheck, fail]

/-- The same for SetLocalDescription: which defect yields which error. -/
theorem C03_local_validation_errors (s : Neg) (d : Desc) (hc : s.isClosed = false) (hr : d.ty ≠ .rollback) :
    (d.txt = .empty → d.ty = .unknown → (setLocal s d).err = some .emptysdp) ∧
    (d.txt ≠ .empty → d.f.parses = false → (setLocal s d).err = some .parse) ∧
    (d.txt ≠ .empty → d.f.parses = true → d.ty = .unknown → (setLocal s d).err = some .type) ∧
    (d.txt ≠ .empty → d.f.parses = true → d.ty = .offer → d.txt ≠ s.lastOffer →
        (setLocal s d).err = some .mismatchOffer) ∧
    (d.txt ≠ .empty → d.f.parses = true → (d.ty = .answer ∨ d.ty = .pranswer) → d.txt ≠ s.lastAnswer →
        (setLocal s d).err = some .mismatchAnswer) := by
  refine ⟨?_, ?_, ?_, ?_, ?_⟩
  · intro h1 h2; simp [setLocal, localSubst, hc, h1, h2, fail]
  · intro h1 h2; simp [setLocal, localSubst, hc, hr, h1, h2, fail]
  · intro h1 h2 h3; simp [setLocal, localSubst, localPost, setDescription, hc, h1, h2, h3, fail]
  · intro h1 h2 h3 h4; simp [setLocal, localSubst, localPost, setDescription, hc, h1, h2, h3, h4, fail]
  · intro h1 h2 h3 h4
    rcases h3 with h3 | h3 <;> simp [setLocal, localSubst, localPost, setDescription, hc, h1, h2, h3, h4, fail]

example : (setLocal { lastAnswer := .made 2 0, sig := .haveRemoteOffer } { ty := .pranswer, txt := .made 3 0 }).err
    = some .mismatchAnswer := by decide

/-- A rejected call is invisible to the rest of the history: removing it changes nothing afterwards. -/
theorem C03_rejected_call_invisible (s : Neg) (xs ys : List Action) (a : Action) (e : Err)
    (ha : (∃ d, a = .setLocal d) ∨ (∃ d, a = .setRemote d))
    (he : (step (run s xs) a).err = some e) (hp : Err.postCommit e = false) :
    run s (xs ++ a :: ys) = run s (xs ++ ys) := by
  rw [run_append, run_append, run_cons]
  congr 1
  rcases ha with ⟨d, rfl⟩ | ⟨d, rfl⟩
  · exact ((C03_rejected_call_changes_nothing (run s xs) d e hp).1 he).1
  · exact ((C03_rejected_call_changes_nothing (run s xs) d e hp).2 he).1

/-- What the recorded finding looks like: when the media engine (or a later step) rejects a description, the
    negotiation state and the event are exactly what the successful transition produced — `setDescription`
    had accepted it along a JSEP edge. -/
theorem C03_postcommit_error_state (s : Neg) (d : Desc) (e : Err)
    (he : (setRemote s d).err = some e) (hp : Err.postCommit e = true) :
    (setDescription s d .setRemote).err = none ∧
    (setRemote s d).st = (setDescription s d .setRemote).st ∧
    (setRemote s d).events = (setDescription s d .setRemote).events ∧
    (setRemote s d).events = [(setRemote s d).st.sig] := by
  rcases setRemote_outcome s d with ⟨⟨e', he', hp'⟩, _⟩ | ⟨hok, hst, hev, _⟩
  · rw [he] at he'; cases he'; rw [hp] at hp'; cases hp'
  · obtain ⟨_, _, _, _, _, hst', hev'⟩ := setDescription_ok s d .setRemote hok
    exact ⟨hok, hst, hev, by rw [hev, hst, hev', hst']⟩

-- non-vacuity
example : (setRemote {} { ty := .offer, txt := .made 1 2, f := { midOk := false, ufragOk := false } }).err
    = some .nomid := by decide
example : (setRemote { sig := .haveLocalOffer } { ty := .offer, txt := .made 1 0 }).err = some .transition := by
  decide
example : (setLocal { lastOffer := .made 2 0 } { ty := .offer, txt := .made 1 0 }).err = some .mismatchOffer := by
  decide
example : (setRemote {} { ty := .offer, txt := .made 1 13, f := { engineOk := false } }).st.sig
    = .haveRemoteOffer := by decide
example : run Neg.init [.createOffer 1, .setRemote { ty := .answer, txt := .made 9 0 },
      .setLocal { ty := .offer, txt := .made 1 0 }]
    = run Neg.init [.createOffer 1, .setLocal { ty := .offer, txt := .made 1 0 }] := by decide

end WebrtcVerif.C03
