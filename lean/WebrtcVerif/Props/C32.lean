import WebrtcVerif.Model.Ivf
import WebrtcVerif.Proofs.IvfLemmas
/-!
# C32 — IVF writer output reads back as the written frames

"For any RTP packet stream of VP8, VP9 or AV1 that starts with a keyframe, IVFReader reads the file
IVFWriter produced back as exactly the frames the writer assembled: the same bytes, in order. The
header carries the configured FourCC, size and timebase, and when the output is seekable the frame
count equals the number of frames written. Frame timestamps agree with the writer's PTS computation."

Model: `Model/Ivf.lean` (ivfwriter.go + ivfreader.go, branch by branch).  pion/rtp's depacketizers are
external; a packet is the descriptor the depacketizer returned for it (`Desc`).  `W.log` is the ghost
list of `writeFrame` calls: "the frames the writer assembled".

Hypotheses that appear below and why:
* `ValidConfig` — width/height are `uint16`, the timebase terms `uint32`, and **both are non-zero**: a zero
  denominator is refused by `ivfwriter.NewWith` (`C32_zero_denominator_refused`); a zero numerator is
  accepted by the writer but is not a frame rate, and the reader refuses such a file
  (`C32_zero_numerator_unreadable`).
* every assembled frame is shorter than 2^32 bytes (the IVF length field is `uint32(len(frame))`).
-/
namespace WebrtcVerif.C32
open WebrtcVerif.Bytes WebrtcVerif.Ivf

/-- what the options can set: `uint16` size, `uint32` non-zero timebase terms -/
def ValidConfig (c : Config) : Prop :=
  c.width < 65536 ∧ c.height < 65536 ∧ c.num < two32 ∧ c.den < two32 ∧ c.num ≠ 0 ∧ c.den ≠ 0

/-- the file header the reader must report: configured FourCC, size and timebase, and `n` frames -/
def headerOf (c : Config) (n : Nat) : FileHeader :=
  { signature := signature, version := 0, headerSize := 32, fourCC := fourCC c.codec,
    width := c.width, height := c.height, den := c.den, num := c.num, numFrames := n, unused := 0 }

/-- what the reader must return for an assembled frame: its bytes, its length, and the timestamp
    `pts · den / num` (64-bit) of the PTS the writer computed -/
def readBackOf (c : Config) (e : Written) : Bs × FrameHeader :=
  (e.frame, { frameSize := e.frame.length, timestamp := (e.pts * c.den % two64) / c.num })

/-! ## the file round trip -/

/-- The 32-byte header the writer emits is parsed back by `ivfreader.NewWith` into the configured
    FourCC, width, height and timebase (count field 900 until `Close` patches it), leaving the rest. -/
theorem C32_header_roundtrip (c : Config) (hc : ValidConfig c) (rest : Bs) :
    newReader (header c ++ rest) = .ok ({ den := c.den, num := c.num }, headerOf c 900, rest) := by
  obtain ⟨hw, hh, hn, hd, hn0, hd0⟩ := hc
  rw [header_eq, newReader_headerN c 900 rest hw hh hd hn hd0 hn0]
  rfl

/-- One frame record (`writeFrame`) is read back by `ParseNextFrame` as exactly that frame, whatever follows. -/
theorem C32_frame_roundtrip (r : Reader) (frame : Bs) (pts : Nat) (rest : Bs)
    (hlen : frame.length < two32) (hpts : pts < two64) (hnum : r.num ≠ 0) :
    parseNextFrame r (frameRecord frame pts ++ rest) =
      .ok (frame, { frameSize := frame.length, timestamp := (pts * r.den % two64) / r.num }, rest) :=
  parseNextFrame_record r frame pts rest hlen hpts hnum

/-- **Main theorem.** For every configuration, every packet stream (any descriptors: lost, reordered,
    undepacketizable packets and bare payload descriptors included) and both kinds of sink,
    the reader returns: the configured header; a frame count equal to the number of frames written
    (mod 2^32) when the sink is seekable and 900 otherwise; exactly the frames the writer assembled —
    same bytes, same order — each with timestamp `pts·den/num`; and then a clean end of file. -/
theorem C32_file_roundtrip (c : Config) (hc : ValidConfig c) (ps : List Pkt) (seekable : Bool)
    (hsize : ∀ e ∈ (run c ps).st.log, e.frame.length < two32) :
    readFile (close seekable (run c ps).st) =
      .ok (headerOf c (if seekable then (run c ps).st.log.length % two32 else 900),
           (run c ps).st.log.map (readBackOf c), .err .eof) := by
  obtain ⟨hw, hh, hn, hd, hn0, hd0⟩ := hc
  have hi := inv_run c ps
  rw [close_eq c _ hi seekable]
  unfold readFile
  rw [newReader_headerN c _ _ hw hh hd hn hd0 hn0]
  simp only []
  rw [readFrames_records c _ hn0 hsize (inv_pts_lt c _ hi)]
  cases seekable
  · rfl
  · simp only [if_true, hi.count]; rfl

/-- The bytes of the file: header, then one record per assembled frame, nothing else; `Close` on a
    seekable sink changes only the count field. -/
theorem C32_file_layout (c : Config) (ps : List Pkt) (seekable : Bool) :
    close seekable (run c ps).st =
      headerN c (if seekable then (run c ps).st.log.length else 900)
        ++ ((run c ps).st.log.map (fun e => frameRecord e.frame e.pts)).flatten := by
  have hi := inv_run c ps
  rw [close_eq c _ hi seekable, hi.count]
  rfl

/-- Reader side, for ANY byte stream (not only writer output): a frame that `ParseNextFrame` returns is
    exactly the `FrameSize` bytes following its 12-byte frame header, and what remains is what follows. -/
theorem C32_reader_frame_exact (r : Reader) (s : Bs) (payload : Bs) (fh : FrameHeader) (rest : Bs)
    (h : parseNextFrame r s = .ok (payload, fh, rest)) :
    ∃ hdr : Bs, hdr.length = 12 ∧ s = hdr ++ payload ++ rest ∧ fh.frameSize = payload.length ∧
      (slice hdr 0 4).bind u32 = some payload.length :=
  parseNextFrame_exact r s payload fh rest h

/-! ## timestamps -/

/-- the writer's PTS computation for a frame completed by a packet with RTP timestamp `ts`, when the first
    written frame was completed at RTP timestamp `first` -/
def writerPts (c : Config) (ts first : Nat) : Nat :=
  let diff := (ts + two32 - first % two32) % two32                  -- uint32 subtraction
  if c.direct then diff                                             -- WithDirectPTS: RTP ticks
  else ((1000 * diff / 90000) * c.num % two64) / c.den              -- milliseconds, then timestampToPts

/-- Every assembled frame carries the PTS computed from the RTP timestamp of the packet that completed
    it, relative to the RTP timestamp of the first frame written (32-bit wrap-around included) — for
    every packet stream. -/
theorem C32_pts_formula (c : Config) (ps : List Pkt) (e0 : Written) (tl : List Written)
    (hlog : (run c ps).st.log = e0 :: tl) :
    ∀ e ∈ (run c ps).st.log, e.pts = writerPts c e.rtpTs e0.rtpTs := by
  have hi := inv_run c ps
  intro e he
  have hf : (run c ps).st.first = e0.rtpTs := hi.first e0 (by rw [hlog]; rfl)
  rw [hi.pts e he, hf]
  unfold writerPts ptsOfTimestamp rtpTimestamp timestampToPts clockRate
  cases c.direct <;> simp

/-- …in particular the first frame of every file has PTS 0. -/
theorem C32_first_pts_zero (c : Config) (ps : List Pkt) (e0 : Written) (tl : List Written)
    (hlog : (run c ps).st.log = e0 :: tl) : e0.pts = 0 := by
  have h := C32_pts_formula c ps e0 tl hlog e0 (by rw [hlog]; simp)
  rw [h]
  unfold writerPts
  have h1 : e0.rtpTs % two32 < two32 := Nat.mod_lt _ (by decide)
  have h2 : (e0.rtpTs + two32 - e0.rtpTs % two32) % two32 = 0 := by
    have : e0.rtpTs + two32 - e0.rtpTs % two32 = two32 * (e0.rtpTs / two32) + two32 := by
      have := Nat.div_add_mod e0.rtpTs two32
      omega
    rw [this]
    simp
  simp [h2]

/-- The timestamp the reader reports never exceeds the writer's millisecond timestamp (it is that
    timestamp rounded down twice: to PTS units and back). -/
theorem C32_timestamp_le (c : Config) (hc : ValidConfig c) (t : Nat) (ht : t < two32) :
    (timestampToPts c t * c.den % two64) / c.num ≤ t := by
  obtain ⟨_, _, hn, hd, hn0, hd0⟩ := hc
  unfold timestampToPts
  have hprod : t * c.num < two64 := by
    have : t * c.num < two32 * two32 := Nat.mul_lt_mul'' ht hn
    exact Nat.lt_of_lt_of_le this (by decide)
  rw [Nat.mod_eq_of_lt hprod]
  have h1 : t * c.num / c.den * c.den ≤ t * c.num := Nat.div_mul_le_self _ _
  rw [Nat.mod_eq_of_lt (Nat.lt_of_le_of_lt h1 hprod)]
  calc t * c.num / c.den * c.den / c.num ≤ t * c.num / c.num := Nat.div_le_div_right h1
    _ = t := Nat.mul_div_cancel _ (Nat.pos_of_ne_zero hn0)

/-! ## which packets end up in which frame (gating) -/

/-- A VP8 frame as pion's payloader emits it (and a little more: packets after the first may carry a bare
    payload descriptor with no data). A descriptor is `(S, _, payload)`; the frame is a key frame when
    bit 0 of its first payload byte is clear (`vp8KeyFrameBit`). -/
structure VP8Frame (f : Frame) : Prop where
  nonempty : f.pkts ≠ []
  startsWithS : ∃ d rest, f.pkts = d :: rest ∧ d.1 = true ∧ d.2.2 ≠ []    -- S = 1 and data on the first packet
  /-- in an inter frame no packet looks like the first packet of a key frame -/
  noLateKey : f.key vp8Sem = false → ∀ d ∈ f.pkts, ¬ (d.1 = true ∧ vp8KeyFrameBit d.2.2 = true)

/-- A VP9 frame. A descriptor is `(P, B, payload)`. -/
structure VP9Frame (f : Frame) : Prop where
  nonempty : f.pkts ≠ []
  startsWithB : ∃ d rest, f.pkts = d :: rest ∧ d.2.1 = true ∧ d.2.2 ≠ []  -- B = 1 and data on the first packet
  /-- in an inter frame no packet has both P = 0 and B = 1 -/
  noLateKey : f.key vp9Sem = false → ∀ d ∈ f.pkts, ¬ (d.1 = false ∧ d.2.1 = true)

/-- An AV1 temporal unit. A descriptor is `(N, _, OBU bytes the depacketizer returned)`. -/
structure AV1Frame (f : Frame) : Prop where
  nonempty : f.pkts ≠ []
  /-- in an inter frame no packet has N = 1 or starts with a sequence header -/
  noLateKey : f.key av1Sem = false → ∀ d ∈ f.pkts, d.1 = false ∧ startsWithSequenceHeader d.2.2 = false

theorem VP8Frame.wf {f : Frame} (h : VP8Frame f) : Frame.WF vp8Sem f where
  nonempty := h.nonempty
  opens := fun _ => by
    obtain ⟨d, rest, he, hs, hp⟩ := h.startsWithS
    exact ⟨d, rest, he, hs, hp⟩
  noLateKey := fun hk d hd => by
    have := h.noLateKey hk d hd
    simp only [vp8Sem, Bool.not_true, Bool.false_or]
    cases h1 : d.1 <;> cases h2 : vp8KeyFrameBit d.2.2 <;> simp_all

theorem VP9Frame.wf {f : Frame} (h : VP9Frame f) : Frame.WF vp9Sem f where
  nonempty := h.nonempty
  opens := fun _ => by
    obtain ⟨d, rest, he, hs, hp⟩ := h.startsWithB
    exact ⟨d, rest, he, hs, hp⟩
  noLateKey := fun hk d hd => by
    have := h.noLateKey hk d hd
    simp only [vp9Sem, Bool.not_true, Bool.false_or]
    cases h1 : d.1 <;> cases h2 : d.2.1 <;> simp_all

theorem AV1Frame.wf {f : Frame} (h : AV1Frame f) : Frame.WF av1Sem f where
  nonempty := h.nonempty
  opens := fun hs => by simp [av1Sem] at hs
  noLateKey := fun hk d hd => by
    obtain ⟨h1, h2⟩ := h.noLateKey hk d hd
    simp [av1Sem, h1, h2]

/-- Gating, generic form: for a stream of well-formed frames every `WriteRTP` returns nil, and the
    frames the writer assembles are exactly the frames sent from the first key frame on — each the
    concatenation of its packets' payloads (AV1: behind a temporal delimiter), completed at its own
    RTP timestamp. Nothing before the first key frame is written; nothing after it is lost. -/
theorem C32_gating (c : Config) (fs : List Frame) (hwf : ∀ f ∈ fs, Frame.WF (semOf c.codec) f) :
    ∃ st, run c (streamPkts fs) = { st, errs := 0, panicAt := none } ∧
      st.log.map (fun e => (e.frame, e.rtpTs)) =
        (fs.dropWhile (fun f => !f.key (semOf c.codec))).map (fun f => (f.bytes (semOf c.codec), f.ts)) := by
  obtain ⟨s', hf, _, hl⟩ := feed_stream c fs hwf (newWith c).1 rfl
  refine ⟨s', runFrom_of_feedOk c _ _ s' hf 0 0, ?_⟩
  simpa [proj, kept, newWith] using hl

theorem C32_gating_vp8 (c : Config) (hcodec : c.codec = .vp8) (fs : List Frame) (hwf : ∀ f ∈ fs, VP8Frame f) :
    ∃ st, run c (streamPkts fs) = { st, errs := 0, panicAt := none } ∧
      st.log.map (fun e => (e.frame, e.rtpTs)) =
        (fs.dropWhile (fun f => !f.key vp8Sem)).map (fun f => ((f.pkts.map (·.2.2)).flatten, f.ts)) := by
  have := C32_gating c fs (by rw [hcodec]; exact fun f hf => (hwf f hf).wf)
  rw [hcodec] at this
  simpa [semOf, Frame.bytes, vp8Sem] using this

theorem C32_gating_vp9 (c : Config) (hcodec : c.codec = .vp9) (fs : List Frame) (hwf : ∀ f ∈ fs, VP9Frame f) :
    ∃ st, run c (streamPkts fs) = { st, errs := 0, panicAt := none } ∧
      st.log.map (fun e => (e.frame, e.rtpTs)) =
        (fs.dropWhile (fun f => !f.key vp9Sem)).map (fun f => ((f.pkts.map (·.2.2)).flatten, f.ts)) := by
  have := C32_gating c fs (by rw [hcodec]; exact fun f hf => (hwf f hf).wf)
  rw [hcodec] at this
  simpa [semOf, Frame.bytes, vp9Sem] using this

theorem C32_gating_av1 (c : Config) (hcodec : c.codec = .av1) (fs : List Frame) (hwf : ∀ f ∈ fs, AV1Frame f) :
    ∃ st, run c (streamPkts fs) = { st, errs := 0, panicAt := none } ∧
      st.log.map (fun e => (e.frame, e.rtpTs)) =
        (fs.dropWhile (fun f => !f.key av1Sem)).map
          (fun f => (av1Delimiter ++ (f.pkts.map (·.2.2)).flatten, f.ts)) := by
  have := C32_gating c fs (by rw [hcodec]; exact fun f hf => (hwf f hf).wf)
  rw [hcodec] at this
  simpa [semOf, Frame.bytes, av1Sem] using this

/-- A stream that starts with a key frame is written completely: the frames read back are the frames sent. -/
theorem C32_stream_from_keyframe (c : Config) (hc : ValidConfig c) (f0 : Frame) (fs : List Frame) (seekable : Bool)
    (hwf : ∀ f ∈ f0 :: fs, Frame.WF (semOf c.codec) f) (hkey : f0.key (semOf c.codec) = true)
    (hsize : ∀ f ∈ f0 :: fs, (f.bytes (semOf c.codec)).length < two32) :
    ∃ hdr frames, readFile (close seekable (run c (streamPkts (f0 :: fs))).st) = .ok (hdr, frames, .err .eof) ∧
      frames.map (·.1) = (f0 :: fs).map (fun f => f.bytes (semOf c.codec)) ∧
      hdr = headerOf c (if seekable then (fs.length + 1) % two32 else 900) := by
  obtain ⟨st, hrun, hlog⟩ := C32_gating c (f0 :: fs) hwf
  have hdw : (f0 :: fs).dropWhile (fun f => !f.key (semOf c.codec)) = f0 :: fs := by
    simp [List.dropWhile, hkey]
  rw [hdw] at hlog
  have hframes : st.log.map (·.frame) = (f0 :: fs).map (fun f => f.bytes (semOf c.codec)) := by
    have := congrArg (List.map (·.1)) hlog
    simpa [List.map_map, Function.comp_def] using this
  have hlen : st.log.length = fs.length + 1 := by
    have := congrArg List.length hframes
    simpa using this
  have hsz : ∀ e ∈ (run c (streamPkts (f0 :: fs))).st.log, e.frame.length < two32 := by
    rw [hrun]
    intro e he
    have hm : e.frame ∈ st.log.map (·.frame) := List.mem_map_of_mem he
    rw [hframes] at hm
    obtain ⟨f, hf, hfe⟩ := List.mem_map.mp hm
    rw [← hfe]
    exact hsize f hf
  refine ⟨_, _, C32_file_roundtrip c hc _ seekable hsz, ?_, ?_⟩
  · rw [hrun]
    simp only [List.map_map]
    rw [← hframes]
    simp [readBackOf, Function.comp_def]
  · rw [hrun, hlen]

/-- Before a packet that can open the file (first packet of a key frame) nothing at all reaches the sink:
    the file is the bare header — for every packet stream, malformed ones included. -/
theorem C32_nothing_before_keyframe (c : Config) (ps : List Pkt)
    (hno : ∀ p ∈ ps, p.cannotOpen (semOf c.codec)) :
    (run c ps).st.log = [] ∧ (run c ps).st.out = header c := by
  have := no_key_no_output c ps (newWith c).1 rfl rfl hno 0 0
  simpa [run, newWith] using this

/-! ## the edges of the hypotheses -/

/-- `ivfwriter.NewWith` refuses a zero denominator (after having written the header). -/
theorem C32_zero_denominator_refused (c : Config) (h : c.den = 0) : (newWith c).2 = false := by
  simp [newWith, h]

/-- A zero numerator is accepted by the writer, and the reader refuses the file it produces
    (`errInvalidMediaTimebase`): the non-zero hypothesis of `ValidConfig` is necessary. -/
theorem C32_zero_numerator_unreadable (c : Config) (hw : c.width < 65536) (hh : c.height < 65536)
    (hd : c.den < two32) (h : c.num = 0) (rest : Bs) :
    (newWith c).2 = (c.den != 0) ∧ newReader (header c ++ rest) = .err .invalidTimebase := by
  refine ⟨rfl, ?_⟩
  unfold newReader
  rw [header_eq, parseFileHeader_headerN c 900 rest hw hh hd (by rw [h]; decide)]
  simp [expectedHeader, h]

/-! ## the writer never panics -/

/-- `WriteRTP` never indexes out of range: for every codec, every writer state and every packet
    (every descriptor a depacketizer can return, empty payloads included) it returns nil or an error. -/
theorem C32_writeRTP_no_panic (c : Config) (s : W) (p : Pkt) : writeRTP c s p ≠ .panic :=
  writeRTP_no_panic c s p

/-- …hence feeding ANY packet stream of any codec runs to its end: no call panics. -/
theorem C32_run_no_panic (c : Config) (ps : List Pkt) : (run c ps).panicAt = none :=
  runFrom_no_panic c ps _ 0 0

/-- A VP8 packet that is a bare payload descriptor (no data; accepted by `VP8Packet.Unmarshal`) inside a
    frame contributes no bytes and its marker still completes the frame. (Before the fix
    `fix: ivfwriter does not index an empty VP8 payload` this packet panicked the writer.) -/
theorem C32_vp8_descriptor_only_packet (c : Config) (hcodec : c.codec = .vp8) (s : W) (ts : Nat) (a b' : Bool)
    (hseen : s.seenKey = true) (hcur : s.cur ≠ []) :
    ∃ s', writeRTP c s { ts, marker := true, empty := false, desc := .ok a b' [] } = .ok s' ∧
      s'.cur = [] ∧
      s'.log.map (fun e => (e.frame, e.rtpTs)) = s.log.map (fun e => (e.frame, e.rtpTs)) ++ [(s.cur, ts)] := by
  obtain ⟨s', hw, _, h2, h3⟩ := step_flush c s ts (a, b', []) (Or.inl hseen)
    (fun _ hnil => absurd hnil hcur) (fun _ h => hcur (by simpa using h))
  refine ⟨s', hw, h2, ?_⟩
  rw [hcodec] at h3
  simpa [proj, semOf, vp8Sem] using h3

/-! ## non-vacuity -/

example : ValidConfig {} := by unfold ValidConfig; decide
example : ValidConfig { codec := .av1, width := 1920, height := 1080, num := 1, den := 90000, direct := true } := by
  unfold ValidConfig; decide

/-- a VP8 key frame in three packets (the middle one a bare descriptor) followed by a one-packet inter frame -/
def sampleFrames : List Frame :=
  [{ ts := 4294967000, pkts := [(true, false, [0x10, 1, 2]), (false, false, []), (false, false, [3])] },
   { ts := 2704, pkts := [(true, false, [0x11, 9])] }]

example : ∀ f ∈ sampleFrames, VP8Frame f := by
  intro f hf
  simp only [sampleFrames, List.mem_cons, List.mem_nil_iff, or_false] at hf
  rcases hf with rfl | rfl
  · exact ⟨by simp, ⟨_, _, rfl, rfl, by simp⟩, by simp [Frame.key, vp8Sem, vp8KeyFrameBit]⟩
  · refine ⟨by simp, ⟨_, _, rfl, rfl, by simp⟩, ?_⟩
    intro _ d hd
    simp only [List.mem_cons, List.mem_nil_iff, or_false] at hd
    subst hd
    simp [vp8KeyFrameBit]

-- the first frame is a key frame, the stream is written completely, PTS 0 then (3000 ticks → 33 ms → 33·1/30 = 1)
example : (run {} (streamPkts sampleFrames)).st.log.map (fun e => (e.frame, e.pts)) = [([0x10, 1, 2, 3], 0), ([0x11, 9], 1)] := by
  decide

example : parseNextFrame { den := 30, num := 1 } (frameRecord [1, 2, 3] 7 ++ [9]) =
    .ok ([1, 2, 3], { frameSize := 3, timestamp := 210 }, [9]) := by decide

-- a packet that cannot open the file
example : Pkt.cannotOpen (semOf Codec.vp8) { ts := 0, marker := true, empty := false, desc := .ok true false [0x11] } := by
  right; decide

end WebrtcVerif.C32
