import WebrtcVerif.Model.Codec
import WebrtcVerif.Proofs.CodecLemmas
/-!
# C15 — Negotiated codecs are the remote's offered codecs that match local ones

"After a remote description is applied, every codec used to send or resolve incoming media of a kind
was both offered by the remote and matched (exactly or partially) by a locally registered codec. The
remote's payload type is used, exact matches are preferred over partial ones, and RTCP feedback is the
intersection of both sides. An incoming packet's payload type is resolved against the negotiated set
before the locally registered set."

Quantifier: arbitrary local codec registrations and arbitrary remote codec lists.

Reading.  "Matched" is the code's own notion (C17 is about that relation): `exactPred` is
`fmtp.Parse(remote).Match(fmtp.Parse(local))`, `partialPred` is mime/clock/channels equality.  For a
remote codec that names a primary through `apt=<remote payload type>` the comparison is made after that
reference has been translated to a local payload type (`AptVariant`).  All theorems hold for every
engine state (any registered lists — duplicates, empty, inconsistent kinds included), every list of
remote sections (any media names, any codec lists incl. repeated payload types, sections the SDP layer
rejects) and every history of descriptions, whether or not `updateFromRemoteDescription` returned an
error on the way.
-/
namespace WebrtcVerif.C15
open WebrtcVerif.Codec

/-- `c` carries the payload type, mime type, clock rate, channels and fmtp line of the remote codec `r` -/
def Offered (c r : CodecP) : Prop :=
  c.pt = r.pt ∧ c.mime = r.mime ∧ c.clock = r.clock ∧ c.channels = r.channels ∧ c.fmtp = r.fmtp

/-- `c` stems from codec `r` of a remote section of kind `k` in one of the descriptions, and a locally
    registered codec `l` of that kind matches it with quality `mt`; its feedback is the intersection. -/
def NegotiatedFrom (e : Engine) (descs : List (List Section)) (k : Kind) (mt : MatchType) (c : CodecP) : Prop :=
  ∃ d ∈ descs, ∃ s ∈ d, kindOf s.media = k ∧ ∃ rs, s.codecs = some rs ∧
    ∃ r ∈ rs, ∃ l ∈ e.locals k, Offered c r ∧ c.fb = fbInter l.fb r.fb ∧
      ∃ r', AptVariant (e.locals k) r r' ∧ MatchedAs mt r' l

private theorem accepted_negotiated {e : Engine} {descs : List (List Section)} {k : Kind} {d : List Section}
    {s : Section} {rs : List CodecP} {mt : MatchType} {c : CodecP}
    (hd : d ∈ descs) (hs : s ∈ d) (hk : kindOf s.media = k) (hrs : s.codecs = some rs)
    (h : Accepted (e.locals k) rs mt c) : NegotiatedFrom e descs k mt c := by
  obtain ⟨r, hr, l, hl, hc, r', hv, hm⟩ := h
  refine ⟨d, hd, s, hs, hk, rs, hrs, r, hr, l, hl, ?_, ?_, r', hv, hm⟩
  · subst hc; exact ⟨rfl, rfl, rfl, rfl, rfl⟩
  · subst hc; rfl

/-! ## Clause 1 and 2: offered by the remote and matched locally; the remote's payload type -/

/-- **Every negotiated codec was offered and matched.**  After any history of remote descriptions, a
    codec in the negotiated list of a kind was either there before, or it has the payload type, mime
    type, clock rate, channels and fmtp of a codec of a remote section of that kind, a locally registered
    codec of that kind matches that remote codec exactly or partially, and its RTCP feedback is the
    intersection of the two. -/
theorem C15_negotiated_offered_and_matched (e : Engine) (descs : List (List Section)) (k : Kind) (c : CodecP)
    (h : c ∈ (updateMany e descs).1.negCodecs k) :
    c ∈ e.negCodecs k ∨ ∃ mt, mt ≠ .mNone ∧ NegotiatedFrom e descs k mt c := by
  rcases updateMany_neg descs e h with h | ⟨d, hd, s, hs, hk, rs, ex, pa, hrs, hm, hc⟩
  · exact Or.inl h
  · right
    have hinv := matchSection_inv hm
    rcases mem_chosen hc with hc | ⟨_, hc⟩
    · exact ⟨.mExact, by simp, accepted_negotiated hd hs hk hrs (hinv.1 c hc)⟩
    · exact ⟨.mPartial, by simp, accepted_negotiated hd hs hk hrs (hinv.2 c hc)⟩

/-- The same for an engine that has not negotiated anything yet (`NewPeerConnection` copies the
    MediaEngine, which resets the negotiated state): *every* negotiated codec was offered and matched. -/
theorem C15_fresh_engine (audio video : List CodecP) (multi : Bool) (descs : List (List Section))
    (k : Kind) (c : CodecP)
    (h : c ∈ (updateMany { audio, video, multi } descs).1.negCodecs k) :
    ∃ mt, mt ≠ .mNone ∧ NegotiatedFrom { audio, video, multi } descs k mt c := by
  rcases C15_negotiated_offered_and_matched _ descs k c h with h | h
  · cases k <;> simp [Engine.negCodecs] at h
  · exact h

/-- **The remote's payload type is used**: the payload types negotiated for a kind are payload types
    listed in remote sections of that kind (never the local registration's number). -/
theorem C15_remote_payload_type (audio video : List CodecP) (multi : Bool) (descs : List (List Section))
    (k : Kind) (c : CodecP)
    (h : c ∈ (updateMany { audio, video, multi } descs).1.negCodecs k) :
    ∃ d ∈ descs, ∃ s ∈ d, kindOf s.media = k ∧ ∃ rs, s.codecs = some rs ∧ ∃ r ∈ rs, r.pt = c.pt := by
  obtain ⟨_, _, d, hd, s, hs, hk, rs, hrs, r, hr, _, _, ho, _⟩ := C15_fresh_engine audio video multi descs k c h
  exact ⟨d, hd, s, hs, hk, rs, hrs, r, hr, ho.1.symm⟩

/-- What "matched" amounts to: the local codec is registered for that kind and satisfies the code's
    exact (`fmtp … Match`) or partial (mime, clock rate, channels) test against the remote codec or its
    apt variant. -/
theorem C15_matched_means (mt : MatchType) (r' l : CodecP) (h : MatchedAs mt r' l) :
    exactPred r' l = true ∨ partialPred r' l = true := h.matches

/-- The local registry is never modified by applying remote descriptions. -/
theorem C15_registry_unchanged (e : Engine) (descs : List (List Section)) (k : Kind) :
    (updateMany e descs).1.locals k = e.locals k := updateMany_locals descs e k

/-- Negotiated codecs are only ever added, never dropped or altered. -/
theorem C15_negotiated_kept (e : Engine) (descs : List (List Section)) (k : Kind) (c : CodecP)
    (h : c ∈ e.negCodecs k) : c ∈ (updateMany e descs).1.negCodecs k :=
  updateMany_inv (P := fun e' => c ∈ e'.negCodecs k)
    (fun e' s h => effect_neg_mono (updateSection_effect e' s) h) descs e h

/-! ## Clause 3: exact matches are preferred over partial ones -/

/-- In the search of one codec among the local ones an exact match wins: a partial result means that
    no registered codec matches exactly, and an exact result is the first exact match in registration
    order. -/
theorem C15_search_prefers_exact (needle : CodecP) (hay : List CodecP) (c : CodecP) :
    (fuzzySearch needle hay = (c, .mPartial) →
      c ∈ hay ∧ partialPred needle c = true ∧ ∀ x ∈ hay, exactPred needle x = false) ∧
    (fuzzySearch needle hay = (c, .mExact) →
      exactPred needle c = true ∧ ∃ pre post, hay = pre ++ c :: post ∧ ∀ x ∈ pre, exactPred needle x = false) ∧
    (fuzzySearch needle hay = (c, .mNone) →
      ∀ x ∈ hay, exactPred needle x = false ∧ partialPred needle x = false) :=
  ⟨fuzzy_partial, fun h => ⟨(fuzzy_exact h).2, fuzzy_exact_first h⟩, fuzzy_none⟩

/-- Per remote section: when the section has exact matches, only those are negotiated — every chosen
    codec then is an exact match (and for an RTX-style codec so is the codec its apt points to, see
    `C15_apt_exact_needs_exact_primary`).  Partial matches are used only when there is no exact one. -/
theorem C15_section_prefers_exact (locals rs ex pa : List CodecP)
    (h : matchSection locals rs = .ok (ex, pa)) :
    (ex ≠ [] → ∀ c ∈ chosen ex pa, Accepted locals rs .mExact c) ∧
    (ex = [] → ∀ c ∈ chosen ex pa, Accepted locals rs .mPartial c) := by
  have hinv := matchSection_inv h
  constructor
  · intro hne c hc
    rcases mem_chosen hc with hc | ⟨he, _⟩
    · exact hinv.1 c hc
    · exact absurd he hne
  · intro he c hc
    rcases mem_chosen hc with hc | ⟨_, hc⟩
    · rw [he] at hc; simp at hc
    · exact hinv.2 c hc

/-- If some remote codec without apt is matched exactly by a local codec, the section has exact matches
    (so by the previous theorem nothing that is only partially matched is negotiated from it), and that
    codec's payload type is among them. -/
theorem C15_exact_match_is_negotiated (locals rs ex pa : List CodecP)
    (h : matchSection locals rs = .ok (ex, pa)) (r : CodecP) (hr : r ∈ rs) (hno : noApt r)
    (hex : ∃ l ∈ locals, exactPred r l = true) :
    ex ≠ [] ∧ ∃ c ∈ chosen ex pa, c.pt = r.pt := by
  obtain ⟨c, hc, hpt⟩ := matchSection_plain_exact h hr hno hex
  have hne : ex ≠ [] := by intro he; rw [he] at hc; simp at hc
  refine ⟨hne, c, ?_, hpt⟩
  unfold chosen
  cases ex with
  | nil => exact absurd rfl hne
  | cons a t => simpa using hc

/-- Conversely the exact list is empty — and the partial matches are what is negotiated — only if no
    remote codec without apt has an exact local match; then every such codec with a partial match is
    negotiated (by payload type). -/
theorem C15_partial_fallback (locals rs ex pa : List CodecP)
    (h : matchSection locals rs = .ok (ex, pa))
    (hnone : ∀ r ∈ rs, noApt r → ∀ l ∈ locals, exactPred r l = false) :
    ex = [] ∧ ∀ r ∈ rs, noApt r → (∃ l ∈ locals, partialPred r l = true) → ∃ c ∈ chosen ex pa, c.pt = r.pt := by
  have he := matchSection_exact_empty h hnone
  refine ⟨he, fun r hr hno hp => ?_⟩
  obtain ⟨c, hc, hpt⟩ := matchSection_plain_partial h hr hno (hnone r hr hno) hp
  exact ⟨c, by subst he; simpa [chosen] using hc, hpt⟩

/-- A codec with an apt parameter counts as an exact match only if the codec it points to was accepted
    as an exact match before it ("if apt's media codec is partial match, then apt codec must be partial
    match too"). -/
theorem C15_apt_exact_needs_exact_primary (locals : List CodecP) (r : CodecP) (ex pa : List CodecP)
    (l : CodecP) (apt : Str) (hapt : r.parse.params.get "apt".toList = some apt)
    (h : matchRemoteCodec locals r ex pa = .ok (l, .mExact)) :
    ∃ n, parseUint8 apt = some n ∧ ∃ p ∈ ex, p.pt = n := matchRemote_apt_exact hapt h

/-! ## Clause 4: RTCP feedback is the intersection of both sides -/

/-- `rtcpFeedbackIntersection` is the intersection: an entry is in the result iff it is in both
    arguments; the result keeps the local side's order and multiplicity. -/
theorem C15_feedback_is_intersection (a b : List Feedback) :
    (∀ f, f ∈ fbInter a b ↔ f ∈ a ∧ f ∈ b) ∧ (fbInter a b).Sublist a :=
  ⟨fun f => mem_fbInter f a b, fbInter_sublist a b⟩

/-- …and that is the feedback of every negotiated codec: exactly the entries that both the remote
    codec it stems from and the matching local codec carry. -/
theorem C15_negotiated_feedback (audio video : List CodecP) (multi : Bool) (descs : List (List Section))
    (k : Kind) (c : CodecP)
    (h : c ∈ (updateMany { audio, video, multi } descs).1.negCodecs k) :
    ∃ d ∈ descs, ∃ s ∈ d, kindOf s.media = k ∧ ∃ rs, s.codecs = some rs ∧ ∃ r ∈ rs, Offered c r ∧
      ∃ l ∈ (Engine.locals { audio, video, multi } k), ∀ f, f ∈ c.fb ↔ f ∈ l.fb ∧ f ∈ r.fb := by
  obtain ⟨_, _, d, hd, s, hs, hk, rs, hrs, r, hr, l, hl, ho, hfb, _⟩ :=
    C15_fresh_engine audio video multi descs k c h
  exact ⟨d, hd, s, hs, hk, rs, hrs, r, hr, ho, l, hl, fun f => by rw [hfb]; exact mem_fbInter f _ _⟩

/-! ## Clause 5: payload types are resolved against the negotiated sets first -/

private theorem findByPt_some {l : List CodecP} {pt : Nat} {c : CodecP} (h : findByPt l pt = some c) :
    c ∈ l ∧ c.pt = pt :=
  ⟨List.mem_of_find?_eq_some h, by simpa using List.find?_some h⟩

private theorem findByPt_none {l : List CodecP} {pt : Nat} (h : findByPt l pt = none) :
    ∀ x ∈ l, x.pt ≠ pt := by
  intro x hx
  have := List.find?_eq_none.mp h x hx
  simpa using this

/-- no negotiated set (of a negotiated kind) contains the payload type -/
def NotNegotiated (e : Engine) (pt : Nat) : Prop :=
  ∀ k, e.negFlag k = true → ∀ x ∈ e.negCodecs k, x.pt ≠ pt

/-- **Resolution order.**  Whatever `getCodecByPayload` returns has the requested payload type and is
    either a member of the negotiated set of a negotiated kind, or — only if *no* negotiated set contains
    that payload type — a registered codec of a kind that has not been negotiated. -/
theorem C15_lookup_negotiated_before_local (e : Engine) (pt : Nat) (c : CodecP) (k : Kind)
    (h : e.codecByPayload pt = some (c, k)) :
    c.pt = pt ∧
    ((e.negFlag k = true ∧ c ∈ e.negCodecs k) ∨
     (e.negFlag k = false ∧ c ∈ e.locals k ∧ NotNegotiated e pt)) := by
  unfold Engine.codecByPayload at h
  split at h
  · -- negotiated video
    rename_i c' hv
    simp only [Option.some.injEq, Prod.mk.injEq] at h
    obtain ⟨h1, h2⟩ := h; subst h1; subst h2
    split at hv
    · rename_i hf
      exact ⟨(findByPt_some hv).2, Or.inl ⟨hf, (findByPt_some hv).1⟩⟩
    · simp at hv
  · rename_i hv
    split at h
    · rename_i c' ha
      simp only [Option.some.injEq, Prod.mk.injEq] at h
      obtain ⟨h1, h2⟩ := h; subst h1; subst h2
      split at ha
      · rename_i hf
        exact ⟨(findByPt_some ha).2, Or.inl ⟨hf, (findByPt_some ha).1⟩⟩
      · simp at ha
    · rename_i ha
      have hnot : NotNegotiated e pt := by
        intro k' hk' x hx
        cases k' with
        | other => simp [Engine.negCodecs] at hx
        | video =>
          simp only [Engine.negFlag] at hk'
          simp only [hk', if_true] at hv
          exact findByPt_none hv x hx
        | audio =>
          simp only [Engine.negFlag] at hk'
          simp only [hk', if_true] at ha
          exact findByPt_none ha x hx
      split at h
      · rename_i c' hlv
        simp only [Option.some.injEq, Prod.mk.injEq] at h
        obtain ⟨h1, h2⟩ := h; subst h1; subst h2
        split at hlv
        · rename_i hf
          exact ⟨(findByPt_some hlv).2, Or.inr ⟨by simpa [Engine.negFlag] using hf, (findByPt_some hlv).1, hnot⟩⟩
        · simp at hlv
      · split at h
        · rename_i c' hla
          simp only [Option.some.injEq, Prod.mk.injEq] at h
          obtain ⟨h1, h2⟩ := h; subst h1; subst h2
          split at hla
          · rename_i hf
            exact ⟨(findByPt_some hla).2, Or.inr ⟨by simpa [Engine.negFlag] using hf, (findByPt_some hla).1, hnot⟩⟩
          · simp at hla
        · simp at h

/-- A payload type that occurs in the negotiated set of a negotiated kind always resolves, and to a
    member of a negotiated set — never to the registered codec with the same number. -/
theorem C15_lookup_finds_negotiated (e : Engine) (pt : Nat) (k : Kind) (x : CodecP)
    (hf : e.negFlag k = true) (hx : x ∈ e.negCodecs k) (hpt : x.pt = pt) :
    ∃ c k', e.codecByPayload pt = some (c, k') ∧ e.negFlag k' = true ∧ c ∈ e.negCodecs k' ∧ c.pt = pt := by
  cases hres : e.codecByPayload pt with
  | some p =>
    obtain ⟨c, k'⟩ := p
    have := C15_lookup_negotiated_before_local e pt c k' hres
    rcases this.2 with ⟨h1, h2⟩ | ⟨_, _, hnot⟩
    · exact ⟨c, k', rfl, h1, h2, this.1⟩
    · exact absurd hpt (hnot k hf x hx)
  | none =>
    exfalso
    unfold Engine.codecByPayload at hres
    cases k with
    | other => simp [Engine.negCodecs] at hx
    | video =>
      simp only [Engine.negFlag] at hf
      simp only [Engine.negCodecs] at hx
      simp only [hf, if_true] at hres
      cases hfv : findByPt e.negVideoCodecs pt with
      | some c => simp [hfv] at hres
      | none => exact findByPt_none hfv x hx hpt
    | audio =>
      simp only [Engine.negFlag] at hf
      simp only [Engine.negCodecs] at hx
      simp only [hf, if_true] at hres
      cases hfa : findByPt e.negAudioCodecs pt with
      | some c =>
        split at hres
        · simp at hres
        · simp [hfa] at hres
      | none => exact findByPt_none hfa x hx hpt

/-- Codecs used for sending (`getCodecsByKind`): once a kind is negotiated it is exactly the negotiated
    set of that kind. -/
theorem C15_codecs_by_kind (e : Engine) (k : Kind) :
    (e.negFlag k = true → e.codecsByKind k = e.negCodecs k) ∧
    (e.negFlag k = false → e.codecsByKind k = e.locals k) := by
  cases k <;> simp [Engine.codecsByKind, Engine.negFlag, Engine.negCodecs, Engine.locals] <;>
    constructor <;> intro h <;> simp [h]

/-! ## Supporting invariants -/

/-- Payload types within a negotiated set stay pairwise distinct (`addCodec`), so the resolution of a
    payload type within a set is unambiguous. -/
theorem C15_payload_types_unique (e : Engine) (descs : List (List Section))
    (h : ∀ k, ((e.negCodecs k).map (·.pt)).Nodup) :
    ∀ k, (((updateMany e descs).1.negCodecs k).map (·.pt)).Nodup :=
  updateMany_inv (P := fun e' => ∀ k, ((e'.negCodecs k).map (·.pt)).Nodup)
    (fun e' s h => effect_nodup (updateSection_effect e' s) h) descs e h

/-- A kind with a non-empty negotiated set is flagged as negotiated (so that set, not the registry, is
    what the lookups above consult). -/
theorem C15_negotiated_implies_flag (e : Engine) (descs : List (List Section)) (h : FlagInv e) :
    FlagInv (updateMany e descs).1 :=
  updateMany_inv (P := FlagInv) (fun e' s h => effect_flagInv (updateSection_effect e' s) h) descs e h

/-- Sections that are neither audio nor video never touch the engine. -/
theorem C15_other_media_ignored (e : Engine) (s : Section) (h : kindOf s.media = .other) :
    updateSection e s = (e, none) := by
  unfold updateSection
  simp [h]

private theorem eq_of_nodup_pt : ∀ {l : List CodecP} {a b : CodecP}, (l.map (·.pt)).Nodup →
    a ∈ l → b ∈ l → a.pt = b.pt → a = b := by
  intro l
  induction l with
  | nil => intro a b _ ha; simp at ha
  | cons x xs ih =>
    intro a b hn ha hb hpt
    simp only [List.map_cons, List.nodup_cons, List.mem_map, not_exists, not_and] at hn
    rcases List.mem_cons.mp ha with ha1 | ha2
    · rcases List.mem_cons.mp hb with hb1 | hb2
      · rw [ha1, hb1]
      · subst ha1; exact absurd hpt.symm (hn.1 b hb2)
    · rcases List.mem_cons.mp hb with hb1 | hb2
      · subst hb1; exact absurd hpt (hn.1 a ha2)
      · exact ih hn.2 ha2 hb2 hpt

/-- With distinct payload types inside the negotiated video set (`C15_payload_types_unique`), a payload
    type of that set resolves to exactly that negotiated codec; one of the negotiated audio set does too
    unless the negotiated video set also uses the number (video is consulted first). -/
theorem C15_lookup_exact (e : Engine) (x : CodecP)
    (hn : ∀ k, ((e.negCodecs k).map (·.pt)).Nodup) :
    (e.negVideo = true → x ∈ e.negVideoCodecs → e.codecByPayload x.pt = some (x, .video)) ∧
    (e.negAudio = true → x ∈ e.negAudioCodecs →
      (e.negVideo = true → ∀ v ∈ e.negVideoCodecs, v.pt ≠ x.pt) → e.codecByPayload x.pt = some (x, .audio)) := by
  constructor
  · intro hf hx
    unfold Engine.codecByPayload
    simp only [hf, if_true]
    cases hfv : findByPt e.negVideoCodecs x.pt with
    | some c =>
      have hc := findByPt_some hfv
      have : c = x := eq_of_nodup_pt (hn .video) hc.1 hx hc.2
      simp [this]
    | none => exact absurd rfl (findByPt_none hfv x hx)
  · intro hf hx hnv
    unfold Engine.codecByPayload
    have hvnone : (if e.negVideo = true then findByPt e.negVideoCodecs x.pt else none) = none := by
      split
      · rename_i hv
        cases hfv : findByPt e.negVideoCodecs x.pt with
        | some c => exact absurd (findByPt_some hfv).2 (hnv hv c (findByPt_some hfv).1)
        | none => rfl
      · rfl
    rw [hvnone]
    simp only [hf, if_true]
    cases hfa : findByPt e.negAudioCodecs x.pt with
    | some c =>
      have hc := findByPt_some hfa
      have : c = x := eq_of_nodup_pt (hn .audio) hc.1 hx hc.2
      simp [this]
    | none => exact absurd rfl (findByPt_none hfa x hx)

/-- `RegisterCodec` keeps the payload types of a kind's registry pairwise distinct, for any sequence of
    registrations (accepted or refused). -/
theorem C15_registry_payload_types_unique (regs : List (Kind × CodecP)) :
    let e := regs.foldl (fun (e : Engine) (kc : Kind × CodecP) => (e.register kc.1 kc.2).1) {}
    ∀ k, ((e.locals k).map (·.pt)).Nodup := by
  have step : ∀ (e : Engine) (kc : Kind × CodecP), (∀ k, ((e.locals k).map (·.pt)).Nodup) →
      ∀ k, (((e.register kc.1 kc.2).1.locals k).map (·.pt)).Nodup := by
    intro e kc h k
    obtain ⟨k0, c⟩ := kc
    cases k0 with
    | other => simpa [Engine.register] using h k
    | audio =>
      cases k with
      | audio => simpa [Engine.register, Engine.locals] using addCodec_nodup c (h .audio)
      | video => simpa [Engine.register, Engine.locals] using h .video
      | other => simp [Engine.locals]
    | video =>
      cases k with
      | video => simpa [Engine.register, Engine.locals] using addCodec_nodup c (h .video)
      | audio => simpa [Engine.register, Engine.locals] using h .audio
      | other => simp [Engine.locals]
  have gen : ∀ (regs : List (Kind × CodecP)) (e : Engine), (∀ k, ((e.locals k).map (·.pt)).Nodup) →
      ∀ k, (((regs.foldl (fun (e : Engine) (kc : Kind × CodecP) => (e.register kc.1 kc.2).1) e).locals k).map
        (·.pt)).Nodup := by
    intro regs
    induction regs with
    | nil => intro e h; simpa using h
    | cons kc rest ih => intro e h; exact ih _ (step e kc h)
  exact gen regs {} (by intro k; cases k <;> simp [Engine.locals])

/-- Without multi-codec negotiation only the first section of a kind is ever considered: once a kind is
    flagged as negotiated, further sections of that kind (in this or any later description) change nothing. -/
theorem C15_first_section_decides (e : Engine) (s : Section) (hm : e.multi = false)
    (hf : e.negFlag (kindOf s.media) = true) : updateSection e s = (e, none) := by
  unfold updateSection
  simp [hm, hf]

/-! ## Non-vacuity: concrete runs of the model -/

section Examples

private def vp8 (pt : Nat) (fb : List Feedback) : CodecP :=
  { mime := "video/VP8".toList, clock := 90000, pt, fb }
private def rtx (pt apt : Nat) : CodecP :=
  { mime := "video/rtx".toList, clock := 90000, pt, fmtp := "apt=".toList ++ showNat apt }
private def h264 (pt : Nat) (plid : String) : CodecP :=
  { mime := "video/H264".toList, clock := 90000, pt,
    fmtp := ("packetization-mode=1;profile-level-id=" ++ plid).toList }
private def nack : Feedback := ⟨"nack".toList, []⟩
private def remb : Feedback := ⟨"goog-remb".toList, []⟩
private def tcc : Feedback := ⟨"transport-cc".toList, []⟩

private def eng : Engine := { video := [vp8 96 [remb, nack], rtx 97 96, h264 102 "42e01f"] }

/-- remote VP8 on 120 with RTX 121 (listed first): the remote payload types are negotiated, feedback
    is intersected, the RTX is found in the second pass; H264 with another profile matches only
    partially and is left out because exact matches exist. -/
example :
    (update eng [⟨"video".toList, some [rtx 121 120, vp8 120 [nack, tcc], h264 122 "640c1f"]⟩]).1.negVideoCodecs
      = [vp8 120 [nack], rtx 121 120] := by decide

/-- only a partial match on offer: it is negotiated -/
example :
    (update eng [⟨"video".toList, some [h264 122 "640c1f"]⟩]).1.negVideoCodecs = [h264 122 "640c1f"] := by
  decide

/-- payload type 96 is VP8 locally but the remote's H264 after negotiation: the lookup returns H264 -/
example :
    ((update eng [⟨"video".toList, some [h264 96 "42e01f"]⟩]).1.codecByPayload 96).map (·.1.mime)
      = some "video/H264".toList := by decide

/-- hypotheses of `C15_exact_match_is_negotiated` / `C15_partial_fallback` are satisfiable -/
example : noApt (vp8 120 []) ∧ exactPred (vp8 120 []) (vp8 96 [remb]) = true := by decide
example : noApt (h264 122 "640c1f") ∧ exactPred (h264 122 "640c1f") (h264 102 "42e01f") = false
    ∧ partialPred (h264 122 "640c1f") (h264 102 "42e01f") = true := by decide
/-- …and of `C15_apt_exact_needs_exact_primary` -/
example : matchRemoteCodec eng.video (rtx 121 120) [vp8 120 [nack]] [] = .ok (rtx 97 96, .mExact) := by rfl

/-- `matchSection` succeeds with a non-empty exact list (hypotheses of `C15_section_prefers_exact`,
    `C15_exact_match_is_negotiated`) … -/
example : matchSection eng.video [rtx 121 120, vp8 120 [nack, tcc], h264 122 "640c1f"]
    = .ok ([vp8 120 [nack], rtx 121 120], [h264 122 "640c1f"]) := by rfl
/-- … and with an empty one (`C15_partial_fallback`) -/
example : matchSection eng.video [h264 122 "640c1f"] = .ok ([], [h264 122 "640c1f"]) := by rfl

private def engAfter : Engine := (update eng [⟨"video".toList, some [rtx 121 120, vp8 120 [nack, tcc]]⟩]).1

/-- hypotheses of `C15_lookup_exact`, `C15_payload_types_unique`, `C15_negotiated_implies_flag`,
    `C15_first_section_decides` hold of a negotiated engine (and of a fresh one) -/
example : (∀ k, ((engAfter.negCodecs k).map (·.pt)).Nodup) ∧ engAfter.negVideo = true ∧
    vp8 120 [nack] ∈ engAfter.negVideoCodecs ∧ FlagInv engAfter ∧ engAfter.multi = false ∧
    engAfter.negFlag (kindOf "VIDEO".toList) = true := by
  refine ⟨?_, by decide, by decide, ?_, by decide, by decide⟩
  · intro k; cases k <;> decide
  · intro k; cases k <;> decide
example : (∀ k, (((({} : Engine)).negCodecs k).map (·.pt)).Nodup) ∧ FlagInv {} := by
  constructor <;> intro k <;> cases k <;> decide
example : kindOf "application".toList = .other := by decide

end Examples

end WebrtcVerif.C15
