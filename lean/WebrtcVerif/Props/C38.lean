import WebrtcVerif.Model.Json
/-!
# C38 — Public value types survive their JSON and PEM encodings

"For every value of the public serializable types, decoding its JSON or text encoding yields an equal
value. Types covered: session descriptions, ICE candidate inits, ICE servers (including a nil URL
list), SDP type and the signaling/ICE/DTLS/SCTP/data-channel/connection state and policy enums, and
every Stats type via UnmarshalStatsJSON. A certificate exported with PEM() and re-imported with
CertificateFromPEM is Equal to the original and has the same fingerprint and expiry."

Trusted, not modelled (see Model/Json.lean): encoding/json as a printer/parser of value trees and its
default struct codec; crypto/x509, PKCS#8, encoding/pem.  The theorems are about this repository's own
tables, `MarshalJSON`/`UnmarshalJSON`/`MarshalText`/`UnmarshalText` methods, `UnmarshalStatsJSON`'s
dispatch and `CertificateFromPEM`'s block loop.
-/
namespace WebrtcVerif.C38
open WebrtcVerif.Json

set_option linter.unusedSimpArgs false

/-! ## Enums -/

/-- The two enum types whose zero value ("unknown") is written by the encoder and refused by the decoder. -/
def zeroRefused (e : Enum) : Bool := e.name == "SDPType" || e.name == "ICECandidateType"

/-- Full statement for enums: every declared constant of every enum type survives `json.Marshal` /
    `json.Unmarshal`, whatever the target variable held before. -/
def C38_Enums_Full : Prop :=
  ∀ e ∈ allEnums, ∀ raw cur : Int, e.declared raw = true → e.unmarshalJSON cur (e.marshalJSON raw) = .ok raw

/-- The unchanged code violates it: `SDPType(0)` marshals to `"unknown"`, which `UnmarshalJSON` rejects. -/
theorem C38_enums_counterexample : ¬ C38_Enums_Full := by
  intro h
  have := h sdpType (by simp [allEnums]) 0 0 (by decide)
  exact absurd this (by decide)

/-- … and so does `ICECandidateType(0)` through `MarshalText` / `UnmarshalText`. -/
theorem C38_enums_counterexample_candidate_type :
    iceCandidateType.unmarshalText (iceCandidateType.marshalText 0) = .error () := by decide

private def natsBelow (n : Nat) : List Int := (List.range n).map Int.ofNat

private theorem mem_natsBelow {n : Nat} {raw : Int} (h0 : 0 ≤ raw) (h1 : raw < n) : raw ∈ natsBelow n := by
  unfold natsBelow
  simp only [List.mem_map, List.mem_range]
  exact ⟨raw.toNat, by omega, Int.toNat_of_nonneg h0⟩

private theorem declared_mem (e : Enum) (raw : Int) (h : e.declared raw = true) : raw ∈ natsBelow e.count := by
  unfold Enum.declared at h
  simp only [Bool.and_eq_true, decide_eq_true_eq] at h
  exact mem_natsBelow h.1 h.2

/-- the encoder never writes `null`, so the previous content of the target is irrelevant -/
private theorem unmarshal_cur_irrelevant (e : Enum) (raw cur : Int) :
    e.unmarshalJSON cur (e.marshalJSON raw) = e.unmarshalJSON 0 (e.marshalJSON raw) := by
  unfold Enum.marshalJSON Enum.unmarshalJSON
  cases e.codec <;> rfl

private theorem enums_json_table :
    allEnums.all (fun e => (natsBelow e.count).all (fun raw =>
      (zeroRefused e && raw == 0) ||
        (match e.unmarshalJSON 0 (e.marshalJSON raw) with | .ok v => v == raw | .error _ => false))) = true := by
  decide

/-- **Enums, JSON.** Every declared constant of every enum type — including the zero value of the 16
    types other than SDPType and ICECandidateType — decodes from its JSON encoding to itself. -/
theorem C38_enum_json_roundtrip_partial (e : Enum) (he : e ∈ allEnums) (raw cur : Int)
    (hd : e.declared raw = true) (hz : ¬ (zeroRefused e = true ∧ raw = 0)) :
    e.unmarshalJSON cur (e.marshalJSON raw) = .ok raw := by
  rw [unmarshal_cur_irrelevant]
  have h1 := List.all_eq_true.mp enums_json_table e he
  have h2 := List.all_eq_true.mp h1 raw (declared_mem e raw hd)
  simp only [Bool.or_eq_true, Bool.and_eq_true, beq_iff_eq] at h2
  rcases h2 with ⟨hz1, hz2⟩ | h2
  · exact absurd ⟨hz1, hz2⟩ hz
  · split at h2
    · rename_i v hv; rw [hv]; simp at h2; rw [h2]
    · simp at h2

example : sdpType ∈ allEnums ∧ sdpType.declared 4 = true ∧ ¬ (zeroRefused sdpType = true ∧ (4 : Int) = 0) :=
  ⟨by simp [allEnums], by decide, by decide⟩
example : bundlePolicy.unmarshalJSON 2 (bundlePolicy.marshalJSON 0) = .ok 0 := by decide

private theorem enums_text_table :
    allEnums.all (fun e => e.codec != .text || (natsBelow e.count).all (fun raw =>
      (zeroRefused e && raw == 0) ||
        (match e.unmarshalText (e.marshalText raw) with | .ok v => v == raw | .error _ => false))) = true := by
  decide

/-- **Enums, text.** `UnmarshalText ∘ MarshalText` is the identity on the declared constants of the five
    types that define the pair (same exclusion). -/
theorem C38_enum_text_roundtrip_partial (e : Enum) (he : e ∈ allEnums) (ht : e.codec = .text) (raw : Int)
    (hd : e.declared raw = true) (hz : ¬ (zeroRefused e = true ∧ raw = 0)) :
    e.unmarshalText (e.marshalText raw) = .ok raw := by
  have h1 := List.all_eq_true.mp enums_text_table e he
  simp only [ht, bne_self_eq_false, Bool.false_or] at h1
  have h2 := List.all_eq_true.mp h1 raw (declared_mem e raw hd)
  simp only [Bool.or_eq_true, Bool.and_eq_true, beq_iff_eq] at h2
  rcases h2 with ⟨hz1, hz2⟩ | h2
  · exact absurd ⟨hz1, hz2⟩ hz
  · split at h2
    · rename_i v hv; rw [hv]; simp at h2; rw [h2]
    · simp at h2

example : iceRole ∈ allEnums ∧ iceRole.codec = .text ∧ iceRole.declared 0 = true :=
  ⟨by simp [allEnums], rfl, by decide⟩

private theorem enums_string_table :
    allEnums.all (fun e => !e.hasNew || e.strTab.all (fun p => e.new (e.string p.1) == (p.1, false))) = true := by
  decide

/-- **Enums, String()/constructor.** For every enum with a string constructor, every value that has a
    `String()` case is rebuilt by the constructor from that string, without error. -/
theorem C38_enum_string_new_roundtrip (e : Enum) (he : e ∈ allEnums) (hn : e.hasNew = true)
    (raw : Int) (s : Str) (hs : (raw, s) ∈ e.strTab) : e.new (e.string raw) = (raw, false) := by
  have h1 := List.all_eq_true.mp enums_string_table e he
  simp only [hn, Bool.not_true, Bool.false_or] at h1
  have h2 := List.all_eq_true.mp h1 (raw, s) hs
  simpa using h2

example : ((3 : Int), lit "answer") ∈ sdpType.strTab := by decide

private theorem enums_distinct_table :
    allEnums.all (fun e => (natsBelow e.count).all (fun a => (natsBelow e.count).all (fun b =>
      a == b || e.string a != e.string b))) = true := by
  decide

/-- `String()` is injective on the declared constants (no two constants share a spelling, and only the
    zero value of a type is spelled "unknown"). -/
theorem C38_enum_strings_distinct (e : Enum) (he : e ∈ allEnums) (a b : Int)
    (ha : e.declared a = true) (hb : e.declared b = true) (hs : e.string a = e.string b) : a = b := by
  have h1 := List.all_eq_true.mp enums_distinct_table e he
  have h2 := List.all_eq_true.mp (List.all_eq_true.mp h1 a (declared_mem e a ha)) b (declared_mem e b hb)
  simp only [Bool.or_eq_true, beq_iff_eq, bne_iff_ne, ne_eq] at h2
  rcases h2 with h2 | h2
  · exact h2
  · exact absurd hs h2

private theorem enums_keys_declared :
    allEnums.all (fun e => e.strTab.all (fun p => e.declared p.1)) = true := by decide

private theorem lookup_none_of_all {β} (l : List (Int × β)) (raw : Int) (h : ∀ p ∈ l, p.1 ≠ raw) :
    l.lookup raw = none := by
  induction l with
  | nil => rfl
  | cons p t ih =>
    obtain ⟨k, v⟩ := p
    have hk : (raw == k) = false := by
      have := h (k, v) (by simp)
      simp only [ne_eq] at this
      simpa using fun e => this e.symm
    simp only [List.lookup, hk]
    exact ih (fun p hp => h p (by simp [hp]))

/-- Raw values outside the declared range are all spelled "unknown" — they cannot be told apart by any
    string-based encoding, which is why the property is stated for the declared constants. -/
theorem C38_enum_undeclared_is_unknown (e : Enum) (he : e ∈ allEnums) (raw : Int)
    (hd : e.declared raw = false) : e.string raw = unknownStr := by
  have h1 := List.all_eq_true.mp (List.all_eq_true.mp enums_keys_declared e he)
  unfold Enum.string
  rw [lookup_none_of_all]
  · rfl
  · intro p hp heq
    have := h1 p hp
    rw [heq, hd] at this
    exact absurd this (by decide)

example : sdpType.declared 9 = false := by decide

/-- `SDPType.UnmarshalJSON` is case-insensitive (it lower-cases first) and agrees with `NewSDPType`
    on every string that `NewSDPType` recognises. -/
theorem C38_sdptype_unmarshal_agrees_with_new (s : Str) (v : Int) (h : (s, v) ∈ sdpType.newTab) :
    sdpType.unmarshalJSON 0 (.str s) = .ok v ∧ sdpType.unmarshalJSON 0 (.str (s.map Char.toUpper)) = .ok v := by
  have : (s, v) ∈ [(lit "offer", (1 : Int)), (lit "pranswer", 2), (lit "answer", 3), (lit "rollback", 4)] := h
  simp only [List.mem_cons, Prod.mk.injEq, List.not_mem_nil, or_false] at this
  rcases this with ⟨rfl, rfl⟩ | ⟨rfl, rfl⟩ | ⟨rfl, rfl⟩ | ⟨rfl, rfl⟩ <;> decide

/-! ## SessionDescription -/

def C38_SessionDescription_Full : Prop :=
  ∀ d : SessionDescription, sdpType.declared d.type = true → SessionDescription.unmarshal d.marshal = .ok d

/-- The zero `SessionDescription{}` is written as `{"type":"unknown","sdp":""}` and refused. -/
theorem C38_sessiondescription_counterexample : ¬ C38_SessionDescription_Full := by
  intro h
  have := h ⟨0, []⟩ (by decide)
  exact absurd this (by decide)

/-- **SessionDescription.** Any description whose type is one of offer/pranswer/answer/rollback, with any
    SDP text whatsoever (empty, quotes, NUL, …), decodes from its JSON encoding to itself. -/
theorem C38_sessiondescription_roundtrip_partial (d : SessionDescription)
    (ht : sdpType.declared d.type = true) (hz : d.type ≠ 0) :
    SessionDescription.unmarshal d.marshal = .ok d := by
  obtain ⟨t, s⟩ := d
  have hjson := C38_enum_json_roundtrip_partial sdpType (by simp [allEnums]) t 0 ht (by simp; exact fun _ => hz)
  simp only [SessionDescription.marshal, SessionDescription.unmarshal, field, J.get, List.lookup]
  have k1 : ("type".toList == "type".toList) = true := by decide
  have k2 : ("sdp".toList == "type".toList) = false := by decide
  have k3 : ("sdp".toList == "sdp".toList) = true := by decide
  simp only [k1, k2, k3, hjson, decStr]
  rfl

example : sdpType.declared (⟨2, "v=0\r\n".toList⟩ : SessionDescription).type = true := by decide

/-! ## ICECandidateInit -/

/-- **ICECandidateInit.** Every value (nil or set pointers, any strings, any uint16 index) round-trips. -/
theorem C38_candidateinit_roundtrip (c : ICECandidateInit) (hi : ∀ n, c.sdpMLineIndex = some n → n < 65536) :
    ICECandidateInit.unmarshal c.marshal = .ok c := by
  obtain ⟨cand, mid, idx, uf⟩ := c
  have k1 : ("candidate".toList == "candidate".toList) = true := by decide
  have k2 : ("sdpMid".toList == "candidate".toList) = false := by decide
  have k3 : ("sdpMid".toList == "sdpMid".toList) = true := by decide
  have k4 : ("sdpMLineIndex".toList == "candidate".toList) = false := by decide
  have k5 : ("sdpMLineIndex".toList == "sdpMid".toList) = false := by decide
  have k6 : ("sdpMLineIndex".toList == "sdpMLineIndex".toList) = true := by decide
  have k7 : ("usernameFragment".toList == "candidate".toList) = false := by decide
  have k8 : ("usernameFragment".toList == "sdpMid".toList) = false := by decide
  have k9 : ("usernameFragment".toList == "sdpMLineIndex".toList) = false := by decide
  have k10 : ("usernameFragment".toList == "usernameFragment".toList) = true := by decide
  have hm : decOptStr (optStrJ mid) = .ok mid := by cases mid <;> rfl
  have hu : decOptStr (optStrJ uf) = .ok uf := by cases uf <;> rfl
  cases idx with
  | none =>
    simp only [ICECandidateInit.marshal, ICECandidateInit.unmarshal, field, J.get, List.lookup,
      k1, k2, k3, k4, k5, k6, k7, k8, k9, k10, decStr, hm, hu, decOptU16]
    rfl
  | some n =>
    have hn := hi n rfl
    have hx : decOptU16 (J.int n) = .ok (some n) := by
      simp only [decOptU16]
      rw [if_pos (by omega)]
      simp
    simp only [ICECandidateInit.marshal, ICECandidateInit.unmarshal, field, J.get, List.lookup,
      k1, k2, k3, k4, k5, k6, k7, k8, k9, k10, decStr, hm, hu, hx]
    rfl

example : ∀ n, (⟨[], none, some 65535, some []⟩ : ICECandidateInit).sdpMLineIndex = some n → n < 65536 := by
  intro n h; cases h; decide

/-! ## ICEServer -/

/-- The credential is of the Go type that its credential type announces (this is also what
    `ICEServer.urls()` demands of a TURN server); no credential at all is fine under either type. -/
def _root_.WebrtcVerif.Json.Cred.agrees (ct : Int) : Cred → Prop
  | .none => True
  | .str _ => ct = 0
  | .oauth _ _ => ct = 1
  | .generic j => ct = 0 ∧ (match j with | .null => False | .str _ => False | _ => True)
  | .foreignInt _ => False

def _root_.WebrtcVerif.Json.ICEServer.wellTyped (s : ICEServer) : Prop :=
  (s.credentialType = 0 ∨ s.credentialType = 1) ∧ Cred.agrees s.credentialType s.credential

private theorem strs_map_str (l : List Str) : strs (.arr (l.map .str)) = some l := by
  simp only [strs]
  induction l with
  | nil => rfl
  | cons a t ih =>
    simp only [List.map_cons, List.mapM_cons, ih]
    rfl

private theorem urls_roundtrip (u : Option (List Str)) :
    unmarshalUrls (urlsJ u) = .ok u := by
  cases u with
  | none => rfl
  | some l => simp only [urlsJ, unmarshalUrls, strs_map_str]

private theorem kk :
    (kUrls == kUrls) = true ∧
    (kUrls == kUsername) = false ∧
    (kUrls == kCredential) = false ∧
    (kUrls == kCredentialType) = false ∧
    (kUsername == kUrls) = false ∧
    (kUsername == kUsername) = true ∧
    (kUsername == kCredential) = false ∧
    (kUsername == kCredentialType) = false ∧
    (kCredential == kUrls) = false ∧
    (kCredential == kUsername) = false ∧
    (kCredential == kCredential) = true ∧
    (kCredential == kCredentialType) = false ∧
    (kCredentialType == kUrls) = false ∧
    (kCredentialType == kUsername) = false ∧
    (kCredentialType == kCredential) = false ∧
    (kCredentialType == kCredentialType) = true ∧
    (kMACKey == kMACKey) = true ∧ (kAccessToken == kMACKey) = false ∧ (kAccessToken == kAccessToken) = true ∧ (kMACKey == kAccessToken) = false := by
  decide

/-- **ICEServer.** Every server whose credential agrees with its credential type — with a nil, an empty
    or a populated URL list, an empty or non-empty username, no credential, a password or an OAuth
    credential — decodes from `MarshalJSON`'s output to exactly itself (nil stays nil, empty stays empty). -/
theorem C38_iceserver_roundtrip (s : ICEServer) (h : s.wellTyped) :
    ICEServer.unmarshal s.marshal = .ok s := by
  obtain ⟨urls, user, cred, ct⟩ := s
  obtain ⟨hct, hc⟩ := h
  simp only at hct hc
  obtain ⟨e1, e2, e3, e4, e5, e6, e7, e8, e9, e10, e11, e12, e13, e14, e15, e16, e17, e18, e19, e20⟩ := kk
  have hu := urls_roundtrip urls
  have hct0 : iceCredentialType.marshalJSON 0 = .str (lit "password") := rfl
  have hct1 : iceCredentialType.marshalJSON 1 = .str (lit "oauth") := rfl
  have hn0 : iceCredentialType.new (lit "password") = (0, false) := by decide
  have hn1 : iceCredentialType.new (lit "oauth") = (1, false) := by decide
  rcases hct with rfl | rfl
  · -- password
    cases cred with
    | none =>
      by_cases hus : user = []
      · subst hus
        simp [ICEServer.marshal, ICEServer.unmarshal, unmarshalFields, Cred.isNone, List.lookup, e1, e2, e3, e4, e5, e6, e7, e8, e9, e10, e11, e12, e13, e14, e15, e16, e17, e18, e19, e20, hu, hct0, hn0] <;> rfl
      · simp [ICEServer.marshal, ICEServer.unmarshal, unmarshalFields, Cred.isNone, List.lookup, e1, e2, e3, e4, e5, e6, e7, e8, e9, e10, e11, e12, e13, e14, e15, e16, e17, e18, e19, e20, hu, hct0, hn0, hus] <;> rfl
    | str p =>
      by_cases hus : user = []
      · subst hus
        simp [ICEServer.marshal, ICEServer.unmarshal, unmarshalFields, Cred.isNone, Cred.toJ, Cred.ofAny,
          List.lookup, e1, e2, e3, e4, e5, e6, e7, e8, e9, e10, e11, e12, e13, e14, e15, e16, e17, e18, e19, e20, hu, hct0, hn0] <;> rfl
      · simp [ICEServer.marshal, ICEServer.unmarshal, unmarshalFields, Cred.isNone, Cred.toJ, Cred.ofAny,
          List.lookup, e1, e2, e3, e4, e5, e6, e7, e8, e9, e10, e11, e12, e13, e14, e15, e16, e17, e18, e19, e20, hu, hct0, hn0, hus] <;> rfl
    | oauth m t => simp [Cred.agrees] at hc
    | generic j =>
      obtain ⟨_, hj⟩ := hc
      have hof : Cred.ofAny j = .generic j := by
        cases j <;> simp_all [Cred.ofAny]
      by_cases hus : user = []
      · subst hus
        simp [ICEServer.marshal, ICEServer.unmarshal, unmarshalFields, Cred.isNone, Cred.toJ, hof,
          List.lookup, e1, e2, e3, e4, e5, e6, e7, e8, e9, e10, e11, e12, e13, e14, e15, e16, e17, e18, e19, e20, hu, hct0, hn0] <;> rfl
      · simp [ICEServer.marshal, ICEServer.unmarshal, unmarshalFields, Cred.isNone, Cred.toJ, hof,
          List.lookup, e1, e2, e3, e4, e5, e6, e7, e8, e9, e10, e11, e12, e13, e14, e15, e16, e17, e18, e19, e20, hu, hct0, hn0, hus] <;> rfl
    | foreignInt i => simp [Cred.agrees] at hc
  · -- oauth
    cases cred with
    | none =>
      by_cases hus : user = []
      · subst hus
        simp [ICEServer.marshal, ICEServer.unmarshal, unmarshalFields, Cred.isNone, List.lookup, e1, e2, e3, e4, e5, e6, e7, e8, e9, e10, e11, e12, e13, e14, e15, e16, e17, e18, e19, e20, hu, hct1, hn1] <;> rfl
      · simp [ICEServer.marshal, ICEServer.unmarshal, unmarshalFields, Cred.isNone, List.lookup, e1, e2, e3, e4, e5, e6, e7, e8, e9, e10, e11, e12, e13, e14, e15, e16, e17, e18, e19, e20, hu, hct1, hn1, hus] <;> rfl
    | str p => simp [Cred.agrees] at hc
    | oauth m t =>
      by_cases hus : user = []
      · subst hus
        simp [ICEServer.marshal, ICEServer.unmarshal, unmarshalFields, unmarshalOauth, Cred.isNone, Cred.toJ,
          List.lookup, e1, e2, e3, e4, e5, e6, e7, e8, e9, e10, e11, e12, e13, e14, e15, e16, e17, e18, e19, e20, hu, hct1, hn1] <;> rfl
      · simp [ICEServer.marshal, ICEServer.unmarshal, unmarshalFields, unmarshalOauth, Cred.isNone, Cred.toJ,
          List.lookup, e1, e2, e3, e4, e5, e6, e7, e8, e9, e10, e11, e12, e13, e14, e15, e16, e17, e18, e19, e20, hu, hct1, hn1, hus] <;> rfl
    | generic j => simp [Cred.agrees] at hc
    | foreignInt i => simp [Cred.agrees] at hc

/-- The case the property names explicitly: a nil URL list (in particular the zero value `ICEServer{}`)
    is written as `"urls":null` and read back as a nil list. -/
theorem C38_iceserver_nil_urls (user : Str) (cred : Cred) (ct : Int)
    (h : (⟨none, user, cred, ct⟩ : ICEServer).wellTyped) :
    ∃ s', ICEServer.unmarshal (⟨none, user, cred, ct⟩ : ICEServer).marshal = .ok s' ∧ s'.urls = none :=
  ⟨_, C38_iceserver_roundtrip _ h, rfl⟩

example : (⟨none, [], .none, 0⟩ : ICEServer).wellTyped := ⟨Or.inl rfl, trivial⟩
example : (⟨some ["turn:x".toList], "u".toList, .oauth "k".toList "t".toList, 1⟩ : ICEServer).wellTyped :=
  ⟨Or.inr rfl, rfl⟩

/-- nil and empty URL lists have different encodings (`null` vs `[]`) and are not confused by the decoder -/
theorem C38_iceserver_nil_vs_empty (user : Str) (cred : Cred) (ct : Int) :
    (⟨none, user, cred, ct⟩ : ICEServer).marshal.get kUrls = some .null ∧
    (⟨some [], user, cred, ct⟩ : ICEServer).marshal.get kUrls = some (.arr []) ∧
    unmarshalUrls .null = .ok none ∧ unmarshalUrls (.arr []) = .ok (some []) := by
  refine ⟨?_, ?_, rfl, rfl⟩ <;>
    simp [ICEServer.marshal, J.get, List.lookup, urlsJ]

/-- The hypothesis of `C38_iceserver_roundtrip` cannot be dropped: a credential that contradicts its
    credential type (here: a plain string announced as OAuth) is written but refused on the way back, and a
    Go value that is not of a shape JSON has (an `int`) comes back as a `float64`.  Such servers are also
    rejected by `ICEServer.urls()`; they are outside the theorem and left unconstrained by the judge. -/
theorem C38_iceserver_hypothesis_needed :
    ICEServer.unmarshal (⟨some [], [], .str (lit "x"), 1⟩ : ICEServer).marshal = .error () ∧
    (∃ s', ICEServer.unmarshal (⟨some [], [], .foreignInt 5, 0⟩ : ICEServer).marshal = .ok s' ∧
      (match s'.credential with | .generic (.int 5) => True | _ => False)) := by
  refine ⟨by rfl, ⟨_, by rfl, ?_⟩⟩
  trivial

/-! ## Stats -/

/-- `UnmarshalStatsJSON` sends each struct's own `Type` constant (and, for the four kind-dispatched
    families, its own `Kind`) to that struct: all 23 structs, 24 type constants. -/
theorem C38_stats_dispatch_own (s : StatsStruct) (t : Str) (ht : t ∈ s.ownTypes) (kind : Str)
    (hk : s.ownKind = none ∨ s.ownKind = some kind) : statsDispatch t kind = some s := by
  cases s <;> simp only [StatsStruct.ownTypes, List.mem_cons, List.not_mem_nil, or_false] at ht <;>
    simp only [StatsStruct.ownKind, reduceCtorEq, Option.some.injEq, false_or] at hk <;>
    (try subst hk) <;> rcases ht with rfl | rfl <;> first | rfl | decide

private theorem mem_of_lookup {β} (l : List (Str × β)) (k : Str) (v : β) (h : l.lookup k = some v) :
    (k, v) ∈ l := by
  induction l with
  | nil => simp [List.lookup] at h
  | cons p t ih =>
    obtain ⟨k', v'⟩ := p
    simp only [List.lookup] at h
    split at h
    · rename_i heq
      have hk : k = k' := by simpa using heq
      cases h; subst hk; simp
    · exact List.mem_cons_of_mem _ (ih h)

private theorem statsTab_sound :
    statsTypeTab.all (fun p => match p.2 with
      | .one s => decide (p.1 ∈ s.ownTypes) && decide (s.ownKind = none)
      | .byKind a v => decide (p.1 ∈ a.ownTypes) && decide (a.ownKind = some (lit "audio")) &&
                        decide (p.1 ∈ v.ownTypes) && decide (v.ownKind = some (lit "video"))) = true := by
  decide

/-- Conversely, nothing else is decoded into a struct: if a (type, kind) pair dispatches to `s`, the type
    is one of `s`'s own constants and the kind is `s`'s own kind. -/
theorem C38_stats_dispatch_sound (t kind : Str) (s : StatsStruct) (h : statsDispatch t kind = some s) :
    t ∈ s.ownTypes ∧ (s.ownKind = none ∨ s.ownKind = some kind) := by
  unfold statsDispatch at h
  split at h
  · simp at h
  · rename_i s' hl
    have := List.all_eq_true.mp statsTab_sound _ (mem_of_lookup _ _ _ hl)
    simp only [Bool.and_eq_true, decide_eq_true_eq] at this
    cases h
    exact ⟨this.1, Or.inl this.2⟩
  · rename_i a v hl
    have := List.all_eq_true.mp statsTab_sound _ (mem_of_lookup _ _ _ hl)
    simp only [Bool.and_eq_true, decide_eq_true_eq] at this
    obtain ⟨⟨⟨h1, h2⟩, h3⟩, h4⟩ := this
    unfold kindOf at h
    split at h
    · rename_i hk
      split at hk
      · rename_i hka; cases hk; cases h; exact ⟨h1, Or.inr (by rw [h2, hka])⟩
      · split at hk <;> simp at hk
    · rename_i hk
      split at hk
      · simp at hk
      · split at hk
        · rename_i hkv; cases h; exact ⟨h3, Or.inr (by rw [h4, hkv])⟩
        · simp at hk
    · simp at h

/-- well-formedness of the abstraction: one raw value per enum-typed field, each a declared constant;
    a struct without a `Kind` field has no kind -/
def _root_.WebrtcVerif.Json.StatsValue.wf (v : StatsValue) : Prop :=
  v.enums.length = v.struct.enumFields.length ∧ (v.struct.hasKind = false → v.kind = []) ∧
  ∀ p ∈ v.struct.enumFields.zip v.enums, p.1.2.declared p.2 = true

def C38_Stats_Full : Prop := ∀ v : StatsValue, v.wf → unmarshalStats v.marshal = .ok v

/-- The zero `CodecStats{}` (Type = "") is refused by `UnmarshalStatsJSON`. -/
theorem C38_stats_counterexample : ¬ C38_Stats_Full := by
  intro h
  have := h ⟨.codec, [], [], []⟩ ⟨rfl, fun _ => rfl, by simp [StatsStruct.enumFields]⟩
  exact absurd this (by decide)

/-- the value carries its own tags, and — for ICECandidateStats — a candidate type other than the
    undecodable zero value -/
def _root_.WebrtcVerif.Json.StatsValue.tagged (v : StatsValue) : Prop :=
  v.type ∈ v.struct.ownTypes ∧ (v.struct.ownKind = none ∨ v.struct.ownKind = some v.kind) ∧
  (v.struct = .iceCandidate → v.enums ≠ [0])

/-- the `case` of `UnmarshalStatsJSON` that a struct's own type constants select -/
def _root_.WebrtcVerif.Json.StatsStruct.target : StatsStruct → Target
  | .audioSource | .videoSource => .byKind .audioSource .videoSource
  | .senderAudioTrack | .senderVideoTrack => .byKind .senderAudioTrack .senderVideoTrack
  | .audioSender | .videoSender => .byKind .audioSender .videoSender
  | .audioReceiver | .videoReceiver => .byKind .audioReceiver .videoReceiver
  | s => .one s

private theorem lookup_own (s : StatsStruct) (t : Str) (ht : t ∈ s.ownTypes) :
    statsTypeTab.lookup t = some s.target := by
  cases s <;> simp only [StatsStruct.ownTypes, List.mem_cons, List.not_mem_nil, or_false] at ht <;>
    rcases ht with rfl | rfl <;> decide

private theorem field_type (kvs : List (Str × J)) (t : Str) :
    field (.obj (("type".toList, J.str t) :: kvs)) "type".toList [] (decStr []) = .ok t := by
  have : ("type".toList == "type".toList) = true := by decide
  simp [field, J.get, List.lookup, this, decStr]

/-- **Stats.** Every Stats value that carries its own `Type` (and `Kind`) and whose enum-typed fields hold
    declared constants (zero included, except ICECandidateType's) is decoded by `UnmarshalStatsJSON` into
    the same struct with the same tags and enum values. -/
theorem C38_stats_roundtrip_partial (v : StatsValue) (hw : v.wf) (ht : v.tagged) :
    unmarshalStats v.marshal = .ok v := by
  obtain ⟨s, type, kind, enums⟩ := v
  obtain ⟨hlen, hkind, hdecl⟩ := hw
  obtain ⟨htype, hk, hcand⟩ := ht
  simp only at hlen hkind hdecl htype hk hcand
  have hdisp := C38_stats_dispatch_own s type htype kind hk
  have ktk : ("kind".toList == "type".toList) = false := by decide
  have kkk : ("kind".toList == "kind".toList) = true := by decide
  have ktt : ("type".toList == "type".toList) = true := by decide
  -- enum fields: only three structs have any
  have key : ∀ (e : Enum), e ∈ allEnums → ∀ raw : Int, e.declared raw = true →
      ¬ (zeroRefused e = true ∧ raw = 0) → e.unmarshalJSON 0 (e.marshalJSON raw) = .ok raw :=
    fun e he raw hd hz => C38_enum_json_roundtrip_partial e he raw 0 hd hz
  have hl := lookup_own s type htype
  cases s <;> simp only [StatsStruct.target] at hl
  case dataChannel =>
    have hk0 : kind = [] := hkind rfl
    subst hk0
    match enums, hlen with
    | [a], _ =>
      have ha := key dataChannelState (by simp [allEnums]) a (hdecl (("state".toList, dataChannelState), a) (by simp [StatsStruct.enumFields]))
        (by simp [zeroRefused, dataChannelState])
      have k1 : ("state".toList == "type".toList) = false := by decide
      have k2 : ("state".toList == "state".toList) = true := by decide
      have k3 : ("kind".toList == "state".toList) = false := by decide
      simp [StatsValue.marshal, unmarshalStats, StatsStruct.hasKind, StatsStruct.enumFields, field, J.get,
        List.lookup, ktt, ktk, k1, k2, k3, decStr, hdisp, hl, Target.readsKind, decodeEnums, bind, Except.bind, pure, Except.pure, Functor.map, Except.map, ha, hkind]
  case transport =>
    have hk0 : kind = [] := hkind rfl
    subst hk0
    match enums, hlen with
    | [a, b, c], _ =>
      have ha := key iceRole (by simp [allEnums]) a (hdecl (("iceRole".toList, iceRole), a) (by simp [StatsStruct.enumFields]))
        (by simp [zeroRefused, iceRole])
      have hb := key dtlsTransportState (by simp [allEnums]) b (hdecl (("dtlsState".toList, dtlsTransportState), b) (by simp [StatsStruct.enumFields]))
        (by simp [zeroRefused, dtlsTransportState])
      have hc := key iceTransportState (by simp [allEnums]) c (hdecl (("iceState".toList, iceTransportState), c) (by simp [StatsStruct.enumFields]))
        (by simp [zeroRefused, iceTransportState])
      have k1 : ("iceRole".toList == "type".toList) = false := by decide
      have k2 : ("iceRole".toList == "iceRole".toList) = true := by decide
      have k3 : ("dtlsState".toList == "type".toList) = false := by decide
      have k4 : ("dtlsState".toList == "iceRole".toList) = false := by decide
      have k5 : ("dtlsState".toList == "dtlsState".toList) = true := by decide
      have k6 : ("iceState".toList == "type".toList) = false := by decide
      have k7 : ("iceState".toList == "iceRole".toList) = false := by decide
      have k8 : ("iceState".toList == "dtlsState".toList) = false := by decide
      have k9 : ("iceState".toList == "iceState".toList) = true := by decide
      have k10 : ("kind".toList == "iceRole".toList) = false := by decide
      have k11 : ("kind".toList == "dtlsState".toList) = false := by decide
      have k12 : ("kind".toList == "iceState".toList) = false := by decide
      simp [StatsValue.marshal, unmarshalStats, StatsStruct.hasKind, StatsStruct.enumFields, field, J.get,
        List.lookup, ktt, ktk, k1, k2, k3, k4, k5, k6, k7, k8, k9, k10, k11, k12, decStr, hdisp, hl, Target.readsKind, decodeEnums, bind, Except.bind, pure, Except.pure, Functor.map, Except.map,
        ha, hb, hc, hkind]
  case iceCandidate =>
    have hk0 : kind = [] := hkind rfl
    subst hk0
    match enums, hlen with
    | [a], _ =>
      have hne : a ≠ 0 := fun e => hcand rfl (by rw [e])
      have ha := key iceCandidateType (by simp [allEnums]) a (hdecl (("candidateType".toList, iceCandidateType), a) (by simp [StatsStruct.enumFields]))
        (by simp [hne])
      have k1 : ("candidateType".toList == "type".toList) = false := by decide
      have k2 : ("candidateType".toList == "candidateType".toList) = true := by decide
      have k3 : ("kind".toList == "candidateType".toList) = false := by decide
      simp [StatsValue.marshal, unmarshalStats, StatsStruct.hasKind, StatsStruct.enumFields, field, J.get,
        List.lookup, ktt, ktk, k1, k2, k3, decStr, hdisp, hl, Target.readsKind, decodeEnums, bind, Except.bind, pure, Except.pure, Functor.map, Except.map, ha, hkind]
  all_goals
    (have hen : enums = [] := by
       simpa [StatsStruct.enumFields] using hlen
     subst hen
     first
       | (have hkd := hkind rfl
          subst hkd
          simp [StatsValue.marshal, unmarshalStats, StatsStruct.hasKind, StatsStruct.enumFields, field, J.get,
            List.lookup, ktt, ktk, kkk, decStr, hdisp, hl, Target.readsKind, decodeEnums, bind, Except.bind, pure, Except.pure, Functor.map, Except.map])
       | simp [StatsValue.marshal, unmarshalStats, StatsStruct.hasKind, StatsStruct.enumFields, field, J.get,
            List.lookup, ktt, ktk, kkk, decStr, hdisp, hl, Target.readsKind, decodeEnums, bind, Except.bind, pure, Except.pure, Functor.map, Except.map])

example : (⟨.transport, lit "transport", [], [0, 3, 7]⟩ : StatsValue).wf ∧
    (⟨.transport, lit "transport", [], [0, 3, 7]⟩ : StatsValue).tagged := by
  refine ⟨⟨rfl, fun _ => rfl, ?_⟩, ⟨by decide, Or.inl rfl, by intro h; cases h⟩⟩
  intro p hp
  simp [StatsStruct.enumFields] at hp
  rcases hp with rfl | rfl | rfl <;> decide
example : (⟨.videoReceiver, lit "receiver", lit "video", []⟩ : StatsValue).tagged :=
  ⟨by decide, Or.inr rfl, by intro h; cases h⟩

/-! ## PEM -/

def _root_.WebrtcVerif.Json.KeyKind.supported : KeyKind → Bool
  | .rsa | .ecdsa | .ed25519 => true
  | _ => false

/-- **PEM.** A certificate with an RSA, ECDSA or Ed25519 key exports to `[CERTIFICATE, PRIVATE KEY]`;
    `CertificateFromPEM` of that is `Equals` to the original and wraps the same x509 certificate (hence the
    same fingerprint and the same `Expires()`, both functions of the x509 certificate). -/
theorem C38_pem_roundtrip (c : Certificate) (hk : c.key.kind.supported = true) :
    ∃ blocks c', c.pem = .ok blocks ∧ certificateFromPEM blocks = .ok c' ∧
      c.equals c' = true ∧ c'.equals c = true ∧ c'.cert = c.cert := by
  have hrefl : c.equals c = true := by
    obtain ⟨⟨kind, id⟩, cert⟩ := c
    cases kind <;> simp_all [Certificate.equals, KeyKind.supported]
  have hna : c.key.kind ≠ .absent := by
    intro h; rw [h] at hk; simp [KeyKind.supported] at hk
  exact ⟨[⟨.certificate, .certDer c.cert⟩, ⟨.privateKey, .keyPkcs8 c.key⟩], c,
    by simp [Certificate.pem, hna], by simp [certificateFromPEM, fromPEMLoop], hrefl, hrefl, rfl⟩

example : (⟨⟨.ed25519, 7⟩, 3⟩ : Certificate).key.kind.supported = true := rfl

/-- `Equals` is reflexive exactly for the three supported key types. -/
theorem C38_equals_refl_iff_supported (c : Certificate) : c.equals c = true ↔ c.key.kind.supported = true := by
  obtain ⟨⟨kind, id⟩, cert⟩ := c
  cases kind <;> simp [Certificate.equals, KeyKind.supported]

/-- `Equals` means: same key type, same key, same x509 certificate. -/
theorem C38_equals_iff (c o : Certificate) :
    c.equals o = true ↔ c.key.kind.supported = true ∧ c.key = o.key ∧ c.cert = o.cert := by
  obtain ⟨⟨k1, i1⟩, c1⟩ := c
  obtain ⟨⟨k2, i2⟩, c2⟩ := o
  cases k1 <;> cases k2 <;> simp [Certificate.equals, KeyKind.supported] <;> omega

def _root_.WebrtcVerif.Json.Block.isOther (b : Block) : Bool := b.type == .otherType

private theorem loop_skip_others (os rest : List Block) (cert : Option Nat) (key : Option Key)
    (ho : ∀ b ∈ os, b.isOther = true) : fromPEMLoop (os ++ rest) cert key = fromPEMLoop rest cert key := by
  induction os with
  | nil => rfl
  | cons b t ih =>
    have hb : b.type = .otherType := by
      have := ho b (by simp)
      simpa [Block.isOther] using this
    simp only [List.cons_append, fromPEMLoop, hb]
    exact ih (fun b' hb' => ho b' (by simp [hb']))

/-- The block loop does not depend on block order or on blocks of other types: one CERTIFICATE block
    (DER or base64-of-DER) and one PRIVATE KEY block, in either order, with any blocks of other types
    before, between and after, yield that certificate and key. -/
theorem C38_pem_order_and_foreign_blocks (pre mid post : List Block) (c : Nat) (k : Key) (b64 : Bool)
    (h1 : ∀ b ∈ pre, b.isOther = true) (h2 : ∀ b ∈ mid, b.isOther = true) (h3 : ∀ b ∈ post, b.isOther = true) :
    let cb : Block := ⟨.certificate, if b64 then .certB64 c else .certDer c⟩
    let kb : Block := ⟨.privateKey, .keyPkcs8 k⟩
    certificateFromPEM (pre ++ cb :: (mid ++ kb :: post)) = .ok ⟨k, c⟩ ∧
    certificateFromPEM (pre ++ kb :: (mid ++ cb :: post)) = .ok ⟨k, c⟩ := by
  have hpost : ∀ cert key, fromPEMLoop post cert key = .ok (cert, key) := by
    intro cert key
    have := loop_skip_others post [] cert key h3
    simpa [fromPEMLoop] using this
  cases b64 <;>
    simp [certificateFromPEM, loop_skip_others _ _ _ _ h1, loop_skip_others _ _ _ _ h2, fromPEMLoop, hpost]

/-- A second CERTIFICATE (PRIVATE KEY) block is refused whatever it contains. -/
theorem C38_pem_duplicates_rejected (rest : List Block) (c : Nat) (k : Key) (p : Payload) (key : Option Key)
    (cert : Option Nat) :
    fromPEMLoop (⟨.certificate, p⟩ :: rest) (some c) key = .error .multipleCert ∧
    fromPEMLoop (⟨.privateKey, p⟩ :: rest) cert (some k) = .error .multiplePriv := by
  simp [fromPEMLoop]

/-- Without a CERTIFICATE block, or without a PRIVATE KEY block, the result is never a certificate. -/
theorem C38_pem_missing (blocks : List Block)
    (h : (∀ b ∈ blocks, b.type ≠ .certificate) ∨ (∀ b ∈ blocks, b.type ≠ .privateKey)) :
    ∀ c, certificateFromPEM blocks ≠ .ok c := by
  have hc : ∀ (bs : List Block) cert key r, (∀ b ∈ bs, b.type ≠ .certificate) →
      fromPEMLoop bs cert key = .ok r → r.1 = cert := by
    intro bs
    induction bs with
    | nil => intro cert key r _ h; simp [fromPEMLoop] at h; rw [← h]
    | cons b t ih =>
      intro cert key r hb h
      have hbt := hb b (by simp)
      have ht : ∀ b' ∈ t, b'.type ≠ .certificate := fun b' hb' => hb b' (by simp [hb'])
      unfold fromPEMLoop at h
      split at h
      · exact absurd ‹b.type = .certificate› hbt
      · split at h
        · simp at h
        · split at h
          · exact ih _ _ _ ht h
          · simp at h
      · exact ih _ _ _ ht h
  have hk : ∀ (bs : List Block) cert key r, (∀ b ∈ bs, b.type ≠ .privateKey) →
      fromPEMLoop bs cert key = .ok r → r.2 = key := by
    intro bs
    induction bs with
    | nil => intro cert key r _ h; simp [fromPEMLoop] at h; rw [← h]
    | cons b t ih =>
      intro cert key r hb h
      have hbt := hb b (by simp)
      have ht : ∀ b' ∈ t, b'.type ≠ .privateKey := fun b' hb' => hb b' (by simp [hb'])
      unfold fromPEMLoop at h
      split at h
      · split at h
        · simp at h
        · split at h
          · exact ih _ _ _ ht h
          · exact ih _ _ _ ht h
          · simp at h
      · exact absurd ‹b.type = .privateKey› hbt
      · exact ih _ _ _ ht h
  intro c hok
  unfold certificateFromPEM at hok
  split at hok
  · simp at hok
  · rename_i c' k' hloop
    rcases h with h | h
    · have := hc _ _ _ _ h hloop; simp at this
    · have := hk _ _ _ _ h hloop; simp at this
  · simp at hok

/-- The loop invents nothing: the certificate it returns is the content of a CERTIFICATE block of the
    input (DER or base64 of DER) and the key is the content of a PRIVATE KEY block. -/
theorem C38_pem_result_comes_from_blocks (blocks : List Block) (c : Certificate)
    (h : certificateFromPEM blocks = .ok c) :
    (∃ b ∈ blocks, b.type = .certificate ∧ (b.payload = .certDer c.cert ∨ b.payload = .certB64 c.cert)) ∧
    (∃ b ∈ blocks, b.type = .privateKey ∧ b.payload = .keyPkcs8 c.key) := by
  have gen : ∀ (bs : List Block) (cert : Option Nat) (key : Option Key) (r : Option Nat × Option Key),
      fromPEMLoop bs cert key = .ok r →
      (r.1 = cert ∨ ∃ b ∈ bs, b.type = .certificate ∧ ∃ n, r.1 = some n ∧ (b.payload = .certDer n ∨ b.payload = .certB64 n)) ∧
      (r.2 = key ∨ ∃ b ∈ bs, b.type = .privateKey ∧ ∃ k, r.2 = some k ∧ b.payload = .keyPkcs8 k) := by
    intro bs
    induction bs with
    | nil => intro cert key r h; simp [fromPEMLoop] at h; subst h; exact ⟨Or.inl rfl, Or.inl rfl⟩
    | cons b t ih =>
      intro cert key r h
      have lift1 : ∀ {P : Block → Prop}, (∃ b' ∈ t, P b') → ∃ b' ∈ b :: t, P b' :=
        fun ⟨b', hb', hp⟩ => ⟨b', List.mem_cons_of_mem _ hb', hp⟩
      unfold fromPEMLoop at h
      split at h
      · rename_i hty
        split at h
        · simp at h
        · rename_i hnone
          have hcn : cert = none := by cases cert <;> simp_all
          split at h
          · rename_i n hp
            obtain ⟨h1, h2⟩ := ih _ _ _ h
            refine ⟨Or.inr ?_, h2.imp id lift1⟩
            rcases h1 with h1 | h1
            · exact ⟨b, by simp, hty, n, h1, Or.inl hp⟩
            · exact lift1 h1
          · rename_i n hp
            obtain ⟨h1, h2⟩ := ih _ _ _ h
            refine ⟨Or.inr ?_, h2.imp id lift1⟩
            rcases h1 with h1 | h1
            · exact ⟨b, by simp, hty, n, h1, Or.inr hp⟩
            · exact lift1 h1
          · simp at h
      · rename_i hty
        split at h
        · simp at h
        · split at h
          · rename_i k hp
            obtain ⟨h1, h2⟩ := ih _ _ _ h
            refine ⟨h1.imp id lift1, Or.inr ?_⟩
            rcases h2 with h2 | h2
            · exact ⟨b, by simp, hty, k, h2, hp⟩
            · exact lift1 h2
          · simp at h
      · obtain ⟨h1, h2⟩ := ih _ _ _ h
        exact ⟨h1.imp id lift1, h2.imp id lift1⟩
  unfold certificateFromPEM at h
  split at h
  · simp at h
  · rename_i c' k' hloop
    simp only [Except.ok.injEq] at h
    subst h
    obtain ⟨h1, h2⟩ := gen _ _ _ _ hloop
    constructor
    · rcases h1 with h1 | ⟨b, hb, hty, n, hn, hp⟩
      · simp at h1
      · simp only [Option.some.injEq] at hn; subst hn; exact ⟨b, hb, hty, hp⟩
    · rcases h2 with h2 | ⟨b, hb, hty, k, hk, hp⟩
      · simp at h2
      · simp only [Option.some.injEq] at hk; subst hk; exact ⟨b, hb, hty, hp⟩
  · simp at h

example : certificateFromPEM [⟨.privateKey, .keyPkcs8 ⟨.rsa, 1⟩⟩, ⟨.otherType, .junk⟩, ⟨.certificate, .certB64 9⟩]
    = .ok ⟨⟨.rsa, 1⟩, 9⟩ := by decide

example : ∀ b ∈ [(⟨.otherType, .junk⟩ : Block), ⟨.privateKey, .keyPkcs8 ⟨.rsa, 1⟩⟩], b.type ≠ .certificate := by
  decide

end WebrtcVerif.C38
