import WebrtcVerif.Model.Origin
import WebrtcVerif.Proofs.OriginLemmas
/-!
# C11 — SDP origin keeps a fixed session id and a strictly increasing version

"All descriptions that one PeerConnection generates carry the same o= session id. Each newly generated
description has a session version strictly greater than every earlier one, including when CreateOffer and
CreateAnswer are called concurrently."

The theorems are about the transition system of `Model/Origin.lean`: the two shared cells of
`pc.sdpOrigin` and ANY number of calls of `updateSDPOrigin`, each atomic instruction (CAS, store, load,
add) one step, under EVERY interleaving (`Reachable ps s`).  `pc.mu` is not assumed.

Hypotheses, stated once as `Hyp ps` on the origins `(id0, v0)` of the freshly generated descriptions:
`id0 ≠ 0`, `v0 ≠ 0` (pion/sdp draws a 63-bit random id and the Unix time) and `v0 + #calls < 2^64` (the
counter does not wrap: fewer than `2^64 − v0` calls).  The last section shows each of them is needed.

"Earlier" is real time: call `a` returned before call `b` was invoked.  The ghost clock `now` counts the
steps of the whole system; `startAt` / `doneAt` are its values at a call's invocation / return
(`C11_clock_ticks`, `C11_start_tick`, `C11_done_tick`), and `C11_returned_before_invoked` restates the
monotonicity clause without any clock.

`C11_history_with_rollback_strict` is the statement over whole negotiation histories on one PeerConnection:
CreateOffer / CreateAnswer interleaved with SetLocalDescription / SetRemoteDescription of every type
(rollback included) and text (older descriptions included), on the signaling model of `Model/Signaling.lean`.
-/
namespace WebrtcVerif.C11
open WebrtcVerif.Origin

/-- call `i` has returned; its description carries `o=- id ver …` -/
def Returned (s : St) (i : Nat) (c : Call) (id ver : UInt64) : Prop :=
  s.calls[i]? = some c ∧ c.pc = .done id ver

/-! ## all interleavings, any number of calls -/

/-- Same session id: any two calls that have returned carry the same id — the content of the shared
    `SessionID` cell. -/
theorem C11_same_session_id {ps : List (UInt64 × UInt64)} {s : St} (hy : Hyp ps) (h : Reachable ps s)
    {a b : Nat} {ca cb : Call} {ida va idb vb : UInt64}
    (ha : Returned s a ca ida va) (hb : Returned s b cb idb vb) : ida = idb ∧ ida = s.id ∧ ida ≠ 0 := by
  have hi := oinv_of_reachable hy h
  have h1 := hi.idEq a ca ida ha.1 (Or.inr ⟨va, ha.2⟩)
  have h2 := hi.idEq b cb idb hb.1 (Or.inr ⟨vb, hb.2⟩)
  exact ⟨by rw [h1.1, h2.1], h1.1, h1.2⟩

/-- … and that id is the one generated for the description of the call that won the compare-and-swap,
    which has itself returned with its own, unmodified origin `(id0, v0)`. -/
theorem C11_session_id_is_the_winners {ps : List (UInt64 × UInt64)} {s : St} (hy : Hyp ps) (h : Reachable ps s)
    {a : Nat} {ca : Call} {ida va : UInt64} (ha : Returned s a ca ida va) :
    ∃ (w : Nat) (cw : Call), Returned s w cw cw.id0 cw.v0 ∧ ida = cw.id0 := by
  have hi := oinv_of_reachable hy h
  have h1 := hi.idEq a ca ida ha.1 (Or.inr ⟨va, ha.2⟩)
  obtain ⟨w, cw, hw, hd, he⟩ := idSrc_of_reachable h (by rw [← h1.1]; exact h1.2)
  exact ⟨w, cw, ⟨hw, hd⟩, by rw [h1.1, he]⟩

/-- The compare-and-swap is won at most once, and while the winner has not yet stored its session id
    nobody returns (the losers wait in the load loop). -/
theorem C11_single_winner {ps : List (UInt64 × UInt64)} {s : St} (hy : Hyp ps) (h : Reachable ps s)
    {w : Nat} {cw : Call} (hw : s.calls[w]? = some cw) (hpc : cw.pc = .won) :
    (∀ (j : Nat) (cj : Call), s.calls[j]? = some cj → cj.pc = .won → j = w) ∧
    (∀ (j : Nat) (cj : Call) (id ver : UInt64), ¬ Returned s j cj id ver) := by
  have hi := oinv_of_reachable hy h
  refine ⟨fun j cj hj hjw => hi.wonUniq _ _ _ _ hj hw hjw hpc, ?_⟩
  intro j cj id ver ⟨hj, hd⟩
  have h1 := hi.idEq j cj id hj (Or.inr ⟨ver, hd⟩)
  rw [hi.wonId w cw hw hpc] at h1
  exact h1.2 h1.1

/-- Versions are pairwise distinct: no two descriptions carry the same session version. -/
theorem C11_versions_distinct {ps : List (UInt64 × UInt64)} {s : St} (hy : Hyp ps) (h : Reachable ps s)
    {a b : Nat} {ca cb : Call} {ida va idb vb : UInt64}
    (ha : Returned s a ca ida va) (hb : Returned s b cb idb vb) (hne : a ≠ b) : va ≠ vb := by
  have hi := oinv_of_reachable hy h
  intro e
  subst e
  exact hne (hi.heldInj a b ca cb va ha.1 hb.1 (by simp [Call.held, ha.2]) (by simp [Call.held, hb.2]))

/-- Real-time monotonicity: if call `a` returned before call `b` was invoked, `b`'s description has the
    strictly greater session version (as numbers — the counter has not wrapped). -/
theorem C11_realtime_monotone {ps : List (UInt64 × UInt64)} {s : St} (hy : Hyp ps) (h : Reachable ps s)
    {a b : Nat} {ca cb : Call} {ida va idb vb : UInt64}
    (ha : Returned s a ca ida va) (hb : Returned s b cb idb vb) (hlt : ca.doneAt < cb.startAt) :
    va.toNat < vb.toNat := by
  have hi := oinv_of_reachable hy h
  exact hi.rt a b ca cb ida va vb ha.1 hb.1 ha.2 (by simp [Call.held, hb.2]) hlt

/-- Every version handed out is at most the counter, and a returned call's interval is well formed. -/
theorem C11_version_le_counter {ps : List (UInt64 × UInt64)} {s : St} (hy : Hyp ps) (h : Reachable ps s)
    {a : Nat} {ca : Call} {ida va : UInt64} (ha : Returned s a ca ida va) :
    va.toNat ≤ s.ver.toNat ∧ ca.startAt < ca.doneAt ∧ ca.doneAt < s.now := by
  have hi := oinv_of_reachable hy h
  have h1 := hi.heldLe a ca va ha.1 (by simp [Call.held, ha.2])
  have h2 := hi.doneLt a ca ida va ha.1 ha.2
  exact ⟨h1.1, h2.1, h2.2⟩

/-! ## the ghost clock is what it says -/

/-- every step of the system advances the clock by one -/
theorem C11_clock_ticks {s s' : St} {i : Nat} (hs : step s i = some s') : s'.now = s.now + 1 := by
  obtain ⟨_, _, _, hn, _⟩ := step_cases hs
  exact hn

/-- the first step of a call is its invocation and stamps `startAt` with the current clock value -/
theorem C11_start_tick {s s' : St} {i : Nat} {c : Call} (hi : s.calls[i]? = some c) (hpc : c.pc = .idle)
    (hs : step s i = some s') :
    ∃ c', s'.calls[i]? = some c' ∧ c'.pc = .called ∧ c'.startAt = s.now := by
  rw [step_eq hi] at hs
  simp only [exec, hpc] at hs
  cases hs
  exact ⟨_, get_set_self hi, rfl, rfl⟩

/-- the step by which a call returns stamps `doneAt` with the current clock value -/
theorem C11_done_tick {s s' : St} {i : Nat} {c' : Call} {id ver : UInt64} (hs : step s i = some s')
    (hi' : s'.calls[i]? = some c') (hd : c'.pc = .done id ver) : c'.doneAt = s.now := by
  obtain ⟨c, hi, hnd, _, hc | ⟨c'', hc, _, _, _, _, hdone⟩⟩ := step_cases hs
  · rw [hc, hi] at hi'; cases hi'
    exact absurd hd (hnd id ver)
  · rw [hc, get_set_self hi] at hi'; cases hi'
    rcases hdone with h1 | h1
    · exact absurd hd (h1 id ver)
    · exact h1

/-- Real-time monotonicity without a clock: if `a` has returned in the state in which `b` is invoked,
    then in every continuation of that run in which `b` returns, `b`'s version is strictly greater. -/
theorem C11_returned_before_invoked {ps : List (UInt64 × UInt64)} {s s1 t : St} (hy : Hyp ps)
    (h : Reachable ps s) {a b : Nat} {ca cb cb' : Call} {ida va idb vb : UInt64}
    (ha : Returned s a ca ida va)
    (hb : s.calls[b]? = some cb) (hidle : cb.pc = .idle) (hinv : step s b = some s1)
    (hcont : ReachFrom s1 t) (hb' : Returned t b cb' idb vb) : va.toNat < vb.toNat := by
  have hi := oinv_of_reachable hy h
  have hdone := (hi.doneLt a ca ida va ha.1 ha.2).2
  obtain ⟨c1, h1, hc1, hst⟩ := C11_start_tick hb hidle hinv
  obtain ⟨c2, h2, hst2, _⟩ := started_stable_from hcont h1 (by rw [hc1]; simp)
  rw [hb'.1] at h2; cases h2
  have hat : t.calls[a]? = some ca := done_stable_from hcont (done_stable hinv ha.1 ha.2) ha.2
  have hr : Reachable ps t := reachable_trans (Reachable.step b h hinv) hcont
  exact C11_realtime_monotone hy hr ⟨hat, ha.2⟩ hb' (by rw [hst2, hst]; exact hdone)

/-! ## progress of the load loop -/

/-- Once the winner has stored its id (no call is between its CAS and its store), a call waiting in the
    load loop leaves it with its next load — and a winner's store is always enabled, so the loop cannot
    wait forever under a fair scheduler. -/
theorem C11_load_loop_exits {ps : List (UInt64 × UInt64)} {s : St} (hy : Hyp ps) (h : Reachable ps s)
    {i : Nat} {c : Call} (hi : s.calls[i]? = some c) (hpc : c.pc = .spin)
    (hnw : ∀ (j : Nat) (cj : Call), s.calls[j]? = some cj → cj.pc ≠ .won) :
    ∃ s' c', step s i = some s' ∧ s'.calls[i]? = some c' ∧ c'.pc = .loaded s.id ∧ s.id ≠ 0 := by
  have hinv := oinv_of_reachable hy h
  have hv : s.ver ≠ 0 := by
    intro hv
    rcases (hinv.zero hv).2 i c hi with h1 | h1 <;> rw [h1] at hpc <;> cases hpc
  have hid : s.id ≠ 0 := by
    rcases hinv.prog hv with ⟨j, cj, hj, hw⟩ | hid
    · exact absurd hw (hnw j cj hj)
    · exact hid
  refine ⟨⟨s.ver, s.id, s.now + 1, s.calls.set i { c with pc := .loaded s.id }⟩, { c with pc := .loaded s.id },
    ?_, get_set_self hi, rfl, hid⟩
  rw [step_eq hi]
  simp only [exec, hpc, hid, ↓reduceIte]

/-- No call is ever stuck: a call that has not returned can always take its next step. -/
theorem C11_never_disabled {s : St} {i : Nat} {c : Call} (hi : s.calls[i]? = some c)
    (hnd : ∀ id ver, c.pc ≠ .done id ver) : (step s i).isSome = true := by
  cases hs : step s i with
  | some _ => rfl
  | none =>
    rcases step_none_iff.mp hs with h1 | ⟨c1, r, v, h1, h2⟩
    · rw [hi] at h1; cases h1
    · rw [hi] at h1; cases h1; exact absurd h2 (hnd r v)

/-! ## sequential use: histories of CreateOffer / CreateAnswer, including CreateOffer's retry loop -/

/-- `updateSeq` (used by `runHistory`) is the transition system's call run without interference. -/
theorem C11_sequential_is_interference_free_run {s : St} {i : Nat} {c : Call} (hi : s.calls[i]? = some c)
    (hpc : c.pc = .idle) {cells' o : UInt64 × UInt64}
    (hu : updateSeq (s.ver, s.id) (c.id0, c.v0) = some (cells', o)) :
    ∃ n s', runSched s (List.replicate n i) = some s' ∧ (s'.ver, s'.id) = cells' ∧
      ∃ c', s'.calls[i]? = some c' ∧ c'.result = some o :=
  updateSeq_refines hi hpc hu

/-- Sequential corollary.  For every history of API calls on a new PeerConnection — each call generating
    any number of descriptions (`CreateAnswer`: one; `CreateOffer`: one per iteration of its retry loop, up
    to 128; none for a call that fails early) and handing out the last one or failing — no call hangs in
    the load loop, all descriptions handed out carry one session id, and their versions are strictly
    increasing in call order. -/
theorem C11_sequential_strict (hist : List Api) (hy : Hyp (allFresh hist)) :
    ∃ outs, runHistory (0, 0) hist = some outs ∧
      (∀ o ∈ outs, ∀ o' ∈ outs, o.1 = o'.1) ∧
      outs.Pairwise (fun a b => a.2.toNat < b.2.toNat) := by
  obtain ⟨outs, h1, h2, _, h4⟩ := runHistory_spec (allFresh hist).length hist (0, 0)
    (fun p hp => hy p hp) (Nat.le_refl _) (Or.inl rfl)
  exact ⟨outs, h1, h4, h2⟩

/-! ## histories with SetLocalDescription / SetRemoteDescription in between: rollback, re-application -/

/-- `setDescription` — every type, rollback included, accepted or rejected — does not touch the origin:
    the cells and the list of handed-out descriptions are the same before and after SetLocalDescription,
    SetRemoteDescription and Close (the code as it is: only CreateOffer / CreateAnswer call updateSDPOrigin). -/
theorem C11_setDescription_leaves_origin (s s' : PcSt) (a : PcAct) (h : pcStep s a = some s')
    (hna : a.fresh = [] ∧ ∀ ap, a ≠ .createOffer ap ∧ a ≠ .createAnswer ap) :
    s'.cells = s.cells ∧ s'.created = s.created := by
  cases a with
  | createOffer ap => exact absurd rfl (hna.2 ap).1
  | createAnswer ap => exact absurd rfl (hna.2 ap).2
  | setLocal d => simp only [pcStep] at h; cases h; exact ⟨rfl, rfl⟩
  | setRemote d => simp only [pcStep] at h; cases h; exact ⟨rfl, rfl⟩
  | close => simp only [pcStep] at h; cases h; exact ⟨rfl, rfl⟩

/-- Strict increase and fixed id over histories WITH rollback and re-application.  For every history on a
    new PeerConnection made of CreateOffer / CreateAnswer calls (each generating any number of descriptions,
    gated by the real guards: closed, no remote description, wrong signaling state) and, in between, any
    SetLocalDescription / SetRemoteDescription calls — any type (offer, pranswer, answer, ROLLBACK), any text
    (the last created description, an OLDER one, a foreign one), in any signaling state, accepted or rejected
    exactly as `checkNextSignalingState` / `setDescription` decide — and Close: no call hangs, every
    description handed out carries the same session id, and each one's version is strictly greater than the
    version of every description handed out before it, whatever was applied or rolled back in between. -/
theorem C11_history_with_rollback_strict (acts : List PcAct) (hy : Hyp (pcFresh acts)) :
    ∃ s, pcRun {} acts = some s ∧
      (∀ o ∈ s.created, ∀ o' ∈ s.created, o.1 = o'.1) ∧
      s.created.Pairwise (fun a b => a.2.toNat < b.2.toNat) := by
  obtain ⟨s, h1, h2, h3⟩ := pcRun_spec (pcFresh acts).length acts {} (fun p hp => hy p hp) (Nat.le_refl _)
    (Or.inl rfl) ⟨List.Pairwise.nil, fun o ho => by cases ho⟩
  refine ⟨s, h1, ?_, h2⟩
  intro o ho o' ho'
  rw [(h3 o ho).2.1, (h3 o' ho').2.1]

-- non-vacuity: the history of the seeded change C11-3 — offer, offer, SetLocalDescription(second offer),
-- SetLocalDescription(rollback) (accepted: have-local-offer → stable), offer, offer — and an attempt to apply
-- the OLDER offer 0 (rejected: not the last offer), a remote offer, an answer, a remote rollback (accepted:
-- have-remote-offer → stable), a local rollback in stable (rejected), an answer in stable (guard fails).
example : (pcRun {}
    [.createOffer ⟨[(7, 5)], true⟩, .createOffer ⟨[(8, 5)], true⟩,
     .setLocal { ty := .offer, txt := .made 0 0 },          -- older offer: rejected, stays stable
     .setLocal { ty := .offer, txt := .made 1 0 },          -- → have-local-offer
     .setLocal { ty := .rollback, txt := .empty },          -- → stable
     .createOffer ⟨[(9, 6)], true⟩, .createOffer ⟨[(10, 6), (11, 6)], true⟩,
     .setRemote { ty := .offer, txt := .garbage },          -- → have-remote-offer
     .createAnswer ⟨[(12, 7)], true⟩,
     .setRemote { ty := .rollback, txt := .empty },         -- → stable
     .setLocal { ty := .rollback, txt := .empty },          -- rejected in stable
     .createAnswer ⟨[(13, 7)], true⟩]).map (fun s => (s.neg.sig, s.created)) =
    some (.stable, [(7, 5), (7, 6), (7, 7), (7, 9), (7, 10)]) := by decide

example : ((pcRun {}
    [.createOffer ⟨[(7, 5)], true⟩, .setLocal { ty := .offer, txt := .made 0 0 }]).map (·.neg.sig),
   (pcRun {}
    [.createOffer ⟨[(7, 5)], true⟩, .setLocal { ty := .offer, txt := .made 0 0 },
     .setLocal { ty := .rollback, txt := .empty }]).map (·.neg.sig)) =
    (some .haveLocalOffer, some .stable) := by decide

/-! ## non-vacuity, and why each hypothesis is there -/

-- the hypotheses are satisfiable, and states with several returned calls are reachable: three calls, the
-- second wins the CAS, the first and third spin until the winner has stored, then add.
example : Hyp [(11, 1000), (22, 2000), (33, 3000)] := by decide

example : (runSched (init [(11, 1000), (22, 2000), (33, 3000)]) [1, 0, 1, 0, 2, 2, 0, 2, 1, 0, 2, 0, 2]).map
    (fun s => (s.ver, s.id, s.calls.map (·.result))) =
    some (2002, 22, [some (22, 2001), some (22, 2000), some (22, 2002)]) := by decide

-- a history with a retry loop: offer (1 description), offer with two retries (3 descriptions, the last is
-- returned), a failing call (0 descriptions), answer; versions 5, 8, 9.
example : runHistory (0, 0)
    [⟨[(7, 5)], true⟩, ⟨[(8, 6), (9, 6), (10, 6)], true⟩, ⟨[], false⟩, ⟨[(11, 7)], true⟩] =
    some [(7, 5), (7, 8), (7, 9)] := by decide

/-- A session version of 0 breaks the property: the CAS `0 → 0` leaves the cell unset, the next caller wins
    again and stores a different session id. -/
theorem C11_needs_nonzero_version :
    ∃ s, Reachable [(1, 0), (2, 7)] s ∧ ∃ ca cb, Returned s 0 ca 1 0 ∧ Returned s 1 cb 2 7 := by
  have hr : runSched (init [(1, 0), (2, 7)]) [0, 0, 0, 1, 1, 1] = some
      ⟨7, 2, 6, [⟨1, 0, .done 1 0, 0, 2⟩, ⟨2, 7, .done 2 7, 3, 5⟩]⟩ := by decide
  exact ⟨_, reachable_of_runSched Reachable.init hr, _, _, ⟨rfl, rfl⟩, ⟨rfl, rfl⟩⟩

/-- A wrapping counter breaks the property: after `2^64 − v0` calls the version returns to 0 — smaller than
    the earlier ones — and the next caller wins the CAS again with a new session id. -/
theorem C11_needs_no_wrap :
    ∃ s, Reachable [(1, 18446744073709551615), (2, 5), (3, 9)] s ∧
      ∃ ca cb cc, Returned s 0 ca 1 18446744073709551615 ∧ Returned s 1 cb 1 0 ∧ Returned s 2 cc 3 9 := by
  have hr : runSched (init [(1, 18446744073709551615), (2, 5), (3, 9)]) [0, 0, 0, 1, 1, 1, 1, 2, 2, 2] = some
      ⟨9, 3, 10, [⟨1, 18446744073709551615, .done 1 18446744073709551615, 0, 2⟩, ⟨2, 5, .done 1 0, 3, 6⟩,
        ⟨3, 9, .done 3 9, 7, 9⟩]⟩ := by decide
  exact ⟨_, reachable_of_runSched Reachable.init hr, _, _, _, ⟨rfl, rfl⟩, ⟨rfl, rfl⟩, ⟨rfl, rfl⟩⟩

/-- A session id of 0 makes every later call spin forever: its load keeps returning 0 and changes nothing
    but the clock. -/
theorem C11_needs_nonzero_id :
    ∃ s c, Reachable [(0, 5), (2, 7)] s ∧ s.calls[1]? = some c ∧ c.pc = .spin ∧ s.id = 0 ∧
      (∃ c0, Returned s 0 c0 0 5) ∧ step s 1 = some { s with now := s.now + 1 } := by
  have hr : runSched (init [(0, 5), (2, 7)]) [0, 0, 0, 1, 1] = some
      ⟨5, 0, 5, [⟨0, 5, .done 0 5, 0, 2⟩, ⟨2, 7, .spin, 3, 0⟩]⟩ := by decide
  exact ⟨_, _, reachable_of_runSched Reachable.init hr, rfl, rfl, rfl, ⟨_, rfl, rfl⟩, by decide⟩

end WebrtcVerif.C11
