import WebrtcVerif.Model.SampleTrack
/-!
# C28 — Sample-based tracks timestamp and sequence RTP without drift

"For any sequence of samples written to a TrackLocalStaticSample, every packet of a sample carries the
same RTP timestamp. Each sample's timestamp is the initial timestamp plus the floor of the total duration
of earlier samples times the clock rate (mod 2^32, within one tick of rounding). Sequence numbers increase
by one per packet, except that a sample reporting N previously dropped packets first skips N sequence
numbers and the corresponding duration."

The model of WriteSample is written over an abstract arithmetic (`Arith R`).  The first and the third
sentence are proved for **every** arithmetic, hence also for the binary64 replica `f64` of what the Go
code computes.  The second sentence is proved for `exact` (no rounding at all: the timestamp *is* the
floor, with no tolerance needed and no accumulation over any number of samples).  That the binary64
computation stays within the sentence's own tolerance — one tick, not accumulating — of the exact one is
checked on every generated history by the judge (Drv/C28), not proved.
-/
namespace WebrtcVerif.C28
open WebrtcVerif.SampleTrack

/-- the "corresponding duration": a sample accounts for its own duration and for that of the `N` packets
    it reports dropped (the code charges each at this sample's duration) -/
def Op.nanos : Op → Nat
  | .sample x => x.dur * x.dropped + x.dur
  | _ => 0

/-- sequence numbers an op consumes: skipped ones plus one per packet -/
def Op.seqs : Op → Nat
  | .sample x => x.dropped + x.n
  | .padding k => k
  | .rebind => 0

def nanosOf (ops : List Op) : Nat := (ops.map Op.nanos).sum
def seqsOf (ops : List Op) : Nat := (ops.map Op.seqs).sum

/-! ## sentence 1 — one timestamp per sample (any arithmetic) -/

theorem mem_packetize (seq ts n : Nat) (p : Pkt) (h : p ∈ packetize seq ts n) :
    ∃ j, j < n ∧ p.seq = (seq + j) % M16 ∧ p.ts = ts := by
  simp only [packetize, List.mem_map, List.mem_range] at h
  obtain ⟨j, hj, rfl⟩ := h
  exact ⟨j, hj, rfl, rfl⟩

/-- Every packet of a sample carries the same RTP timestamp. -/
theorem C28_same_timestamp {R : Type} (A : Arith R) (s : St R) (x : Sample) (p q : Pkt)
    (hp : p ∈ (writeSample A s x).2) (hq : q ∈ (writeSample A s x).2) : p.ts = q.ts := by
  simp only [writeSample] at hp hq
  obtain ⟨_, _, _, h1⟩ := mem_packetize _ _ _ _ hp
  obtain ⟨_, _, _, h2⟩ := mem_packetize _ _ _ _ hq
  rw [h1, h2]

/-! ## sentence 3 — sequence numbers (any arithmetic) -/

/-- The packets of one sample: the first takes the `N`-th sequence number after the next free one
    (the `N` before it are skipped), the others follow one by one (mod 2^16); exactly `n` packets. -/
theorem C28_sample_sequence {R : Type} (A : Arith R) (s : St R) (x : Sample) :
    (writeSample A s x).2.map (·.seq) = (List.range x.n).map (fun j => (s.seq + x.dropped + j) % M16) := by
  simp [writeSample, packetize, List.map_map, Function.comp_def]

/-- exactly as many packets as the payloader returned payloads -/
theorem C28_packet_count {R : Type} (A : Arith R) (s : St R) (x : Sample) :
    (writeSample A s x).2.length = x.n := by
  simp [writeSample, packetize]

theorem step_seq {R : Type} (A : Arith R) (s : St R) (o : Op) :
    (step A s o).1.seq = s.seq + Op.seqs o ∧ (step A s o).1.rate = s.rate := by
  cases o with
  | sample x => simp [step, writeSample, Op.seqs, Nat.add_assoc]
  | padding k => simp [step, generatePadding, Op.seqs]
  | rebind => simp [step, Op.seqs]

theorem run_seq {R : Type} (A : Arith R) (s : St R) (ops : List Op) :
    (run A s ops).1.seq = s.seq + seqsOf ops ∧ (run A s ops).1.rate = s.rate := by
  induction ops generalizing s with
  | nil => simp [run, seqsOf]
  | cons o os ih =>
    obtain ⟨h1, h2⟩ := step_seq A s o
    obtain ⟨i1, i2⟩ := ih (step A s o).1
    simp only [run, seqsOf, List.map_cons, List.sum_cons] at *
    exact ⟨by rw [i1, h1]; omega, by rw [i2, h2]⟩

theorem run_append {R : Type} (A : Arith R) (s : St R) (a b : List Op) :
    run A s (a ++ b) = ((run A (run A s a).1 b).1, (run A s a).2 ++ (run A (run A s a).1 b).2) := by
  induction a generalizing s with
  | nil => simp [run]
  | cons o os ih => simp [run, ih]

/-- Sequence numbers over a whole history: after any ops `pre` (samples with drops, padding bursts,
    re-binds), the packets of the next sample carry `seq0 + (everything consumed so far) + N + j`
    (mod 2^16) for `j = 0 … n-1`: one more per packet, `N` skipped first. -/
theorem C28_sequence {R : Type} (A : Arith R) (rate ts0 seq0 : Nat) (pre : List Op) (x : Sample) :
    (writeSample A (run A (init A rate ts0 seq0) pre).1 x).2.map (·.seq)
      = (List.range x.n).map (fun j => (seq0 + seqsOf pre + x.dropped + j) % M16) := by
  rw [C28_sample_sequence, (run_seq A _ pre).1]
  rfl

/-- …and the same for a padding burst: `k` consecutive numbers, none skipped. -/
theorem C28_padding_sequence {R : Type} (A : Arith R) (rate ts0 seq0 : Nat) (pre : List Op) (k : Nat) :
    (generatePadding (run A (init A rate ts0 seq0) pre).1 k).2.map (·.seq)
      = (List.range k).map (fun j => (seq0 + seqsOf pre + j) % M16) := by
  simp only [generatePadding, List.map_map, Function.comp_def, (run_seq A _ pre).1]
  rfl

/-- Consecutive packets of the whole stream differ by exactly one (mod 2^16) unless a drop count
    intervenes: the sequence number of the first packet of an op is the last issued one plus one plus `N`. -/
theorem C28_next_after {R : Type} (A : Arith R) (s : St R) (o : Op) (x : Sample) :
    (writeSample A (step A s o).1 x).2.map (·.seq)
      = (List.range x.n).map (fun j => (s.seq + Op.seqs o + x.dropped + j) % M16) := by
  rw [C28_sample_sequence, (step_seq A s o).1]

/-! ## sentence 2 — no drift (exact arithmetic) -/

/-- The invariant of `WriteSample` in exact arithmetic, for the total `T` (in units of 10⁻⁹ tick) of
    nominal time accounted for so far: the timestamp has advanced by `⌊T / 10⁹⌋` and the remainder is the
    fraction of a tick that this floor left over. -/
def TsInv (ts0 : Nat) (s : St Nat) (T : Nat) : Prop :=
  s.ts = (ts0 + T / G) % M32 ∧ s.rem = T % G

/-- one `splitTicks` keeps the invariant -/
theorem conv_keeps (ts0 ts rem T D : Nat) (h1 : ts = (ts0 + T / G) % M32) (h2 : rem = T % G) :
    (ts + ((D + rem) / G) % M32) % M32 = (ts0 + (T + D) / G) % M32 ∧ (D + rem) % G = (T + D) % G := by
  simp only [G, M32] at *
  omega

theorem writeSample_keeps (ts0 : Nat) (s : St Nat) (T : Nat) (x : Sample) (h : TsInv ts0 s T) :
    TsInv ts0 (writeSample exact s x).1 (T + (x.dur * x.dropped + x.dur) * s.rate) ∧
    ∀ p ∈ (writeSample exact s x).2, p.ts = (ts0 + (T + x.dur * x.dropped * s.rate) / G) % M32 := by
  obtain ⟨h1, h2⟩ := h
  have hT : T + (x.dur * x.dropped + x.dur) * s.rate = T + x.dur * s.rate * x.dropped + x.dur * s.rate := by
    rw [Nat.add_mul, Nat.mul_right_comm]; omega
  have hD : x.dur * x.dropped * s.rate = x.dur * s.rate * x.dropped := Nat.mul_right_comm _ _ _
  by_cases hd : x.dropped > 0
  · -- first split (dropped packets), then second (this sample)
    obtain ⟨a1, a2⟩ := conv_keeps ts0 s.ts s.rem T (x.dur * s.rate * x.dropped) h1 h2
    obtain ⟨b1, b2⟩ := conv_keeps ts0 _ _ (T + x.dur * s.rate * x.dropped) (x.dur * s.rate) a1.symm.symm a2
    refine ⟨?_, ?_⟩
    · rw [hT]
      simp only [writeSample, exact, hd, if_true, TsInv]
      exact ⟨b1, b2⟩
    · intro p hp
      simp only [writeSample, exact, hd, if_true] at hp
      obtain ⟨_, _, _, e⟩ := mem_packetize _ _ _ _ hp
      rw [e, hD]
      exact a1
  · have hd0 : x.dropped = 0 := by omega
    obtain ⟨b1, b2⟩ := conv_keeps ts0 s.ts s.rem T (x.dur * s.rate) h1 h2
    refine ⟨?_, ?_⟩
    · rw [hT]
      simp only [writeSample, exact, hd0, Nat.lt_irrefl, if_false, TsInv, Nat.mul_zero, Nat.add_zero]
      exact ⟨b1, b2⟩
    · intro p hp
      simp only [writeSample, exact, hd0, Nat.lt_irrefl, if_false] at hp
      obtain ⟨_, _, _, e⟩ := mem_packetize _ _ _ _ hp
      rw [e, h1, hd0]
      simp

theorem step_keeps (ts0 : Nat) (s : St Nat) (T : Nat) (o : Op) (h : TsInv ts0 s T) :
    TsInv ts0 (step exact s o).1 (T + Op.nanos o * s.rate) := by
  cases o with
  | sample x => exact (writeSample_keeps ts0 s T x h).1
  | padding k => simpa [step, generatePadding, Op.nanos, TsInv] using h
  | rebind => simpa [step, Op.nanos, TsInv] using h

theorem run_keeps (ts0 : Nat) (s : St Nat) (T : Nat) (ops : List Op) (h : TsInv ts0 s T) :
    TsInv ts0 (run exact s ops).1 (T + nanosOf ops * s.rate) := by
  induction ops generalizing s T with
  | nil => simpa [run, nanosOf] using h
  | cons o os ih =>
    have h1 := step_keeps ts0 s T o h
    have h2 := ih _ _ h1
    rw [(step_seq exact s o).2] at h2
    simp only [run, nanosOf, List.map_cons, List.sum_cons] at *
    rw [Nat.add_mul, ← Nat.add_assoc]
    exact h2

theorem init_inv (rate ts0 seq0 : Nat) : TsInv ts0 (init exact rate ts0 seq0) 0 := by
  simp [TsInv, init, exact, G]

/-- **No drift.**  After any history `pre`, every packet of the next sample carries
    `ts0 + ⌊(duration of everything before it, incl. the dropped packets it reports) · rate / 10⁹⌋ (mod 2^32)`
    — the floor of the exact product, for any number of samples, any durations (fractional ticks
    included), any drop counts.  Nothing accumulates: the formula refers to the total, not to the
    previous timestamp. -/
theorem C28_no_drift (rate ts0 seq0 : Nat) (pre : List Op) (x : Sample) (p : Pkt)
    (hp : p ∈ (writeSample exact (run exact (init exact rate ts0 seq0) pre).1 x).2) :
    p.ts = (ts0 + ((nanosOf pre + x.dur * x.dropped) * rate) / G) % M32 := by
  have hinv := run_keeps ts0 _ 0 pre (init_inv rate ts0 seq0)
  have hrate : (run exact (init exact rate ts0 seq0) pre).1.rate = rate := (run_seq exact _ pre).2
  have := (writeSample_keeps ts0 _ _ x hinv).2 p hp
  rw [this, hrate]
  simp only [init, Nat.zero_add, Nat.add_mul]

/-- The packetizer's timestamp after any history is `ts0 + ⌊total · rate / 10⁹⌋ (mod 2^32)`: this is also
    the timestamp of padding packets generated at that point. -/
theorem C28_timestamp_after (rate ts0 seq0 : Nat) (ops : List Op) :
    (run exact (init exact rate ts0 seq0) ops).1.ts = (ts0 + (nanosOf ops * rate) / G) % M32 := by
  have hinv := run_keeps ts0 _ 0 ops (init_inv rate ts0 seq0)
  rw [hinv.1]
  simp [init]

/-- The carried remainder is, at every point of every history, exactly the fraction of a tick that the
    floor left over (`total · rate mod 10⁹`, in units of 10⁻⁹ tick): below one tick, and a function of the
    total alone — there is nothing in the state that could accumulate an error. -/
theorem C28_remainder_is_fraction (rate ts0 seq0 : Nat) (ops : List Op) :
    (run exact (init exact rate ts0 seq0) ops).1.rem = (nanosOf ops * rate) % G ∧
    (run exact (init exact rate ts0 seq0) ops).1.rem < G := by
  have hinv := run_keeps ts0 _ 0 ops (init_inv rate ts0 seq0)
  refine ⟨by rw [hinv.2]; simp [init], ?_⟩
  rw [hinv.2]
  exact Nat.mod_lt _ (by decide)

/-! ## the initial values are parameters (any arithmetic)

A track created without `WithRTPSequenceNumber` / `WithRTPTimestamp` starts at values pion/rtp draws at
random.  Nothing above depends on them: `C28_sequence`, `C28_padding_sequence` and `C28_no_drift` hold for
every `seq0`, `ts0`.  The next theorems say the same from the observer's side: changing the initial values
shifts every packet by the same amounts and changes nothing else, so the values *relative to the first
packet* — what the harness reports and the judge evaluates — are those of the history started at 0. -/

def shiftPkt (ds dt : Nat) (p : Pkt) : Pkt := { p with seq := (p.seq + ds) % M16, ts := (p.ts + dt) % M32 }

/-- two states that differ only by the shift -/
def Shifted {R : Type} (ds dt : Nat) (s s' : St R) : Prop :=
  s'.rate = s.rate ∧ s'.seq = s.seq + ds ∧ s'.ts = (s.ts + dt) % M32 ∧ s'.rem = s.rem

theorem step_shift {R : Type} (A : Arith R) (ds dt : Nat) (s s' : St R) (o : Op) (h : Shifted ds dt s s') :
    Shifted ds dt (step A s o).1 (step A s' o).1 ∧ (step A s' o).2 = (step A s o).2.map (shiftPkt ds dt) := by
  obtain ⟨s'rate, s'seq, s'ts, s'rem⟩ := s'
  obtain ⟨h1, h2, h3, h4⟩ := h
  simp only at h1 h2 h3 h4
  subst h1 h2 h3 h4
  cases o with
  | sample x =>
    simp only [step, writeSample, packetize, Shifted, List.map_map, true_and]
    refine ⟨⟨by omega, ?_, ?_⟩, ?_⟩
    · split <;> simp only [M32] <;> omega
    · split <;> rfl
    · apply List.map_congr_left
      intro j _
      simp only [Function.comp, shiftPkt, Pkt.mk.injEq, and_true]
      refine ⟨by simp only [M16]; omega, ?_⟩
      split <;> simp only [M32] <;> omega
  | padding k =>
    simp only [step, generatePadding, Shifted, List.map_map, true_and, and_true]
    refine ⟨by omega, ?_⟩
    apply List.map_congr_left
    intro j _
    simp only [Function.comp, shiftPkt, Pkt.mk.injEq, and_true, M16, M32]
    omega
  | rebind => simp [step, Shifted]

theorem run_shift {R : Type} (A : Arith R) (ds dt : Nat) (s s' : St R) (ops : List Op) (h : Shifted ds dt s s') :
    (run A s' ops).2 = (run A s ops).2.map (List.map (shiftPkt ds dt)) := by
  induction ops generalizing s s' with
  | nil => simp [run]
  | cons o os ih =>
    obtain ⟨h1, h2⟩ := step_shift A ds dt s s' o h
    simp only [run, List.map_cons, h2, ih _ _ h1]

/-- **Initial values are parameters.**  For every arithmetic, every history and every initial sequence
    number and timestamp, the packets are those of the same history started at (0, 0), each shifted by
    `seq0` (mod 2^16) and `ts0` (mod 2^32). -/
theorem C28_initial_values_shift {R : Type} (A : Arith R) (rate ts0 seq0 : Nat) (ops : List Op) :
    (run A (init A rate ts0 seq0) ops).2
      = (run A (init A rate 0 0) ops).2.map (List.map (shiftPkt seq0 ts0)) := by
  apply run_shift
  simp [Shifted, init, M32]

/-- Every packet of every history, for arbitrary initial values: the sequence number is the initial one
    plus the packets so far plus everything skipped so far (`seqsOf pre`, the `N` of this sample, the
    position `j` inside it), mod 2^16 — stated for the packet list itself, not only for the numbers. -/
theorem C28_every_packet_sequence {R : Type} (A : Arith R) (rate ts0 seq0 : Nat) (pre : List Op) (x : Sample)
    (p : Pkt) (hp : p ∈ (writeSample A (run A (init A rate ts0 seq0) pre).1 x).2) :
    ∃ j, j < x.n ∧ p.seq = (seq0 + seqsOf pre + x.dropped + j) % M16 := by
  simp only [writeSample] at hp
  obtain ⟨j, hj, hs, _⟩ := mem_packetize _ _ _ _ hp
  refine ⟨j, hj, ?_⟩
  rw [hs, (run_seq A _ pre).1]
  rfl

/-! ## non-vacuity -/

-- 30 fps video at 90 kHz: 33 333 333 ns per frame is 2999.99997 ticks, so frames advance by 2999, 3000, 3000, … and
-- never by a rounded 3000 each (start 4294967000 wraps: +2999 = 2703).  A frame reporting 2 dropped packets skips
-- 2 sequence numbers and 2 frame times; padding packets take the current timestamp and consecutive numbers.
example :
    (run exact (init exact 90000 4294967000 65534)
      [.sample ⟨33333333, 0, 2⟩, .sample ⟨33333333, 0, 1⟩, .sample ⟨33333333, 2, 3⟩, .padding 2, .sample ⟨33333334, 0, 1⟩]).2
    = [[⟨65534, 4294967000, false, false⟩, ⟨65535, 4294967000, true, false⟩],
       [⟨0, 2703, true, false⟩],
       [⟨3, 11703, false, false⟩, ⟨4, 11703, false, false⟩, ⟨5, 11703, true, false⟩],
       [⟨6, 14703, false, true⟩, ⟨7, 14703, false, true⟩],
       [⟨8, 14703, true, false⟩]] := by decide
-- a single conversion beyond uint32 (1 s at 90 kHz × 65535 dropped packets): still exact mod 2^32
example : (run exact (init exact 90000 0 0) [.sample ⟨1000000000, 65535, 1⟩, .sample ⟨1000000000, 0, 1⟩]).2
    = [[⟨65535, (65535 * 90000) % 4294967296, true, false⟩], [⟨65536 % 65536, (65536 * 90000) % 4294967296, true, false⟩]] := by
  decide

-- the same history from two different starts: identical up to the shift (here across both wrap-arounds)
example :
    (run exact (init exact 48000 4294967000 65535) [.sample ⟨20000000, 0, 1⟩, .sample ⟨20000000, 3, 2⟩]).2
      = (run exact (init exact 48000 0 0) [.sample ⟨20000000, 0, 1⟩, .sample ⟨20000000, 3, 2⟩]).2.map
          (List.map (shiftPkt 65535 4294967000)) := by decide

end WebrtcVerif.C28
