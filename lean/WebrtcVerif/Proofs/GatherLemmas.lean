import WebrtcVerif.Model.Gather
/-!
  Inductive invariant of the candidate-reporting transition system (`Model/Gather.lean`) and the lemmas
  the C24 theorems are corollaries of.
-/
namespace WebrtcVerif.Gather

/-! ### list-level notions over the flushers -/

def heldFL (l : List FPc) : List Cand := (l.map heldF).flatten
def numEmitting (l : List FPc) : Nat := l.countP FPc.isEmitting
def numNilEmit (l : List FPc) : Nat := l.countP FPc.isNilEmit

@[simp] theorem heldFL_nil : heldFL [] = [] := rfl
theorem heldFL_cons (p : FPc) (l : List FPc) : heldFL (p :: l) = heldF p ++ heldFL l := by
  simp [heldFL]

theorem countP_set {α} (q : α → Bool) {l : List α} {i : Nat} {x : α} (y : α) (h : l[i]? = some x) :
    (l.set i y).countP q + (if q x = true then 1 else 0) = l.countP q + (if q y = true then 1 else 0) := by
  induction l generalizing i with
  | nil => simp at h
  | cons p l ih =>
    cases i with
    | zero =>
      simp at h
      subst h
      simp only [List.set_cons_zero, List.countP_cons]
      omega
    | succ i =>
      simp at h
      have := ih h
      simp only [List.set_cons_succ, List.countP_cons]
      omega

theorem count_heldFL_set {l : List FPc} {i : Nat} {p : FPc} (q : FPc) (c : Cand) (h : l[i]? = some p) :
    (heldFL (l.set i q)).count c + (heldF p).count c = (heldFL l).count c + (heldF q).count c := by
  induction l generalizing i with
  | nil => simp at h
  | cons p' l ih =>
    cases i with
    | zero =>
      simp at h
      subst h
      simp only [List.set_cons_zero, heldFL_cons, List.count_append]
      omega
    | succ i =>
      simp at h
      have := ih h
      simp only [List.set_cons_succ, heldFL_cons, List.count_append]
      omega

theorem heldF_of_not_emitting {p : FPc} (h : p.isEmitting = false) : heldF p = [] := by
  cases p <;> simp_all [FPc.isEmitting, heldF]

theorem heldFL_eq_nil_of_numEmitting_zero {l : List FPc} (h : numEmitting l = 0) : heldFL l = [] := by
  induction l with
  | nil => rfl
  | cons p l ih =>
    unfold numEmitting at h
    rw [List.countP_cons] at h
    have hp : p.isEmitting = false := by
      cases hpe : p.isEmitting with
      | false => rfl
      | true => simp [hpe] at h
    have hl : numEmitting l = 0 := by unfold numEmitting; omega
    rw [heldFL_cons, heldF_of_not_emitting hp, ih hl]; rfl

theorem exists_of_countP_pos {α} {q : α → Bool} {l : List α} (h : 0 < l.countP q) :
    ∃ (i : Nat) (x : α), l[i]? = some x ∧ q x = true := by
  induction l with
  | nil => simp at h
  | cons p l ih =>
    by_cases hp : q p = true
    · exact ⟨0, p, by simp, hp⟩
    · rw [List.countP_cons] at h
      have h' : 0 < l.countP q := by
        have : (if q p = true then 1 else 0) = 0 := by simp [hp]
        omega
      obtain ⟨i, x, hi, hx⟩ := ih h'
      exact ⟨i + 1, x, by simpa using hi, hx⟩

theorem countP_eq_zero_of_all {α} {q r : α → Bool} {l : List α} (h : l.all r = true)
    (hqr : ∀ x, r x = true → q x = false) : l.countP q = 0 := by
  induction l with
  | nil => rfl
  | cons p l ih =>
    simp only [List.all_cons, Bool.and_eq_true] at h
    rw [List.countP_cons, ih h.2]
    simp [hqr p h.1]

theorem all_atRest_set {l : List FPc} (i : Nat) (q : FPc) (h : (l.set i q).all FPc.atRest = true) (hq : q.atRest = false)
    : l.length ≤ i := by
  rcases Nat.lt_or_ge i l.length with hlt | hge
  · have hmem : q ∈ l.set i q := List.mem_set hlt q
    have := (List.all_eq_true.mp h) q hmem
    rw [hq] at this; cases this
  · exact hge

theorem getElem?_set_self' {α} {l : List α} {w : Nat} {x : α} (y : α) (hw : l[w]? = some x) :
    (l.set w y)[w]? = some y := by
  have hlt : w < l.length := by
    rcases Nat.lt_or_ge w l.length with h | h
    · exact h
    · rw [List.getElem?_eq_none h] at hw; cases hw
  simp [hlt]

theorem mem_of_getElem?' {α} {l : List α} {i : Nat} {x : α} (h : l[i]? = some x) : x ∈ l :=
  List.mem_of_getElem? h

theorem mem_set_cases {α} {l : List α} {i : Nat} {y z : α} (h : z ∈ l.set i y) : z = y ∨ z ∈ l := by
  rcases List.mem_or_eq_of_mem_set h with h | h
  · right; exact h
  · left; exact h

theorem heldFL_set_eq_nil {l : List FPc} (i : Nat) {q : FPc} (hl : heldFL l = []) (hq : heldF q = []) :
    heldFL (l.set i q) = [] := by
  induction l generalizing i with
  | nil => simp
  | cons p l ih =>
    rw [heldFL_cons, List.append_eq_nil_iff] at hl
    cases i with
    | zero => simp only [List.set_cons_zero, heldFL_cons, hq, hl.2]; rfl
    | succ i => simp only [List.set_cons_succ, heldFL_cons, hl.1, ih i hl.2]; rfl

theorem not_mem_of_count_eq_zero {α} [BEq α] [LawfulBEq α] {a : α} {l : List α} (h : l.count a = 0) : a ∉ l :=
  List.count_eq_zero.mp h

/-! ### the invariant -/

structure Inv (s : St) : Prop where
  /-- `flushesInFlight` counts the flushes between their two critical sections -/
  inflight : s.inFlight = numEmitting s.flushers
  /-- nothing is ever pooled while the pool size is 0 -/
  poolEmpty : s.poolSize = 0 → s.pool.getD [] = []
  /-- the pool slice is non-nil only until the first flush -/
  poolIdle : s.pool.isSome = true → ∀ p ∈ s.flushers, p = FPc.idle
  nodup : s.gathered.Nodup
  /-- every delivered candidate is in exactly one place: reported, pooled, in the agent's hands, or in a
      flusher's hands -/
  counts : ∀ c : Cand, s.gathered.count c
      = s.emitted.count (some c) + (s.pool.getD []).count c + (heldA s.agent).count c + (heldFL s.flushers).count c
  /-- the end-of-gathering marker is a single token: claimed ⇔ reported or about to be -/
  tokens : s.emitted.count none + (if s.agent = .nilEmit then 1 else 0) + numNilEmit s.flushers
      = (if s.signaled = true then 1 else 0)
  complete : s.gstate = .complete ↔ s.agent.pastNil = true
  /-- once the marker is claimed no candidate is left anywhere -/
  afterClaim : s.signaled = true → s.agent.pastNil = true ∧ s.pool.getD [] = [] ∧ heldFL s.flushers = []
  nilLast : ∀ x ∈ s.emitted.dropLast, x ≠ none
  /-- the marker is never forgotten: if the agent is through and nobody claimed it, a flush will -/
  pending : s.agent = .done → s.signaled = false → poolActive s = true ∨ s.inFlight > 0
  /-- while candidates are pooled nothing is reported -/
  pooled : poolActive s = true → s.emitted = [] ∧ s.agent ≠ .nilEmit ∧ ∀ c, s.agent ≠ .direct c

theorem inv_init (ps nf : Nat) : Inv (init ps nf) := by
  have hidle : ∀ p ∈ List.replicate nf FPc.idle, p = FPc.idle := fun p hp => (List.mem_replicate.mp hp).2
  have hall : (List.replicate nf FPc.idle).all FPc.atRest = true := by
    rw [List.all_eq_true]; intro p hp; rw [hidle p hp]; rfl
  have hE : numEmitting (List.replicate nf FPc.idle) = 0 :=
    countP_eq_zero_of_all hall (by intro x hx; cases x <;> simp_all [FPc.atRest, FPc.isEmitting])
  have hN : numNilEmit (List.replicate nf FPc.idle) = 0 :=
    countP_eq_zero_of_all hall (by intro x hx; cases x <;> simp_all [FPc.atRest, FPc.isNilEmit])
  refine ⟨?_, ?_, ?_, ?_, ?_, ?_, ?_, ?_, ?_, ?_, ?_⟩
  · simp [init, hE]
  · intro _; rfl
  · intro _; exact hidle
  · simp [init]
  · intro c; simp [init, heldA, heldFL_eq_nil_of_numEmitting_zero hE]
  · simp [init, hN]
  · simp [init, APc.pastNil]
  · intro h; simp [init] at h
  · intro x hx; simp [init] at hx
  · intro h; simp [init] at h
  · intro _; simp [init]


/-! ### every action preserves the invariant -/

theorem inv_candBegin {s s' : St} {c : Cand} (h : Inv s) (hs : step s (.candBegin c) = some s') : Inv s' := by
  simp only [step] at hs
  split at hs
  · split at hs
    · cases hs
    · cases hs
      rename_i hag hnot
      obtain ⟨h1, h2, h3, h4, h5, h6, h7, h8, h9, h10, h11⟩ := h
      refine ⟨h1, h2, h3, ?_, ?_, ?_, ?_, ?_, h9, ?_, ?_⟩
      · simp only
        rw [List.nodup_append]
        refine ⟨h4, by simp, ?_⟩
        intro a ha b hb
        simp at hb
        subst hb
        intro hab; subst hab; exact hnot ha
      · intro c'
        have := h5 c'
        simp only [hag, heldA, List.count_append, List.count_nil] at this ⊢
        omega
      · simp only [hag] at h6
        simpa using h6
      · simp only [hag, APc.pastNil] at h7
        simpa [APc.pastNil] using h7
      · intro hsg
        have := (h8 hsg).1
        simp [hag, APc.pastNil] at this
      · intro hd; simp at hd
      · intro hp
        have := h11 hp
        simp only [hag] at this
        refine ⟨this.1, by simp, by simp⟩
  · cases hs

theorem count_none_zero_of_not_signaled {s : St} (h : Inv s) (hsg : s.signaled = false) :
    s.emitted.count none = 0 := by
  have := h.tokens
  simp only [hsg] at this
  simp at this
  omega

theorem no_none_of_not_signaled {s : St} (h : Inv s) (hsg : s.signaled = false) :
    ∀ x ∈ s.emitted, x ≠ none := by
  intro x hx hxn
  subst hxn
  exact not_mem_of_count_eq_zero (count_none_zero_of_not_signaled h hsg) hx

theorem not_signaled_of_not_pastNil {s : St} (h : Inv s) (hp : s.agent.pastNil = false) : s.signaled = false := by
  cases hsg : s.signaled with
  | false => rfl
  | true => have := (h.afterClaim hsg).1; rw [hp] at this; cases this

theorem inv_candTest {s s' : St} (h : Inv s) (hs : step s .candTest = some s') : Inv s' := by
  simp only [step] at hs
  split at hs
  · rename_i c hag
    have hnp : s.agent.pastNil = false := by rw [hag]; rfl
    have hsg := not_signaled_of_not_pastNil h hnp
    obtain ⟨h1, h2, h3, h4, h5, h6, h7, h8, h9, h10, h11⟩ := h
    split at hs
    · rename_i l hpool
      split at hs
      · rename_i hps
        cases hs
        refine ⟨h1, ?_, ?_, h4, ?_, ?_, ?_, ?_, h9, ?_, ?_⟩
        · intro h0; simp only at h0; omega
        · intro _; exact h3 (by rw [hpool]; rfl)
        · intro c'
          have := h5 c'
          simp only [hag, hpool, heldA, Option.getD_some, List.count_append, List.count_nil] at this ⊢
          omega
        · simp only [hag] at h6; simpa using h6
        · simp only [hag, APc.pastNil] at h7; simpa [APc.pastNil] using h7
        · intro hsg'; simp only at hsg'; rw [hsg] at hsg'; cases hsg'
        · intro hd; simp at hd
        · intro _
          have := h11 (by simp [poolActive, hpool, hps])
          exact ⟨this.1, by simp, by simp⟩
      · rename_i hps
        cases hs
        refine ⟨h1, h2, h3, h4, ?_, ?_, ?_, ?_, h9, ?_, ?_⟩
        · intro c'
          have := h5 c'
          simp only [hag, heldA] at this ⊢
          exact this
        · simp only [hag] at h6; simpa using h6
        · simp only [hag, APc.pastNil] at h7; simpa [APc.pastNil] using h7
        · intro hsg'; simp only at hsg'; rw [hsg] at hsg'; cases hsg'
        · intro hd; simp at hd
        · intro hp; simp [poolActive] at hp; omega
    · rename_i hpool
      cases hs
      refine ⟨h1, h2, h3, h4, ?_, ?_, ?_, ?_, h9, ?_, ?_⟩
      · intro c'
        have := h5 c'
        simp only [hag, heldA] at this ⊢
        exact this
      · simp only [hag] at h6; simpa using h6
      · simp only [hag, APc.pastNil] at h7; simpa [APc.pastNil] using h7
      · intro hsg'; simp only at hsg'; rw [hsg] at hsg'; cases hsg'
      · intro hd; simp at hd
      · intro hp; simp [poolActive, hpool] at hp
  · cases hs

theorem inv_candEmit {s s' : St} (h : Inv s) (hs : step s .candEmit = some s') : Inv s' := by
  simp only [step] at hs
  split at hs
  · rename_i c hag
    have hnp : s.agent.pastNil = false := by rw [hag]; rfl
    have hsg := not_signaled_of_not_pastNil h hnp
    have hnone := no_none_of_not_signaled h hsg
    obtain ⟨h1, h2, h3, h4, h5, h6, h7, h8, h9, h10, h11⟩ := h
    cases hs
    refine ⟨h1, h2, h3, h4, ?_, ?_, ?_, ?_, ?_, ?_, ?_⟩
    · intro c'
      have := h5 c'
      simp only [hag, heldA, List.count_append, List.count_nil] at this ⊢
      by_cases hc : c = c'
      · subst hc; simp at this ⊢; omega
      · have h1 : List.count (some c') [some c] = 0 := by
          simp [List.count_cons]; intro h; exact hc h
        have h2 : List.count c' [c] = 0 := by
          simp [List.count_cons]; intro h; exact hc h
        omega
    · simp only [hag] at h6
      simp only [List.count_append]
      simpa using h6
    · simp only [hag, APc.pastNil] at h7; simpa [APc.pastNil] using h7
    · intro hsg'; simp only at hsg'; rw [hsg] at hsg'; cases hsg'
    · simp only [List.dropLast_concat]; exact hnone
    · intro hd; simp at hd
    · intro hp
      exact absurd hag ((h11 hp).2.2 c)
  · cases hs

theorem pool_empty_of_inactive {s : St} (h : Inv s) (hp : poolActive s = false) : s.pool.getD [] = [] := by
  cases hpool : s.pool with
  | none => rfl
  | some l =>
    have : s.poolSize = 0 := by
      simp [poolActive, hpool] at hp; exact hp
    have := h.poolEmpty this
    rw [hpool] at this
    exact this

theorem inv_nilBegin {s s' : St} (h : Inv s) (hs : step s .nilBegin = some s') : Inv s' := by
  simp only [step] at hs
  split at hs
  · rename_i hag
    have hnp : s.agent.pastNil = false := by rw [hag]; rfl
    have hsg := not_signaled_of_not_pastNil h hnp
    obtain ⟨h1, h2, h3, h4, h5, h6, h7, h8, h9, h10, h11⟩ := h
    cases hs
    refine ⟨h1, h2, h3, h4, ?_, ?_, ?_, ?_, h9, ?_, ?_⟩
    · intro c'
      have := h5 c'
      simp only [hag, heldA] at this ⊢
      exact this
    · simp only [hag] at h6; simpa using h6
    · simp [APc.pastNil]
    · intro hsg'; simp only at hsg'; rw [hsg] at hsg'; cases hsg'
    · intro hd; simp at hd
    · intro hp
      have := h11 hp
      exact ⟨this.1, by simp, by simp⟩
  · cases hs

theorem inv_nilTest {s s' : St} (h : Inv s) (hs : step s .nilTest = some s') : Inv s' := by
  simp only [step] at hs
  split at hs
  · rename_i hag
    have hpe := pool_empty_of_inactive h
    obtain ⟨h1, h2, h3, h4, h5, h6, h7, h8, h9, h10, h11⟩ := h
    split at hs
    · rename_i hc
      cases hs
      refine ⟨h1, h2, h3, h4, ?_, ?_, ?_, ?_, h9, ?_, ?_⟩
      · intro c'
        have := h5 c'
        simp only [hag, heldA] at this ⊢
        exact this
      · simp only [hag] at h6; simpa using h6
      · simp only [hag, APc.pastNil] at h7; simpa [APc.pastNil] using h7
      · intro hsg'
        have := h8 hsg'
        exact ⟨rfl, this.2⟩
      · intro _ hsg'
        simp only at hsg'
        rcases hc with hc | hc | hc
        · left; exact hc
        · right; exact hc
        · rw [hsg'] at hc; cases hc
      · intro hp
        have := h11 hp
        exact ⟨this.1, by simp, by simp⟩
    · rename_i hc
      have hpa : poolActive s = false := by
        cases hpa : poolActive s with
        | false => rfl
        | true => exact absurd (Or.inl hpa) hc
      have hif : s.inFlight = 0 := by
        rcases Nat.eq_zero_or_pos s.inFlight with h0 | h0
        · exact h0
        · exact absurd (Or.inr (Or.inl h0)) hc
      have hsg : s.signaled = false := by
        cases hsg : s.signaled with
        | false => rfl
        | true => exact absurd (Or.inr (Or.inr hsg)) hc
      cases hs
      refine ⟨h1, h2, h3, h4, ?_, ?_, ?_, ?_, h9, ?_, ?_⟩
      · intro c'
        have := h5 c'
        simp only [hag, heldA] at this ⊢
        exact this
      · simp only [hag, hsg] at h6
        simp at h6 ⊢
        omega
      · simp only [hag, APc.pastNil] at h7; simpa [APc.pastNil] using h7
      · intro _
        refine ⟨rfl, hpe hpa, ?_⟩
        apply heldFL_eq_nil_of_numEmitting_zero
        rw [← h1]; exact hif
      · intro hd; simp at hd
      · intro hp
        have : poolActive s = true := hp
        rw [hpa] at this; cases this
  · cases hs

theorem inv_nilEmit {s s' : St} (h : Inv s) (hs : step s .nilEmit = some s') : Inv s' := by
  simp only [step] at hs
  split at hs
  · rename_i hag
    obtain ⟨h1, h2, h3, h4, h5, h6, h7, h8, h9, h10, h11⟩ := h
    have hcn : s.emitted.count none = 0 := by
      simp only [hag] at h6
      simp only [if_true] at h6
      split at h6 <;> omega
    cases hs
    refine ⟨h1, h2, h3, h4, ?_, ?_, ?_, ?_, ?_, ?_, ?_⟩
    · intro c'
      have := h5 c'
      simp only [hag, heldA, List.count_append] at this ⊢
      have : List.count (some c') [(none : Option Cand)] = 0 := by simp
      omega
    · simp only [hag] at h6
      simp only [List.count_append]
      simp at h6 ⊢
      omega
    · simp only [hag, APc.pastNil] at h7; simpa [APc.pastNil] using h7
    · intro hsg'
      have := h8 hsg'
      exact ⟨rfl, this.2⟩
    · simp only [List.dropLast_concat]
      intro x hx hxn
      subst hxn
      exact not_mem_of_count_eq_zero hcn hx
    · intro _ hsg'
      simp only at hsg'
      simp only [hag, hsg'] at h6
      simp at h6
    · intro hp
      exact absurd hag (h11 hp).2.1
  · cases hs

theorem pool_none_of_started {s : St} (h : Inv s) {f : Nat} {p : FPc} (hf : s.flushers[f]? = some p)
    (hp : p ≠ .idle) : s.pool = none := by
  cases hpool : s.pool with
  | none => rfl
  | some l =>
    have := h.poolIdle (by rw [hpool]; rfl) p (mem_of_getElem?' hf)
    exact absurd this hp

theorem poolActive_false_of_none {s : St} (h : s.pool = none) : poolActive s = false := by
  simp [poolActive, h]

theorem inv_flushBegin {s s' : St} {f : Nat} (h : Inv s) (hs : step s (.flushBegin f) = some s') : Inv s' := by
  simp only [step] at hs
  split at hs
  · rename_i hf
    obtain ⟨h1, h2, h3, h4, h5, h6, h7, h8, h9, h10, h11⟩ := h
    cases hs
    have hE := countP_set FPc.isEmitting (FPc.emitting (s.pool.getD [])) hf
    have hN := countP_set FPc.isNilEmit (FPc.emitting (s.pool.getD [])) hf
    simp only [FPc.isEmitting, FPc.isNilEmit] at hE hN
    refine ⟨?_, ?_, ?_, h4, ?_, ?_, h7, ?_, h9, ?_, ?_⟩
    · simp only [numEmitting] at h1 ⊢
      simp at hE
      omega
    · intro _; rfl
    · intro hp; simp at hp
    · intro c'
      have := h5 c'
      have hc := count_heldFL_set (FPc.emitting (s.pool.getD [])) c' hf
      simp only [heldF, List.count_nil] at hc
      simp only [Option.getD_none, List.count_nil]
      omega
    · simp only [numNilEmit] at h6 ⊢
      simp at hN
      omega
    · intro hsg
      have := h8 hsg
      refine ⟨this.1, rfl, ?_⟩
      apply heldFL_set_eq_nil f this.2.2
      simp only [heldF]; exact this.2.1
    · intro _ _; right; simp only; omega
    · intro hp; simp [poolActive] at hp
  · cases hs

theorem inv_flushEmit {s s' : St} {f : Nat} (h : Inv s) (hs : step s (.flushEmit f) = some s') : Inv s' := by
  simp only [step] at hs
  split at hs
  · rename_i c rest hf
    have hpn := pool_none_of_started h hf (by simp)
    have hsg : s.signaled = false := by
      cases hsg : s.signaled with
      | false => rfl
      | true =>
        have h0 := (h.afterClaim hsg).2.2
        have hc := count_heldFL_set (FPc.emitting rest) c hf
        rw [h0] at hc
        simp only [heldF, List.count_nil, List.count_cons_self] at hc
        have : (heldFL (s.flushers.set f (FPc.emitting rest))).count c + (rest.count c + 1) = rest.count c → False := by omega
        exact absurd hc (by omega)
    have hnone := no_none_of_not_signaled h hsg
    obtain ⟨h1, h2, h3, h4, h5, h6, h7, h8, h9, h10, h11⟩ := h
    cases hs
    have hE := countP_set FPc.isEmitting (FPc.emitting rest) hf
    have hN := countP_set FPc.isNilEmit (FPc.emitting rest) hf
    simp only [FPc.isEmitting, FPc.isNilEmit] at hE hN
    refine ⟨?_, h2, ?_, h4, ?_, ?_, h7, ?_, ?_, h10, ?_⟩
    · simp only [numEmitting] at h1 ⊢
      omega
    · intro hp; simp only [hpn] at hp; cases hp
    · intro c'
      have := h5 c'
      have hc := count_heldFL_set (FPc.emitting rest) c' hf
      simp only [heldF, List.count_append] at hc ⊢
      by_cases hcc : c = c'
      · subst hcc
        simp only [List.count_cons_self] at hc
        simp
        omega
      · have e1 : List.count (some c') [some c] = 0 := by
          rw [List.count_eq_zero]; simp; intro h; exact hcc h.symm
        have e2 : List.count c' (c :: rest) = List.count c' rest := by
          rw [List.count_cons]
          have : (c == c') = false := by simpa using hcc
          simp [this]
        omega
    · simp only [numNilEmit] at h6 ⊢
      simp only [List.count_append]
      simp at hN ⊢
      omega
    · intro hsg'; simp only at hsg'; rw [hsg] at hsg'; cases hsg'
    · simp only [List.dropLast_concat]; exact hnone
    · intro hp
      have := poolActive_false_of_none hpn
      simp only [poolActive] at hp this
      rw [this] at hp; cases hp
  · cases hs

theorem inv_flushEnd {s s' : St} {f : Nat} (h : Inv s) (hs : step s (.flushEnd f) = some s') : Inv s' := by
  simp only [step] at hs
  split at hs
  · rename_i hf
    have hpn := pool_none_of_started h hf (by simp)
    obtain ⟨h1, h2, h3, h4, h5, h6, h7, h8, h9, h10, h11⟩ := h
    split at hs
    · rename_i hc
      obtain ⟨hn0, hsg, hgs⟩ := hc
      cases hs
      have hE := countP_set FPc.isEmitting FPc.nilEmit hf
      have hN := countP_set FPc.isNilEmit FPc.nilEmit hf
      simp only [FPc.isEmitting, FPc.isNilEmit] at hE hN
      simp at hE hN
      have hEn : numEmitting (s.flushers.set f FPc.nilEmit) = s.inFlight - 1 := by
        simp only [numEmitting] at h1 ⊢
        omega
      refine ⟨hEn.symm, h2, ?_, h4, ?_, ?_, h7, ?_, h9, ?_, ?_⟩
      · intro hp; simp only [hpn] at hp; cases hp
      · intro c'
        have := h5 c'
        have hc := count_heldFL_set FPc.nilEmit c' hf
        simp only [heldF, List.count_nil] at hc
        dsimp only
        omega
      · have h6' : s.emitted.count none + (if s.agent = APc.nilEmit then 1 else 0) + numNilEmit s.flushers = 0 := by
          rw [h6, hsg]; rfl
        show s.emitted.count none + (if s.agent = APc.nilEmit then 1 else 0)
          + numNilEmit (s.flushers.set f FPc.nilEmit) = 1
        simp only [numNilEmit] at h6' ⊢
        omega
      · intro _
        refine ⟨h7.mp hgs, by rw [hpn]; rfl, ?_⟩
        apply heldFL_eq_nil_of_numEmitting_zero
        rw [hEn]; exact hn0
      · intro _ hsg'; simp at hsg'
      · intro hp
        have := poolActive_false_of_none hpn
        simp only [poolActive] at hp this
        rw [this] at hp; cases hp
    · rename_i hc
      cases hs
      have hE := countP_set FPc.isEmitting FPc.done hf
      have hN := countP_set FPc.isNilEmit FPc.done hf
      simp only [FPc.isEmitting, FPc.isNilEmit] at hE hN
      simp at hE hN
      have hEn : numEmitting (s.flushers.set f FPc.done) = s.inFlight - 1 := by
        simp only [numEmitting] at h1 ⊢
        omega
      refine ⟨hEn.symm, h2, ?_, h4, ?_, ?_, h7, ?_, h9, ?_, ?_⟩
      · intro hp; simp only [hpn] at hp; cases hp
      · intro c'
        have := h5 c'
        have hc := count_heldFL_set FPc.done c' hf
        simp only [heldF, List.count_nil] at hc
        dsimp only
        omega
      · simp only [numNilEmit] at h6 ⊢
        omega
      · intro hsg'
        have := h8 hsg'
        exact ⟨this.1, this.2.1, heldFL_set_eq_nil f this.2.2 rfl⟩
      · intro hd hsg'
        right
        simp only
        have hpast : s.agent.pastNil = true := by simp only at hd; rw [hd]; rfl
        have hgs := h7.mpr hpast
        rcases Nat.eq_zero_or_pos (s.inFlight - 1) with h0 | h0
        · exact absurd ⟨h0, hsg', hgs⟩ hc
        · exact h0
      · intro hp
        have := poolActive_false_of_none hpn
        simp only [poolActive] at hp this
        rw [this] at hp; cases hp
  · cases hs

theorem inv_flushNil {s s' : St} {f : Nat} (h : Inv s) (hs : step s (.flushNil f) = some s') : Inv s' := by
  simp only [step] at hs
  split at hs
  · rename_i hf
    have hpn := pool_none_of_started h hf (by simp)
    obtain ⟨h1, h2, h3, h4, h5, h6, h7, h8, h9, h10, h11⟩ := h
    have hE := countP_set FPc.isEmitting FPc.done hf
    have hN := countP_set FPc.isNilEmit FPc.done hf
    simp only [FPc.isEmitting, FPc.isNilEmit] at hE hN
    simp at hE hN
    have hcn : s.emitted.count none = 0 := by
      simp only [numNilEmit] at h6
      split at h6 <;> split at h6 <;> omega
    cases hs
    refine ⟨?_, h2, ?_, h4, ?_, ?_, h7, ?_, ?_, ?_, ?_⟩
    · simp only [numEmitting] at h1 ⊢
      omega
    · intro hp; simp only [hpn] at hp; cases hp
    · intro c'
      have := h5 c'
      have hc := count_heldFL_set FPc.done c' hf
      simp only [heldF, List.count_nil] at hc
      simp only [List.count_append]
      have : List.count (some c') [(none : Option Cand)] = 0 := by simp
      omega
    · simp only [numNilEmit] at h6 ⊢
      simp only [List.count_append]
      simp
      omega
    · intro hsg'
      have := h8 hsg'
      exact ⟨this.1, this.2.1, heldFL_set_eq_nil f this.2.2 rfl⟩
    · simp only [List.dropLast_concat]
      intro x hx hxn
      subst hxn
      exact not_mem_of_count_eq_zero hcn hx
    · intro _ hsg'
      simp only at hsg'
      rw [hsg'] at h6
      simp only [numNilEmit] at h6
      have : (if false = true then 1 else 0) = 0 := rfl
      omega
    · intro hp
      have := poolActive_false_of_none hpn
      simp only [poolActive] at hp this
      rw [this] at hp; cases hp
  · cases hs

theorem inv_regather {s s' : St} (h : Inv s) (hs : step s .regather = some s') : Inv s' := by
  simp only [step] at hs
  split at hs
  · rename_i hr
    simp only [atRest, Bool.and_eq_true, decide_eq_true_eq, Bool.not_eq_true'] at hr
    obtain ⟨⟨hag, hall⟩, hpa⟩ := hr
    have hpe := pool_empty_of_inactive h hpa
    have hE : numEmitting s.flushers = 0 :=
      countP_eq_zero_of_all hall (by intro x hx; cases x <;> simp_all [FPc.atRest, FPc.isEmitting])
    have hN : numNilEmit s.flushers = 0 :=
      countP_eq_zero_of_all hall (by intro x hx; cases x <;> simp_all [FPc.atRest, FPc.isNilEmit])
    obtain ⟨h1, h2, h3, h4, h5, h6, h7, h8, h9, h10, h11⟩ := h
    cases hs
    refine ⟨h1, h2, h3, ?_, ?_, ?_, ?_, ?_, ?_, ?_, ?_⟩
    · simp
    · intro c'
      simp only [hpe, heldA, heldFL_eq_nil_of_numEmitting_zero hE]
      simp
    · simp [hN]
    · simp [APc.pastNil]
    · intro hsg; simp at hsg
    · intro x hx; simp at hx
    · intro hd; simp at hd
    · intro hp
      have : poolActive s = true := hp
      rw [hpa] at this; cases this
  · cases hs

theorem inv_step {s s' : St} {a : Action} (h : Inv s) (hs : step s a = some s') : Inv s' := by
  cases a with
  | candBegin c => exact inv_candBegin h hs
  | candTest => exact inv_candTest h hs
  | candEmit => exact inv_candEmit h hs
  | nilBegin => exact inv_nilBegin h hs
  | nilTest => exact inv_nilTest h hs
  | nilEmit => exact inv_nilEmit h hs
  | flushBegin f => exact inv_flushBegin h hs
  | flushEmit f => exact inv_flushEmit h hs
  | flushEnd f => exact inv_flushEnd h hs
  | flushNil f => exact inv_flushNil h hs
  | regather => exact inv_regather h hs

theorem inv_of_reachable {ps nf : Nat} {s : St} (h : Reachable ps nf s) : Inv s := by
  induction h with
  | init => exact inv_init ps nf
  | step a _ hs ih => exact inv_step ih hs

theorem reachable_run {ps nf : Nat} {s s' : St} (h : Reachable ps nf s) (as : List Action)
    (hr : runActions s as = some s') : Reachable ps nf s' := by
  induction as generalizing s with
  | nil => simp [runActions] at hr; subst hr; exact h
  | cons a as ih =>
    simp only [runActions] at hr
    cases hst : step s a with
    | none => rw [hst] at hr; simp at hr
    | some s1 =>
      rw [hst] at hr
      exact ih (Reachable.step a h hst) hr

/-! ### consequences used by the C24 theorems -/

theorem Inv.count_le_one {s : St} (h : Inv s) (c : Cand) : s.gathered.count c ≤ 1 :=
  List.nodup_iff_count.mp h.nodup c

theorem Inv.signaled_of_nil {s : St} (h : Inv s) (hn : 0 < s.emitted.count none) : s.signaled = true := by
  cases hsg : s.signaled with
  | true => rfl
  | false =>
    have := count_none_zero_of_not_signaled h hsg
    omega

/-- when nothing is pooled or in anybody's hands, what was delivered is what was reported -/
theorem Inv.reported_of_settled {s : St} (h : Inv s) (ha : heldA s.agent = []) (hp : s.pool.getD [] = [])
    (hf : heldFL s.flushers = []) : ∀ c ∈ s.gathered, s.emitted.count (some c) = 1 := by
  intro c hc
  have h1 := h.counts c
  rw [ha, hp, hf] at h1
  simp only [List.count_nil, Nat.add_zero] at h1
  have h2 := h.count_le_one c
  have h3 : 0 < s.gathered.count c := List.count_pos_iff.mpr hc
  omega

end WebrtcVerif.Gather
