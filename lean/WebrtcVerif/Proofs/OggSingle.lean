import WebrtcVerif.Proofs.OggWriter
import WebrtcVerif.Proofs.OggOpus
/-!
  The single-track `OggWriter` (`New` / `NewWith`) refines `finalStream`.
-/
namespace WebrtcVerif.Ogg
open WebrtcVerif.Bytes WebrtcVerif.OggSpec

/-- an accepted packet with its duration -/
def pktOf (p : Bs) : Pkt := (p, (packetSamples p).getD 0)

theorem markLast_concat (pre : List Page) (p : Page) : markLast (pre ++ [p]) = pre ++ [markEos p] := by
  induction pre with
  | nil => rfl
  | cons a rest ih =>
    cases hr : rest ++ [p] with
    | nil => simp at hr
    | cons x xs =>
      rw [hr] at ih
      simp only [List.cons_append, hr, markLast, ih]

theorem bodyPages_snoc (serial : Nat) (head tags : Bs) (pkts : List Pkt) (q : Pkt) :
    bodyPages serial head tags (pkts ++ [q]) = bodyPages serial head tags pkts ++
      createPages q.1 0 (((endCur serial head tags pkts).g + q.2) % two64) serial (endCur serial head tags pkts).idx := by
  simp only [bodyPages, dataPages_append, dataPages, List.append_nil, List.append_assoc, endCur]

theorem endCur_snoc (serial : Nat) (head tags : Bs) (pkts : List Pkt) (q : Pkt) :
    endCur serial head tags (pkts ++ [q]) = (endCur serial head tags pkts).step serial q := by
  simp [endCur, Cur.run]

/-! ### size bounds: a file shorter than 27·2^32 bytes has fewer than 2^32 pages and 2^64−1 samples -/

theorem flat_length_ge27 (S : List Page) : 27 * S.length ≤ (flat S).length := by
  induction S with
  | nil => simp
  | cons p rest ih => rw [flat_cons, List.length_append, encode_length]; simp only [List.length_cons]; omega

theorem dataPages_length_ge (serial : Nat) (c : Cur) (pkts : List Pkt) : pkts.length ≤ (dataPages serial c pkts).length := by
  induction pkts generalizing c with
  | nil => simp
  | cons q qs ih =>
    have h1 : 0 < (createPages q.1 0 ((c.g + q.2) % two64) serial c.idx).length :=
      List.length_pos_iff.mpr (createPages_ne_nil _ _ _ _ _)
    have := ih (c.step serial q)
    simp only [dataPages, List.length_append, List.length_cons]; omega

theorem bodyPages_length_ge (serial : Nat) (head tags : Bs) (pkts : List Pkt) :
    pkts.length + 2 ≤ (bodyPages serial head tags pkts).length := by
  rw [bodyPages_length]
  have h1 : 0 < (headPages serial head).length := List.length_pos_iff.mpr (createPages_ne_nil _ _ _ _ _)
  have h2 : 0 < (tagsPages serial head tags).length := List.length_pos_iff.mpr (createPages_ne_nil _ _ _ _ _)
  have := dataPages_length_ge serial (startCur serial head tags) pkts
  omega

theorem pktOf_le (p : Bs) : (pktOf p).2 ≤ 5760 := by
  unfold pktOf
  cases p with
  | nil => simp [packetSamples]
  | cons toc rest =>
    simp only [packetSamples]
    split
    · simp
    · split <;> simp_all

theorem samplesSum_pktOf_le (ps : List Bs) : samplesSum (ps.map pktOf) ≤ 5760 * ps.length := by
  induction ps with
  | nil => simp [samplesSum]
  | cons p rest ih =>
    have := pktOf_le p
    simp only [samplesSum, List.map_cons, List.sum_cons, List.length_cons] at ih ⊢
    omega

theorem cumOf_pktOf (ps : List Bs) (k : Nat) : cumOf (ps.map pktOf) k = cumSamples ps (k - 2) := by
  simp [cumOf, cumSamples, samplesSum, List.map_take]
  rfl

section
variable (fd : Bool) (serial : Nat) (head tags : Bs) {acc : List Pkt}

/-- the open single-track writer after the accepted packets `acc` -/
structure SInv (w : OggWriter) (acc : List Pkt) : Prop where
  isOpen : w.streamOpen = true
  fdEq : w.hasFd = fd
  out : w.out = flat (bodyPages serial head tags acc)
  serialEq : w.track.serial = serial
  idx : w.track.pageIndex = (endCur serial head tags acc).idx
  gran : w.track.previousGranulePosition = (endCur serial head tags acc).g
  last : fd = true → w.track.lastPageWritten = true ∧
    (laceLoop maxOggPageSegments w.track.lastPayload.length).complete = true ∧
    ∃ pre, bodyPages serial head tags acc = pre ++ [lastPageOf w.track] ∧ w.track.lastPageOffset = (flat pre).length
  nolast : fd = false → w.track.lastPageWritten = false

/-- the closed single-track writer -/
structure SClosed (w : OggWriter) (acc : List Pkt) : Prop where
  isClosed : w.streamOpen = false
  noFd : w.hasFd = false
  out : ∃ S, w.out = flat S ∧ (bodyPages serial head tags acc).length ≤ S.length ∧
    ((bodyPages serial head tags acc).length < two32 → S = finalStream fd serial head tags acc)

variable {fd serial head tags}

theorem bodyPages_length_pos : 0 < (bodyPages serial head tags acc).length := by
  rw [bodyPages_length]
  have : (headPages serial head) ≠ [] := createPages_ne_nil _ _ _ _ _
  have : 0 < (headPages serial head).length := List.length_pos_iff.mpr this
  omega

theorem SInv.close {w : OggWriter} {acc : List Pkt} (h : SInv fd serial head tags w acc) :
    SClosed fd serial head tags w.close acc := by
  cases hfd : fd with
  | false =>
    have hf : w.hasFd = false := by rw [h.fdEq, hfd]
    refine ⟨?_, ?_, ?_⟩
    · simp [OggWriter.close, hf, h.isOpen]
    · simp [OggWriter.close, hf, h.isOpen]
    · have hout : w.close.out = (writeNilEndOfStreamPage w.out w.track).1 := by
        simp [OggWriter.close, hf, h.isOpen]
      have hcur : ({ idx := w.track.pageIndex, g := w.track.previousGranulePosition } : Cur) =
          endCur serial head tags acc := by rw [h.idx, h.gran]
      by_cases hz : w.track.pageIndex = 0
      · refine ⟨bodyPages serial head tags acc, ?_, Nat.le_refl _, ?_⟩
        · rw [hout]; simp [writeNilEndOfStreamPage, hz, h.out]
        · intro hlen
          have hidx := endCur_idx serial head tags acc
          rw [Nat.mod_eq_of_lt hlen] at hidx
          have hpos := bodyPages_length_pos (serial := serial) (head := head) (tags := tags) (acc := acc)
          rw [h.idx, hidx] at hz; omega
      · refine ⟨bodyPages serial head tags acc ++ [eosPage serial (endCur serial head tags acc)], ?_, by simp, ?_⟩
        · rw [hout, writeNilEos_spec _ _ hz, h.out, h.serialEq, hcur]
          simp [flat_append, flat_singleton]
        · intro _; simp [finalStream]
  | true =>
    have hf : w.hasFd = true := by rw [h.fdEq, hfd]
    obtain ⟨hw, hc, pre, hB, hoff⟩ := h.last hfd
    refine ⟨?_, ?_, ?_⟩
    · simp [OggWriter.close, hf]
    · simp [OggWriter.close, hf]
    · have hout : w.close.out = markTrackEndOfStream w.out w.track := by simp [OggWriter.close, hf]
      have hk : (bodyPages serial head tags acc)[pre.length]? = some (lastPageOf w.track) := by rw [hB]; simp
      refine ⟨markLast (bodyPages serial head tags acc), ?_, by rw [hB, markLast_concat]; simp, fun _ => by simp [finalStream]⟩
      rw [hout, h.out, markTrackEndOfStream_spec _ _ pre.length hw hk (by rw [hB]; simpa using hoff) hc]
      rw [hB, markLast_concat]
      congr 1
      simp

theorem SClosed.close {w : OggWriter} {acc : List Pkt} (h : SClosed fd serial head tags w acc) : w.close = w := by
  simp [OggWriter.close, h.noFd, h.isClosed]

theorem SClosed.write {w : OggWriter} {acc : List Pkt} (h : SClosed fd serial head tags w acc) (pkt : Option Bs) :
    (w.writeRTP pkt).1 = w ∧ (w.writeRTP pkt).2 ≠ .written := by
  simp [OggWriter.writeRTP, h.isClosed]

/-- the track as `writeOpusPayload` hands it to `writePage` -/
def bumped (t : Track) (n : Nat) : Track := { t with previousGranulePosition := (t.previousGranulePosition + n) % two64 }

/-- the writer after an accepted packet of `n` samples -/
def OggWriter.wrote (w : OggWriter) (payload : Bs) (n : Nat) : OggWriter :=
  { w with
    out := (writePage w.out w.hasFd (bumped w.track n) payload 0 ((w.track.previousGranulePosition + n) % two64)).1
    track := (writePage w.out w.hasFd (bumped w.track n) payload 0 ((w.track.previousGranulePosition + n) % two64)).2 }

/-- what one `WriteRTP` call does to an open writer -/
theorem SInv.write {w : OggWriter} {acc : List Pkt} (h : SInv fd serial head tags w acc) (pkt : Option Bs) :
    match (w.writeRTP pkt).2, pkt with
    | .written, some p => SInv fd serial head tags (w.writeRTP pkt).1 (acc ++ [pktOf p]) ∧ (packetSamples p).isSome
    | _, _ => (w.writeRTP pkt).1 = w ∧
        ∀ p, pkt = some p → p = [] ∨ packetSamples p = none := by
  cases pkt with
  | none => simp [OggWriter.writeRTP, h.isOpen]
  | some payload =>
    cases payload with
    | nil => simp [OggWriter.writeRTP, h.isOpen]
    | cons x xs =>
      have hs := sampleCount_spec (x :: xs)
      cases hps : packetSamples (x :: xs) with
      | none =>
        rw [hps] at hs
        simp [OggWriter.writeRTP, h.isOpen, writeOpusPayload, hs, hps]
      | some n =>
        rw [hps] at hs
        simp only at hs
        have hq : pktOf (x :: xs) = (x :: xs, n) := by simp [pktOf, hps]
        have hwr : w.writeRTP (some (x :: xs)) = (w.wrote (x :: xs) n, .written) := by
          simp [OggWriter.writeRTP, h.isOpen, writeOpusPayload, hs, OggWriter.wrote, bumped]
        rw [hwr]
        simp only [hps, Option.isSome_some, and_true, OggWriter.wrote]
        generalize ht0 : bumped w.track n = t0
        have ht0s : t0.serial = serial := by rw [← ht0]; exact h.serialEq
        have ht0i : t0.pageIndex = (endCur serial head tags acc).idx := by rw [← ht0]; exact h.idx
        have ht0l : t0.lastPageWritten = w.track.lastPageWritten := by rw [← ht0]; rfl
        have hg : (w.track.previousGranulePosition + n) % two64 = ((endCur serial head tags acc).g + n) % two64 := by
          rw [h.gran]
        simp only [hg]
        obtain ⟨c1, c2, c3⟩ := writePage_cfg w.out w.hasFd t0 (x :: xs) 0 (((endCur serial head tags acc).g + n) % two64)
        have ht0g : t0.previousGranulePosition = ((endCur serial head tags acc).g + n) % two64 := by
          rw [← ht0, ← hg]; rfl
        have hsnoc := bodyPages_snoc serial head tags acc (x :: xs, n)
        simp only at hsnoc
        refine ⟨h.isOpen, h.fdEq, ?_, ?_, ?_, ?_, ?_, ?_⟩
        · simp only [writePage_out, h.out, hq, hsnoc, flat_append, ht0s, ht0i]
        · simp only [c1.serial, ht0s]
        · simp only [c2, hq, endCur_snoc, Cur.step, ht0s, ht0i]
        · simp only [c3, hq, endCur_snoc, Cur.step, ht0g]
        · intro hfd
          have hf : w.hasFd = true := by rw [h.fdEq, hfd]
          rw [hf]
          obtain ⟨pre', p, he, l1, l2, l3, l4⟩ := writePage_last w.out t0 (x :: xs) 0
            (((endCur serial head tags acc).g + n) % two64)
          refine ⟨l1, l4, bodyPages serial head tags acc ++ pre', ?_, ?_⟩
          · rw [ht0s, ht0i] at he
            rw [hq, hsnoc, l3, he, List.append_assoc]
          · rw [l2, h.out, flat_append, List.length_append]
        · intro hfd
          have hf : w.hasFd = false := by rw [h.fdEq, hfd]
          rw [hf, writePage_nolast, ht0l]
          exact h.nolast hfd

/-- open or closed, after the accepted packets `acc` -/
def SState (fd : Bool) (serial : Nat) (head tags : Bs) (w : OggWriter) (acc : List Pkt) : Prop :=
  SInv fd serial head tags w acc ∨ SClosed fd serial head tags w acc

theorem SState.session (ops : List SOp) : ∀ (w : OggWriter) (acc : List Pkt), SState fd serial head tags w acc →
    SState fd serial head tags (w.session ops).1 (acc ++ (w.session ops).2.map pktOf) ∧
    ∀ p ∈ (w.session ops).2, (packetSamples p).isSome := by
  induction ops with
  | nil => intro w acc h; simpa [OggWriter.session] using h
  | cons op ops ih =>
    intro w acc h
    cases op with
    | close =>
      simp only [OggWriter.session]
      refine ih w.close acc ?_
      rcases h with h | h
      · exact Or.inr h.close
      · rw [h.close]; exact Or.inr h
    | write pkt =>
      simp only [OggWriter.session]
      rcases h with h | h
      · have hw := h.write pkt
        cases hst : (w.writeRTP pkt).2 with
        | written =>
          cases pkt with
          | none => simp [OggWriter.writeRTP, h.isOpen] at hst
          | some p =>
            rw [hst] at hw
            simp only at hw
            obtain ⟨i1, i2⟩ := ih _ _ (Or.inl hw.1)
            refine ⟨by simpa [List.append_assoc] using i1, ?_⟩
            intro q hq
            simp only [List.mem_cons] at hq
            rcases hq with rfl | hq
            · exact hw.2
            · exact i2 q hq
        | skipped =>
          rw [hst] at hw
          simp only at hw
          rw [hw.1]
          exact ih w acc (Or.inl h)
        | failed e =>
          rw [hst] at hw
          simp only at hw
          rw [hw.1]
          exact ih w acc (Or.inl h)
      · obtain ⟨e1, e2⟩ := h.write pkt
        rw [e1]
        have := ih w acc (Or.inr h)
        cases hst : (w.writeRTP pkt).2 with
        | written => exact absurd hst e2
        | skipped => simpa using this
        | failed e => simpa using this

theorem SState.final {w : OggWriter} {acc : List Pkt} (h : SState fd serial head tags w acc) :
    ∃ S, w.close.out = flat S ∧ (bodyPages serial head tags acc).length ≤ S.length ∧
      ((bodyPages serial head tags acc).length < two32 → S = finalStream fd serial head tags acc) := by
  rcases h with h | h
  · exact h.close.out
  · rw [h.close]; exact h.out

end

theorem validDefaultTags : validOpusTags defaultTags = true := by decide

/-- `New` / `NewWith` leave an open writer that has written the two header packets -/
theorem OggWriter.new_inv (fd : Bool) (rate ch serial : Nat) (w : OggWriter)
    (h : OggWriter.new fd rate ch serial = .ok w) :
    ∃ m, defaultChannelMapping ch = .ok m ∧
      SInv fd serial (buildIDHeader rate defaultPreSkip m) (buildCommentHeader defaultTags) w [] := by
  unfold OggWriter.new at h
  cases hm : defaultChannelMapping ch with
  | error e => rw [hm] at h; cases h
  | ok m =>
    rw [hm] at h
    simp only [validDefaultTags, Bool.not_true, Bool.false_eq_true, if_false] at h
    refine ⟨m, rfl, ?_⟩
    generalize ht : newTrackState rate m serial defaultTags = t at h
    have hts : t.serial = serial := by rw [← ht]; rfl
    have hti : t.pageIndex = 0 := by rw [← ht]; rfl
    have htr : t.sampleRate = rate ∧ t.preSkip = defaultPreSkip ∧ t.mapping = m ∧ t.tags = defaultTags ∧
        t.previousGranulePosition = 0 ∧ t.lastPageWritten = false := by rw [← ht]; exact ⟨rfl, rfl, rfl, rfl, rfl, rfl⟩
    obtain ⟨r1, r2, r3, r4, r5, r6⟩ := htr
    -- first header
    have e1 : writeTrackIDHeader [] fd t =
        writePage [] fd t (buildIDHeader rate defaultPreSkip m) pageHeaderTypeBeginningOfStream 0 := by
      simp [writeTrackIDHeader, r1, r2, r3]
    obtain ⟨a1, a2, a3⟩ := writePage_cfg [] fd t (buildIDHeader rate defaultPreSkip m) pageHeaderTypeBeginningOfStream 0
    generalize hw1 : writePage [] fd t (buildIDHeader rate defaultPreSkip m) pageHeaderTypeBeginningOfStream 0 = w1 at *
    have o1 : w1.1 = flat (headPages serial (buildIDHeader rate defaultPreSkip m)) := by
      rw [← hw1, writePage_out, hts, hti]; rfl
    have e2 : writeTrackCommentHeader w1.1 fd w1.2 = writePage w1.1 fd w1.2 (buildCommentHeader defaultTags) 0 0 := by
      simp [writeTrackCommentHeader, a1.tags, r4]
    obtain ⟨b1, b2, b3⟩ := writePage_cfg w1.1 fd w1.2 (buildCommentHeader defaultTags) 0 0
    have hidx1 : w1.2.pageIndex = (headPages serial (buildIDHeader rate defaultPreSkip m)).length % two32 := by
      rw [a2, hts, hti, Nat.zero_add]; rfl
    have hT : createPages (buildCommentHeader defaultTags) 0 0 w1.2.serial w1.2.pageIndex =
        tagsPages serial (buildIDHeader rate defaultPreSkip m) (buildCommentHeader defaultTags) := by
      rw [a1.serial, hts, hidx1]; rfl
    rw [e1] at h
    simp only [e2] at h
    injection h with h
    subst h
    refine ⟨rfl, rfl, ?_, ?_, ?_, ?_, ?_, ?_⟩
    · simp only [writePage_out, o1, hT, bodyPages, dataPages, List.append_nil, flat_append]
    · simp only [b1.serial, a1.serial, hts]
    · rw [b2, hT, hidx1]; rfl
    · simp only [b3, a3, r5, endCur, Cur.run, List.foldl_nil, startCur]
    · intro hfd
      subst hfd
      obtain ⟨pre', p, he, l1, l2, l3, l4⟩ := writePage_last w1.1 w1.2 (buildCommentHeader defaultTags) 0 0
      rw [hT] at he
      refine ⟨l1, l4, headPages serial (buildIDHeader rate defaultPreSkip m) ++ pre', ?_, ?_⟩
      · simp only [bodyPages, dataPages, List.append_nil, he, l3, List.append_assoc]
      · rw [l2, o1, flat_append, List.length_append]
    · intro hfd
      subst hfd
      rw [writePage_nolast, ← hw1, writePage_nolast, r6]

theorem OggWriter.final (fd : Bool) (rate ch serial : Nat) (w : OggWriter)
    (h : OggWriter.new fd rate ch serial = .ok w) (ops : List SOp) :
    ∃ m S, defaultChannelMapping ch = .ok m ∧
      (∀ p ∈ (w.session ops).2, (packetSamples p).isSome) ∧
      (w.session ops).1.close.out = flat S ∧
      (bodyPages serial (buildIDHeader rate defaultPreSkip m) (buildCommentHeader defaultTags)
          ((w.session ops).2.map pktOf)).length ≤ S.length ∧
      ((bodyPages serial (buildIDHeader rate defaultPreSkip m) (buildCommentHeader defaultTags)
          ((w.session ops).2.map pktOf)).length < two32 →
        S = finalStream fd serial (buildIDHeader rate defaultPreSkip m) (buildCommentHeader defaultTags)
            ((w.session ops).2.map pktOf)) := by
  obtain ⟨m, hm, hinv⟩ := OggWriter.new_inv fd rate ch serial w h
  obtain ⟨s1, s2⟩ := SState.session ops w [] (Or.inl hinv)
  simp only [List.nil_append] at s1
  obtain ⟨S, f1, f2, f3⟩ := s1.final
  exact ⟨m, S, hm, s2, f1, f2, f3⟩

end WebrtcVerif.Ogg
